// typedefs written in another namespace (and at another depth) than the template they instantiate, ahead of it in the
// file: the instantiation belongs to the namespace of the template, not to where the typedef stands (seeded change C08-m2)
namespace user {
typedef lib::inner::Box<double> BoxD;
}
typedef lib::inner::Box<int> BoxI;
namespace lib {
namespace inner {
template<T>
class Box {
  Box();
  T get() const;
};
}
}

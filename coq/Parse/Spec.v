(* The grammar the theorems are about: gtwrap.interface_parser's rules written down by hand (IDENT, PTR and DECLS
   factored out).  Props/*.v carry the obligation that the term regenerated from the live pyparsing objects
   (gen/Grammar.v) is this very term. *)
From Coq Require Import String List.
From Wrap Require Import Parse.Peg.
Import ListNotations.
Open Scope string_scope.

Definition alpha_ : string := "ABCDEFGHIJKLMNOPQRSTUVWXYZ_abcdefghijklmnopqrstuvwxyz".
Definition alnum_ : string := "0123456789ABCDEFGHIJKLMNOPQRSTUVWXYZ_abcdefghijklmnopqrstuvwxyz".
Definition digits : string := "0123456789".
Definition IDENT : gexpr := GOr [GTerm (TWord alpha_ alnum_); GTerm (TWord digits digits)].
Definition PTR : gexpr :=
  GOpt (GFirst [GFirst [GName "is_shared_ptr" (GTerm (TLit "*")); GName "is_ptr" (GTerm (TLit "@"))]; GName "is_ref" (GTerm (TLit "&"))]).
Definition DECLS : gexpr :=
  GStar (GOr [GOr [GOr [GOr [GOr [GOr [GOr [GRef "ForwardDeclaration"; GRef "Include"]; GRef "Class"];
                                  GRef "TypedefTemplateInstantiation"]; GRef "GlobalFunction"]; GRef "Enum"]; GRef "Variable"];
              GRef "Namespace"]).

Definition spec_grammar : grammar := [
  ("Typename", GAnd [IDENT; GStar (GAnd [GSup (GTerm (TLit "::")); IDENT])]);
  ("ForwardDeclaration", GAnd [GAnd [GAnd [GAnd [GOpt (GName "is_virtual" (GTerm (TKw "virtual"))); GTerm (TKw "class")]; GName "name" (GRef "Typename")]; GOpt (GAnd [GSup (GTerm (TLit ":")); GName "parent_type" (GRef "Typename")])]; GSup (GTerm (TLit ";"))]);
  ("Include", GAnd [GAnd [GAnd [GTerm (TKw "#include"); GSup (GTerm (TLit "<"))]; GName "header" (GTerm (TNotIn ">"))]; GSup (GTerm (TLit ">"))]);
  ("BasicType", GOr [GTerm (TKw "void"); GTerm (TKw "bool"); GTerm (TKw "unsigned char"); GTerm (TKw "char"); GTerm (TKw "int"); GTerm (TKw "size_t"); GTerm (TKw "double"); GTerm (TKw "float")]);
  ("CustomType", GAnd [IDENT; GStar (GAnd [GSup (GTerm (TLit "::")); IDENT])]);
  ("Type", GAnd [GAnd [GOpt (GName "is_const" (GTerm (TKw "const"))); GFirst [GName "basic" (GRef "BasicType"); GName "qualified" (GRef "CustomType")]]; PTR]);
  ("TemplatedType", GAnd [GAnd [GAnd [GOpt (GName "is_const" (GTerm (TKw "const"))); GName "typename" (GRef "Typename")]; GAnd [GAnd [GSup (GTerm (TLit "<")); GName "template_params" (GAnd [GOr [GRef "Type"; GRef "TemplatedType"]; GStar (GAnd [GSup (GTerm (TLit ",")); GOr [GRef "Type"; GRef "TemplatedType"]])])]; GSup (GTerm (TLit ">"))]]; PTR]);
  ("Template.TypenameAndInstantiations", GAnd [GName "typename" (IDENT); GOpt (GAnd [GAnd [GAnd [GSup (GTerm (TLit "=")); GSup (GTerm (TLit "{"))]; GName "instantiations" (GAnd [GOr [GRef "TemplatedType"; GName "namespaces_and_name" (GRef "Typename")]; GStar (GAnd [GSup (GTerm (TLit ",")); GOr [GRef "TemplatedType"; GName "namespaces_and_name" (GRef "Typename")]])])]; GSup (GTerm (TLit "}"))])]);
  ("Template", GAnd [GAnd [GAnd [GTerm (TKw "template"); GSup (GTerm (TLit "<"))]; GName "typename_and_instantiations_list" (GAnd [GRef "Template.TypenameAndInstantiations"; GStar (GAnd [GSup (GTerm (TLit ",")); GRef "Template.TypenameAndInstantiations"])])]; GSup (GTerm (TLit ">"))]);
  ("Argument", GAnd [GAnd [GName "ctype" (GOr [GRef "Type"; GRef "TemplatedType"]); GName "name" (IDENT)]; GName "default" (GOpt (GAnd [GSup (GTerm (TLit "=")); GTerm TDefault]))]);
  ("ArgumentList", GOpt (GName "args_list" (GAnd [GRef "Argument"; GStar (GAnd [GSup (GTerm (TLit ",")); GRef "Argument"])])));
  ("DunderMethod", GAnd [GAnd [GAnd [GAnd [GAnd [GAnd [GSup (GTerm (TLit "__")); GName "name" (GTerm (TWord "ABCDEFGHIJKLMNOPQRSTUVWXYZabcdefghijklmnopqrstuvwxyz" "ABCDEFGHIJKLMNOPQRSTUVWXYZabcdefghijklmnopqrstuvwxyz"))]; GSup (GTerm (TLit "__"))]; GSup (GTerm (TLit "("))]; GName "args_list" (GRef "ArgumentList")]; GSup (GTerm (TLit ")"))]; GSup (GTerm (TLit ";"))]);
  ("Constructor", GAnd [GAnd [GAnd [GAnd [GAnd [GOpt (GName "template" (GRef "Template")); GName "name" (IDENT)]; GSup (GTerm (TLit "("))]; GName "args_list" (GRef "ArgumentList")]; GSup (GTerm (TLit ")"))]; GSup (GTerm (TLit ";"))]);
  ("ReturnType", GOr [GAnd [GAnd [GAnd [GAnd [GAnd [GAnd [GSup (GOpt (GTerm (TLit "std::"))); GSup (GTerm (TKw "pair"))]; GSup (GTerm (TLit "<"))]; GName "type1" (GRef "Type")]; GSup (GTerm (TLit ","))]; GName "type2" (GRef "Type")]; GSup (GTerm (TLit ">"))]; GName "type1" (GOr [GRef "Type"; GRef "TemplatedType"])]);
  ("Method", GAnd [GAnd [GAnd [GAnd [GAnd [GAnd [GAnd [GOpt (GName "template" (GRef "Template")); GName "return_type" (GRef "ReturnType")]; GName "name" (IDENT)]; GSup (GTerm (TLit "("))]; GName "args_list" (GRef "ArgumentList")]; GSup (GTerm (TLit ")"))]; GOpt (GName "is_const" (GTerm (TKw "const")))]; GSup (GTerm (TLit ";"))]);
  ("StaticMethod", GAnd [GAnd [GAnd [GAnd [GAnd [GAnd [GAnd [GOpt (GName "template" (GRef "Template")); GTerm (TKw "static")]; GName "return_type" (GRef "ReturnType")]; GName "name" (IDENT)]; GSup (GTerm (TLit "("))]; GName "args_list" (GRef "ArgumentList")]; GSup (GTerm (TLit ")"))]; GSup (GTerm (TLit ";"))]);
  ("Variable", GAnd [GAnd [GAnd [GName "ctype" (GOr [GRef "Type"; GRef "TemplatedType"]); GName "name" (IDENT)]; GName "default" (GOpt (GAnd [GSup (GTerm (TLit "=")); GTerm TDefault]))]; GSup (GTerm (TLit ";"))]);
  ("Operator", GAnd [GAnd [GAnd [GAnd [GAnd [GAnd [GAnd [GName "return_type" (GRef "ReturnType"); GName "name" (GTerm (TLit "operator"))]; GName "operator" (GOr [GTerm (TLit "+"); GTerm (TLit "-"); GTerm (TLit "*"); GTerm (TLit "/"); GTerm (TLit "%"); GTerm (TLit "^"); GTerm (TLit "&"); GTerm (TLit "|"); GTerm (TLit "+="); GTerm (TLit "-="); GTerm (TLit "*="); GTerm (TLit "/="); GTerm (TLit "%="); GTerm (TLit "^="); GTerm (TLit "&="); GTerm (TLit "|="); GTerm (TLit "<<"); GTerm (TLit "<<="); GTerm (TLit ">>"); GTerm (TLit ">>="); GTerm (TLit "=="); GTerm (TLit "!="); GTerm (TLit "<"); GTerm (TLit ">"); GTerm (TLit "<="); GTerm (TLit ">="); GTerm (TLit "()"); GTerm (TLit "[]")])]; GSup (GTerm (TLit "("))]; GName "args_list" (GRef "ArgumentList")]; GSup (GTerm (TLit ")"))]; GName "is_const" (GTerm (TKw "const"))]; GSup (GTerm (TLit ";"))]);
  ("Enumerator", IDENT);
  ("Enum", GAnd [GAnd [GAnd [GAnd [GAnd [GOr [GOr [GTerm (TKw "enum"); GTerm (TKw "enum class")]; GTerm (TKw "enum struct")]; GName "name" (IDENT)]; GSup (GTerm (TLit "{"))]; GName "enumerators" (GAnd [GName "enumerator" (GRef "Enumerator"); GStar (GAnd [GSup (GTerm (TLit ",")); GName "enumerator" (GRef "Enumerator")])])]; GSup (GTerm (TLit "}"))]; GSup (GTerm (TLit ";"))]);
  ("Class.Members", GStar (GOr [GOr [GOr [GOr [GOr [GOr [GRef "DunderMethod"; GRef "Constructor"]; GRef "Method"]; GRef "StaticMethod"]; GRef "Variable"]; GRef "Operator"]; GRef "Enum"]));
  ("Class", GAnd [GAnd [GAnd [GAnd [GAnd [GAnd [GAnd [GAnd [GOpt (GName "template" (GRef "Template")); GOpt (GName "is_virtual" (GTerm (TKw "virtual")))]; GTerm (TKw "class")]; GName "name" (IDENT)]; GOpt (GAnd [GSup (GTerm (TLit ":")); GName "parent_class" (GOr [GRef "TemplatedType"; GName "namespaces_and_name" (GRef "Typename")])])]; GSup (GTerm (TLit "{"))]; GName "members" (GRef "Class.Members")]; GSup (GTerm (TLit "}"))]; GSup (GTerm (TLit ";"))]);
  ("TypedefTemplateInstantiation", GAnd [GAnd [GAnd [GTerm (TKw "typedef"); GName "templated_type" (GRef "TemplatedType")]; GName "new_name" (IDENT)]; GSup (GTerm (TLit ";"))]);
  ("GlobalFunction", GAnd [GAnd [GAnd [GAnd [GAnd [GAnd [GOpt (GName "template" (GRef "Template")); GName "return_type" (GRef "ReturnType")]; GName "name" (IDENT)]; GSup (GTerm (TLit "("))]; GName "args_list" (GRef "ArgumentList")]; GSup (GTerm (TLit ")"))]; GSup (GTerm (TLit ";"))]);
  ("Namespace", GAnd [GAnd [GAnd [GAnd [GTerm (TKw "namespace"); GName "name" (IDENT)]; GSup (GTerm (TLit "{"))]; GName "content" (DECLS)]; GSup (GTerm (TLit "}"))]);
  ("ModuleContent", DECLS);
  ("Module", GAnd [GRef "ModuleContent"; GTerm TEnd])
].

(* fingerprints of the two sub-expressions modelled by hand-written scanners (Peg.default_arg, Peg.comment):
   sha256 of their complete structure (classes, regular expressions, character sets, flags) under pyparsing 3.1.1 *)
Definition default_arg_expected : string := "47fa691b4616bb6446a6f9459a952f0cebba2b4235b9cf9b7ec7e2f95125b459".
Definition comment_expected : string := "29ad4497ac3ffcdcbaee802b7755acc001bcf9379c2687dbde08fa963a07aaa9".

(* Faithful model of which files the MATLAB wrapper writes, the classdef skeletons and the MEX
   preamble (collectors, RTTI registry, deleteAllObjects).  Definitions only. *)
From Coq Require Import String Ascii List Bool Arith.
From Wrap Require Import Base.Str Base.ListX Syntax.Ast Syntax.Print Inst.Model Inst.Proj Matlab.Ids.
From Wrap Require gen.Tables.
Import ListNotations.
Open Scope string_scope.
Open Scope list_scope.

Inductive fkind := FClassdef | FEnum | FFunction | FMex.

Record mquirks := { q_enum_path : bool (* class enums of a nested namespace go to +<names joined>/+Class *) }.

Section Files.
  Variable q : mquirks.
  Variable c : mcfg.

  Definition class_enum_dir (home : list string) (cls : string) : string :=
    if q_enum_path q then
      (match home with [] => "" | _ => ("+" ++ String.concat "" home ++ "/")%string end ++ "+" ++ cls)%string
    else pkg_path (home ++ [cls]).

  (* files contributed by one element of the namespace at `home` (structural position) *)
  Fixpoint item_files (home : list string) (i : item) : list (string * fkind) :=
    match i with
    | IClass k =>
      if ignored c k then []
      else (in_pkg home (clean_class_name k ++ ".m")%string, FClassdef)
             :: map (fun e => ((class_enum_dir home (ic_name k) ++ "/" ++ e_name e ++ ".m")%string, FEnum)) (ic_enums k)
    | IEnum e => [(in_pkg home (e_name e ++ ".m")%string, FEnum)]
    | INamespace n content =>
      let home' := home ++ [n] in
      (fix go (l : list item) : list (string * fkind) :=
         match l with [] => [] | x :: r => item_files home' x ++ go r end) content
      ++ map (fun g => (in_pkg home' (g ++ ".m")%string, FFunction))
             (nodup string_dec (flat_map (fun x => match x with IFun f => [if_name f] | _ => [] end) content))
    | _ => []
    end.

  Definition module_files (content : list item) : list (string * fkind) :=
    flat_map (item_files []) content
    ++ map (fun g => ((g ++ ".m")%string, FFunction))
           (nodup string_dec (flat_map (fun x => match x with IFun f => [if_name f] | _ => [] end) content))
    ++ [((m_module c ++ "_wrapper.cpp")%string, FMex)].

  (* ---- classdef skeleton ---- *)
  Record skeleton := { sk_name : string; sk_base : string; sk_ptr : string;
                       sk_props : list string; sk_methods : list string; sk_statics : list string }.

  Fixpoint group_names (l : list string) (seen : list string) : list string :=
    match l with
    | [] => []
    | x :: r => if mem_str x seen then group_names r seen else x :: group_names r (x :: seen)
    end.

  Definition class_skeleton (home : list string) (k : iclass) : skeleton :=
    let mnames := group_names (map im_name (sort_by im_name (ic_methods k))) [] in
    let snames := group_names (map is_name (sort_by is_name (ic_statics k))) [] in
    {| sk_name := clean_class_name k;
       sk_base := match ic_base k with
                  | Some b => replace_all "::" "." (tn_cpp b)
                  | None => "handle"
                  end;
       sk_ptr := ("ptr_" ++ String.concat "" home ++ clean_class_name k)%string;
       sk_props := map v_name (ic_props k);
       sk_methods :=
         flat_map (fun n => if andb (mem_str n Tables.matlab_whitelist) (negb (String.eqb n "serialize")) then []
                            else if mem_str n Tables.matlab_ignore_methods then []
                            else if String.eqb n "serialize" then (if m_boost c then ["string_serialize"] else [])
                                 else [n]) mnames;
       sk_statics :=
         filter (fun n => negb (mem_str n Tables.matlab_ignore_methods)) snames
         ++ (if andb (m_boost c) (mem_str "serialize" mnames) then ["string_deserialize"] else []) |}.

  (* ---- MEX preamble: every class met by the walk, except those the preamble's own ignore test drops ---- *)
  Definition preamble_ignore_name (k : iclass) : string := join "::" (ic_home k ++ [ic_name k]).
  Fixpoint walked_classes (i : item) : list iclass :=
    match i with
    | IClass k => [k]
    | INamespace _ content =>
      (fix go (l : list item) : list iclass := match l with [] => [] | x :: r => walked_classes x ++ go r end) content
    | _ => []
    end.
  Definition preamble_classes (content : list item) : list iclass :=
    filter (fun k => negb (mem_str (preamble_ignore_name k) (m_ignore c))) (flat_map walked_classes content).

  (* class name used for collector_<name>: _format_class_name with '' separator *)
  Definition collector_name (k : iclass) : string := (String.concat "" (ic_home k) ++ ic_name k)%string.
  (* get_class_name: the C++ spelling used inside the collector typedef *)
  Definition collector_cpp (k : iclass) : string :=
    match ic_insts k with [] => iclass_cpp k | _ => ic_name k end.
End Files.

Fixpoint skeletons (c : mcfg) (home : list string) (i : item) : list (string * skeleton) :=
  match i with
  | IClass k => if ignored c k then [] else [(in_pkg home (clean_class_name k ++ ".m")%string, class_skeleton c home k)]
  | INamespace n content =>
    (fix go (l : list item) : list (string * skeleton) :=
       match l with [] => [] | x :: r => skeletons c (home ++ [n]) x ++ go r end) content
  | _ => []
  end.

(* C08: naming and the structure of an instantiated scope. *)
From Coq Require Import String Ascii List Bool Arith Lia.
From Wrap Require Import Base.Str Base.StrLemmas Base.ListX Syntax.Ast Syntax.Print Inst.Model.
Import ListNotations.
Open Scope string_scope.
Open Scope list_scope.

(* ---------- naming ---------- *)
Fixpoint occurs (c : ascii) (s : string) : bool :=
  match s with EmptyString => false | String d r => orb (is d c) (occurs c r) end.

(* the first character is not changed by upper-casing, or it does not occur again *)
Definition name_ok (s : string) : bool :=
  match s with
  | EmptyString => true
  | String c r => orb (Ascii.eqb (upper_ascii c) c) (negb (occurs c r))
  end.

Lemma map_str_id_on : forall (f : ascii -> ascii) s, (forall d, f d = d) -> map_str f s = s.
Proof. intros f s H. induction s as [|d r IH]; cbn [map_str]; [reflexivity | rewrite H, IH; reflexivity]. Qed.

Lemma map_str_no_occ : forall c u r, occurs c r = false ->
  map_str (fun d => if is d c then u else d) r = r.
Proof.
  intros c u r. induction r as [|d r IH]; cbn [occurs map_str]; intros H; [reflexivity|].
  apply orb_false_iff in H. destruct H as [Hd Hr]. rewrite Hd, (IH Hr). reflexivity.
Qed.

Lemma cap_all_ok : forall s, name_ok s = true -> cap_all s = cap_first s.
Proof.
  intros [|c r] H; [reflexivity|]. cbn [name_ok] in H. cbn [cap_all cap_first map_str].
  assert (Hcc : is c c = true) by (unfold is; apply Ascii.eqb_refl).
  rewrite Hcc. apply orb_true_iff in H. destruct H as [H|H].
  - apply Ascii.eqb_eq in H. rewrite H. f_equal.
    clear Hcc. induction r as [|d r IH]; cbn [map_str]; [reflexivity|].
    rewrite IH. destruct (is d c) eqn:E; [|reflexivity].
    unfold is in E. apply Ascii.eqb_eq in E. subst. reflexivity.
  - apply negb_true_iff in H. rewrite (map_str_no_occ _ _ _ H). reflexivity.
Qed.

Definition spec_name (orig : string) (insts : list typename) : string :=
  (orig ++ String.concat "" (map (fun i => cap_first (tn_iname i)) insts))%string.

Theorem inst_name_spec : forall q orig insts,
  (q_cap_all q = true -> forallb (fun i => name_ok (tn_iname i)) insts = true) ->
  inst_name q orig insts = spec_name orig insts.
Proof.
  intros q orig insts H. unfold inst_name, spec_name. f_equal. f_equal.
  destruct (q_cap_all q) eqn:Q; [|reflexivity].
  specialize (H eq_refl). induction insts as [|i r IH]; [reflexivity|].
  cbn [forallb] in H. apply andb_true_iff in H. destruct H as [Hi Hr].
  cbn [map]. rewrite (cap_all_ok _ Hi), (IH Hr). reflexivity.
Qed.

(* ---------- C++ name of an instantiated class: ns::Name<args> in the template's namespace ---------- *)
Lemma inst_class_cpp : forall q home c ci nn,
  tn_cpp (cls_cpp home c ci) = iclass_cpp (inst_class q home c ci nn).
Proof.
  intros. unfold cls_cpp, iclass_cpp, cls_cpp_name, inst_class.
  cbn [tn_cpp nm_str ic_home ic_templated ic_orig ic_insts]. reflexivity.
Qed.

(* ---------- scope structure ---------- *)
Inductive kind := KClass | KFun | KDecl | KFwd | KInclude | KEnum | KVar | KNs.

Definition item_key (i : item) : kind * string :=
  match i with
  | IClass c => (KClass, ic_name c)
  | IFun f => (KFun, if_name f)
  | IDecl d => (KDecl, id_name d)
  | IFwd f => (KFwd, fwd_name f)
  | IInclude h => (KInclude, h)
  | IEnum e => (KEnum, e_name e)
  | IVar v => (KVar, v_name v)
  | INamespace n _ => (KNs, n)
  end.

(* what a scope must contain before its typedef instantiations, in order *)
Definition main_keys (q : quirks) (d : decl) : list (kind * string) :=
  match d with
  | DClass c => map (fun ci => (KClass, inst_name q (c_name c) ci)) (tmpl_products (c_tmpl c))
  | DFun f => map (fun fi => (KFun, match f_tmpl f with
                                    | None => f_name f
                                    | Some _ => inst_name q (f_name f) fi
                                    end)) (tmpl_products (f_tmpl f))
  | DTypedef _ _ => []
  | DNamespace n _ => [(KNs, n)]
  | DFwd f => [(KFwd, fwd_name f)]
  | DInclude h => [(KInclude, h)]
  | DEnum e => [(KEnum, e_name e)]
  | DVar v => [(KVar, v_name v)]
  end.

Definition typedef_names (content : list decl) : list string :=
  flat_map (fun d => match d with DTypedef _ n => [n] | _ => [] end) content.

(* a typedef instantiation carries the typedef's name (a typedef of a non-template function keeps
   the function's own name: function.py:23-26) *)
Definition typedef_item_ok (n : string) (i : item) : Prop :=
  match i with
  | IClass c => ic_name c = n
  | IDecl d => id_name d = n
  | IFun f => if_templated f = true -> if_name f = n
  | _ => False
  end.

Section Scope.
  Variable q : quirks.
  Variable top : list decl.

  Lemma merge2_ok : forall a b x, merge2 a b = Ok x ->
    exists xa xb, a = Ok xa /\ b = Ok xb /\ x = (fst xa ++ fst xb, snd xa ++ snd xb).
  Proof.
    intros a b x H. unfold merge2, rbind in H.
    destruct a as [xa|?|?]; [|discriminate|discriminate].
    destruct b as [xb|?|?]; [|discriminate|discriminate].
    inversion H. exists xa, xb. auto.
  Qed.

  Lemma inst_typedef_ok : forall path tn n i, n <> "" ->
    inst_typedef q top path tn n = Ok i -> typedef_item_ok n i.
  Proof.
    intros path tn n i Hn H. unfold inst_typedef in H.
    assert (En : String.eqb n "" = false) by (apply String.eqb_neq; exact Hn).
    destruct (lookup q top path tn) as [|f [|f2 r]]; [discriminate| |].
    - destruct f as [home c|home f|home f|].
      + destruct (andb _ _); [discriminate|]. inversion H. cbn [typedef_item_ok inst_class ic_name].
        unfold cls_name. rewrite En. reflexivity.
      + inversion H. cbn [typedef_item_ok]. unfold inst_func.
        destruct (f_tmpl f); cbn [if_templated if_name]; [|discriminate].
        intros _. rewrite En. reflexivity.
      + inversion H. cbn [typedef_item_ok id_name]. rewrite En. reflexivity.
      + discriminate.
    - destruct f; discriminate.
  Qed.

  Lemma inst_decl_shape : forall path home k d a b,
    inst_decl q top path home k d = Ok (a, b) ->
    map item_key a = main_keys q d /\
    (match d with
     | DTypedef _ n => exists i, b = [i] /\ (n <> "" -> typedef_item_ok n i)
     | _ => b = []
     end).
  Proof.
    intros path home k d a b H. destruct d as [c|f|tn n|f|h|e|v|n c].
    - cbn [inst_decl] in H. inversion H. subst. split; [|reflexivity].
      cbn [main_keys]. rewrite map_map. apply map_ext. intros ci.
      cbn [item_key inst_class ic_name]. unfold cls_name. reflexivity.
    - cbn [inst_decl] in H. inversion H. subst. split; [|reflexivity].
      cbn [main_keys]. rewrite map_map. apply map_ext. intros fi.
      cbn [item_key]. unfold inst_func. destruct (f_tmpl f); reflexivity.
    - cbn [inst_decl] in H. unfold rbind in H.
      destruct (inst_typedef q top path tn n) as [i|?|?] eqn:E; [|discriminate|discriminate].
      inversion H. subst. split; [reflexivity|]. exists i. split; [reflexivity|].
      intros Hn. apply (inst_typedef_ok _ _ _ _ Hn E).
    - cbn [inst_decl] in H. inversion H. subst. split; reflexivity.
    - cbn [inst_decl] in H. inversion H. subst. split; reflexivity.
    - cbn [inst_decl] in H. inversion H. subst. split; reflexivity.
    - cbn [inst_decl] in H. inversion H. subst. split; reflexivity.
    - cbn [inst_decl] in H. unfold rbind in H.
      match type of H with match ?X with _ => _ end = _ => destruct X as [r|?|?]; [|discriminate|discriminate] end.
      inversion H. subst. split; reflexivity.
  Qed.

  (* a nested namespace is instantiated by the same function, one level deeper, and keeps its place *)
  Lemma inst_decl_namespace : forall path home k n c,
    inst_decl q top path home k (DNamespace n c)
    = rbind (inst_content q top (path ++ [k]) (home ++ [n]) 0 c)
            (fun r => Ok ([INamespace n (fst r ++ snd r)], [])).
  Proof.
    intros path home k n c. cbn [inst_decl]. f_equal.
    generalize 0 as k'. induction c as [|d r IH]; intros k'; [reflexivity|].
    cbn [inst_content]. rewrite <- IH. reflexivity.
  Qed.

  (* every scope, at any depth (the recursion instantiates this statement for each nested namespace):
     first the scope's own declarations in source order, each template expanded in product order,
     non-templates once; then exactly one instantiation per typedef, in source order *)
  Theorem inst_content_shape : forall content path home k a b,
    inst_content q top path home k content = Ok (a, b) ->
    map item_key a = flat_map (main_keys q) content /\
    Forall2 (fun n i => n <> "" -> typedef_item_ok n i) (typedef_names content) b.
  Proof.
    induction content as [|d rest IH]; intros path home k a b H.
    - cbn [inst_content] in H. inversion H. split; [reflexivity | constructor].
    - cbn [inst_content] in H. apply merge2_ok in H.
      destruct H as [[a1 b1] [[a2 b2] [H1 [H2 E]]]]. cbn [fst snd] in E. inversion E. subst.
      destruct (inst_decl_shape _ _ _ _ _ _ H1) as [K1 T1].
      destruct (IH _ _ _ _ _ H2) as [K2 T2].
      split.
      + rewrite map_app, K1, K2. reflexivity.
      + unfold typedef_names in *. cbn [flat_map].
        destruct d; try (subst b1; cbn [app]; exact T2).
        destruct T1 as [i [Eb Hi]]. subst b1. cbn [app]. constructor; assumption.
  Qed.
End Scope.

Theorem instantiate_shape : forall q m items,
  instantiate q m = Ok items ->
  exists a b, items = a ++ b /\
              map item_key a = flat_map (main_keys q) m /\
              Forall2 (fun n i => n <> "" -> typedef_item_ok n i) (typedef_names m) b.
Proof.
  intros q m items H. unfold instantiate, rbind in H.
  destruct (inst_content q m [] [] 0 m) as [[a b]|?|?] eqn:E; [|discriminate|discriminate].
  inversion H. exists a, b. split; [reflexivity|]. apply (inst_content_shape q m _ _ _ _ _ _ E).
Qed.

(* C06: default expansion and positional bookkeeping. *)
From Coq Require Import String Ascii List Bool Arith Lia.
From Wrap Require Import Base.Str Base.ListX Syntax.Ast Syntax.Print Inst.Model Matlab.Ids Matlab.Arity.
Import ListNotations.
Open Scope list_scope.

Lemma strip_length : forall l, length (strip_defaults l) = length l.
Proof. intros. unfold strip_defaults. apply map_length. Qed.

Lemma removelast_length : forall (A : Type) (l : list A), length (removelast l) = length l - 1.
Proof.
  induction l as [|a [|b r] IH]; [reflexivity | reflexivity |].
  change (removelast (a :: b :: r)) with (a :: removelast (b :: r)). cbn [length] in *. rewrite IH. lia.
Qed.

Lemma removelast_firstn_len : forall (A : Type) (l : list A), removelast l = firstn (length l - 1) l.
Proof.
  induction l as [|a [|b r] IH]; [reflexivity | reflexivity |].
  change (removelast (a :: b :: r)) with (a :: removelast (b :: r)). rewrite IH.
  cbn [length]. replace (S (S (length r)) - 1) with (S (S (length r) - 1)) by lia. reflexivity.
Qed.

Lemma peel_lengths : forall k l, k <= length l ->
  map (@length arg) (peel k l) = map (fun j => length l - j) (seq 0 (S k)).
Proof.
  induction k as [|k IH]; intros l Hk.
  - cbn [peel map seq]. rewrite strip_length. f_equal. lia.
  - cbn [peel map]. rewrite strip_length.
    change (seq 0 (S (S k))) with (0 :: seq 1 (S k)). cbn [map]. f_equal; [lia|].
    rewrite IH by (rewrite removelast_length; lia).
    rewrite removelast_length. rewrite <- seq_shift. rewrite map_map. apply map_ext. intros j. lia.
Qed.

Lemma trailing_rev_le : forall rl, trailing_defaults_rev rl <= length rl.
Proof. induction rl as [|a r IH]; cbn; [lia|]. destruct (has_default a); cbn; lia. Qed.
Lemma trailing_le : forall l, trailing_defaults l <= length l.
Proof. intros l. unfold trailing_defaults. rewrite <- (rev_length l). apply trailing_rev_le. Qed.

Theorem expand_arities : forall l ovs, expand_defaults l = Some ovs ->
  map (@length arg) ovs = map (fun j => length l - j) (seq 0 (S (trailing_defaults l))).
Proof.
  intros l ovs H. unfold expand_defaults in H.
  destruct (existsb has_default _); [discriminate|]. inversion H; subst.
  apply peel_lengths. apply trailing_le.
Qed.

Lemma firstn_firstn_len : forall (A : Type) (l : list A) n, n <= length l ->
  firstn (length (firstn n l) - 1) (firstn n l) = firstn (n - 1) l.
Proof.
  intros A l n Hn. rewrite firstn_length_le by exact Hn. rewrite firstn_firstn. f_equal. lia.
Qed.

Lemma peel_prefix : forall k l o, k <= length l -> In o (peel k l) ->
  exists j, j <= k /\ o = strip_defaults (firstn (length l - j) l).
Proof.
  induction k as [|k IH]; intros l o Hk Hin.
  - cbn [peel In] in Hin. destruct Hin as [E|[]]. exists 0. split; [lia|].
    rewrite Nat.sub_0_r, firstn_all. symmetry. exact E.
  - cbn [peel In] in Hin. destruct Hin as [E|Hin].
    + exists 0. split; [lia|]. rewrite Nat.sub_0_r, firstn_all. symmetry. exact E.
    + assert (Hk' : k <= length (removelast l)) by (rewrite removelast_length; lia).
      destruct (IH _ _ Hk' Hin) as [j [Hj E]]. exists (S j). split; [lia|].
      rewrite E. rewrite removelast_length. rewrite removelast_firstn_len. rewrite firstn_firstn. f_equal. f_equal. lia.
Qed.

Theorem expand_prefix : forall l ovs o, expand_defaults l = Some ovs -> In o ovs ->
  exists j, j <= trailing_defaults l /\ o = strip_defaults (firstn (length l - j) l).
Proof.
  intros l ovs o H Hin. unfold expand_defaults in H.
  destruct (existsb has_default _); [discriminate|]. inversion H; subst.
  apply (peel_prefix _ _ _ (trailing_le l) Hin).
Qed.

(* positions of in[...] used by the unwrap lines *)
Fixpoint unwrap_positions (e : option ectx) (arg_id : nat) (args : list arg) : list nat :=
  match args with [] => [] | _ :: r => arg_id :: unwrap_positions e (S arg_id) r end.

Theorem unwrap_positions_seq : forall e off args, unwrap_positions e off args = seq off (length args).
Proof. intros e off args. revert off. induction args as [|a r IH]; intros off; cbn; [reflexivity | rewrite IH; reflexivity]. Qed.

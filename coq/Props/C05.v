(* C05 - MATLAB call-site ids and the MEX dispatch table always agree. *)
From Coq Require Import String Ascii List Bool Arith Permutation.
From Wrap Require Import Base.Str Base.ListX Syntax.Ast Syntax.Print Inst.Model Matlab.Ids Matlab.IdsProofs.
Import ListNotations.
Open Scope string_scope.
Open Scope list_scope.

(* For every module the walk accepts - any number and order of classes, virtual or not, any counts of
   constructor overloads, defaulted arguments, methods, statics, properties, functions, namespaces,
   both serialization settings - there is ONE table (id, routine name, member) such that
   - its ids are 0..n-1, contiguous, each once;
   - the switch of mexFunction is exactly its (id, callee) column pair, in id order;
   - the routines emitted are exactly its (name, member) pairs, each once, in order;
   - the ids written into the .m files, with the member each call site belongs to, are exactly its
     (id, member) pairs, each exactly once (a permutation: a virtual class writes its up-cast id
     before its collector id).
   Hence every call site's id is handled by exactly one case, which runs the routine generated for
   the very same class member, overload and role, and no case or routine lacks a call site. *)
Theorem C05_dispatch_table : forall c top content l, module_slots c top content = Some l ->
  let t := table_from 0 l in
  map id_of t = seq 0 (length l) /\
  cases l = map (fun e => (id_of e, name_of e)) t /\
  routines l = map (fun e => (name_of e, what_of e)) t /\
  Permutation (call_sites l) (map (fun e => (id_of e, what_of e)) t).
Proof. exact dispatch_table. Qed.
Print Assumptions C05_dispatch_table.

(* the invariant behind it: a reserved (up-cast) id is always followed by its collector *)
Theorem C05_reserved_followed_by_collector : forall c top content l,
  module_slots c top content = Some l -> wf_slots l = true.
Proof. exact module_slots_wf. Qed.
Print Assumptions C05_reserved_followed_by_collector.

Definition vclass (name : string) (virt : bool) : iclass :=
  {| ic_home := []; ic_orig := name; ic_templated := false; ic_insts := []; ic_name := name; ic_virtual := virt;
     ic_base := None;
     ic_ctors := [{| ik_orig := name; ik_templated := false; ik_insts := []; ik_name := name;
                     ik_args := [{| a_ty := TPlain (Typename [] (NStr "double") []) false PNone true;
                                    a_name := "x"; a_default := Some "1.0" |}] |}];
     ic_methods := []; ic_statics := []; ic_dunders := []; ic_props := []; ic_ops := []; ic_enums := [] |}.

(* non-vacuous: a virtual class followed by a plain one; the virtual class's default-argument
   constructor expands to two overloads, ids shift accordingly *)
Example C05_nonvacuous :
  option_map cases (module_slots {| m_module := "m"; m_ignore := []; m_boost := false |} []
                                 [IClass (vclass "A" true); IClass (vclass "B" false)])
  = Some [(0, "A_collectorInsertAndMakeBase_0"); (1, "A_upcastFromVoid_1"); (2, "A_constructor_2");
          (3, "A_constructor_3"); (4, "A_deconstructor_4"); (5, "B_collectorInsertAndMakeBase_5");
          (6, "B_constructor_6"); (7, "B_constructor_7"); (8, "B_deconstructor_8")].
Proof. vm_compute. reflexivity. Qed.

#!/bin/bash
# every kept seeded change against its own property's quick check (and the checks known to see it as well)
cd "$(dirname "$0")/.."
run() { harness/matrix.sh "$1" "$2"; }
for s in C01-m1 C01-m2; do run $s "C01"; done
for s in C02-m1 C02-m2; do run $s "C02"; done
run C03-m1 "C03 C09 C14"; run C03-m2 "C03"
run C04-m1 "C04 C09"; run C04-m2 "C04"
for s in C05-m1 C05-m2; do run $s "C05"; done
for s in C06-m1 C06-m2; do run $s "C06"; done
run C07-m1 "C07 C06"; run C07-m2 "C07"
for s in C08-m1 C08-m2; do run $s "C08"; done
run C09-m1 "C09 C02"; run C09-m2 "C09"
run C10-m1 "C10 C05"; run C10-m2 "C10"
run C11-m1 "C11"; run C11-m2 "C11 C18"
for s in C12-m1 C12-m2; do run $s "C12"; done
for s in C13-m1 C13-m2; do run $s "C13 C02"; done
run C14-m1 "C14"; run C14-m2 "C14"
run C15-m1 "C15"; run C15-m2 "C15 C10"
run C16-m1 "C16"; run C16-m2 "C16"
for s in C17-m1 C17-m2; do run $s "C17"; done
run C18-m1 "C18"; run C18-m2 "C18"
for s in C19-m1 C19-m2; do run $s "C19"; done

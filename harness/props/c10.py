"""C10 - the MATLAB toolbox contains exactly the declared classes, functions, enums."""
import multiprocessing as mp
import random
import re

import common
import sexp
from props import mlcommon as ml

TRUSTED = ['regex parsing of classdef skeletons and of the MEX preamble']
MQUIRKS = ['q_enum_path']


def detect_mquirks():
    r = ml.impl_matlab(['namespace a { namespace b { class C { enum E { X }; }; } }'])
    on = r[0] == 'ok' and '+ab/+C/E.m' in r[1]
    return '1' if on else '0'


def parse_classdef(text):
    """(name, base, ptr property, [properties], [method names], [static names]) of a generated classdef"""
    m = re.search(r'^classdef (\w+) < (.+)$', text, re.M)
    if not m:
        return None
    name, base = m.group(1), m.group(2)
    pm = re.search(r'^\s*properties\s*\n(.*?)^\s*end', text, re.M | re.S)
    props = [l.strip() for l in pm.group(1).split('\n') if l.strip()] if pm else []
    ptr = props[0].split('=')[0].strip() if props else None
    props = props[1:]
    si = text.find('methods(Static = true)')
    body_m = text[:si] if si >= 0 else text
    body_s = text[si:] if si >= 0 else ''
    fn = re.compile(r'^\s*function\s+(?:(?:\[[^\]]*\]|\w+)\s*=\s*)?([\w.]+)\s*\(', re.M)
    methods = [x for x in fn.findall(body_m)]
    statics = [x for x in fn.findall(body_s)]
    return name, base, ptr, props, methods, statics


def parse_enum(text):
    m = re.search(r'^classdef (\w+) < uint32', text, re.M)
    if not m:
        return None
    return m.group(1), [(a, int(b)) for a, b in re.findall(r'^\s*(\w+)\((\d+)\)', text, re.M)]


def preamble(cpp):
    coll = re.findall(r'typedef std::set<std::shared_ptr<(.+?)>\*> Collector_(\w+);', cpp)
    decl = re.findall(r'static Collector_(\w+) collector_(\w+);', cpp)
    dele = re.findall(r'\{ for\(Collector_(\w+)::iterator iter = collector_(\w+)\.begin\(\);', cpp)
    rtti = re.findall(r'types\.insert\(std::make_pair\(typeid\((.+?)\)\.name\(\), "(\w+)"\)\);', cpp)
    tdef = re.findall(r'^typedef (.+) (\w+);$', cpp, re.M)
    tdef = [t for t in tdef if not t[0].startswith('std::set<')]
    return coll, decl, dele, rtti, tdef


def _job(job):
    name, text, seed = job
    r = random.Random('c10/%s/%s' % (seed, name))
    boost = r.random() < 0.5
    if name.startswith('replay'):
        boost = name.endswith('+boost')
    it = ml.impl_items(text)
    ign = []
    if it[0] == 'ok' and r.random() < 0.4:
        # an ignore entry the way the class file test spells it: ns1::ns2::Name (namespaced classes only;
        # the global spelling is the recorded finding C15-matlab-global-ignore)
        names = nested_class_names(it[1])
        if names:
            ign = [r.choice(names)]
    res = ml.impl_matlab([text], 'mod', ign, boost)
    return name, text, boost, ign, it, res


def nested_class_names(items, prefix=()):
    out = []
    for x in items:
        if x[0] == 'ns':
            out += nested_class_names(x[2], prefix + (x[1], ))
        elif x[0] == 'iclass' and prefix and list(x[1]) == list(prefix):
            out.append('::'.join(prefix) + '::' + x[5])
    return out


def run(rep, tier, seed, replay=None, proof_ok=True):
    rep.coverage['rule'] = ('fixtures + corpus + generated modules x serialization x ignore entries (namespaced classes); '
                            'the toolbox is generated into a scratch directory; compared with Matlab/Files.v: the set of '
                            'relative paths with kinds, every classdef skeleton (name, base, pointer property, properties, '
                            'method names, static names), enumerator numbering, and the MEX preamble (collector typedefs / '
                            'declarations, deleteAllObjects entries, RTTI entries, instantiation typedefs)')
    q = detect_mquirks()
    rep.coverage['quirks_detected'] = {'q_enum_path': q}
    import json, os
    for f in json.load(open(os.path.join(common.VERIF, 'known_findings.json')))['findings']:
        if f['property'] != 'C10' or f['status'] != 'open':
            continue
        if f['id'] == 'C10-enum-path' and q == '1':
            rep.known('%s: %s [witness: %s]' % (f['id'], f['what_fails'], f['witness']))
        if f['id'] == 'C10-class-function-name-collision':
            r = ml.impl_matlab([f['witness']])
            if r[0] == 'ok' and 'classdef' not in r[1].get('A.m', '') and 'A_collectorInsertAndMakeBase' in r[1].get('mod_wrapper.cpp', ''):
                rep.known('%s: %s [witness: %s]' % (f['id'], f['what_fails'], f['witness']))
        if f['id'] == 'C10-instantiation-name-collision':
            r = ml.impl_matlab([f['witness']])
            if r[0] == 'ok' and sum(1 for p in r[1] if p.endswith('CX.m')) == 1 and 'C<b::X>' in r[1].get('mod_wrapper.cpp', ''):
                rep.known('%s: %s [witness: %s]' % (f['id'], f['what_fails'], f['witness']))
    cases, stats = ml.gen_cases(tier, seed, 150, 4000, tag='c10')
    if replay:
        import json as _json
        _t = _json.load(open(replay))['input']
        cases, stats = [('replay', _t), ('replay+boost', _t)], {}
    rep.coverage['input_distribution'] = stats
    with mp.get_context('fork').Pool(14) as pool:
        results = pool.map(_job, [(n, t, seed) for n, t in cases], chunksize=2)
    model = common.Model()
    shown = 0
    try:
        for name, text, boost, ign, it, res in results:
            if it[0] != 'ok':
                rep.bump('impl_inst_' + it[0])
                continue
            if res[0] != 'ok':
                rep.bump('impl_' + res[0])
                continue
            tree = res[1]
            ans = model.ask('mlfiles', [q, ['mod', ign, boost], it[1]])
            spec = model.ask('mlfiles', ['0', ['mod', ign, boost], it[1]])
            if not ans.startswith('ok '):
                rep.bump('model_' + ans.split(' ')[0])
                continue
            mfiles, mskels, mpre = sexp.loads(ans[3:])
            sfiles = sexp.loads(spec[3:])[0]
            rep.hit(common.sha(text + str(boost) + repr(ign)), len(mfiles) >= 3)
            diffs = []
            got = sorted(tree)
            exp = sorted(set(p for p, k in mfiles))
            if got != exp:
                diffs.append(('file set', [p for p in got if p not in exp], [p for p in exp if p not in got]))
            elif sorted(set(p for p, k in sfiles)) != exp:
                rep.bump('known:enum-path-inputs')
            # a path written twice: two artefacts share one file
            paths = [p for p, k in mfiles]
            if len(paths) != len(set(paths)):
                rep.bump('inputs_with_colliding_paths')
            kinds = dict((p, k) for p, k in mfiles)
            for p, txt in tree.items():
                k = kinds.get(p)
                if k == 'enum':
                    e = parse_enum(txt)
                    if e is None or [n for _, n in e[1]] != list(range(len(e[1]))):
                        diffs.append(('enum numbering', p, e))
                elif k == 'classdef' and paths.count(p) == 1:
                    sk = next((s for s in mskels if s[0] == p), None)
                    cd = parse_classdef(txt)
                    if sk is None or cd is None:
                        diffs.append(('classdef', p, cd))
                        continue
                    _, sname, sbase, sptr, sprops, smethods, sstatics = sk
                    name_, base, ptr, props, methods, statics = cd
                    fixed = [name_, 'delete', 'display', 'disp']
                    accessors = []
                    for pr in sprops:
                        accessors += ['get.' + pr, 'set.' + pr]
                    # the serialize method's text holds string_serialize and, right after it, saveobj
                    sm2 = []
                    for mname in smethods:
                        sm2.append(mname)
                        if mname == 'string_serialize':
                            sm2.append('saveobj')
                    exp_methods = fixed + sm2 + accessors
                    exp_statics = sstatics + (['loadobj'] if 'string_deserialize' in sstatics else [])
                    if (name_, base, ptr, props) != (sname, sbase, sptr, sprops):
                        diffs.append(('classdef header', p, (name_, base, ptr, props), (sname, sbase, sptr, sprops)))
                    if methods != exp_methods:
                        diffs.append(('classdef methods', p, methods, exp_methods))
                    if statics != exp_statics:
                        diffs.append(('classdef statics', p, statics, exp_statics))
            cpp = tree.get('mod_wrapper.cpp', '')
            coll, decl, dele, rtti, tdef = preamble(cpp)
            exp_coll = [(c[1], c[0]) for c in mpre]
            if coll != exp_coll:
                diffs.append(('collector typedefs', coll[:8], exp_coll[:8]))
            if decl != [(c[0], c[0]) for c in mpre]:
                diffs.append(('collector declarations', decl[:8], [c[0] for c in mpre][:8]))
            if dele != [(c[0], c[0]) for c in mpre]:
                diffs.append(('deleteAllObjects', dele[:8], [c[0] for c in mpre][:8]))
            exp_rtti = [(c[1], c[0]) for c in mpre if c[2] == 'T']
            if rtti != exp_rtti:
                diffs.append(('RTTI', rtti[:8], exp_rtti[:8]))
            exp_tdef = [(c[3], c[5]) for c in mpre if c[4] == 'T']
            if tdef != exp_tdef:
                diffs.append(('instantiation typedefs', tdef[:8], exp_tdef[:8]))
            if len(re.findall(r'^void mexFunction\(', cpp, re.M)) != 1:
                diffs.append(('mexFunction count', ))
            if diffs:
                rep.bump('differs')
                if shown < 3:
                    shown += 1
                    rep.violation({'kind': 'counterexample', 'what': 'toolbox artefacts differ from the declared ones: %s' % diffs[0][0],
                                   'input': text, 'boost': boost, 'ignore': ign, 'diffs': repr(diffs)[:3000]})
            else:
                rep.bump('agree')
                rep.sample({'input': text[:300], 'files': got[:8]}, cap=3)
    finally:
        model.close()
        import shutil
        shutil.rmtree(ml.scratch_root(), ignore_errors=True)
    return 0

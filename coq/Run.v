(* Line-oriented entry point of the executable model: run "cmd sexp" = answer line. *)
From Coq Require Import String Ascii List Bool Arith NArith ZArith.
From Wrap Require Import Base.Str Base.ListX Syntax.Ast Syntax.Sexp Syntax.Codec Syntax.Print Inst.Model Inst.Proj Pybind.Items Pybind.Gen Pybind.Render Matlab.Ids Matlab.Arity Matlab.Files Xml.Escape Xml.Doc Runtime.Mx Runtime.Gateway.
From Wrap Require Parse.Peg Parse.Build Parse.Layout Parse.LayoutModule Parse.RoundTripDec gen.Grammar.
Import ListNotations.
Open Scope string_scope.

Fixpoint split_cmd (s : string) (acc : string) : string * string :=
  match s with
  | EmptyString => (rev_str acc, EmptyString)
  | String c s' => if is c " "%char then (rev_str acc, s') else split_cmd s' (String c acc)
  end.

Definition bit (s : string) (k : nat) : bool :=
  match String.get k s with Some c => is c "1"%char | None => false end.
Definition d_quirks (s : string) : quirks :=
  {| q_cap_all := bit s 0; q_scoped_substring := bit s 1; q_typedef_stale := bit s 2; q_first_level_only := bit s 3 |}.

Definition show_res {A} (f : A -> sexp) (r : res A) : string :=
  match r with
  | Ok a => "ok " ++ print (f a)
  | Err m => "err " ++ m
  | Unsupported m => "unsupported " ++ m
  end.

Definition run_inst (x : sexp) : string :=
  match x with
  | SList [Atom qs; SList ds] =>
    match sequence (map d_decl ds) with
    | Some m => show_res (e_list e_item) (instantiate (d_quirks qs) m)
    | None => "baddecode"
    end
  | _ => "badshape"
  end.

(* projection of the model's instantiation of a parse tree *)
Definition run_instproj (x : sexp) : string :=
  match x with
  | SList [Atom qs; SList ds] =>
    match sequence (map d_decl ds) with
    | Some m => show_res p_items (instantiate (d_quirks qs) m)
    | None => "baddecode"
    end
  | _ => "badshape"
  end.
(* projection of a given instantiated tree (e.g. the implementation's, dumped) *)
Definition run_proj (x : sexp) : string :=
  match x with
  | SList its =>
    match sequence (map d_item its) with
    | Some l => "ok " ++ print (p_items l)
    | None => "baddecode"
    end
  | _ => "badshape"
  end.

Definition d_pquirks (s : string) : pquirks :=
  {| q_ignored_enums := bit s 0; q_values_insert := bit s 1; q_keywords_table := bit s 2; q_var_default_ns := bit s 3 |}.
Definition d_cfg (x : sexp) : option cfg :=
  match x with
  | SList [t; i; b] =>
    do t' <- d_list d_str t; do i' <- d_list d_str i; do b' <- d_bool b;
    Some {| top := t'; ignore := i'; boost := b' |}
  | _ => None
  end.
(* pybind (qbits cfg template module_name submodules? items) -> generated text *)
Definition run_pybind (x : sexp) : string :=
  match x with
  | SList [Atom qs; cf; Atom tpl; Atom mname; subs; SList its] =>
    match d_cfg cf, d_opt (d_list d_str) subs, sequence (map d_item its) with
    | Some c, Some sm, Some l => "ok " ++ print (Atom (r_file (d_pquirks qs) c None tpl mname sm l))
    | _, _, _ => "baddecode"
    end
  | _ => "badshape"
  end.

(* pybind_e2e (instq pybq cfg template module_name submodules? decls): parse tree -> instantiate -> generate *)
Definition run_pybind_e2e (x : sexp) : string :=
  match x with
  | SList [Atom iq; Atom qs; cf; Atom tpl; Atom mname; subs; SList ds] =>
    match d_cfg cf, d_opt (d_list d_str) subs, sequence (map d_decl ds) with
    | Some c, Some sm, Some m =>
      match instantiate (d_quirks iq) m with
      | Ok l => "ok " ++ print (Atom (r_file (d_pquirks qs) c None tpl mname sm l))
      | Err e => "err " ++ e
      | Unsupported e => "unsupported " ++ e
      end
    | _, _, _ => "baddecode"
    end
  | _ => "badshape"
  end.

Definition d_mcfg (x : sexp) : option mcfg :=
  match x with
  | SList [m; i; b] => do m' <- d_str m; do i' <- d_list d_str i; do b' <- d_bool b;
                       Some {| m_module := m'; m_ignore := i'; m_boost := b' |}
  | _ => None
  end.
Definition e_role (r : role) : sexp :=
  Atom (match r with
        | RCollector => "collector" | RUpcast => "upcast" | RCtor => "ctor" | RDtor => "dtor" | RMethod => "method"
        | RStatic => "static" | RGetter => "getter" | RSetter => "setter" | RSerialize => "serialize"
        | RDeserialize => "deserialize" | RFunction => "function"
        end).
Definition e_what (w : what) : sexp :=
  match w with
  | WSlot s => SList [e_role (s_role s); Atom (s_ns s); Atom (s_cls s); Atom (s_member s);
                      Atom (nat_dec (List.length (s_args s))); Atom (s_file s); Atom (s_mfun s)]
  | WUpcast cls _ => SList [Atom "upcast"; Atom cls]
  end.
(* mlids (cfg items) -> (call sites) (cases) (routines) *)
Definition run_mlids (x : sexp) : string :=
  match x with
  | SList [cf; SList its] =>
    match d_mcfg cf, sequence (map d_item its) with
    | Some c, Some l =>
      match module_slots c l l with
      | Some slots =>
        "ok " ++ print (SList [
          SList (map (fun p => SList [Atom (nat_dec (fst p)); e_what (snd p)]) (call_sites slots));
          SList (map (fun p => SList [Atom (nat_dec (fst p)); Atom (snd p)]) (cases slots));
          SList (map (fun p => SList [Atom (fst p); e_what (snd p)]) (routines slots))])
      | None => "err assertion"
      end
    | _, _ => "baddecode"
    end
  | _ => "badshape"
  end.

(* mltexts (cfg items) -> per id: (id name routine-text guard-line call-line) *)
Definition run_mltexts (x : sexp) : string :=
  match x with
  | SList [cf; SList its] =>
    match d_mcfg cf, sequence (map d_item its) with
    | Some c, Some l =>
      match module_slots c l l with
      | Some slots =>
        "ok " ++ print (SList (map (fun e =>
           match what_of e with
           | WSlot s => SList [Atom (nat_dec (id_of e)); Atom (name_of e);
                               Atom (slot_routine (m_boost c) (name_of e) s);
                               Atom (fst (m_site (m_module c) (id_of e) s));
                               Atom (snd (m_site (m_module c) (id_of e) s))]
           | WUpcast cls cpp => SList [Atom (nat_dec (id_of e)); Atom (name_of e);
                                       Atom (upcast_routine (name_of e) cpp); Atom ""; Atom ""]
           end) (table_from 0 slots)))
      | None => "err assertion"
      end
    | _, _ => "baddecode"
    end
  | _ => "badshape"
  end.

(* mlfiles (qbits cfg items) -> (files) (skeletons) (preamble classes) *)
Definition e_fkind (k : fkind) : sexp :=
  Atom (match k with FClassdef => "classdef" | FEnum => "enum" | FFunction => "function" | FMex => "mex" end).
Definition run_mlfiles (x : sexp) : string :=
  match x with
  | SList [Atom qs; cf; SList its] =>
    match d_mcfg cf, sequence (map d_item its) with
    | Some c, Some l =>
      let q := {| q_enum_path := bit qs 0 |} in
      "ok " ++ print (SList [
        SList (map (fun p => SList [Atom (fst p); e_fkind (snd p)]) (module_files q c l));
        SList (map (fun p => let sk := snd p in
                             SList [Atom (fst p); Atom (sk_name sk); Atom (sk_base sk); Atom (sk_ptr sk);
                                    e_list e_str (sk_props sk); e_list e_str (sk_methods sk); e_list e_str (sk_statics sk)])
                   (flat_map (skeletons c []) l));
        SList (map (fun k => SList [Atom (collector_name k); Atom (collector_cpp k); e_bool (ic_virtual k);
                                    Atom (iclass_cpp k); e_bool (match ic_insts k with [] => false | _ => true end);
                                    Atom (ic_name k)])
                   (preamble_classes c l))])
    | _, _ => "baddecode"
    end
  | _ => "badshape"
  end.

(* ---- C17 ---- *)
Fixpoint d_xml (x : sexp) : option xml :=
  match x with
  | SList [Atom tag; SList attrs; Atom text; SList children; Atom tail] =>
    do a <- sequence (map (fun kv => match kv with SList [Atom k; Atom v] => Some (k, v) | _ => None end) attrs);
    do c <- sequence (map d_xml children);
    Some (Elem tag a text c tail)
  | _ => None
  end.
Definition e_outcome (o : outcome) : sexp :=
  match o with Doc s => SList [Atom "doc"; Atom s] | Crash w => SList [Atom "crash"; Atom w] end.
(* xmldoc (index? ((refid xml)...) ((cls method (args...))...)) -> outcomes of the queries in order, one memory *)
Definition run_xmldoc (x : sexp) : string :=
  match x with
  | SList [idx; SList files; SList queries] =>
    match d_opt d_xml idx,
          sequence (map (fun f => match f with SList [Atom r; t] => option_map (fun t' => (r, t')) (d_xml t) | _ => None end) files),
          sequence (map (fun qy => match qy with
                                   | SList [Atom c; Atom m; a] => option_map (fun a' => (c, m, a')) (d_list d_str a)
                                   | _ => None end) queries) with
    | Some i, Some fs, Some qs =>
      let cf := fun r => match find (fun p => String.eqb (fst p) r) fs with Some p => Some (snd p) | None => None end in
      let '(outs, _) := fold_left (fun acc qy =>
                                     let '(os, mem) := acc in
                                     let '(cm, a) := qy in
                                     let '(o, mem') := extract i cf (fst cm) (snd cm) a mem in
                                     ((os ++ [o])%list, mem')) qs ([], []) in
      "ok " ++ print (SList (map e_outcome outs))
    | _, _, _ => "baddecode"
    end
  | _ => "badshape"
  end.
Definition e_nlist (l : list N) : sexp := SList (map (fun n => Atom (nat_dec (N.to_nat n))) l).
(* literal (code points...) -> (literal code points) (decoded bytes or none) (utf8 bytes) *)
Definition run_literal (x : sexp) : string :=
  match d_list d_nat x with
  | Some l =>
    let s := map N.of_nat l in
    "ok " ++ print (SList [e_nlist (literal s);
                           match cpp_decode (literal s) with Some b => SList [e_nlist b] | None => SList [] end;
                           e_nlist (utf8s s); e_bool (forallb plain s)])
  | None => "baddecode"
  end.

(* ---- C18 ---- *)
Definition z_str (z : Z) : string :=
  match z with
  | Z0 => "0"
  | Zpos p => nat_dec (Pos.to_nat p)
  | Zneg p => "-" ++ nat_dec (Pos.to_nat p)
  end.
(* decimal Z from an atom (optional leading -); digits accumulate in Z, no nat detour for big values *)
Definition d_z (x : sexp) : option Z :=
  match x with
  | Atom s =>
    let fix go (s : string) (acc : Z) : option Z :=
        match s with
        | EmptyString => Some acc
        | String c r => let n := nat_of_ascii c in
                        if andb (Nat.leb 48 n) (Nat.leb n 57) then go r (acc * 10 + Z.of_nat (n - 48))%Z else None
        end in
    match s with
    | String "-"%char r => option_map Z.opp (go r 0%Z)
    | _ => go s 0%Z
    end
  | _ => None
  end.
Fixpoint z_dec_aux (fuel : nat) (z : Z) (acc : string) : string :=
  match fuel with
  | O => acc
  | S f => let acc' := String (ascii_of_nat (48 + Z.to_nat (z mod 10))) acc in
           if (z <? 10)%Z then acc' else z_dec_aux f (z / 10) acc'
  end.
Definition z_dec (z : Z) : string :=
  if (z <? 0)%Z then "-" ++ z_dec_aux 80 (- z) "" else z_dec_aux 80 z "".
Definition e_mx (a : mx) : sexp :=
  SList [Atom (match mx_class a with CUint64 => "uint64" | CInt64 => "int64" | CDouble => "double" | CChar => "char" | COther => "other" end);
         Atom (nat_dec (mx_m a)); Atom (nat_dec (mx_n a)); SList (map (fun c => Atom (z_dec c)) (mx_cells a));
         SList (map (fun c => Atom (z_dec c)) (mx_chars a))].
Definition e_zres (r : mres Z) : sexp :=
  match r with MOk v => SList [Atom "ok"; Atom (z_dec v)] | MErr e => SList [Atom "error"; Atom (nat_dec e)] end.
Definition e_lres (r : mres (list Z)) : sexp :=
  match r with MOk v => SList [Atom "ok"; SList (map (fun c => Atom (z_dec c)) v)]
          | MErr e => SList [Atom "error"; Atom (nat_dec e)] end.
(* mx (type value...) -> (array) (unwrapped) *)
Definition run_mx (x : sexp) : string :=
  match x with
  | SList (Atom t :: args) =>
    match sequence (map d_z args) with
    | None => "baddecode"
    | Some zs =>
      let one := match zs with z :: _ => z | [] => 0%Z end in
      if String.eqb t "bool" then
        let a := wrap_bool (negb (one =? 0)%Z) in
        "ok " ++ print (SList [e_mx a; match unwrap_bool a with MOk b => SList [Atom "ok"; Atom (if b then "1" else "0")]
                                                    | MErr e => SList [Atom "error"; Atom (nat_dec e)] end])
      else if String.eqb t "char" then "ok " ++ print (SList [e_mx (wrap_char one); e_zres (unwrap_char (wrap_char one))])
      else if String.eqb t "uchar" then "ok " ++ print (SList [e_mx (wrap_uchar one); e_zres (unwrap_uchar (wrap_uchar one))])
      else if String.eqb t "int" then "ok " ++ print (SList [e_mx (wrap_int one); e_zres (unwrap_int (wrap_int one))])
      else if String.eqb t "size_t" then "ok " ++ print (SList [e_mx (wrap_size_t one); e_zres (unwrap_size_t (wrap_size_t one))])
      else if String.eqb t "double" then "ok " ++ print (SList [e_mx (wrap_double one); e_zres (unwrap_double (wrap_double one))])
      else if String.eqb t "string" then "ok " ++ print (SList [e_mx (wrap_string zs); e_lres (unwrap_string (wrap_string zs))])
      else if String.eqb t "vector" then "ok " ++ print (SList [e_mx (wrap_vector zs); e_lres (unwrap_vector (wrap_vector zs))])
      else if String.eqb t "matrix" then
        match zs with
        | m :: n :: rest =>
          let m' := Z.to_nat m in let n' := Z.to_nat n in
          let A := fun i j => nth (i * n' + j) rest 0%Z in     (* row-major on the wire *)
          let a := wrap_matrix m' n' A in
          match unwrap_matrix a with
          | MOk (m2, n2, B) =>
            "ok " ++ print (SList [e_mx a; SList [Atom (nat_dec m2); Atom (nat_dec n2);
                                                  SList (flat_map (fun i => map (fun j => Atom (z_dec (B i j))) (seq 0 n2)) (seq 0 m2))]])
          | MErr e => "ok " ++ print (SList [e_mx a; SList [Atom "error"; Atom (nat_dec e)]])
          end
        | _ => "badshape"
        end
      else "badtype"
    end
  | _ => "badshape"
  end.

(* ---- C11 ---- *)
(* gateway (((name base? virtual)...) (op...)) with objects named by creation index ->
   per step: (collector sizes per class) (live objects per dynamic class) double-free within-protocol *)
Definition d_cinfo (x : sexp) : option cinfo :=
  match x with
  | SList [Atom n; b; v] =>
    match d_opt d_str b, d_bool v with
    | Some b', Some v' => Some {| ci_name := n; ci_base := b'; ci_virtual := v' |}
    | _, _ => None
    end
  | _ => None
  end.
Definition d_gop (objmap : list nat) (x : sexp) : option gop :=
  match x with
  | SList [Atom "new"; m; Atom c] => option_map (fun m' => Construct m' c) (d_nat m)
  | SList [Atom "recv"; m; Atom c; i; v] =>
    match d_nat m, d_nat i, d_bool v with
    | Some m', Some i', Some v' => match nth_error objmap i' with Some o => Some (Receive m' c o v') | None => None end
    | _, _, _ => None
    end
  | SList [Atom "make"; m; Atom c; Atom d; v] =>
    match d_nat m, d_bool v with Some m', Some v' => Some (Make m' c d v') | _, _ => None end
  | SList [Atom "del"; m] => option_map Delete (d_nat m)
  | SList [Atom "unload"] => Some Unload
  | _ => None
  end.
Definition creates (op : gop) : bool := match op with Construct _ _ | Make _ _ _ _ => true | _ => false end.
Definition run_gateway (x : sexp) : string :=
  match x with
  | SList [cl; SList ops] =>
    match d_list d_cinfo cl with
    | Some classes =>
      let names := map ci_name classes in
      let '(outs, _, _) :=
          fold_left (fun acc o =>
                       let '(os, st, objmap) := acc in
                       match d_gop objmap o with
                       | None => ((os ++ [Atom "badop"])%list, st, objmap)
                       | Some op =>
                         let ok := op_ok st op in
                         let objmap' := if creates op then (objmap ++ [g_next st])%list else objmap in
                         let st' := step classes st op in
                         let obs := SList [SList (map (fun n => Atom (nat_dec (collector_size st' n))) names);
                                           SList (map (fun n => Atom (nat_dec (live_of_class st' n))) names);
                                           e_bool (double_free st'); e_bool ok] in
                         ((os ++ [obs])%list, st', objmap')
                       end) ops ([], ginit, []) in
      "ok " ++ print (SList outs)
    | None => "baddecode"
    end
  | _ => "badshape"
  end.

(* ---- C01 / C07 / C12 ---- *)
(* parse "text" -> ok (decl...) | err <exception class> | unsupported *)
Definition run_parse (x : sexp) : string :=
  match x with
  | Atom text => show_res (fun ds => SList (map e_decl ds)) (Build.parse_module Grammar.grammar text)
  | _ => "badshape"
  end.
(* default "text" -> the slice DEFAULT_ARG takes from the start of text, and what is left *)
Definition run_default (x : sexp) : string :=
  match x with
  | Atom text => match Peg.default_arg (Peg.expandtabs (Peg.chars_of text)) with
                 | Some (t, r) => "ok " ++ print (SList [Atom (Peg.string_of t); Atom (Peg.string_of r)])
                 | None => "err none"
                 end
  | _ => "badshape"
  end.

(* layout "text" -> (skeleton as a string: solid characters, a blank for every filler run) (strict parse answers: T/F) *)
Definition skel_string (k : list (option Ascii.ascii)) : string :=
  Peg.string_of (map (fun o => match o with Some c => c | None => " "%char end) k).
Definition run_layout (x : sexp) : string :=
  match x with
  | Atom text =>
    match Layout.skeleton text with
    | Some k => "ok " ++ print (SList [Atom (skel_string k);
                                       e_bool (match LayoutModule.strict_parse Grammar.grammar text with Peg.NoFuel => false | _ => true end)])
    | None => "err noskeleton"
    end
  | _ => "badshape"
  end.

(* printdecls (decl...) -> ok "text" when the list is in the domain of the module round-trip theorem
   (Parse/RoundTripDec.v: printed_decls_parse_back), outside otherwise *)
Definition run_printdecls (x : sexp) : string :=
  match x with
  | SList ds =>
    match sequence (map d_decl ds) with
    | Some m => match RoundTripDec.print_decls m with
                | Some text => "ok " ++ print (Atom text)
                | None => "outside"
                end
    | None => "baddecode"
    end
  | _ => "badshape"
  end.

Definition run (line : string) : string :=
  let '(cmd, rest) := split_cmd line EmptyString in
  match read rest with
  | None => "badsexp"
  | Some x =>
    if String.eqb cmd "inst" then run_inst x
    else if String.eqb cmd "instproj" then run_instproj x
    else if String.eqb cmd "proj" then run_proj x
    else if String.eqb cmd "pybind" then run_pybind x
    else if String.eqb cmd "pybind_e2e" then run_pybind_e2e x
    else if String.eqb cmd "mlids" then run_mlids x
    else if String.eqb cmd "mltexts" then run_mltexts x
    else if String.eqb cmd "mlfiles" then run_mlfiles x
    else if String.eqb cmd "xmldoc" then run_xmldoc x
    else if String.eqb cmd "literal" then run_literal x
    else if String.eqb cmd "mx" then run_mx x
    else if String.eqb cmd "gateway" then run_gateway x
    else if String.eqb cmd "parse" then run_parse x
    else if String.eqb cmd "layout" then run_layout x
    else if String.eqb cmd "default" then run_default x
    else if String.eqb cmd "printdecls" then run_printdecls x
    else if String.eqb cmd "echo" then print x
    else "badcmd"
  end.

(* C12 - layout and comments never change the result. *)
From Coq Require Import String Ascii List Bool Arith.
From Wrap Require Import Base.Str Syntax.Ast Inst.Model Parse.Peg Parse.Build Parse.Spec Parse.Layout Parse.Insert Parse.LayoutModule.
From Wrap Require gen.Grammar.
Import ListNotations.
Open Scope string_scope.
Open Scope list_scope.

(* tie: the grammar regenerated from the live pyparsing objects is the one below; its two hand-modelled scanners
   (DEFAULT_ARG, the comment expression) are unchanged *)
Theorem C12_grammar_is_spec : Grammar.grammar = spec_grammar.
Proof. vm_compute. reflexivity. Qed.
Print Assumptions C12_grammar_is_spec.
Theorem C12_comment_is_modelled : Grammar.comment_fingerprint = comment_expected.
Proof. reflexivity. Qed.
Print Assumptions C12_comment_is_modelled.

(* Two texts have the same skeleton when they consist of the same characters outside white space and comments, in
   the same order, with filler runs - of any length >= 1 and any content: blanks, tabs, line breaks, CR LF, /* */ and
   // comments holding braces, quotes, semicolons, keywords - at the same places.
   For EVERY grammar over pyparsing's terminals, and so for the one of gtwrap.interface_parser: if the parse of the
   first text never reaches a default value, an #include path or a two-word keyword whose words are separated by
   filler (strict_parse answers), then Module.parseString gives the same result for both texts. *)
Theorem C12_layout_independent : forall text text' k,
  skeleton text = Some k -> skeleton text' = Some k ->
  strict_parse spec_grammar text <> NoFuel ->
  parse_module spec_grammar text' <> Unsupported "fuel" ->
  parse_module spec_grammar text = parse_module spec_grammar text'.
Proof. exact (parse_module_layout spec_grammar). Qed.
Print Assumptions C12_layout_independent.


(* Second step: one blank put between two adjacent solid characters x y.  The run in which every terminal that could
   match across the pair aborts (a literal or keyword containing "xy", a word over both, a keyword starting at y after a
   keyword character x, a keyword ending at x before a keyword character y; and, as before, defaults / #include /
   two-word keywords) must answer; the text is free of '/' (comments are first turned into blanks by the first step). *)
Theorem C12_insert_blank : forall text text' U x y V,
  solid x = true -> solid y = true ->
  expandtabs (chars_of text) = U ++ x :: y :: V ->
  expandtabs (chars_of text') = U ++ x :: " "%char :: y :: V ->
  no_slash (U ++ x :: y :: V) = true ->
  strict_ins x y spec_grammar text <> NoFuel ->
  parse_module spec_grammar text' <> Unsupported "fuel" ->
  parse_module spec_grammar text = parse_module spec_grammar text'.
Proof. exact (parse_module_insert spec_grammar). Qed.
Print Assumptions C12_insert_blank.

(* Re-layouts: every finite composition, in either direction, of "refill the gaps" and "open a gap" steps. *)
Theorem C12_relayout : forall t t', relayout spec_grammar t t' -> parse_module spec_grammar t = parse_module spec_grammar t'.
Proof. exact (relayout_same_parse spec_grammar). Qed.
Print Assumptions C12_relayout.

(* non-vacuity: from the tight spelling to a spaced and commented one in five steps *)
Definition r0 : string := "void f(int x,K<A>y);".
Definition r1 : string := "void f (int x,K<A>y);".
Definition r2 : string := "void f ( int x,K<A>y);".
Definition r3 : string := "void f ( int x, K<A>y);".
Definition r4 : string := "void f ( int x, K<A> y);".
Definition r5 : string := "void f ( /* (1) { */ int x,  // second
    K<A>   y);".
Ltac blank_step U x y V :=
  apply (rl_blank spec_grammar _ _ U x y V); [reflexivity | reflexivity | reflexivity | reflexivity | reflexivity
                                              | vm_compute; discriminate | vm_compute; discriminate].
Example C12_relayout_nonvacuous : relayout spec_grammar r0 r5 /\ (exists ds, parse_module spec_grammar r5 = Ok ds /\ length ds = 1).
Proof.
  split.
  - apply (rl_trans _ _ r1). { blank_step (chars_of "void ") "f"%char "("%char (chars_of "int x,K<A>y);"). }
    apply (rl_trans _ _ r2). { blank_step (chars_of "void f ") "("%char "i"%char (chars_of "nt x,K<A>y);"). }
    apply (rl_trans _ _ r3). { blank_step (chars_of "void f ( int x") ","%char "K"%char (chars_of "<A>y);"). }
    apply (rl_trans _ _ r4). { blank_step (chars_of "void f ( int x, K<A") ">"%char "y"%char (chars_of ");"). }
    apply (rl_fill spec_grammar r4 r5 (match skeleton r4 with Some k => k | None => [] end));
      [vm_compute; reflexivity | vm_compute; reflexivity | vm_compute; discriminate | vm_compute; discriminate].
  - eexists. split; vm_compute; reflexivity.
Qed.

(* the same for any grammar and any start expression, at the level of match trees *)
Theorem C12_layout_independent_generic : forall g e s s' k f f', Skel s k -> Skel s' k ->
  strict g f e {| pk := false; rest := s |} <> NoFuel ->
  interp g f' e {| pk := false; rest := s' |} <> NoFuel ->
  same_answer (interp g f e {| pk := false; rest := s |}) (interp g f' e {| pk := false; rest := s' |}).
Proof. exact layout_independent. Qed.
Print Assumptions C12_layout_independent_generic.

(* Full statement (every pair of texts with one skeleton) refuted, three ways; each is a recorded finding. *)
Definition C12_full : Prop := forall text text' k,
  skeleton text = Some k -> skeleton text' = Some k -> parse_module spec_grammar text = parse_module spec_grammar text'.

Theorem C12_refuted_two_word_keyword : ~ C12_full.
Proof.
  intros H. specialize (H "void f(unsigned char x);" "void f(unsigned  char x);").
  vm_compute in H. specialize (H _ eq_refl eq_refl). discriminate H.
Qed.
Print Assumptions C12_refuted_two_word_keyword.

Theorem C12_refuted_comment_glued_to_default : ~ C12_full.
Proof.
  intros H. specialize (H "void f(int x = 3 /* c */);" "void f(int x = 3/* c */);").
  vm_compute in H. specialize (H _ eq_refl eq_refl). discriminate H.
Qed.
Print Assumptions C12_refuted_comment_glued_to_default.

Theorem C12_refuted_include_blanks : ~ C12_full.
Proof.
  intros H. specialize (H "#include <a.h /**/>" "#include <a.h  >").
  vm_compute in H. specialize (H _ eq_refl eq_refl). discriminate H.
Qed.
Print Assumptions C12_refuted_include_blanks.

(* non-vacuity (gaps of layout_a refilled with line breaks, tabs and comments holding braces, quotes, semicolons and
   comment openers): templates with instantiation lists, nested template arguments, namespaces, classes with every kind of
   member; comments holding braces, quotes and a comment opener *)
Definition layout_a : string :=
  "namespace ns { template<T = {A, ns::B<C>}> virtual class K : Base<T> { K(const T& x, std::vector<ns::B<T*>> v); static T* make(int n); void f() const; pair<T, int> g(K@ k); }; typedef ns::B<A> BA; }".
Definition layout_b : string :=
  "namespace
  ns // class X {};
   {/* // */template<T
=// it's a {
{A, // class X {};
   ns::B<C>}>	virtual // class X {};
   class  K // class X {};
   : Base<T>	{/* } */K(const/* // */T&
  x,
  std::vector<ns::B<T*>>	v);/* // */static/* // */T*	make(int /* ""; */ n);
void
  f()
const;/* // */pair<T, /* ""; */ int> g(K@  k);
}; // class X {};
   typedef ns::B<A>/* } */BA; }".
Example C12_nonvacuous :
  skeleton layout_a <> None /\ skeleton layout_a = skeleton layout_b /\ layout_a <> layout_b /\
  strict_parse spec_grammar layout_a <> NoFuel /\
  (exists ds, parse_module spec_grammar layout_b = Ok ds /\ length ds = 1).
Proof.
  vm_compute. repeat split; try discriminate. eexists. split; reflexivity.
Qed.

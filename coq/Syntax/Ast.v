(* The parse tree built by gtwrap.interface_parser and the instantiated tree built by
   gtwrap.template_instantiator, as data.  Definitions only. *)
From Coq Require Import String List Bool.
Import ListNotations.

(* After instantiation a template argument's `name` may hold a whole Typename object
   (helpers.py:63); NObj records that. *)
Inductive typename : Type :=
| Typename (ns : list string) (name : nm) (insts : list typename)
with nm : Type :=
| NStr (s : string)
| NObj (t : typename).

Inductive ptrk := PNone | PShared (* '*' *) | PRaw (* '@' *) | PRef (* '&' *).

Inductive ty : Type :=
| TPlain (tn : typename) (cst : bool) (p : ptrk) (basic : bool)
| TTempl (ns : list string) (name : nm) (params : list ty) (cst : bool) (p : ptrk).

Inductive ret := RSingle (t : ty) | RPair (t1 t2 : ty).

Record arg := { a_ty : ty; a_name : string; a_default : option string }.
Record template := { t_names : list string; t_insts : list (list typename) }.
Record method := { m_tmpl : option template; m_name : string; m_ret : ret;
                   m_args : list arg; m_const : bool }.
Record smethod := { s_tmpl : option template; s_name : string; s_ret : ret; s_args : list arg }.
Record ctor := { k_tmpl : option template; k_name : string; k_args : list arg }.
Record oper := { o_sym : string; o_ret : ret; o_args : list arg; o_const : bool }.
Record dunder := { du_name : string; du_args : list arg }.
Record var := { v_ty : ty; v_name : string; v_default : option string }.
Record enum := { e_name : string; e_items : list string }.
Inductive base := BTempl (t : ty) | BName (tn : typename).
Record class := { c_tmpl : option template; c_virtual : bool; c_name : string;
                  c_base : option base;
                  c_ctors : list ctor; c_methods : list method; c_statics : list smethod;
                  c_dunders : list dunder; c_props : list var; c_ops : list oper;
                  c_enums : list enum }.
Record func := { f_tmpl : option template; f_name : string; f_ret : ret; f_args : list arg }.
Record fwd := { fw_virtual : bool; fw_tn : typename; fw_parent : option typename }.

Inductive decl : Type :=
| DClass (c : class)
| DFun (f : func)
| DTypedef (target : typename) (new_name : string)
| DFwd (f : fwd)
| DInclude (header : string)
| DEnum (e : enum)
| DVar (v : var)
| DNamespace (name : string) (content : list decl).

(* ---- instantiated tree ---- *)
(* `home` is the namespace path (outermost first, without the leading '') obtained from the
   implementation's parent links: for a typedef'd instantiation it is the template's scope. *)
Record imethod := { im_orig : string; im_templated : bool; im_insts : list typename;
                    im_name : string; im_ret : ret; im_args : list arg; im_const : bool }.
Record ismethod := { is_orig : string; is_templated : bool; is_insts : list typename;
                     is_name : string; is_ret : ret; is_args : list arg }.
Record ictor := { ik_orig : string; ik_templated : bool; ik_insts : list typename;
                  ik_name : string; ik_args : list arg }.
Record iclass := { ic_home : list string; ic_orig : string; ic_templated : bool;
                   ic_insts : list typename; ic_name : string; ic_virtual : bool;
                   ic_base : option typename;
                   ic_ctors : list ictor; ic_methods : list imethod; ic_statics : list ismethod;
                   ic_dunders : list dunder; ic_props : list var; ic_ops : list oper;
                   ic_enums : list enum }.
Record ifunc := { if_home : list string; if_orig : string; if_templated : bool;
                  if_insts : list typename; if_name : string; if_ret : ret; if_args : list arg }.
Record idecl := { id_home : list string; id_orig : string; id_insts : list typename;
                  id_name : string }.

Inductive item : Type :=
| IClass (c : iclass)
| IFun (f : ifunc)
| IDecl (d : idecl)
| IFwd (f : fwd)
| IInclude (header : string)
| IEnum (e : enum)
| IVar (v : var)
| INamespace (name : string) (content : list item).

"""C08 - exactly the requested instantiations exist, in order, with stable names."""
import sexp
from props import instcommon as ic

TRUSTED = ['harness/proj_impl.py (calls the implementation\'s own to_cpp())']


def project(p):
    """names, order, C++ names, scopes; member lists by (name, cpp name)"""
    out = []
    for it in p:
        k = it[0]
        if k == 'class':
            out.append(['class', it[1], it[2], it[3],
                        [[c[0], c[1]] for c in it[5]], [[m[0], m[1]] for m in it[6]],
                        [[m[0], m[1]] for m in it[7]], [v[1] for v in it[8]], [o[0] for o in it[9]]])
        elif k == 'fun':
            out.append(['fun', it[1], it[2], it[3]])
        elif k == 'ns':
            out.append(['ns', it[1], project(it[2])])
        else:
            out.append(it)
    return out


def run(rep, tier, seed, replay=None, proof_ok=True):
    rep.coverage['rule'] = ('fixtures + committed corpus + seeded structured generator (gen_inputs.py); '
                            'non-trivial = distinct parse tree with at least one class or function; compared: '
                            'whole instantiated tree and the C08 projection (names, order, to_cpp names, scopes)')
    q = ic.detect_quirks()
    rep.coverage['quirks_detected'] = dict(zip(ic.QUIRK_BITS, q))
    report_known(rep, q, 'C08')
    if replay:
        import json
        texts = [('replay', json.load(open(replay))['input'])]
        stats = {}
    else:
        texts, stats = ic.gen_texts(tier, seed, 300, 6000)
    rep.coverage['input_distribution'] = stats
    dis = ic.compare_all(rep, texts, q, project, 'C08')
    decide(rep, dis, 'C08', 'correspondence impl.instantiate_namespace vs Inst/Model.v on the C08 projection')
    source_lists(rep, texts)
    return 0


def tmpl_nodes(x, acc):
    if isinstance(x, list):
        if x and x[0] == 'tmpl':
            acc.append(sexp.dumps(x))
        for y in x:
            tmpl_nodes(y, acc)
    return acc


def source_lists(rep, texts):
    """"exactly the product of THOSE lists": the lists the instantiator starts from (the parse tree's template nodes) must be
    the lists written in the file - every entry, repeated entries included, in order.  The reference is the model's parser
    (Parse/Peg.v on the regenerated grammar + Parse/Build.v), which keeps every entry."""
    import common
    from props import parsecommon as pc
    model = common.Model()
    shown = 0
    try:
        # one process, one text after the other: corpus and fixtures first, then at most 600 generated texts (the thorough
        # tier's 4000 took more than an hour here)
        for name, text in texts[:700]:
            i = pc.impl_parse(text)
            if i[0] != 'ok':
                continue
            m = pc.model_parse(model, text)
            if m[0] != 'ok':
                rep.bump('source_lists_model_' + m[0])
                continue
            a, b = tmpl_nodes(sexp.loads(sexp.dumps(i[1])), []), tmpl_nodes(m[1], [])
            if a != b:
                if shown < 3:
                    shown += 1
                    rep.violation({'kind': 'counterexample', 'what': 'the template parameter / instantiation lists of the parse tree are '
                                   'not the lists written in the file, so the instantiations are not their product', 'input': text,
                                   'implementation': a[:6], 'source': b[:6]})
            else:
                rep.bump('source_lists_equal')
    finally:
        model.close()


def report_known(rep, q, prop):
    for f in ic.known_findings():
        if f['property'] != prop or not f.get('quirk'):
            continue
        on = q[ic.QUIRK_BITS.index(f['quirk'])] == '1'
        if on and f['status'] == 'open':
            rep.known('%s: %s [witness: %s]' % (f['id'], f['what_fails'], f['witness']))
        elif on and f['status'] == 'fixed':
            rep.violation({'kind': 'counterexample', 'what': 'fixed finding returned: ' + f['id'],
                           'input': f['witness']})
        elif not on and f['status'] == 'open':
            rep.bump('open_finding_absent:' + f['id'])


def decide(rep, dis, prop, what):
    """every disagreement on the property's projection is a violation: with the input as replay when
    the implementation's output also differs from the specification M(000), otherwise
    no-failing-input-found (the tie is broken, the property is no longer shown to hold)"""
    shown = 0
    for name, text, kind, a, b in dis:
        if kind == 'tree':
            continue
        if shown >= 3:
            break
        shown += 1
        rep.violation({'kind': 'counterexample' if kind == 'projection' else 'broken-correspondence',
                       'what': what, 'case': name, 'input': text, 'disagreement': kind,
                       'impl': sexp.dumps(a)[:3000] if not isinstance(a, str) else a[:3000],
                       'model': sexp.dumps(b)[:3000] if not isinstance(b, str) else b[:3000]})
    rep.coverage['tree_differences_outside_projection'] = len([d for d in dis if d[2] == 'tree'])

"""compile helpers for the C++ side of the harness (real matlab.h from /repo, mock MEX API)"""
import hashlib
import os
import subprocess

import common

CXX = os.path.join(common.VERIF, 'harness', 'cxx')
OUT = os.path.join(common.BUILD, 'cxx')


def compile_driver(src, name, extra_includes=(), flags=('-O1', ), deps=()):
    """g++ -std=c++17 with the mock headers and /repo (matlab.h) on the include path; cached by content hash"""
    os.makedirs(OUT, exist_ok=True)
    h = hashlib.sha256()
    for f in [src, common.REPO + '/matlab.h', os.path.join(CXX, 'mock', 'mex.h'), os.path.join(CXX, 'mock', 'mex_impl.h')] + list(deps):
        h.update(open(f, 'rb').read())
    h.update(repr(flags).encode())
    exe = os.path.join(OUT, '%s-%s' % (name, h.hexdigest()[:16]))
    if os.path.exists(exe):
        return exe, ''
    cmd = ['g++', '-std=c++17'] + list(flags) + ['-I', os.path.join(CXX, 'mock'), '-I', common.REPO]
    for i in extra_includes:
        cmd += ['-I', i]
    cmd += ['-o', exe + '.tmp', src]
    p = subprocess.run(cmd, capture_output=True, text=True, timeout=600)
    if p.returncode != 0:
        return None, p.stderr[-3000:]
    os.replace(exe + '.tmp', exe)
    return exe, p.stderr[-500:]

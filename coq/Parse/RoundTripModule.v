(* C01 at the level of Module.parseString: a whole file of function declarations, printed one blank before every
   token, is parsed by parse_module (Parse/Build.v) into exactly the declarations it was printed from.
   The new ingredients over Parse/RoundTrip.v: the eight-way alternation of the module content (Or = longest match,
   the first listed among equals) picks GlobalFunction because every other alternative fails on the text of a
   function; the repetition consumes one declaration per round and stops at the end of the text; StringEnd. *)
From Coq Require Import String Ascii List Bool Arith Lia.
From Wrap Require Import Base.Str Base.ListX Syntax.Ast Syntax.Print Inst.Model Parse.Peg Parse.PegProofs Parse.Build Parse.Spec
     Parse.Layout Parse.RoundTrip Parse.RoundTripPair.
Import ListNotations.
Open Scope list_scope.

Notation g := spec_grammar.

(* words that start another kind of declaration *)
Definition other_keywords : list chars :=
  map chars_of ["virtual"; "class"; "typedef"; "enum"; "template"; "pair"]%string.
Definition knamespace : chars := chars_of "namespace".
Definition decl_keywords : list chars := knamespace :: other_keywords.

Ltac noblank := vm_compute; intuition discriminate.
Definition lbrace : chars := ["{"%char].
Definition rbrace : chars := ["}"%char].

(* unfold a rule reference to its body in the grammar *)
Ltac rule name :=
  let b := eval cbv -[alpha_ alnum_ digits] in (lookup g name) in
  match b with Some ?body => rewrite (i_ref _ _ name body eq_refl) end.

Section Alternatives.
  Variables (p : bool) (h r : chars).
  Hypothesis Hw : word h.
  Hypothesis B : boundary r.
  Hypothesis Hk : ~ In h other_keywords.

  Lemma kw_fails : forall f (k : string), ~ In " "%char (chars_of k) -> (In (chars_of k) other_keywords \/ ~ word (chars_of k)) ->
    interp g (S f) (GTerm (TKw k)) {| pk := p; rest := sp h r |} = Fail.
  Proof.
    intros f k Hb Hin. apply (kw_word_fail f p k h r Hw B (safe_nospace _ _ Hb)).
    intros E. destruct Hin as [Hin|Hnw]; [apply Hk; rewrite <- E; exact Hin | apply Hnw; rewrite E; exact Hw].
  Qed.

  Lemma fwd_fails : forall f, interp g (9 + f) (GRef "ForwardDeclaration") {| pk := p; rest := sp h r |} = Fail.
  Proof.
    intros f. cbn [Nat.add]. rule "ForwardDeclaration"%string.
    rewrite i_and, seq_cons, i_and, seq_cons, i_and, seq_cons, i_and, seq_cons, i_opt, i_name.
    rewrite (kw_fails _ "virtual") by (try noblank; left; vm_compute; tauto).
    rewrite seq_cons. rewrite (kw_fails _ "class") by (try noblank; left; vm_compute; tauto). reflexivity.
  Qed.

  Lemma hash_not_word : ~ word (chars_of "#include").
  Proof. intros [_ H]. vm_compute in H. discriminate. Qed.

  Lemma include_fails : forall f, interp g (6 + f) (GRef "Include") {| pk := p; rest := sp h r |} = Fail.
  Proof.
    intros f. cbn [Nat.add]. rule "Include"%string.
    rewrite i_and, seq_cons, i_and, seq_cons, i_and, seq_cons.
    rewrite (kw_fails _ "#include") by (try noblank; right; exact hash_not_word). reflexivity.
  Qed.

  Lemma class_fails : forall f, interp g (18 + f) (GRef "Class") {| pk := p; rest := sp h r |} = Fail.
  Proof.
    intros f. cbn [Nat.add]. rule "Class"%string.
    rewrite i_and, seq_cons, i_and, seq_cons, i_and, seq_cons, i_and, seq_cons, i_and, seq_cons, i_and, seq_cons, i_and, seq_cons,
            i_and, seq_cons.
    assert (Ht : h <> ktemplate) by (intros E; apply Hk; rewrite E; vm_compute; tauto).
    pose proof (template_opt_none (2 + f) p h r Hw B Ht) as T. unfold TEMPLATE_OPT in T. cbn [Nat.add] in T. rewrite T. clear T.
    rewrite seq_cons, i_opt, i_name.
    rewrite (kw_fails _ "virtual") by (try noblank; left; vm_compute; tauto).
    cbn [app]. rewrite ?seq_nil. cbn [app]. rewrite ?seq_cons.
    rewrite (kw_fails _ "class") by (try noblank; left; vm_compute; tauto). reflexivity.
  Qed.

  Lemma typedef_fails : forall f, interp g (6 + f) (GRef "TypedefTemplateInstantiation") {| pk := p; rest := sp h r |} = Fail.
  Proof.
    intros f. cbn [Nat.add]. rule "TypedefTemplateInstantiation"%string.
    rewrite i_and, seq_cons, i_and, seq_cons, i_and, seq_cons.
    rewrite (kw_fails _ "typedef") by (try noblank; left; vm_compute; tauto). reflexivity.
  Qed.

  Lemma safe_enum : forall w : string, safe (chars_of ("enum " ++ w)) h.
  Proof.
    intros w k' E. apply Hk. assert (X : chars_of "enum" = h).
    { apply (first_blank (chars_of "enum") h (chars_of w) k').
      - noblank.
      - apply word_no_blank. exact (proj2 Hw).
      - rewrite <- E. clear. cbn. reflexivity. }
    rewrite <- X. vm_compute. tauto.
  Qed.

  Lemma enum_fails : forall f, interp g (10 + f) (GRef "Enum") {| pk := p; rest := sp h r |} = Fail.
  Proof.
    intros f. cbn [Nat.add]. rule "Enum"%string.
    rewrite i_and, seq_cons, i_and, seq_cons, i_and, seq_cons, i_and, seq_cons, i_and, seq_cons, i_or.
    cbn [alt_longest]. rewrite i_or. cbn [alt_longest].
    rewrite (kw_fails _ "enum") by (try noblank; left; vm_compute; tauto).
    assert (D : forall w : string, chars_of ("enum " ++ w) <> h).
    { intros w E. apply (word_no_blank h (proj2 Hw)). rewrite <- E. cbn. right. right. right. right. left. reflexivity. }
    rewrite (kw_word_fail _ p "enum class" h r Hw B (safe_enum "class") (D "class")).
    rewrite (kw_word_fail _ p "enum struct" h r Hw B (safe_enum "struct") (D "struct")). reflexivity.
  Qed.

  Lemma namespace_fails : forall f, h <> knamespace ->
    interp g (7 + f) (GRef "Namespace") {| pk := p; rest := sp h r |} = Fail.
  Proof.
    intros f Hn. cbn [Nat.add]. rule "Namespace"%string.
    rewrite i_and, seq_cons, i_and, seq_cons, i_and, seq_cons, i_and, seq_cons.
    assert (Nb : ~ In " "%char (chars_of "namespace")) by noblank.
    rewrite (kw_word_fail _ p "namespace" h r Hw B (safe_nospace _ _ Nb)); [reflexivity|].
    intros X. apply Hn. symmetry. exact X.
  Qed.
End Alternatives.

(* ---- a property declaration `T name ;` / `T name = ...;` is not a prefix of `T name c...` for another character c ---- *)
Lemma variable_fails : forall F0 toks v n c t X, parses F0 toks v -> is_ident n = true ->
  solid c = true -> ceq "="%char c = false -> ceq ";"%char c = false ->
  forall f p, F0 <= f -> interp g (8 + f) (GRef "Variable") {| pk := p; rest := render toks (sp n (sp (c :: t) X)) |} = Fail.
Proof.
  intros F0 toks v n c t X Hp Hn Hc He Hs f p Hf. cbn [Nat.add]. rule "Variable"%string.
  rewrite i_and, seq_cons, i_and, seq_cons, i_and, seq_cons, i_name.
  destruct (Hp (3 + f) p (sp n (sp (c :: t) X)) (follow_ident n _ Hn) ltac:(lia)) as [p1 E1]. cbn [Nat.add] in E1. unfold TY in E1.
  rewrite E1. cbn [map add_name fst snd app]. rewrite ?seq_cons, i_name.
  assert (Bl : boundary (sp (c :: t) X)) by (right; eexists; reflexivity).
  destruct (IDENT_ok (1 + f) p1 n (sp (c :: t) X) Hn Bl) as [p2 E2]. cbn [Nat.add] in E2. unfold IDENT in E2. rewrite E2.
  cbn [map add_name fst snd app]. rewrite ?seq_nil. cbn [app]. rewrite ?seq_cons, i_name, i_opt, i_and, ?seq_cons, i_sup.
  rewrite (lit1_other _ p2 "="%char c t X Hc He). cbn [map app]. rewrite ?seq_nil. cbn [app].
  rewrite ?seq_cons, i_sup. rewrite (lit1_other _ p2 ";"%char c t X Hc Hs). reflexivity.
Qed.

(* ---- a function declaration needs `(` after `T name` ---- *)
Definition wf_head_toks (toks : list chars) : Prop := exists h rest, toks = h :: rest /\ word h /\ h <> kpair /\ h <> ktemplate.
Lemma function_fails : forall F0 toks v n c t X, parses F0 toks v -> wf_head_toks toks -> is_ident n = true ->
  solid c = true -> ceq "("%char c = false ->
  forall f p, F0 <= f -> interp g (20 + f) (GRef "GlobalFunction") {| pk := p; rest := render toks (sp n (sp (c :: t) X)) |} = Fail.
Proof.
  intros F0 toks v n c t X Hp [h [rest' [Eh [Hwh [Hkp Hkt]]]]] Hn Hc Hl f p Hf. cbn [Nat.add].
  rewrite (i_ref _ _ "GlobalFunction" FN_BODY lookup_GlobalFunction). unfold FN_BODY.
  rewrite i_and, seq_cons, i_and, seq_cons, i_and, seq_cons, i_and, seq_cons, i_and, seq_cons, i_and, seq_cons.
  set (NAME := sp n (sp (c :: t) X)).
  rewrite Eh. change (render (h :: rest') NAME) with (sp h (render rest' NAME)).
  assert (Fn : follow NAME) by (apply follow_ident; exact Hn).
  assert (B : boundary (render rest' NAME)) by (apply render_boundary, follow_boundary; exact Fn).
  rewrite (template_opt_none _ p h _ Hwh B Hkt). cbn [app]. rewrite seq_cons, i_name.
  change (sp h (render rest' NAME)) with (render (h :: rest') NAME). rewrite <- Eh.
  assert (HH : head_word toks) by (exists h, rest'; split; [exact Eh | split; [exact Hwh | exact Hkp]]).
  destruct (rt_single_ok F0 toks v Hp HH (S f) p NAME Fn ltac:(lia)) as [p1 E1].
  cbn [Nat.add] in E1. rewrite E1. cbn [map add_name fst snd app]. rewrite seq_nil. cbn [app]. rewrite seq_cons, i_name.
  assert (Bl : boundary (sp (c :: t) X)) by (right; eexists; reflexivity).
  unfold NAME. destruct (IDENT_ok (Sn 11 f) p1 n (sp (c :: t) X) Hn Bl) as [p2 E2]. cbn [Sn] in E2. rewrite E2.
  cbn [map add_name fst snd]. rewrite seq_nil. cbn [app]. rewrite seq_cons, i_sup.
  rewrite (lit1_other _ p2 "("%char c t X Hc Hl). reflexivity.
Qed.

(* ---- the alternation of the module content ---- *)
Definition OR1 : gexpr := GOr [GRef "ForwardDeclaration"; GRef "Include"].
Definition OR2 : gexpr := GOr [OR1; GRef "Class"].
Definition OR3 : gexpr := GOr [OR2; GRef "TypedefTemplateInstantiation"].
Definition OR4 : gexpr := GOr [OR3; GRef "GlobalFunction"].
Definition OR5 : gexpr := GOr [OR4; GRef "Enum"].
Definition OR6 : gexpr := GOr [OR5; GRef "Variable"].
Definition OR7 : gexpr := GOr [OR6; GRef "Namespace"].
Lemma decls_or7 : DECLS = GStar OR7. Proof. reflexivity. Qed.

Lemma or2_r : forall f a b st, interp g f a st = Fail -> interp g (S f) (GOr [a; b]) st = interp g f b st.
Proof. intros f a b st H. rewrite i_or. cbn [alt_longest]. rewrite H. destruct (interp g f b st); reflexivity. Qed.
Lemma or2_l : forall f a b st its st', interp g f a st = Match its st' -> interp g f b st = Fail ->
  interp g (S f) (GOr [a; b]) st = Match its st'.
Proof. intros f a b st its st' Ha Hb. rewrite i_or. cbn [alt_longest]. rewrite Ha, Hb. reflexivity. Qed.

(* a function of the fragment: return type, name, arguments *)
Definition fn : Type := ty * string * list (ty * string).
Definition toks_of (x : fn) : list chars := match x with (t, name, args) => fn_toks t name args end.
Definition fuel_fn (x : fn) : nat := match x with (t, _, args) => fn_fuel t args end.
Definition decl_of (x : fn) : decl :=
  match x with (t, name, args) => DFun {| f_tmpl := None; f_name := name; f_ret := RSingle t; f_args := map mk_arg args |} end.
Definition head_ok (t : ty) : Prop := exists h rest, ty_toks t = h :: rest /\ word h /\ ~ In h decl_keywords.
Definition wf_fn (x : fn) : Prop :=
  match x with (t, name, args) =>
    wf_ty t /\ depth t < depth_fuel /\ head_ok t /\ is_ident (chars_of name) = true /\ Forall wf_arg args end.

Lemma head_ok_wf_head : forall t, head_ok t -> wf_head t.
Proof.
  intros t [h [rest' [E [Hw Hk]]]]. exists h, rest'. split; [exact E|]. split; [exact Hw|].
  split; intros X; apply Hk; rewrite X; vm_compute; tauto.
Qed.
Lemma not_other : forall h, ~ In h decl_keywords -> ~ In h other_keywords /\ h <> knamespace.
Proof. intros h H. split; [intros X; apply H; right; exact X | intros X; apply H; left; symmetry; exact X]. Qed.

Lemma content_step : forall x, wf_fn x -> forall p R f, fuel_fn x + 25 <= f ->
  exists v p', interp g f OR7 {| pk := p; rest := render (toks_of x) R |} = Match [([], v)] {| pk := p'; rest := R |}
               /\ forall k, b_decl (S k) v = Ok (decl_of x).
Proof.
  intros [[t name] args] [Hw [Hd [Hh [Hn Ha]]]] p R f Hf. cbn [toks_of fuel_fn decl_of] in *.
  assert (X : exists y, f = Sn 7 (18 + y) /\ fn_fuel t args <= y) by (exists (f - 25); cbn [Sn]; lia).
  destruct X as [y [Ef Hy]]. subst f. cbn [Sn].
  destruct (function_roundtrip t name args Hw Hd (head_ok_wf_head t Hh) Hn Ha p R (Sn 3 (18 + y)) ltac:(cbn [Sn]; lia))
    as [v [p' [E B]]]. cbn [Sn] in E.
  exists v, p'. split; [|exact B].
  destruct Hh as [h [rest' [Eh [Hwh Hk0]]]]. destruct (not_other h Hk0) as [Hk Hns].
  set (st := {| pk := p; rest := render (fn_toks t name args) R |}) in *.
  assert (Est : st = {| pk := p; rest := sp h (render (rest' ++ [chars_of name] ++ [lparen] ++ args_toks args ++ [rparen] ++ [semi]) R) |}).
  { unfold st, fn_toks. rewrite Eh. reflexivity. }
  assert (Bd : boundary (render (rest' ++ [chars_of name] ++ [lparen] ++ args_toks args ++ [rparen] ++ [semi]) R)).
  { rewrite render_app. apply render_boundary. right. eexists. reflexivity. }
  unfold OR7. apply or2_l.
  2:{ rewrite Est. apply (namespace_fails p h _ Hwh Bd (Sn 6 (11 + y)) Hns). }
  unfold OR6. apply or2_l.
  2:{ unfold st, fn_toks. rewrite render_app.
      change (render ([chars_of name] ++ [lparen] ++ args_toks args ++ [rparen] ++ [semi]) R)
        with (sp (chars_of name) (sp lparen (render (args_toks args ++ [rparen] ++ [semi]) R))).
      assert (HP : parses (fuel_of t) (ty_toks t) (ty_value t)) by (apply (ty_parses (S (depth t))); [apply Nat.lt_succ_diag_r | exact Hw]).
      apply (variable_fails (fuel_of t) (ty_toks t) (ty_value t) (chars_of name) "("%char [] _ HP Hn eq_refl eq_refl eq_refl (Sn 5 (10 + y)) p).
      unfold fn_fuel in Hy. cbn [Sn]. lia. }
  unfold OR5. apply or2_l.
  2:{ rewrite Est. apply (enum_fails p h _ Hwh Bd Hk (Sn 4 (8 + y))). }
  unfold OR4. rewrite or2_r; [exact E|].
  unfold OR3. rewrite or2_r; [rewrite Est; apply (typedef_fails p h _ Hwh Bd Hk (14 + y))|].
  unfold OR2. rewrite or2_r; [rewrite Est; apply (class_fails p h _ Hwh Bd Hk (1 + y))|].
  unfold OR1. rewrite or2_r; [rewrite Est; apply (include_fails p h _ Hwh Bd Hk (12 + y))|].
  rewrite Est. apply (fwd_fails p h _ Hwh Bd Hk (9 + y)).
Qed.

(* ---- a property / global variable without initialiser: `T name ;` ---- *)
Definition var_value (v : value) (n : chars) : value := VNode "Variable" [(["ctype"%string], v); (["name"%string], VStr (string_of n))].

Lemma variable_ok : forall F0 toks v n, parses F0 toks v -> is_ident n = true ->
  forall f p R, F0 <= f ->
  exists p', interp g (8 + f) (GRef "Variable") {| pk := p; rest := render toks (sp n (sp semi R)) |}
             = Match [([], var_value v n)] {| pk := p'; rest := R |}.
Proof.
  intros F0 toks v n Hp Hn f p R Hf. cbn [Nat.add]. rule "Variable"%string.
  rewrite i_and, seq_cons, i_and, seq_cons, i_and, seq_cons, i_name.
  destruct (Hp (3 + f) p (sp n (sp semi R)) (follow_ident n _ Hn) ltac:(lia)) as [p1 E1]. cbn [Nat.add] in E1. unfold TY in E1.
  rewrite E1. cbn [map add_name fst snd app]. rewrite ?seq_cons, i_name.
  assert (Bl : boundary (sp semi R)) by (right; eexists; reflexivity).
  destruct (IDENT_ok (1 + f) p1 n (sp semi R) Hn Bl) as [p2 E2]. cbn [Nat.add] in E2. unfold IDENT in E2. rewrite E2.
  cbn [map add_name fst snd app]. rewrite ?seq_nil. cbn [app]. rewrite ?seq_cons, i_name, i_opt, i_and, ?seq_cons, i_sup.
  rewrite (lit1_other _ p2 "="%char ";"%char [] R eq_refl eq_refl). cbn [map app]. rewrite ?seq_nil. cbn [app].
  rewrite ?seq_cons, i_sup.
  destruct (lit1_at (Sn 4 f) p2 ";"%char R eq_refl) as [p3 E3]. cbn [Sn] in E3. change (sp [";"%char] R) with (sp semi R) in E3.
  rewrite E3, ?seq_nil. cbn [app]. exists p3. reflexivity.
Qed.

Lemma b_decl_var : forall k v n t, b_type v = Ok t ->
  b_decl (S k) (var_value v n) = Ok (DVar {| v_ty := t; v_name := string_of n; v_default := None |}).
Proof.
  intros k v n t H. unfold var_value. cbn [b_decl].
  repeat match goal with |- context [String.eqb ?a ?b] =>
    let x := eval vm_compute in (String.eqb a b) in change (String.eqb a b) with x end.
  cbv iota. unfold b_var, name_of, b_default.
  change (first_named "ctype" [(["ctype"%string], v); (["name"%string], VStr (string_of n))]) with (Some v).
  change (first_named "name" [(["ctype"%string], v); (["name"%string], VStr (string_of n))]) with (Some (VStr (string_of n))).
  change (named "default" [(["ctype"%string], v); (["name"%string], VStr (string_of n))]) with (@nil value).
  cbv iota. rewrite H. reflexivity.
Qed.

Definition var_toks (t : ty) (name : string) : list chars := ty_toks t ++ [chars_of name; semi].
Definition wf_var (t : ty) (name : string) : Prop :=
  wf_ty t /\ depth t < depth_fuel /\ head_ok t /\ is_ident (chars_of name) = true.

Lemma content_step_var : forall t name, wf_var t name -> forall p R f, fuel_of t + 25 <= f ->
  exists v p', interp g f OR7 {| pk := p; rest := render (var_toks t name) R |} = Match [([], v)] {| pk := p'; rest := R |}
               /\ forall k, b_decl (S k) v = Ok (DVar {| v_ty := t; v_name := name; v_default := None |}).
Proof.
  intros t name [Hw [Hd [Hh Hn]]] p R f Hf.
  assert (X : exists y, f = Sn 7 (18 + y) /\ fuel_of t <= y) by (exists (f - 25); cbn [Sn]; lia).
  destruct X as [y [Ef Hy]]. subst f. cbn [Sn].
  assert (HP : parses (fuel_of t) (ty_toks t) (ty_value t)) by (apply (ty_parses (S (depth t))); [apply Nat.lt_succ_diag_r | exact Hw]).
  unfold var_toks. rewrite render_app. change (render [chars_of name; semi] R) with (sp (chars_of name) (sp semi R)).
  destruct (variable_ok (fuel_of t) (ty_toks t) (ty_value t) (chars_of name) HP Hn (15 + y) p R ltac:(lia)) as [p' E].
  exists (var_value (ty_value t) (chars_of name)), p'. split.
  2:{ intros k. rewrite <- (string_chars name) at 2. apply b_decl_var. unfold b_type. apply (ty_rebuilt depth_fuel t Hd Hw). }
  pose proof (head_ok_wf_head t Hh) as Hwh0.
  destruct Hh as [h [rest' [Eh [Hwh Hk0]]]]. destruct (not_other h Hk0) as [Hk Hns].
  set (TAIL := sp (chars_of name) (sp semi R)) in *.
  assert (Est : render (ty_toks t) TAIL = sp h (render rest' TAIL)) by (rewrite Eh; reflexivity).
  assert (Bd : boundary (render rest' TAIL)) by (apply render_boundary; right; eexists; reflexivity).
  unfold OR7. apply or2_l.
  2:{ rewrite Est. apply (namespace_fails p h _ Hwh Bd (Sn 6 (11 + y)) Hns). }
  unfold OR6. rewrite or2_r; [exact E|].
  unfold OR5. rewrite or2_r; [rewrite Est; apply (enum_fails p h _ Hwh Bd Hk (12 + y))|].
  unfold OR4. rewrite or2_r.
  { unfold TAIL. apply (function_fails (fuel_of t) (ty_toks t) (ty_value t) (chars_of name) ";"%char [] R HP).
    - destruct Hwh0 as [h0 [r0 [E0 [W0 [P0 T0]]]]]. exists h0, r0. split; [exact E0 | split; [exact W0 | split; [exact P0 | exact T0]]].
    - exact Hn.
    - reflexivity.
    - reflexivity.
    - lia. }
  unfold OR3. rewrite or2_r; [rewrite Est; apply (typedef_fails p h _ Hwh Bd Hk (14 + y))|].
  unfold OR2. rewrite or2_r; [rewrite Est; apply (class_fails p h _ Hwh Bd Hk (1 + y))|].
  unfold OR1. rewrite or2_r; [rewrite Est; apply (include_fails p h _ Hwh Bd Hk (12 + y))|].
  rewrite Est. apply (fwd_fails p h _ Hwh Bd Hk (9 + y)).
Qed.

(* ---- forward declarations `class X ;` and `virtual class X ;` ----
   `class X ;` is ALSO a well-formed property declaration (type `class`, name X): the two alternatives consume the same
   text and the alternation keeps the one listed first, the forward declaration. *)
Definition kclass : chars := chars_of "class".
Definition kvirtual : chars := chars_of "virtual".
Definition virt_toks (virt : bool) : list chars := if virt then [kvirtual] else [].
Definition fwd_toks (virt : bool) (name : string) : list chars := virt_toks virt ++ [kclass; chars_of name; semi].
Definition virt_items (virt : bool) : list Peg.item := if virt then [(["is_virtual"%string], VStr "virtual")] else [].
Definition fwd_value (virt : bool) (n : chars) : value :=
  VNode "ForwardDeclaration" (virt_items virt ++
                              [([], VStr "class"); (["name"%string], VNode "Typename" (strs_items [n]))]).

Lemma semi_no_colons : forall R, no_colons (sp semi R).
Proof. intros R. right. exists ";"%char, R. split; [reflexivity|]. split; reflexivity. Qed.

Lemma no_blank_virtual : ~ In " "%char (chars_of "virtual"). Proof. noblank. Qed.

Lemma fwd_ok : forall (virt : bool) f p n R, is_ident n = true ->
  exists p', interp g (13 + f) (GRef "ForwardDeclaration")
                    {| pk := p; rest := render ((virt_toks virt) ++ [kclass; n; semi]) R |}
             = Match [([], fwd_value virt n)] {| pk := p'; rest := R |}.
Proof.
  intros virt f p n R Hn. cbn [Nat.add]. rule "ForwardDeclaration"%string.
  rewrite i_and, seq_cons, i_and, seq_cons, i_and, seq_cons, i_and.
  set (TAIL := sp n (sp semi R)).
  assert (Bd : boundary TAIL) by (right; eexists; reflexivity).
  assert (Bc : boundary (sp kclass TAIL)) by (right; eexists; reflexivity).
  assert (Step : forall q, exists q',
     seq (interp g (S (S (S (S (S (S (S (S f))))))))) [GTerm (TKw "class")] (virt_items virt)
         {| pk := q; rest := sp kclass TAIL |}
     = Match ((virt_items virt) ++ [([], VStr "class")]) {| pk := q'; rest := TAIL |}).
  { intros q. rewrite seq_cons, i_term.
    destruct (kw_self q "c"%char (chars_of "lass") TAIL eq_refl Bd) as [q1 E1].
    change (string_of ("c"%char :: chars_of "lass")) with "class"%string in E1.
    change (sp ("c"%char :: chars_of "lass") TAIL) with (sp kclass TAIL) in E1. rewrite E1, seq_nil. exists q1. reflexivity. }
  assert (Head : exists q', seq (interp g (S (S (S (S (S (S (S (S f)))))))))
                                [GOpt (GName "is_virtual" (GTerm (TKw "virtual"))); GTerm (TKw "class")] []
                                {| pk := p; rest := render ((virt_toks virt) ++ [kclass; n; semi]) R |}
                            = Match ((virt_items virt) ++ [([], VStr "class")])
                                    {| pk := q'; rest := TAIL |}).
  { rewrite seq_cons, i_opt, i_name. destruct virt; cbn [app render fold_right virt_items virt_toks]; fold TAIL.
    - rewrite i_term. destruct (kw_self p "v"%char (chars_of "irtual") (sp kclass TAIL) eq_refl Bc) as [q1 E1].
      change (string_of ("v"%char :: chars_of "irtual")) with "virtual"%string in E1.
      change (sp ("v"%char :: chars_of "irtual") (sp kclass TAIL)) with (sp kvirtual (sp kclass TAIL)) in E1.
      change (sp kvirtual (sp kclass (sp n (sp semi R)))) with (sp kvirtual (sp kclass TAIL)). rewrite E1. cbn [map add_name fst snd app].
      destruct (Step q1) as [q2 E2]. cbn [virt_items] in E2. exists q2. exact E2.
    - change (sp kclass (sp n (sp semi R))) with (sp kclass TAIL).
      rewrite (kw_word_fail _ p "virtual" kclass TAIL ltac:(split; [discriminate | reflexivity]) Bd (safe_nospace _ _ no_blank_virtual) ltac:(discriminate)).
      cbn [app]. destruct (Step p) as [q2 E2]. cbn [virt_items] in E2. exists q2. exact E2. }
  destruct Head as [q1 EH].
  rewrite EH. unfold TAIL.
  rewrite seq_cons, i_name, (i_ref _ _ "Typename" TN_BODY lookup_Typename).
  destruct (tn_body_ok (1 + f) q1 n [] (sp semi R) (semi_no_colons R) Hn (Forall_nil _) ltac:(cbn; lia)) as [p2 E2].
  cbn [Nat.add path_toks render fold_right] in E2. rewrite E2. cbn [map add_name fst snd app]. rewrite seq_nil.
  rewrite seq_cons, i_opt, i_and, seq_cons, i_sup.
  rewrite (lit1_other _ p2 ":"%char ";"%char [] R eq_refl eq_refl). rewrite ?seq_nil. rewrite ?seq_cons, i_sup.
  destruct (lit1_at (Sn 9 f) p2 ";"%char R eq_refl) as [p3 E3]. cbn [Sn] in E3. change (sp [";"%char] R) with (sp semi R) in E3.
  rewrite E3, ?seq_nil. exists p3. unfold fwd_value. rewrite !app_nil_r, <- app_assoc. reflexivity.
Qed.

Lemma fwd_fails_class : forall (virt : bool) f p n R, is_ident n = true ->
  interp g (13 + f) (GRef "ForwardDeclaration")
         {| pk := p; rest := render (virt_toks virt) (sp kclass (sp n (sp lbrace R))) |} = Fail.
Proof.
  intros virt f p n R Hn. cbn [Nat.add]. rule "ForwardDeclaration"%string.
  rewrite i_and, seq_cons, i_and, seq_cons, i_and, seq_cons, i_and.
  set (TAIL := sp n (sp lbrace R)).
  assert (Bd : boundary TAIL) by (right; eexists; reflexivity).
  assert (Bc : boundary (sp kclass TAIL)) by (right; eexists; reflexivity).
  assert (Step : forall q, exists q',
     seq (interp g (S (S (S (S (S (S (S (S f))))))))) [GTerm (TKw "class")] (virt_items virt)
         {| pk := q; rest := sp kclass TAIL |}
     = Match ((virt_items virt) ++ [([], VStr "class")]) {| pk := q'; rest := TAIL |}).
  { intros q. rewrite seq_cons, i_term.
    destruct (kw_self q "c"%char (chars_of "lass") TAIL eq_refl Bd) as [q1 E1].
    change (string_of ("c"%char :: chars_of "lass")) with "class"%string in E1.
    change (sp ("c"%char :: chars_of "lass") TAIL) with (sp kclass TAIL) in E1. rewrite E1, seq_nil. exists q1. reflexivity. }
  assert (Head : exists q', seq (interp g (S (S (S (S (S (S (S (S f)))))))))
                                [GOpt (GName "is_virtual" (GTerm (TKw "virtual"))); GTerm (TKw "class")] []
                                {| pk := p; rest := render (virt_toks virt) (sp kclass TAIL) |}
                            = Match ((virt_items virt) ++ [([], VStr "class")])
                                    {| pk := q'; rest := TAIL |}).
  { rewrite seq_cons, i_opt, i_name. destruct virt; cbn [app render fold_right virt_items virt_toks]; fold TAIL.
    - rewrite i_term. destruct (kw_self p "v"%char (chars_of "irtual") (sp kclass TAIL) eq_refl Bc) as [q1 E1].
      change (string_of ("v"%char :: chars_of "irtual")) with "virtual"%string in E1.
      change (sp ("v"%char :: chars_of "irtual") (sp kclass TAIL)) with (sp kvirtual (sp kclass TAIL)) in E1.
       rewrite E1. cbn [map add_name fst snd app].
      destruct (Step q1) as [q2 E2]. cbn [virt_items] in E2. exists q2. exact E2.
    - idtac.
      rewrite (kw_word_fail _ p "virtual" kclass TAIL ltac:(split; [discriminate | reflexivity]) Bd (safe_nospace _ _ no_blank_virtual) ltac:(discriminate)).
      cbn [app]. destruct (Step p) as [q2 E2]. cbn [virt_items] in E2. exists q2. exact E2. }
  destruct Head as [q1 EH].
  rewrite EH. unfold TAIL.
  rewrite seq_cons, i_name, (i_ref _ _ "Typename" TN_BODY lookup_Typename).
  assert (NC : no_colons (sp lbrace R)) by (right; exists "{"%char, R; split; [reflexivity|]; split; reflexivity).
  destruct (tn_body_ok (1 + f) q1 n [] (sp lbrace R) NC Hn (Forall_nil _) ltac:(cbn; lia)) as [p2 E2].
  cbn [Nat.add path_toks render fold_right] in E2. rewrite E2. cbn [map add_name fst snd app]. rewrite seq_nil.
  rewrite seq_cons, i_opt, i_and, seq_cons, i_sup.
  rewrite (lit1_other _ p2 ":"%char "{"%char [] R eq_refl eq_refl). rewrite ?seq_nil. rewrite ?seq_cons, i_sup.
  rewrite (lit1_other _ p2 ";"%char "{"%char [] R eq_refl eq_refl). reflexivity.
Qed.

Definition colon1 : chars := [":"%char].
Lemma colons_fail_single : forall f p X, interp g (S f) (GTerm (TLit "::")) {| pk := p; rest := sp colon1 (" "%char :: X) |} = Fail.
Proof.
  intros f p X. rewrite i_term. unfold run_term. cbn [pre_term]. unfold colon1. rewrite (pre_sp p ":"%char [] (" "%char :: X) eq_refl).
  cbn [rest app]. reflexivity.
Qed.
Lemma tn_before_colon : forall f p n X, is_ident n = true ->
  MatchTo (interp g (S (S (S (S (S (S f)))))) TN_BODY {| pk := p; rest := sp n (sp colon1 (" "%char :: X)) |})
          (strs_items [n]) (sp colon1 (" "%char :: X)).
Proof.
  intros f p n X Hn. unfold TN_BODY. rewrite i_and, seq_cons.
  assert (B : boundary (sp colon1 (" "%char :: X))) by (right; eexists; reflexivity).
  destruct (IDENT_ok (S (S (S f))) p n _ Hn B) as [p1 E1]. rewrite E1. cbn [app]. rewrite seq_cons, i_star, star_S.
  unfold SEG at 1. rewrite i_and, seq_cons, i_sup, colons_fail_single. rewrite seq_nil. cbn [app strs_items map]. eexists. reflexivity.
Qed.
(* the Typename body one level deeper (the parent of a forward declaration sits inside an Optional) *)
Lemma tn_body_ok_any : forall f p n l r, no_colons r -> is_ident n = true -> Forall (fun x => is_ident x = true) l ->
  length l <= f ->
  MatchTo (interp g (S (S (S (S (S (S f)))))) TN_BODY {| pk := p; rest := render (path_toks (n :: l)) r |}) (strs_items (n :: l)) r.
Proof. exact tn_body_ok. Qed.

Lemma fwd_fails_class_b : forall (virt : bool) f p n h l R, is_ident n = true ->
  is_ident h = true -> Forall (fun x => is_ident x = true) l -> length l <= f ->
  interp g (13 + f) (GRef "ForwardDeclaration")
         {| pk := p; rest := render (virt_toks virt) (sp kclass (sp n (sp colon1 (render (path_toks (h :: l)) (sp lbrace R))))) |} = Fail.
Proof.
  intros virt f p n h l R Hn Hh Hl Hlen. cbn [Nat.add]. rule "ForwardDeclaration"%string.
  rewrite i_and, seq_cons, i_and, seq_cons, i_and, seq_cons, i_and.
  set (BASE := render (path_toks (h :: l)) (sp lbrace R)). set (TAIL := sp n (sp colon1 BASE)).
  assert (Bd : boundary TAIL) by (right; eexists; reflexivity).
  assert (Bc : boundary (sp kclass TAIL)) by (right; eexists; reflexivity).
  assert (Step : forall q, exists q',
     seq (interp g (S (S (S (S (S (S (S (S f))))))))) [GTerm (TKw "class")] (virt_items virt)
         {| pk := q; rest := sp kclass TAIL |}
     = Match ((virt_items virt) ++ [([], VStr "class")]) {| pk := q'; rest := TAIL |}).
  { intros q. rewrite seq_cons, i_term.
    destruct (kw_self q "c"%char (chars_of "lass") TAIL eq_refl Bd) as [q1 E1].
    change (string_of ("c"%char :: chars_of "lass")) with "class"%string in E1.
    change (sp ("c"%char :: chars_of "lass") TAIL) with (sp kclass TAIL) in E1. rewrite E1, seq_nil. exists q1. reflexivity. }
  assert (Head : exists q', seq (interp g (S (S (S (S (S (S (S (S f)))))))))
                                [GOpt (GName "is_virtual" (GTerm (TKw "virtual"))); GTerm (TKw "class")] []
                                {| pk := p; rest := render (virt_toks virt) (sp kclass TAIL) |}
                            = Match ((virt_items virt) ++ [([], VStr "class")])
                                    {| pk := q'; rest := TAIL |}).
  { rewrite seq_cons, i_opt, i_name. destruct virt; cbn [app render fold_right virt_items virt_toks]; fold TAIL.
    - rewrite i_term. destruct (kw_self p "v"%char (chars_of "irtual") (sp kclass TAIL) eq_refl Bc) as [q1 E1].
      change (string_of ("v"%char :: chars_of "irtual")) with "virtual"%string in E1.
      change (sp ("v"%char :: chars_of "irtual") (sp kclass TAIL)) with (sp kvirtual (sp kclass TAIL)) in E1.
       rewrite E1. cbn [map add_name fst snd app].
      destruct (Step q1) as [q2 E2]. cbn [virt_items] in E2. exists q2. exact E2.
    - idtac.
      rewrite (kw_word_fail _ p "virtual" kclass TAIL ltac:(split; [discriminate | reflexivity]) Bd (safe_nospace _ _ no_blank_virtual) ltac:(discriminate)).
      cbn [app]. destruct (Step p) as [q2 E2]. cbn [virt_items] in E2. exists q2. exact E2. }
  destruct Head as [q1 EH].
  rewrite EH. unfold TAIL.
  rewrite seq_cons, i_name, (i_ref _ _ "Typename" TN_BODY lookup_Typename).
  assert (NC : no_colons (sp lbrace R)) by (right; exists "{"%char, R; split; [reflexivity|]; split; reflexivity).
  assert (EB : exists X, BASE = " "%char :: X) by (unfold BASE; rewrite path_toks_cons; eexists; reflexivity).
  destruct EB as [X EX]. rewrite EX.
  destruct (tn_before_colon (1 + f) q1 n X Hn) as [p2 E2]. cbn [Nat.add] in E2. rewrite E2. cbn [map add_name fst snd app strs_items]. rewrite seq_nil.
  rewrite seq_cons, i_opt, i_and, seq_cons, i_sup. rewrite <- EX.
  destruct (lit1_at (6 + f) p2 ":"%char BASE eq_refl) as [qa Ea]. cbn [Nat.add] in Ea. change (sp [":"%char] BASE) with (sp colon1 BASE) in Ea.
  rewrite Ea. cbn [app]. rewrite seq_cons, i_name, (i_ref _ _ "Typename" TN_BODY lookup_Typename). unfold BASE.
  destruct (tn_body_ok_any f qa h l (sp lbrace R) NC Hh Hl Hlen) as [qb Eb]. rewrite Eb.
  cbn [map add_name fst snd app]. rewrite ?seq_nil. rewrite ?seq_cons, i_sup.
  rewrite (lit1_other _ qb ";"%char "{"%char [] R eq_refl eq_refl). reflexivity.
Qed.

(* the other alternatives on the text of a forward declaration *)
Lemma include_fails2 : forall p h r f, word h -> boundary r -> interp g (6 + f) (GRef "Include") {| pk := p; rest := sp h r |} = Fail.
Proof.
  intros p h r f Hw B. cbn [Nat.add]. rule "Include"%string. rewrite i_and, seq_cons, i_and, seq_cons, i_and, seq_cons.
  assert (Nb : ~ In " "%char (chars_of "#include")) by noblank.
  rewrite (kw_word_fail _ p "#include" h r Hw B (safe_nospace _ _ Nb)); [reflexivity|].
  intros E. apply (hash_not_word). rewrite E. exact Hw.
Qed.
Lemma typedef_fails2 : forall p h r f, word h -> boundary r -> h <> chars_of "typedef" ->
  interp g (6 + f) (GRef "TypedefTemplateInstantiation") {| pk := p; rest := sp h r |} = Fail.
Proof.
  intros p h r f Hw B Hd. cbn [Nat.add]. rule "TypedefTemplateInstantiation"%string. rewrite i_and, seq_cons, i_and, seq_cons, i_and, seq_cons.
  assert (Nb : ~ In " "%char (chars_of "typedef")) by noblank.
  rewrite (kw_word_fail _ p "typedef" h r Hw B (safe_nospace _ _ Nb)); [reflexivity|]. intros E. apply Hd. symmetry. exact E.
Qed.
Lemma enum_fails2 : forall p h r f, word h -> boundary r -> h <> chars_of "enum" ->
  interp g (10 + f) (GRef "Enum") {| pk := p; rest := sp h r |} = Fail.
Proof.
  intros p h r f Hw B Hd. cbn [Nat.add]. rule "Enum"%string.
  rewrite i_and, seq_cons, i_and, seq_cons, i_and, seq_cons, i_and, seq_cons, i_and, seq_cons, i_or.
  cbn [alt_longest]. rewrite i_or. cbn [alt_longest].
  assert (Nb : ~ In " "%char (chars_of "enum")) by noblank.
  rewrite (kw_word_fail _ p "enum" h r Hw B (safe_nospace _ _ Nb)) by (intros E; apply Hd; symmetry; exact E).
  assert (S2 : forall w : string, safe (chars_of ("enum " ++ w)) h).
  { intros w k' E. apply Hd. symmetry. apply (first_blank (chars_of "enum") h (chars_of w) k'); [noblank | apply word_no_blank; exact (proj2 Hw) |].
    rewrite <- E. reflexivity. }
  assert (D : forall w : string, chars_of ("enum " ++ w) <> h).
  { intros w E. apply (word_no_blank h (proj2 Hw)). rewrite <- E. cbn. right. right. right. right. left. reflexivity. }
  rewrite (kw_word_fail _ p "enum class" h r Hw B (S2 "class") (D "class")).
  rewrite (kw_word_fail _ p "enum struct" h r Hw B (S2 "struct") (D "struct")). reflexivity.
Qed.

Lemma alpha_plain : forall c, in_str alpha_ c = true ->
  solid c = true /\ ceq "("%char c = false /\ ceq "="%char c = false /\ ceq ";"%char c = false /\ ceq ":"%char c = false /\ ceq "{"%char c = false.
Proof.
  intros c H. split; [apply alnum_solid, alpha_alnum; exact H|].
  unfold in_str, cmem in H. apply existsb_exists in H. destruct H as [z [Hz E]]. apply ceq_eq in E. subst z.
  assert (A : forallb (fun c => negb (ceq "("%char c) && negb (ceq "="%char c) && negb (ceq ";"%char c) && negb (ceq ":"%char c)
                                && negb (ceq "{"%char c)) (chars_of alpha_) = true) by (vm_compute; reflexivity).
  rewrite forallb_forall in A. specialize (A c Hz).
  apply andb_true_iff in A. destruct A as [A A5]. apply andb_true_iff in A. destruct A as [A A4].
  apply andb_true_iff in A. destruct A as [A A3]. apply andb_true_iff in A. destruct A as [A1 A2].
  repeat split; apply negb_true_iff; assumption.
Qed.

Definition kw_type (k : string) : ty := TPlain (Typename [] (NStr k) []) false PNone false.
Lemma kw_parses : forall k : string, is_ident (chars_of k) = true -> ~ In (chars_of k) reserved ->
  parses 13 [chars_of k] (ty_value (kw_type k)).
Proof.
  intros k Hi Hr. apply (ty_parses 1 (kw_type k)); [cbn; lia|]. cbn [wf_ty kw_type]. split; [reflexivity|]. split.
  - repeat constructor. exact Hi.
  - exact Hr.
Qed.
Lemma class_parses : parses 13 [kclass] (ty_value (kw_type "class")).
Proof. apply kw_parses; [reflexivity | vm_compute; intuition discriminate]. Qed.
Lemma virtual_parses : parses 13 [kvirtual] (ty_value (kw_type "virtual")).
Proof. apply kw_parses; [reflexivity | vm_compute; intuition discriminate]. Qed.

Lemma class_fails_fwd : forall (virt : bool) f p n R, is_ident n = true ->
  interp g (20 + f) (GRef "Class") {| pk := p; rest := render (virt_toks virt ++ [kclass; n; semi]) R |} = Fail.
Proof.
  intros virt f p n R Hn. cbn [Nat.add]. rule "Class"%string.
  rewrite i_and, seq_cons, i_and, seq_cons, i_and, seq_cons, i_and, seq_cons, i_and, seq_cons, i_and, seq_cons, i_and, seq_cons, i_and, seq_cons.
  set (TAIL := sp n (sp semi R)).
  assert (Bd : boundary TAIL) by (right; eexists; reflexivity).
  assert (Bc : boundary (sp kclass TAIL)) by (right; eexists; reflexivity).
  assert (Wc : word kclass) by (split; [discriminate | reflexivity]).
  assert (Wv : word kvirtual) by (split; [discriminate | reflexivity]).
  (* what happens from the keyword `class` on, whatever was collected before *)
  assert (Tail : forall q, match interp g (S (S (S (S (S (S (S (S (S (S (S f))))))))))) (GTerm (TKw "class")) {| pk := q; rest := sp kclass TAIL |} with
                              | Match its st' => exists q', its = [([], VStr "class")] /\ st' = {| pk := q'; rest := TAIL |}
                              | _ => False end).
  { intros q. rewrite i_term. destruct (kw_self q "c"%char (chars_of "lass") TAIL eq_refl Bd) as [q1 E1].
    change (string_of ("c"%char :: chars_of "lass")) with "class"%string in E1.
    change (sp ("c"%char :: chars_of "lass") TAIL) with (sp kclass TAIL) in E1. rewrite E1. exists q1. split; reflexivity. }
  destruct virt; cbn [virt_toks app render fold_right]; fold TAIL.
  - change (sp kvirtual (sp kclass (sp n (sp semi R)))) with (sp kvirtual (sp kclass TAIL)).
    pose proof (template_opt_none (4 + f) p kvirtual (sp kclass TAIL) Wv Bc ltac:(discriminate)) as T. unfold TEMPLATE_OPT in T. cbn [Nat.add] in T.
    rewrite T. clear T. rewrite seq_cons, i_opt, i_name, i_term.
    destruct (kw_self p "v"%char (chars_of "irtual") (sp kclass TAIL) eq_refl Bc) as [q1 E1].
    change (string_of ("v"%char :: chars_of "irtual")) with "virtual"%string in E1.
    change (sp ("v"%char :: chars_of "irtual") (sp kclass TAIL)) with (sp kvirtual (sp kclass TAIL)) in E1. rewrite E1.
    cbn [map add_name fst snd app]. rewrite ?seq_nil. cbn [app]. rewrite ?seq_cons.
    pose proof (Tail q1) as TT. destruct (interp g _ (GTerm (TKw "class")) {| pk := q1; rest := sp kclass TAIL |}) as [| |its st'] eqn:EC; try contradiction.
    destruct TT as [q2 [Ei Es]]. subst its st'. cbn [app]. rewrite ?seq_nil. cbn [app]. rewrite ?seq_cons, i_name. unfold TAIL.
    assert (Bs : boundary (sp semi R)) by (right; eexists; reflexivity).
    destruct (IDENT_ok (Sn 10 f) q2 n (sp semi R) Hn Bs) as [q3 E3]. cbn [Sn] in E3. unfold IDENT in E3. rewrite E3.
    cbn [map add_name fst snd app]. rewrite ?seq_nil. cbn [app]. rewrite ?seq_cons, i_opt, i_and, ?seq_cons, i_sup.
    rewrite (lit1_other _ q3 ":"%char ";"%char [] R eq_refl eq_refl). cbn [app]. rewrite ?seq_nil. cbn [app]. rewrite ?seq_cons, i_sup.
    rewrite (lit1_other _ q3 "{"%char ";"%char [] R eq_refl eq_refl). reflexivity.
  - change (sp kclass (sp n (sp semi R))) with (sp kclass TAIL).
    pose proof (template_opt_none (4 + f) p kclass TAIL Wc Bd ltac:(discriminate)) as T. unfold TEMPLATE_OPT in T. cbn [Nat.add] in T.
    rewrite T. clear T. rewrite seq_cons, i_opt, i_name.
    rewrite (kw_word_fail _ p "virtual" kclass TAIL Wc Bd (safe_nospace _ _ no_blank_virtual) ltac:(discriminate)).
    cbn [app]. rewrite ?seq_nil. cbn [app]. rewrite ?seq_cons.
    pose proof (Tail p) as TT. destruct (interp g _ (GTerm (TKw "class")) {| pk := p; rest := sp kclass TAIL |}) as [| |its st'] eqn:EC; try contradiction.
    destruct TT as [q2 [Ei Es]]. subst its st'. cbn [app]. rewrite ?seq_nil. cbn [app]. rewrite ?seq_cons, i_name. unfold TAIL.
    assert (Bs : boundary (sp semi R)) by (right; eexists; reflexivity).
    destruct (IDENT_ok (Sn 10 f) q2 n (sp semi R) Hn Bs) as [q3 E3]. cbn [Sn] in E3. unfold IDENT in E3. rewrite E3.
    cbn [map add_name fst snd app]. rewrite ?seq_nil. cbn [app]. rewrite ?seq_cons, i_opt, i_and, ?seq_cons, i_sup.
    rewrite (lit1_other _ q3 ":"%char ";"%char [] R eq_refl eq_refl). cbn [app]. rewrite ?seq_nil. cbn [app]. rewrite ?seq_cons, i_sup.
    rewrite (lit1_other _ q3 "{"%char ";"%char [] R eq_refl eq_refl). reflexivity.
Qed.

Lemma or2_tie : forall f a b st its st' its2 st2, interp g f a st = Match its st' -> interp g f b st = Match its2 st2 ->
  length (rest st2) = length (rest st') -> interp g (S f) (GOr [a; b]) st = Match its st'.
Proof. intros f a b st its st' its2 st2 Ha Hb Hl. rewrite i_or. cbn [alt_longest]. rewrite Ha, Hb, Hl, Nat.ltb_irrefl. reflexivity. Qed.

Definition fwd_decl (virt : bool) (name : string) : decl :=
  DFwd {| fw_virtual := virt; fw_tn := Typename [] (NStr name) []; fw_parent := None |}.

Lemma b_decl_fwd : forall k virt n, b_decl (S k) (fwd_value virt n) = Ok (fwd_decl virt (string_of n)).
Proof. intros k virt n. destruct virt; reflexivity. Qed.

Lemma wf_head_kw : forall k : chars, word k -> k <> kpair -> k <> ktemplate -> wf_head_toks [k].
Proof. intros k Hw H1 H2. exists k, []. split; [reflexivity|]. split; [exact Hw|]. split; assumption. Qed.

Lemma content_step_fwd : forall virt name, is_ident (chars_of name) = true -> forall p R f, 40 <= f ->
  exists v p', interp g f OR7 {| pk := p; rest := render (fwd_toks virt name) R |} = Match [([], v)] {| pk := p'; rest := R |}
               /\ forall k, b_decl (S k) v = Ok (fwd_decl virt name).
Proof.
  intros virt name Hn p R f Hf. set (n := chars_of name) in *.
  assert (X : exists z, f = Sn 7 (21 + z) /\ 12 <= z) by (exists (f - 28); cbn [Sn]; lia).
  destruct X as [z [Ef Hz]]. subst f. cbn [Sn]. unfold fwd_toks. fold n.
  destruct (fwd_ok virt (8 + z) p n R Hn) as [p' E].
  exists (fwd_value virt n), p'. split; [|intros k; rewrite b_decl_fwd; unfold n; rewrite string_chars; reflexivity].
  assert (Wc : word kclass) by (split; [discriminate | reflexivity]).
  assert (Wv : word kvirtual) by (split; [discriminate | reflexivity]).
  set (TAIL := sp n (sp semi R)).
  assert (Bd : boundary TAIL) by (right; eexists; reflexivity).
  assert (Bc : boundary (sp kclass TAIL)) by (right; eexists; reflexivity).
  pose proof (class_fails_fwd virt (2 + z) p n R Hn) as CF.
  destruct (ident_first_alpha n Hn) as [c [w [En Hc]]]. destruct (alpha_plain c Hc) as [Cs [Cl [Ce [Csm _]]]].
  destruct virt; cbn [virt_toks app render fold_right] in E, CF |- *.
  - (* virtual class n ; *)
    change (sp kvirtual (sp kclass (sp n (sp semi R)))) with (sp kvirtual (sp kclass TAIL)) in E, CF |- *.
    unfold OR7. apply or2_l; [|apply (namespace_fails p kvirtual _ Wv Bc (20 + z)); discriminate].
    unfold OR6. apply or2_l.
    2:{ unfold TAIL. rewrite En. apply (variable_fails 13 [kvirtual] (ty_value (kw_type "virtual")) kclass c w (sp semi R) virtual_parses eq_refl Cs Ce Csm (18 + z) p). lia. }
    unfold OR5. apply or2_l; [|apply (enum_fails2 p kvirtual _ (15 + z) Wv Bc); discriminate].
    unfold OR4. apply or2_l.
    2:{ unfold TAIL. rewrite En. apply (function_fails 13 [kvirtual] (ty_value (kw_type "virtual")) kclass c w (sp semi R) virtual_parses
                                         (wf_head_kw kvirtual Wv ltac:(discriminate) ltac:(discriminate)) eq_refl Cs Cl (4 + z) p). lia. }
    unfold OR3. apply or2_l; [|apply (typedef_fails2 p kvirtual _ (17 + z) Wv Bc); discriminate].
    unfold OR2. apply or2_l; [|exact CF].
    unfold OR1. apply or2_l; [exact E | apply (include_fails2 p kvirtual _ (15 + z) Wv Bc)].
  - (* class n ; *)
    change (sp kclass (sp n (sp semi R))) with (sp kclass TAIL) in E, CF |- *.
    unfold OR7. apply or2_l; [|apply (namespace_fails p kclass _ Wc Bd (20 + z)); discriminate].
    unfold OR6.
    destruct (variable_ok 13 [kclass] (ty_value (kw_type "class")) n class_parses Hn (18 + z) p R ltac:(lia)) as [pv EV].
    apply (or2_tie _ _ _ _ _ _ [([], var_value (ty_value (kw_type "class")) n)] {| pk := pv; rest := R |}); [| exact EV | reflexivity].
    unfold OR5. apply or2_l; [|apply (enum_fails2 p kclass _ (15 + z) Wc Bd); discriminate].
    unfold OR4. apply or2_l.
    2:{ unfold TAIL. apply (function_fails 13 [kclass] (ty_value (kw_type "class")) n ";"%char [] R class_parses
                                         (wf_head_kw kclass Wc ltac:(discriminate) ltac:(discriminate)) Hn eq_refl eq_refl (4 + z) p). lia. }
    unfold OR3. apply or2_l; [|apply (typedef_fails2 p kclass _ (17 + z) Wc Bd); discriminate].
    unfold OR2. apply or2_l; [|exact CF].
    unfold OR1. apply or2_l; [exact E | apply (include_fails2 p kclass _ (15 + z) Wc Bd)].
Qed.


(* ---- enumerations `enum Name { A , B } ;` ----
   The parse tree does not record which of `enum`, `enum class`, `enum struct` was written; the printer writes `enum`.
   The two-word keywords are tried on the same text: they fail unless the NAME is exactly `class` / `struct`. *)
Definition kenum : chars := chars_of "enum".

Lemma two_word_fails : forall p (w2 : string) n r, word n -> boundary r -> n <> chars_of w2 -> ~ In " "%char (chars_of w2) ->
  run_term (TKw ("enum " ++ w2)) {| pk := p; rest := sp kenum (sp n r) |} = Fail.
Proof.
  intros p w2 n r [Hne Hn] Hr Hd Hb. unfold run_term. cbn [pre_term].
  change (sp kenum (sp n r)) with (sp ("e"%char :: chars_of "num") (sp n r)).
  rewrite (pre_sp p "e"%char (chars_of "num") (sp n r) eq_refl). cbn [rest pk].
  change (chars_of ("enum " ++ w2)) with (chars_of "enum" ++ " "%char :: chars_of w2).
  change (("e"%char :: chars_of "num") ++ sp n r) with (chars_of "enum" ++ " "%char :: n ++ r).
  rewrite prefix_app, prefix_self. cbn [prefix]. change (ceq " " " ") with true. cbn iota.
  destruct (prefix (chars_of w2) (n ++ r)) as [x|] eqn:P; [|reflexivity].
  destruct (prefix_word (chars_of w2) n r x Hr Hn (safe_nospace _ _ Hb) P) as [n2 [E1 E2]]. subst x.
  destruct n2 as [|d n2]; [exfalso; apply Hd; rewrite E1, app_nil_r; reflexivity|].
  cbn [app negb andb].
  assert (Hd2 : is_kwchar d = true).
  { rewrite forallb_forall in Hn. apply alnum_kw. apply Hn. rewrite E1. apply in_or_app. right. left. reflexivity. }
  rewrite Hd2. reflexivity.
Qed.

Definition enum_toks (name : string) (items : list string) : list chars :=
  [kenum; chars_of name; lbrace] ++ sep_toks (map (fun x => [chars_of x]) items) ++ [rbrace; semi].
Definition enumerator_value (x : chars) : value := VNode "Enumerator" [([], VStr (string_of x))].
Definition enum_value (name : chars) (items : list chars) : value :=
  VNode "Enum" ([([], VStr "enum"); (["name"%string], VStr (string_of name))] ++
                map (fun x => (["enumerators"; "enumerator"]%string, enumerator_value x)) items).

Definition COMMA_ENUMERATOR : gexpr := GAnd [GSup (GTerm (TLit ",")); GName "enumerator" (GRef "Enumerator")].

Lemma enumerator_ok : forall f p x r, is_ident x = true -> boundary r ->
  exists p', interp g (3 + f) (GRef "Enumerator") {| pk := p; rest := sp x r |} = Match [([], enumerator_value x)] {| pk := p'; rest := r |}.
Proof.
  intros f p x r Hx Hr. cbn [Nat.add]. rule "Enumerator"%string.
  destruct (IDENT_ok f p x r Hx Hr) as [p' E]. unfold IDENT in E. rewrite E. exists p'. reflexivity.
Qed.

Lemma comma_enumerator_ok : forall f p x r, is_ident x = true -> boundary r ->
  exists p', interp g (5 + f) COMMA_ENUMERATOR {| pk := p; rest := sp comma_tok (sp x r) |}
             = Match [(["enumerator"%string], enumerator_value x)] {| pk := p'; rest := r |}.
Proof.
  intros f p x r Hx Hr. cbn [Nat.add]. unfold COMMA_ENUMERATOR. rewrite i_and, seq_cons, i_sup.
  destruct (lit1_at (S (S f)) p ","%char (sp x r) eq_refl) as [p1 E1]. change (sp [","%char] (sp x r)) with (sp comma_tok (sp x r)) in E1.
  rewrite E1. cbn [app]. rewrite seq_cons, i_name.
  destruct (enumerator_ok f p1 x r Hx Hr) as [p2 E2]. cbn [Nat.add] in E2. rewrite E2. cbn [map add_name fst snd]. rewrite seq_nil.
  exists p2. reflexivity.
Qed.
Lemma comma_enumerator_stops : forall f p R, interp g (3 + f) COMMA_ENUMERATOR {| pk := p; rest := sp rbrace R |} = Fail.
Proof.
  intros f p R. cbn [Nat.add]. unfold COMMA_ENUMERATOR. rewrite i_and, seq_cons, i_sup. change (sp rbrace R) with (sp ["}"%char] R).
  rewrite (lit1_other f p ","%char "}"%char [] R eq_refl eq_refl). reflexivity.
Qed.

Lemma enumerators_tail : forall items, Forall (fun x => is_ident x = true) items ->
  forall F k acc p R, length items < k -> 5 <= F ->
  exists p', star (interp g F) k COMMA_ENUMERATOR acc
                  {| pk := p; rest := render (more_toks (map (fun x => [x]) items)) (sp rbrace R) |}
             = Match (acc ++ map (fun x => (["enumerator"%string], enumerator_value x)) items) {| pk := p'; rest := sp rbrace R |}.
Proof.
  induction items as [|x items IH]; intros H F k acc p R Hk HF.
  - destruct k as [|k]; [cbn in Hk; lia|]. cbn [map more_toks flat_map render fold_right]. rewrite star_S.
    replace F with (3 + (F - 3)) by lia. rewrite comma_enumerator_stops, app_nil_r. exists p. reflexivity.
  - destruct k as [|k]; [cbn in Hk; lia|]. inversion H as [|? ? Hx Hrest]; subst.
    cbn [map]. change (render (more_toks ([x] :: map (fun x => [x]) items)) (sp rbrace R))
      with (sp comma_tok (sp x (render (more_toks (map (fun x => [x]) items)) (sp rbrace R)))).
    set (TAIL := render (more_toks (map (fun x => [x]) items)) (sp rbrace R)).
    assert (Bt : boundary TAIL) by (unfold TAIL; destruct items; right; eexists; reflexivity).
    rewrite star_S.
    destruct (comma_enumerator_ok (F - 5) p x TAIL Hx Bt) as [p2 E2]. replace (5 + (F - 5)) with F in E2 by lia. rewrite E2.
    destruct (IH Hrest F k (acc ++ [(["enumerator"%string], enumerator_value x)]) p2 R ltac:(cbn [length] in Hk; lia) HF) as [p3 E3].
    fold TAIL in E3. rewrite E3. exists p3. rewrite <- app_assoc. reflexivity.
Qed.

Definition kw3 : gexpr := GOr [GOr [GTerm (TKw "enum"); GTerm (TKw "enum class")]; GTerm (TKw "enum struct")].

Lemma kw3_ok : forall f p n r, word n -> boundary r -> n <> chars_of "class" -> n <> chars_of "struct" ->
  exists p', interp g (3 + f) kw3 {| pk := p; rest := sp kenum (sp n r) |} = Match [([], VStr "enum")] {| pk := p'; rest := sp n r |}.
Proof.
  intros f p n r Hn Hr H1 H2. cbn [Nat.add]. unfold kw3.
  assert (Bd : boundary (sp n r)) by (right; eexists; reflexivity).
  destruct (kw_self p "e"%char (chars_of "num") (sp n r) eq_refl Bd) as [p1 E1].
  change (string_of ("e"%char :: chars_of "num")) with "enum"%string in E1.
  change (sp ("e"%char :: chars_of "num") (sp n r)) with (sp kenum (sp n r)) in E1.
  exists p1. apply or2_l.
  - apply or2_l; [rewrite i_term; exact E1|]. rewrite i_term.
    apply (two_word_fails p "class" n r Hn Hr H1). vm_compute. intuition discriminate.
  - rewrite i_term. apply (two_word_fails p "struct" n r Hn Hr H2). vm_compute. intuition discriminate.
Qed.

Lemma enum_ok : forall name x items f p R, is_ident name = true -> name <> chars_of "class" -> name <> chars_of "struct" ->
  is_ident x = true -> Forall (fun y => is_ident y = true) items ->
  exists p', interp g (13 + length items + f) (GRef "Enum")
                    {| pk := p; rest := render ([kenum; name; lbrace] ++ sep_toks (map (fun y => [y]) (x :: items)) ++ [rbrace; semi]) R |}
             = Match [([], enum_value name (x :: items))] {| pk := p'; rest := R |}.
Proof.
  intros name x items f p R Hn H1 H2 Hx Hi. set (n := length items).
  change (13 + n + f) with (Sn 13 (n + f)). cbn [Sn]. rule "Enum"%string.
  rewrite i_and, seq_cons, i_and, seq_cons, i_and, seq_cons, i_and, seq_cons, i_and, seq_cons.
  cbn [map]. rewrite sep_toks_cons. cbn [app render fold_right].
  set (TAIL2 := sp semi R). set (MORE := render (more_toks (map (fun y => [y]) items)) (sp rbrace TAIL2)).
  assert (EM : fold_right sp R (more_toks (map (fun y : chars => [y]) items) ++ [rbrace; semi]) = MORE).
  { unfold MORE, TAIL2. fold (render (more_toks (map (fun y : chars => [y]) items) ++ [rbrace; semi]) R). rewrite render_app. reflexivity. }
  rewrite EM. clear EM.
  change (sp kenum (sp name (sp lbrace (sp x MORE)))) with (sp kenum (sp name (sp lbrace (sp x MORE)))).
  (* the keyword *)
  assert (Bl : boundary (sp lbrace (sp x MORE))) by (right; eexists; reflexivity).
  destruct (kw3_ok (Sn 4 (n + f)) p name (sp lbrace (sp x MORE)) (ident_word name Hn) Bl H1 H2) as [p1 E1]. cbn [Sn Nat.add] in E1.
  unfold kw3 in E1. rewrite E1. cbn [app]. rewrite seq_cons, i_name.
  destruct (IDENT_ok (Sn 4 (n + f)) p1 name (sp lbrace (sp x MORE)) Hn Bl) as [p2 E2]. cbn [Sn] in E2. unfold IDENT in E2. rewrite E2.
  cbn [map add_name fst snd]. rewrite seq_nil. cbn [app]. rewrite seq_cons, i_sup.
  destruct (lit1_at (Sn 6 (n + f)) p2 "{"%char (sp x MORE) eq_refl) as [p3 E3]. cbn [Sn] in E3. change (sp ["{"%char] (sp x MORE)) with (sp lbrace (sp x MORE)) in E3.
  rewrite E3, seq_nil. cbn [app]. rewrite seq_cons, i_name, i_and, seq_cons, i_name.
  assert (Bm : boundary MORE) by (unfold MORE; destruct items; right; eexists; reflexivity).
  destruct (enumerator_ok (Sn 3 (n + f)) p3 x MORE Hx Bm) as [p4 E4]. cbn [Sn Nat.add] in E4. rewrite E4.
  cbn [map add_name fst snd app]. rewrite seq_cons, i_star.
  fold COMMA_ENUMERATOR.
  destruct (enumerators_tail items Hi (Sn 6 (n + f)) (Sn 6 (n + f)) [] p4 TAIL2 ltac:(cbn [Sn]; unfold n; lia) ltac:(cbn [Sn]; lia))
    as [p5 E5]. cbn [Sn] in E5. fold MORE in E5. rewrite E5, seq_nil. cbn [app].
  rewrite seq_nil. cbn [app]. rewrite seq_cons, i_sup.
  destruct (lit1_at (Sn 8 (n + f)) p5 "}"%char TAIL2 eq_refl) as [p6 E6]. cbn [Sn] in E6. change (sp ["}"%char] TAIL2) with (sp rbrace TAIL2) in E6.
  rewrite E6, seq_nil. cbn [app]. rewrite seq_cons, i_sup. unfold TAIL2.
  destruct (lit1_at (Sn 9 (n + f)) p6 ";"%char R eq_refl) as [p7 E7]. cbn [Sn] in E7. change (sp [";"%char] R) with (sp semi R) in E7.
  rewrite E7, seq_nil. cbn [app]. exists p7. unfold enum_value. rewrite ?app_nil_r. cbn [map add_name fst snd app]. rewrite map_map. reflexivity.
Qed.

Lemma fwd_fails2 : forall p h r f, word h -> boundary r -> h <> kvirtual -> h <> kclass ->
  interp g (9 + f) (GRef "ForwardDeclaration") {| pk := p; rest := sp h r |} = Fail.
Proof.
  intros p h r f Hw B H1 H2. cbn [Nat.add]. rule "ForwardDeclaration"%string.
  rewrite i_and, seq_cons, i_and, seq_cons, i_and, seq_cons, i_and, seq_cons, i_opt, i_name.
  rewrite (kw_word_fail _ p "virtual" h r Hw B (safe_nospace _ _ no_blank_virtual)) by (intros E; apply H1; symmetry; exact E).
  rewrite seq_cons.
  assert (Nb : ~ In " "%char (chars_of "class")) by noblank.
  rewrite (kw_word_fail _ p "class" h r Hw B (safe_nospace _ _ Nb)) by (intros E; apply H2; symmetry; exact E). reflexivity.
Qed.
Lemma class_fails2 : forall p h r f, word h -> boundary r -> h <> ktemplate -> h <> kvirtual -> h <> kclass ->
  interp g (18 + f) (GRef "Class") {| pk := p; rest := sp h r |} = Fail.
Proof.
  intros p h r f Hw B H0 H1 H2. cbn [Nat.add]. rule "Class"%string.
  rewrite i_and, seq_cons, i_and, seq_cons, i_and, seq_cons, i_and, seq_cons, i_and, seq_cons, i_and, seq_cons, i_and, seq_cons,
          i_and, seq_cons.
  pose proof (template_opt_none (2 + f) p h r Hw B H0) as T. unfold TEMPLATE_OPT in T. cbn [Nat.add] in T. rewrite T. clear T.
  rewrite seq_cons, i_opt, i_name.
  rewrite (kw_word_fail _ p "virtual" h r Hw B (safe_nospace _ _ no_blank_virtual)) by (intros E; apply H1; symmetry; exact E).
  cbn [app]. rewrite ?seq_nil. cbn [app]. rewrite ?seq_cons.
  assert (Nb : ~ In " "%char (chars_of "class")) by noblank.
  rewrite (kw_word_fail _ p "class" h r Hw B (safe_nospace _ _ Nb)) by (intros E; apply H2; symmetry; exact E). reflexivity.
Qed.

Lemma enum_parses : parses 13 [kenum] (ty_value (kw_type "enum")).
Proof. apply kw_parses; [reflexivity | vm_compute; intuition discriminate]. Qed.

Definition enum_decl (name : string) (items : list string) : decl := DEnum {| e_name := name; e_items := items |}.

Lemma named_enumerators : forall items,
  named "enumerators" (map (fun x => (["enumerators"; "enumerator"]%string, enumerator_value x)) items) = map enumerator_value items.
Proof. induction items as [|x items IH]; [reflexivity|]. unfold named in *. cbn. f_equal. exact IH. Qed.

Lemma b_decl_enum : forall k name items,
  b_decl (S k) (enum_value name items) = Ok (enum_decl (string_of name) (map string_of items)).
Proof.
  intros k name items. unfold enum_value. cbn [b_decl].
  repeat match goal with |- context [String.eqb ?a ?b] =>
    let x := eval vm_compute in (String.eqb a b) in change (String.eqb a b) with x end.
  cbv iota. unfold b_enum, name_of, first_named. rewrite !named_app, named_enumerators.
  change (named "name" [([], VStr "enum"); (["name"%string], VStr (string_of name))]) with [VStr (string_of name)].
  change (named "enumerators" [([], VStr "enum"); (["name"%string], VStr (string_of name))]) with (@nil value).
  cbn [app hd_error bind].
  assert (M : mapM (fun e => match e with
                             | VNode _ eits => match strs eits with [x] => Ok x | _ => bad "enumerator" end
                             | _ => bad "enumerator" end) (map enumerator_value items) = Ok (map string_of items)).
  { induction items as [|x items IH]; [reflexivity|]. cbn [map mapM enumerator_value strs flat_map snd app bind]. rewrite IH. reflexivity. }
  rewrite M. reflexivity.
Qed.

Definition wf_enum (name : string) (items : list string) : Prop :=
  is_ident (chars_of name) = true /\ chars_of name <> chars_of "class" /\ chars_of name <> chars_of "struct" /\
  items <> [] /\ Forall (fun y => is_ident (chars_of y) = true) items.

Lemma content_step_enum : forall name items, wf_enum name items -> forall p R f, 40 + length items <= f ->
  exists v p', interp g f OR7 {| pk := p; rest := render (enum_toks name items) R |} = Match [([], v)] {| pk := p'; rest := R |}
               /\ forall k, b_decl (S k) v = Ok (enum_decl name items).
Proof.
  intros name items [Hn [H1 [H2 [Hne Hi]]]] p R f Hf. destruct items as [|x items]; [contradiction|].
  inversion Hi as [|? ? Hx Hrest]; subst.
  assert (Hrest' : Forall (fun y => is_ident y = true) (map chars_of items)).
  { apply Forall_forall. intros y Hy. apply in_map_iff in Hy. destruct Hy as [z [E Hz]]. subst y. rewrite Forall_forall in Hrest. apply Hrest. exact Hz. }
  cbn [length] in Hf. set (n := length items) in *.
  assert (X : exists z, f = Sn 7 (30 + n + z)) by (exists (f - 37 - n); cbn [Sn]; lia). destruct X as [z Ef]. subst f. cbn [Sn].
  unfold enum_toks.
  replace (map (fun y : string => [chars_of y]) (x :: items)) with (map (fun y => [y]) (chars_of x :: map chars_of items))
    by (cbn [map]; rewrite map_map; reflexivity).
  destruct (enum_ok (chars_of name) (chars_of x) (map chars_of items) (21 + z) p R Hn H1 H2 Hx Hrest') as [p' E].
  rewrite map_length in E. fold n in E.
  exists (enum_value (chars_of name) (chars_of x :: map chars_of items)), p'. split.
  2:{ intros k. rewrite b_decl_enum. rewrite string_chars. cbn [map]. rewrite string_chars, map_string_chars. reflexivity. }
  set (TXT := render ([kenum; chars_of name; lbrace] ++ sep_toks (map (fun y => [y]) (chars_of x :: map chars_of items)) ++ [rbrace; semi]) R) in *.
  set (AFTER := render ([lbrace] ++ sep_toks (map (fun y => [y]) (chars_of x :: map chars_of items)) ++ [rbrace; semi]) R).
  assert (ET : TXT = sp kenum (sp (chars_of name) AFTER)) by reflexivity.
  assert (EA : AFTER = sp ("{"%char :: []) (render (sep_toks (map (fun y => [y]) (chars_of x :: map chars_of items)) ++ [rbrace; semi]) R)) by reflexivity.
  assert (We : word kenum) by (split; [discriminate | reflexivity]).
  assert (Bd : boundary (sp (chars_of name) AFTER)) by (right; eexists; reflexivity).
  rewrite ET in *.
  unfold OR7. apply or2_l; [|apply (namespace_fails p kenum _ We Bd (29 + n + z)); discriminate].
  unfold OR6. apply or2_l.
  2:{ rewrite EA. apply (variable_fails 13 [kenum] (ty_value (kw_type "enum")) (chars_of name) "{"%char [] _ enum_parses Hn eq_refl eq_refl eq_refl (27 + n + z) p). lia. }
  assert (EQ : 13 + n + (21 + z) = S (S (S (S (30 + n + z))))) by lia. rewrite EQ in E.
  unfold OR5. rewrite or2_r; [exact E|].
  unfold OR4. rewrite or2_r.
  { rewrite EA. apply (function_fails 13 [kenum] (ty_value (kw_type "enum")) (chars_of name) "{"%char [] _ enum_parses
                         (wf_head_kw kenum We ltac:(discriminate) ltac:(discriminate)) Hn eq_refl eq_refl (13 + n + z) p). lia. }
  unfold OR3. rewrite or2_r; [apply (typedef_fails2 p kenum _ (26 + n + z) We Bd); discriminate|].
  unfold OR2. rewrite or2_r; [apply (class_fails2 p kenum _ (13 + n + z) We Bd); discriminate|].
  unfold OR1. rewrite or2_r; [apply (include_fails2 p kenum _ (24 + n + z) We Bd)|].
  apply (fwd_fails2 p kenum _ (21 + n + z) We Bd); discriminate.
Qed.

(* ---- typedef of a template instantiation `typedef ns::Name < args > NewName ;` ----
   The parse tree keeps only the Typename of the target (qualifiers of the target are dropped: recorded finding), so the
   fragment takes targets without const / pointer markers at the top; the arguments are arbitrary well-formed types. *)
Definition ktypedef : chars := chars_of "typedef".
Definition templ_top (t : ty) : Prop := match t with TTempl _ _ _ false PNone => True | _ => False end.

Lemma templ_ref_ok : forall t, wf_ty t -> templ_top t -> forall f p r, follow r -> fuel_of t <= f ->
  exists p', interp g f (GRef "TemplatedType") {| pk := p; rest := render (ty_toks t) r |}
             = Match [([], ty_value t)] {| pk := p'; rest := r |}.
Proof.
  intros t Hw Ht f p r Hr Hf.
  destruct t as [tn c k b | ns [nm|o] ps c k]; cbn [templ_top] in Ht; try contradiction.
  destruct c; try contradiction. destruct k; try contradiction. cbn [wf_ty] in Hw.
    destruct Hw as [[Hp Hres] [Hne Hall]]. apply wf_all in Hall.
    destruct (names_of_cons ns nm) as [h [l [E Hl]]]. cbn [ty_toks ty_value fuel_of] in *. rewrite E in *. cbn [hd] in Hres.
    inversion Hp as [|? ? Hh Hrest]; subst.
    destruct ps as [|t1 ps]; [contradiction|]. cbn [map].
    set (F0 := fold_right (fun x acc => fuel_of x + acc) 0 (t1 :: ps)) in *.
    assert (Hsub : forall x, In x (t1 :: ps) -> parses F0 (ty_toks x) (ty_value x)).
    { intros x Hx. apply (parses_mono (fuel_of x)); [|apply sum_ge; exact Hx].
      apply (ty_parses (S (depth x))); [lia|rewrite Forall_forall in Hall; apply Hall; exact Hx]. }
    assert (H1 : parses F0 (ty_toks t1) (ty_value t1)) by (apply Hsub; left; reflexivity).
    assert (H2 : Forall2 (parses F0) (map ty_toks ps) (map ty_value ps)).
    { assert (Hs2 : forall x, In x ps -> parses F0 (ty_toks x) (ty_value x)) by (intros x Hx; apply Hsub; right; exact Hx).
      clearbody F0. clear - Hs2. induction ps as [|x r IHr]; [constructor|]. cbn [map]. constructor; [apply Hs2; left; reflexivity|].
      apply IHr. intros y Hy. apply Hs2. right. exact Hy. }
    assert (X : exists f', f = 12 + f' /\ length l <= f' /\ F0 <= f' /\ length (map ty_toks ps) <= f').
    { exists (f - 12). rewrite map_length. cbn [length] in Hf. fold F0 in Hf. repeat split; lia. }
    destruct X as [f' [Ef [Hlen [HF Hn]]]]. subst f.
    assert (Hk : h <> kconst) by (intros Ek; apply Hres; rewrite Ek; vm_compute; tauto).
    apply (tt_ok f' p false h l _ _ _ _ PNone r F0); assumption.
Qed.

Definition typedef_toks (t : ty) (name : string) : list chars := [ktypedef] ++ ty_toks t ++ [chars_of name; semi].
Definition typedef_value (tv : value) (n : chars) : value :=
  VNode "TypedefTemplateInstantiation" [([], VStr "typedef"); (["templated_type"%string], tv); (["new_name"%string], VStr (string_of n))].
Definition wf_typedef (t : ty) (name : string) : Prop :=
  wf_ty t /\ depth t < depth_fuel /\ templ_top t /\ is_ident (chars_of name) = true.

Lemma typedef_ok : forall t n, wf_ty t -> templ_top t -> is_ident n = true ->
  forall f p R, fuel_of t <= f ->
  exists p', interp g (8 + f) (GRef "TypedefTemplateInstantiation") {| pk := p; rest := render ([ktypedef] ++ ty_toks t ++ [n; semi]) R |}
             = Match [([], typedef_value (ty_value t) n)] {| pk := p'; rest := R |}.
Proof.
  intros t n Hw Ht Hn f p R Hf. cbn [Nat.add]. rule "TypedefTemplateInstantiation"%string.
  rewrite i_and, seq_cons, i_and, seq_cons, i_and, seq_cons, i_term.
  rewrite !render_app. change (render [ktypedef] ?x) with (sp ktypedef x). change (render [n; semi] R) with (sp n (sp semi R)).
  set (TAIL := sp n (sp semi R)).
  assert (Bd : boundary (render (ty_toks t) TAIL)) by (apply render_boundary; right; eexists; reflexivity).
  destruct (kw_self p "t"%char (chars_of "ypedef") (render (ty_toks t) TAIL) eq_refl Bd) as [p1 E1].
  change (string_of ("t"%char :: chars_of "ypedef")) with "typedef"%string in E1.
  change (sp ("t"%char :: chars_of "ypedef") (render (ty_toks t) TAIL)) with (sp ktypedef (render (ty_toks t) TAIL)) in E1. rewrite E1. cbn [app].
  rewrite seq_cons, i_name.
  destruct (templ_ref_ok t Hw Ht (3 + f) p1 TAIL (follow_ident n _ Hn) ltac:(lia)) as [p2 E2]. cbn [Nat.add] in E2. rewrite E2.
  cbn [map add_name fst snd]. rewrite seq_nil. cbn [app]. rewrite seq_cons, i_name. unfold TAIL.
  assert (Bs : boundary (sp semi R)) by (right; eexists; reflexivity).
  destruct (IDENT_ok (Sn 2 f) p2 n (sp semi R) Hn Bs) as [p3 E3]. cbn [Sn] in E3. unfold IDENT in E3. rewrite E3.
  cbn [map add_name fst snd]. rewrite seq_nil. cbn [app]. rewrite seq_cons, i_sup.
  destruct (lit1_at (Sn 4 f) p3 ";"%char R eq_refl) as [p4 E4]. cbn [Sn] in E4. change (sp [";"%char] R) with (sp semi R) in E4.
  rewrite E4, seq_nil. cbn [app]. exists p4. reflexivity.
Qed.

Lemma b_decl_typedef : forall k tv n t, b_type tv = Ok t ->
  b_decl (S k) (typedef_value tv n) = Ok (DTypedef (ty_typename t) (string_of n)).
Proof.
  intros k tv n t H. unfold typedef_value. cbn [b_decl].
  repeat match goal with |- context [String.eqb ?a ?b] =>
    let x := eval vm_compute in (String.eqb a b) in change (String.eqb a b) with x end.
  cbv iota.
  change (first_named "templated_type" [([], VStr "typedef"); (["templated_type"%string], tv); (["new_name"%string], VStr (string_of n))]) with (Some tv).
  change (first_named "new_name" [([], VStr "typedef"); (["templated_type"%string], tv); (["new_name"%string], VStr (string_of n))]) with (Some (VStr (string_of n))).
  cbv iota. rewrite H. reflexivity.
Qed.

Lemma templ_shape : forall t, wf_ty t -> templ_top t ->
  exists h c t' rest', ty_toks t = h :: (c :: t') :: rest' /\ is_ident h = true /\ solid c = true /\
                       ceq "("%char c = false /\ ceq "="%char c = false /\ ceq ";"%char c = false.
Proof.
  intros t Hw Ht. destruct t as [tn c k b | ns [nm|o] ps c k]; cbn [templ_top] in Ht; try contradiction.
  destruct c; try contradiction. destruct k; try contradiction. cbn [wf_ty] in Hw. destruct Hw as [[Hp _] _].
  destruct (names_of_cons ns nm) as [h [l [E _]]]. cbn [ty_toks]. rewrite E in *. inversion Hp as [|? ? Hh _]; subst.
  unfold tt_toks. cbn [const_toks app]. rewrite path_toks_cons. destruct l as [|m l]; cbn [tail_toks flat_map app].
  - exists h, "<"%char, [], (sep_toks (map ty_toks ps) ++ [gt_tok] ++ marker PNone). repeat split; try reflexivity; exact Hh.
  - exists h, ":"%char, [":"%char], (m :: tail_toks l ++ [lt_tok] ++ sep_toks (map ty_toks ps) ++ [gt_tok] ++ marker PNone).
    repeat split; try reflexivity; exact Hh.
Qed.

Lemma typedef_kw_parses : parses 13 [ktypedef] (ty_value (kw_type "typedef")).
Proof. apply kw_parses; [reflexivity | vm_compute; intuition discriminate]. Qed.

Lemma content_step_typedef : forall t name, wf_typedef t name -> forall p R f, 40 + fuel_of t <= f ->
  exists v p', interp g f OR7 {| pk := p; rest := render (typedef_toks t name) R |} = Match [([], v)] {| pk := p'; rest := R |}
               /\ forall k, b_decl (S k) v = Ok (DTypedef (ty_typename t) name).
Proof.
  intros t name [Hw [Hd [Ht Hn]]] p R f Hf. set (n := chars_of name) in *. set (ft := fuel_of t) in *.
  assert (X : exists z, f = Sn 7 (30 + ft + z)) by (exists (f - 37 - ft); cbn [Sn]; lia). destruct X as [z Ef]. subst f. cbn [Sn].
  unfold typedef_toks. fold n.
  destruct (typedef_ok t n Hw Ht Hn (24 + ft + z) p R ltac:(unfold ft; lia)) as [p' E].
  exists (typedef_value (ty_value t) n), p'. split.
  2:{ intros k. rewrite <- (string_chars name). fold n. apply b_decl_typedef. unfold b_type. apply (ty_rebuilt depth_fuel t Hd Hw). }
  destruct (templ_shape t Hw Ht) as [h [c [t' [rest' [Es [Hh [Cs [Cl [Ce Csm]]]]]]]]].
  set (TXT := render ([ktypedef] ++ ty_toks t ++ [n; semi]) R) in *.
  set (X := render (rest' ++ [n; semi]) R).
  assert (ET : TXT = sp ktypedef (sp h (sp (c :: t') X))).
  { unfold TXT, X. rewrite Es. cbn [app render fold_right]. reflexivity. }
  assert (Wt : word ktypedef) by (split; [discriminate | reflexivity]).
  assert (Bd : boundary (sp h (sp (c :: t') X))) by (right; eexists; reflexivity).
  assert (EQ : 8 + (24 + ft + z) = S (S (30 + ft + z))) by lia. rewrite EQ in E. rewrite ET in *.
  unfold OR7. apply or2_l; [|apply (namespace_fails p ktypedef _ Wt Bd (29 + ft + z)); discriminate].
  unfold OR6. apply or2_l.
  2:{ apply (variable_fails 13 [ktypedef] (ty_value (kw_type "typedef")) h c t' X typedef_kw_parses Hh Cs Ce Csm (27 + ft + z) p). lia. }
  unfold OR5. apply or2_l; [|apply (enum_fails2 p ktypedef _ (24 + ft + z) Wt Bd); discriminate].
  unfold OR4. apply or2_l.
  2:{ apply (function_fails 13 [ktypedef] (ty_value (kw_type "typedef")) h c t' X typedef_kw_parses
                            (wf_head_kw ktypedef Wt ltac:(discriminate) ltac:(discriminate)) Hh Cs Cl (13 + ft + z) p). lia. }
  unfold OR3. rewrite or2_r; [exact E|].
  unfold OR2. rewrite or2_r; [apply (class_fails2 p ktypedef _ (13 + ft + z) Wt Bd); discriminate|].
  unfold OR1. rewrite or2_r; [apply (include_fails2 p ktypedef _ (24 + ft + z) Wt Bd)|].
  apply (fwd_fails2 p ktypedef _ (21 + ft + z) Wt Bd); discriminate.
Qed.

(* ---- functions returning a pair ---- *)
Definition wf_pfn (t1 t2 : ty) (name : string) (args : list (ty * string)) : Prop :=
  wf_ty t1 /\ wf_ty t2 /\ plain t1 /\ plain t2 /\ is_ident (chars_of name) = true /\ Forall wf_arg args.
Definition pfn_decl (t1 t2 : ty) (name : string) (args : list (ty * string)) : decl :=
  DFun {| f_tmpl := None; f_name := name; f_ret := RPair t1 t2; f_args := map mk_arg args |}.

Lemma content_step_pfn : forall t1 t2 name args, wf_pfn t1 t2 name args -> forall p R f, pfn_fuel t1 t2 args + 25 <= f ->
  exists v p', interp g f OR7 {| pk := p; rest := render (pfn_toks t1 t2 name args) R |} = Match [([], v)] {| pk := p'; rest := R |}
               /\ forall k, b_decl (S k) v = Ok (pfn_decl t1 t2 name args).
Proof.
  intros t1 t2 name args [W1 [W2 [P1 [P2 [Hn Ha]]]]] p R f Hf.
  assert (X : exists y, f = Sn 7 (18 + y) /\ pfn_fuel t1 t2 args <= y) by (exists (f - 25); cbn [Sn]; lia).
  destruct X as [y [Ef Hy]]. subst f. cbn [Sn].
  destruct (pair_function_roundtrip t1 t2 name args W1 W2 P1 P2 Hn Ha p R (Sn 3 (18 + y)) ltac:(cbn [Sn]; lia)) as [v [p' [E B]]]. cbn [Sn] in E.
  exists v, p'. split; [|exact B].
  set (st := {| pk := p; rest := render (pfn_toks t1 t2 name args) R |}) in *.
  set (TAILP := render ([lt_tok] ++ ty_toks t1 ++ [comma_tok] ++ ty_toks t2 ++ [gt_tok] ++ [chars_of name] ++ [lparen] ++ args_toks args ++ [rparen] ++ [semi]) R).
  assert (Est : st = {| pk := p; rest := sp kpair TAILP |}).
  { unfold st, pfn_toks, TAILP. rewrite pair_toks_eq. rewrite <- !app_assoc. reflexivity. }
  assert (Wp : word kpair) by (split; [discriminate | reflexivity]).
  assert (Bd : boundary TAILP) by (right; eexists; reflexivity).
  unfold OR7. apply or2_l; [|rewrite Est; apply (namespace_fails p kpair _ Wp Bd (Sn 6 (11 + y))); discriminate].
  unfold OR6. apply or2_l.
  2:{ unfold st, pfn_toks. rewrite render_app.
      change (render ([chars_of name] ++ [lparen] ++ args_toks args ++ [rparen] ++ [semi]) R)
        with (sp (chars_of name) (sp lparen (render (args_toks args ++ [rparen] ++ [semi]) R))).
      assert (HP : parses (fuel_of (pair_type t1 t2)) (pair_toks t1 t2) (ty_value (pair_type t1 t2))).
      { apply (ty_parses 2 (pair_type t1 t2)); [|apply wf_pair_type; assumption].
        cbn [depth pair_type fold_right]. rewrite (plain_depth t1 P1), (plain_depth t2 P2). cbn. lia. }
      apply (variable_fails _ (pair_toks t1 t2) _ (chars_of name) "("%char [] _ HP Hn eq_refl eq_refl eq_refl (Sn 5 (10 + y)) p).
      unfold pfn_fuel in Hy. cbn [Sn]. lia. }
  unfold OR5. apply or2_l; [|rewrite Est; apply (enum_fails2 p kpair _ (12 + y) Wp Bd); discriminate].
  unfold OR4. rewrite or2_r; [exact E|].
  unfold OR3. rewrite or2_r; [rewrite Est; apply (typedef_fails2 p kpair _ (14 + y) Wp Bd); discriminate|].
  unfold OR2. rewrite or2_r; [rewrite Est; apply (class_fails2 p kpair _ (1 + y) Wp Bd); discriminate|].
  unfold OR1. rewrite or2_r; [rewrite Est; apply (include_fails2 p kpair _ (12 + y) Wp Bd)|].
  rewrite Est. apply (fwd_fails2 p kpair _ (9 + y) Wp Bd); discriminate.
Qed.

(* ---- where a run of declarations stops: at the end of the text, or at the closing brace of a namespace ---- *)

Lemma ty_fails_at_rbrace : forall f p X, interp g (12 + f) TY {| pk := p; rest := sp rbrace X |} = Fail.
Proof.
  intros f p X. cbn [Nat.add]. unfold TY. rewrite i_or. cbn [alt_longest].
  rewrite (i_ref _ _ "Type" TYPE_BODY lookup_Type). unfold TYPE_BODY. rewrite i_and, seq_cons, i_and, seq_cons.
  unfold CONST_OPT. rewrite i_opt, i_name. unfold rbrace.
  rewrite (kw_fail_first _ p "const" "}"%char [] X eq_refl eq_refl). rewrite seq_cons.
  unfold CHOICE. rewrite i_first. cbn [alt_first]. rewrite i_name, (i_ref _ _ "BasicType" BASIC_BODY lookup_BasicType).
  unfold BASIC_BODY. rewrite i_or. cbn [alt_longest].
  rewrite !(kw_fail_first _ p _ "}"%char [] X eq_refl) by reflexivity.
  rewrite i_name, (i_ref _ _ "CustomType" TN_BODY lookup_CustomType). unfold TN_BODY. rewrite i_and, seq_cons.
  rewrite (IDENT_fail _ p "}"%char [] X eq_refl eq_refl eq_refl).
  rewrite (i_ref _ _ "TemplatedType" TT_BODY lookup_TemplatedType). unfold TT_BODY.
  rewrite i_and, seq_cons, i_and, seq_cons, i_and, seq_cons. unfold CONST_OPT. rewrite i_opt, i_name.
  rewrite (kw_fail_first _ p "const" "}"%char [] X eq_refl eq_refl). rewrite seq_cons.
  rewrite i_name, (i_ref _ _ "Typename" TN_BODY lookup_Typename). unfold TN_BODY. rewrite i_and, seq_cons.
  rewrite (IDENT_fail _ p "}"%char [] X eq_refl eq_refl eq_refl). reflexivity.
Qed.

Section AtBrace.
  Variables (p : bool) (X : chars).
  Let st : pst := {| pk := p; rest := sp rbrace X |}.

  Lemma kwb : forall f (k : string), match chars_of k with d :: _ => ceq d "}"%char = false | [] => False end ->
    interp g (S f) (GTerm (TKw k)) st = Fail.
  Proof. intros f k H. apply (kw_fail_first f p k "}"%char [] X eq_refl H). Qed.

  Lemma fwd_b : forall f, interp g (23 + f) (GRef "ForwardDeclaration") st = Fail.
  Proof.
    intros f. cbn [Nat.add]. rule "ForwardDeclaration"%string.
    rewrite i_and, seq_cons, i_and, seq_cons, i_and, seq_cons, i_and, seq_cons, i_opt, i_name.
    rewrite (kwb _ "virtual" eq_refl). rewrite seq_cons. rewrite (kwb _ "class" eq_refl). reflexivity.
  Qed.
  Lemma include_b : forall f, interp g (23 + f) (GRef "Include") st = Fail.
  Proof.
    intros f. cbn [Nat.add]. rule "Include"%string. rewrite i_and, seq_cons, i_and, seq_cons, i_and, seq_cons.
    rewrite (kwb _ "#include" eq_refl). reflexivity.
  Qed.
  Lemma template_opt_b : forall f, interp g (7 + f) TEMPLATE_OPT st = Match [] st.
  Proof.
    intros f. cbn [Nat.add]. unfold TEMPLATE_OPT. rewrite i_opt, i_name, (i_ref _ _ "Template" TEMPLATE_BODY lookup_Template).
    unfold TEMPLATE_BODY. rewrite i_and, seq_cons, i_and, seq_cons, i_and, seq_cons. rewrite (kwb _ "template" eq_refl). reflexivity.
  Qed.
  Lemma class_b : forall f, interp g (24 + f) (GRef "Class") st = Fail.
  Proof.
    intros f. cbn [Nat.add]. rule "Class"%string.
    rewrite i_and, seq_cons, i_and, seq_cons, i_and, seq_cons, i_and, seq_cons, i_and, seq_cons, i_and, seq_cons, i_and, seq_cons,
            i_and, seq_cons.
    pose proof (template_opt_b (8 + f)) as T. unfold TEMPLATE_OPT in T. cbn [Nat.add] in T. rewrite T. clear T.
    rewrite seq_cons, i_opt, i_name. rewrite (kwb _ "virtual" eq_refl).
    cbn [app]. rewrite ?seq_nil. cbn [app]. rewrite ?seq_cons. rewrite (kwb _ "class" eq_refl). reflexivity.
  Qed.
  Lemma typedef_b : forall f, interp g (25 + f) (GRef "TypedefTemplateInstantiation") st = Fail.
  Proof.
    intros f. cbn [Nat.add]. rule "TypedefTemplateInstantiation"%string. rewrite i_and, seq_cons, i_and, seq_cons, i_and, seq_cons.
    rewrite (kwb _ "typedef" eq_refl). reflexivity.
  Qed.
  Lemma fn_b : forall f, interp g (26 + f) (GRef "GlobalFunction") st = Fail.
  Proof.
    intros f. cbn [Nat.add]. rewrite (i_ref _ _ "GlobalFunction" FN_BODY lookup_GlobalFunction). unfold FN_BODY.
    rewrite i_and, seq_cons, i_and, seq_cons, i_and, seq_cons, i_and, seq_cons, i_and, seq_cons, i_and, seq_cons.
    pose proof (template_opt_b (12 + f)) as T. cbn [Nat.add] in T. rewrite T. clear T. cbn [app]. rewrite seq_cons, i_name.
    rewrite (i_ref _ _ "ReturnType" RT_BODY lookup_ReturnType). unfold RT_BODY. rewrite i_or. cbn [alt_longest].
    unfold PAIR_AND. rewrite i_and, seq_cons, i_and, seq_cons, i_and, seq_cons, i_and, seq_cons, i_and, seq_cons, i_and, seq_cons, i_sup, i_opt, i_term.
    pose proof (lit_fail p (chars_of "std::") "}"%char [] X eq_refl eq_refl) as L. change (string_of (chars_of "std::")) with "std::"%string in L.
    change (run_term (TLit "std::") st = Fail) in L. rewrite L. clear L. rewrite seq_cons, i_sup. rewrite (kwb _ "pair" eq_refl).
    rewrite i_name. pose proof (ty_fails_at_rbrace (3 + f) p X) as E. cbn [Nat.add] in E.
    change (interp g (S (S (S (S (S (S (S (S (S (S (S (S (S (S (S f))))))))))))))) TY st = Fail) in E. rewrite E. reflexivity.
  Qed.
  Lemma enum_b : forall f, interp g (27 + f) (GRef "Enum") st = Fail.
  Proof.
    intros f. cbn [Nat.add]. rule "Enum"%string.
    rewrite i_and, seq_cons, i_and, seq_cons, i_and, seq_cons, i_and, seq_cons, i_and, seq_cons, i_or.
    cbn [alt_longest]. rewrite i_or. cbn [alt_longest].
    rewrite (kwb _ "enum" eq_refl), (kwb _ "enum class" eq_refl), (kwb _ "enum struct" eq_refl). reflexivity.
  Qed.
  Lemma var_b : forall f, interp g (28 + f) (GRef "Variable") st = Fail.
  Proof.
    intros f. cbn [Nat.add]. rule "Variable"%string. rewrite i_and, seq_cons, i_and, seq_cons, i_and, seq_cons, i_name.
    pose proof (ty_fails_at_rbrace (11 + f) p X) as E. cbn [Nat.add] in E. unfold TY in E.
    match type of E with interp g ?F ?e _ = Fail => change (interp g F e st = Fail) in E end. rewrite E. reflexivity.
  Qed.
  Lemma ns_b : forall f, interp g (29 + f) (GRef "Namespace") st = Fail.
  Proof.
    intros f. cbn [Nat.add]. rule "Namespace"%string. rewrite i_and, seq_cons, i_and, seq_cons, i_and, seq_cons, i_and, seq_cons.
    rewrite (kwb _ "namespace" eq_refl). reflexivity.
  Qed.

  (* the alternatives of Class.Members at `}` *)
  Lemma rt_b : forall f, interp g (16 + f) (GRef "ReturnType") st = Fail.
  Proof.
    intros f. cbn [Nat.add]. rewrite (i_ref _ _ "ReturnType" RT_BODY lookup_ReturnType). unfold RT_BODY. rewrite i_or. cbn [alt_longest].
    unfold PAIR_AND. rewrite i_and, seq_cons, i_and, seq_cons, i_and, seq_cons, i_and, seq_cons, i_and, seq_cons, i_and, seq_cons, i_sup, i_opt, i_term.
    pose proof (lit_fail p (chars_of "std::") "}"%char [] X eq_refl eq_refl) as L. change (string_of (chars_of "std::")) with "std::"%string in L.
    change (run_term (TLit "std::") st = Fail) in L. rewrite L. clear L. rewrite seq_cons, i_sup. rewrite (kwb _ "pair" eq_refl).
    rewrite i_name. pose proof (ty_fails_at_rbrace (1 + f) p X) as E. cbn [Nat.add] in E.
    match type of E with interp g ?F ?e _ = Fail => change (interp g F e st = Fail) in E end. rewrite E. reflexivity.
  Qed.
  Lemma dunder_b : forall f, interp g (9 + f) (GRef "DunderMethod") st = Fail.
  Proof.
    intros f. cbn [Nat.add]. rule "DunderMethod"%string.
    rewrite i_and, seq_cons, i_and, seq_cons, i_and, seq_cons, i_and, seq_cons, i_and, seq_cons, i_and, seq_cons, i_sup, i_term.
    pose proof (lit_fail p (chars_of "__") "}"%char [] X eq_refl eq_refl) as L. change (string_of (chars_of "__")) with "__"%string in L.
    change (run_term (TLit "__") st = Fail) in L. rewrite L. reflexivity.
  Qed.
  Lemma ctor_b : forall f, interp g (14 + f) (GRef "Constructor") st = Fail.
  Proof.
    intros f. cbn [Nat.add]. rule "Constructor"%string.
    rewrite i_and, seq_cons, i_and, seq_cons, i_and, seq_cons, i_and, seq_cons, i_and, seq_cons.
    pose proof (template_opt_b (1 + f)) as T. unfold TEMPLATE_OPT in T. cbn [Nat.add] in T. rewrite T. clear T. cbn [app]. rewrite seq_cons, i_name.
    pose proof (IDENT_fail (5 + f) p "}"%char [] X eq_refl eq_refl eq_refl) as E. cbn [Nat.add] in E. unfold IDENT in E.
    match type of E with interp g ?F ?e _ = Fail => change (interp g F e st = Fail) in E end. rewrite E. reflexivity.
  Qed.
  Lemma method_b : forall f, interp g (25 + f) (GRef "Method") st = Fail.
  Proof.
    intros f. cbn [Nat.add]. rule "Method"%string.
    rewrite i_and, seq_cons, i_and, seq_cons, i_and, seq_cons, i_and, seq_cons, i_and, seq_cons, i_and, seq_cons, i_and, seq_cons.
    pose proof (template_opt_b (10 + f)) as T. unfold TEMPLATE_OPT in T. cbn [Nat.add] in T. rewrite T. clear T. cbn [app]. rewrite seq_cons, i_name.
    pose proof (rt_b f) as E. cbn [Nat.add] in E. rewrite E. reflexivity.
  Qed.
  Lemma static_b : forall f, interp g (17 + f) (GRef "StaticMethod") st = Fail.
  Proof.
    intros f. cbn [Nat.add]. rule "StaticMethod"%string.
    rewrite i_and, seq_cons, i_and, seq_cons, i_and, seq_cons, i_and, seq_cons, i_and, seq_cons, i_and, seq_cons, i_and, seq_cons.
    pose proof (template_opt_b (2 + f)) as T. unfold TEMPLATE_OPT in T. cbn [Nat.add] in T. rewrite T. clear T. cbn [app]. rewrite seq_cons.
    rewrite (kwb _ "static" eq_refl). reflexivity.
  Qed.
  Lemma oper_b : forall f, interp g (25 + f) (GRef "Operator") st = Fail.
  Proof.
    intros f. cbn [Nat.add]. rule "Operator"%string.
    rewrite i_and, seq_cons, i_and, seq_cons, i_and, seq_cons, i_and, seq_cons, i_and, seq_cons, i_and, seq_cons, i_and, seq_cons, i_name.
    pose proof (rt_b f) as E. cbn [Nat.add] in E. rewrite E. reflexivity.
  Qed.

  Lemma rbrace_fails : forall f, interp g (30 + f) OR7 st = Fail.
  Proof.
    intros f.
    assert (E1 : interp g (24 + f) OR1 st = Fail) by (unfold OR1; change (24 + f) with (S (23 + f)); rewrite or2_r; [apply include_b | apply fwd_b]).
    assert (E2 : interp g (25 + f) OR2 st = Fail) by (unfold OR2; change (25 + f) with (S (24 + f)); rewrite or2_r; [apply class_b | exact E1]).
    assert (E3 : interp g (26 + f) OR3 st = Fail) by (unfold OR3; change (26 + f) with (S (25 + f)); rewrite or2_r; [apply typedef_b | exact E2]).
    assert (E4 : interp g (27 + f) OR4 st = Fail) by (unfold OR4; change (27 + f) with (S (26 + f)); rewrite or2_r; [apply fn_b | exact E3]).
    assert (E5 : interp g (28 + f) OR5 st = Fail) by (unfold OR5; change (28 + f) with (S (27 + f)); rewrite or2_r; [apply enum_b | exact E4]).
    assert (E6 : interp g (29 + f) OR6 st = Fail) by (unfold OR6; change (29 + f) with (S (28 + f)); rewrite or2_r; [apply var_b | exact E5]).
    unfold OR7. change (30 + f) with (S (29 + f)). rewrite or2_r; [apply ns_b | exact E6].
  Qed.
End AtBrace.


(* ---- #include <path>: every other alternative fails at the character `#` ---- *)
Definition kinclude : chars := chars_of "#include".
Lemma ty_fails_at_hash : forall f p X, interp g (12 + f) TY {| pk := p; rest := sp kinclude X |} = Fail.
Proof.
  intros f p X. cbn [Nat.add]. unfold TY. rewrite i_or. cbn [alt_longest].
  rewrite (i_ref _ _ "Type" TYPE_BODY lookup_Type). unfold TYPE_BODY. rewrite i_and, seq_cons, i_and, seq_cons.
  unfold CONST_OPT. rewrite i_opt, i_name. unfold kinclude. change (chars_of "#include") with ("#"%char :: chars_of "include").
  rewrite (kw_fail_first _ p "const" "#"%char (chars_of "include") X eq_refl eq_refl). rewrite seq_cons.
  unfold CHOICE. rewrite i_first. cbn [alt_first]. rewrite i_name, (i_ref _ _ "BasicType" BASIC_BODY lookup_BasicType).
  unfold BASIC_BODY. rewrite i_or. cbn [alt_longest].
  rewrite !(kw_fail_first _ p _ "#"%char (chars_of "include") X eq_refl) by reflexivity.
  rewrite i_name, (i_ref _ _ "CustomType" TN_BODY lookup_CustomType). unfold TN_BODY. rewrite i_and, seq_cons.
  rewrite (IDENT_fail _ p "#"%char (chars_of "include") X eq_refl eq_refl eq_refl).
  rewrite (i_ref _ _ "TemplatedType" TT_BODY lookup_TemplatedType). unfold TT_BODY.
  rewrite i_and, seq_cons, i_and, seq_cons, i_and, seq_cons. unfold CONST_OPT. rewrite i_opt, i_name.
  rewrite (kw_fail_first _ p "const" "#"%char (chars_of "include") X eq_refl eq_refl). rewrite seq_cons.
  rewrite i_name, (i_ref _ _ "Typename" TN_BODY lookup_Typename). unfold TN_BODY. rewrite i_and, seq_cons.
  rewrite (IDENT_fail _ p "#"%char (chars_of "include") X eq_refl eq_refl eq_refl). reflexivity.
Qed.


Section AtHash.
  Variables (p : bool) (X : chars).
  Let st : pst := {| pk := p; rest := sp kinclude X |}.

  Lemma kwb_h : forall f (k : string), match chars_of k with d :: _ => ceq d "#"%char = false | [] => False end ->
    interp g (S f) (GTerm (TKw k)) st = Fail.
  Proof. intros f k H. apply (kw_fail_first f p k "#"%char (chars_of "include") X eq_refl H). Qed.

  Lemma fwd_b_h : forall f, interp g (23 + f) (GRef "ForwardDeclaration") st = Fail.
  Proof.
    intros f. cbn [Nat.add]. rule "ForwardDeclaration"%string.
    rewrite i_and, seq_cons, i_and, seq_cons, i_and, seq_cons, i_and, seq_cons, i_opt, i_name.
    rewrite (kwb_h _ "virtual" eq_refl). rewrite seq_cons. rewrite (kwb_h _ "class" eq_refl). reflexivity.
  Qed.
  Lemma template_opt_b_h : forall f, interp g (7 + f) TEMPLATE_OPT st = Match [] st.
  Proof.
    intros f. cbn [Nat.add]. unfold TEMPLATE_OPT. rewrite i_opt, i_name, (i_ref _ _ "Template" TEMPLATE_BODY lookup_Template).
    unfold TEMPLATE_BODY. rewrite i_and, seq_cons, i_and, seq_cons, i_and, seq_cons. rewrite (kwb_h _ "template" eq_refl). reflexivity.
  Qed.
  Lemma class_b_h : forall f, interp g (24 + f) (GRef "Class") st = Fail.
  Proof.
    intros f. cbn [Nat.add]. rule "Class"%string.
    rewrite i_and, seq_cons, i_and, seq_cons, i_and, seq_cons, i_and, seq_cons, i_and, seq_cons, i_and, seq_cons, i_and, seq_cons,
            i_and, seq_cons.
    pose proof (template_opt_b_h (8 + f)) as T. unfold TEMPLATE_OPT in T. cbn [Nat.add] in T. rewrite T. clear T.
    rewrite seq_cons, i_opt, i_name. rewrite (kwb_h _ "virtual" eq_refl).
    cbn [app]. rewrite ?seq_nil. cbn [app]. rewrite ?seq_cons. rewrite (kwb_h _ "class" eq_refl). reflexivity.
  Qed.
  Lemma typedef_b_h : forall f, interp g (25 + f) (GRef "TypedefTemplateInstantiation") st = Fail.
  Proof.
    intros f. cbn [Nat.add]. rule "TypedefTemplateInstantiation"%string. rewrite i_and, seq_cons, i_and, seq_cons, i_and, seq_cons.
    rewrite (kwb_h _ "typedef" eq_refl). reflexivity.
  Qed.
  Lemma fn_b_h : forall f, interp g (26 + f) (GRef "GlobalFunction") st = Fail.
  Proof.
    intros f. cbn [Nat.add]. rewrite (i_ref _ _ "GlobalFunction" FN_BODY lookup_GlobalFunction). unfold FN_BODY.
    rewrite i_and, seq_cons, i_and, seq_cons, i_and, seq_cons, i_and, seq_cons, i_and, seq_cons, i_and, seq_cons.
    pose proof (template_opt_b_h (12 + f)) as T. cbn [Nat.add] in T. rewrite T. clear T. cbn [app]. rewrite seq_cons, i_name.
    rewrite (i_ref _ _ "ReturnType" RT_BODY lookup_ReturnType). unfold RT_BODY. rewrite i_or. cbn [alt_longest].
    unfold PAIR_AND. rewrite i_and, seq_cons, i_and, seq_cons, i_and, seq_cons, i_and, seq_cons, i_and, seq_cons, i_and, seq_cons, i_sup, i_opt, i_term.
    pose proof (lit_fail p (chars_of "std::") "#"%char (chars_of "include") X eq_refl eq_refl) as L. change (string_of (chars_of "std::")) with "std::"%string in L.
    change (run_term (TLit "std::") st = Fail) in L. rewrite L. clear L. rewrite seq_cons, i_sup. rewrite (kwb_h _ "pair" eq_refl).
    rewrite i_name. pose proof (ty_fails_at_hash (3 + f) p X) as E. cbn [Nat.add] in E.
    change (interp g (S (S (S (S (S (S (S (S (S (S (S (S (S (S (S f))))))))))))))) TY st = Fail) in E. rewrite E. reflexivity.
  Qed.
  Lemma enum_b_h : forall f, interp g (27 + f) (GRef "Enum") st = Fail.
  Proof.
    intros f. cbn [Nat.add]. rule "Enum"%string.
    rewrite i_and, seq_cons, i_and, seq_cons, i_and, seq_cons, i_and, seq_cons, i_and, seq_cons, i_or.
    cbn [alt_longest]. rewrite i_or. cbn [alt_longest].
    rewrite (kwb_h _ "enum" eq_refl), (kwb_h _ "enum class" eq_refl), (kwb_h _ "enum struct" eq_refl). reflexivity.
  Qed.
  Lemma var_b_h : forall f, interp g (28 + f) (GRef "Variable") st = Fail.
  Proof.
    intros f. cbn [Nat.add]. rule "Variable"%string. rewrite i_and, seq_cons, i_and, seq_cons, i_and, seq_cons, i_name.
    pose proof (ty_fails_at_hash (11 + f) p X) as E. cbn [Nat.add] in E. unfold TY in E.
    match type of E with interp g ?F ?e _ = Fail => change (interp g F e st = Fail) in E end. rewrite E. reflexivity.
  Qed.
  Lemma ns_b_h : forall f, interp g (29 + f) (GRef "Namespace") st = Fail.
  Proof.
    intros f. cbn [Nat.add]. rule "Namespace"%string. rewrite i_and, seq_cons, i_and, seq_cons, i_and, seq_cons, i_and, seq_cons.
    rewrite (kwb_h _ "namespace" eq_refl). reflexivity.
  Qed.

End AtHash.

Definition inc_tok (path : chars) : chars := "<"%char :: path ++ [">"%char].
Definition inc_toks (h : string) : list chars := [kinclude; inc_tok (chars_of h)].
Definition not_gt (x : ascii) : bool := negb (cmem x (chars_of ">")).
Definition path_ok_c (path : chars) : Prop :=
  match path with c :: _ => solid c = true | [] => False end /\ forallb not_gt path = true /\ Forall (fun x => code x <> 9) path.
Definition inc_value (path : chars) : value :=
  VNode "Include" [([], VStr "#include"); (["header"%string], VStr (string_of path))].

Lemma skip_ign_solid : forall n c t, solid c = true -> skip_ignorables n (c :: t) = c :: t.
Proof.
  intros n c t H. pose proof (solid_no_filler c t H) as F. apply filler_start_false in F. destruct F as [W C].
  destruct n as [|n]; [reflexivity|]. cbn [skip_ignorables skip_ws]. rewrite W, C. reflexivity.
Qed.
Lemma moved_same : forall st, moved st (rest st) = st.
Proof. intros st. unfold moved. rewrite Nat.ltb_irrefl. reflexivity. Qed.
Lemma lit_now : forall q c r, solid c = true ->
  exists q', run_term (TLit (String c EmptyString)) {| pk := q; rest := c :: r |} = Match [([], VStr (String c EmptyString))] {| pk := q'; rest := r |}.
Proof.
  intros q c r H. unfold run_term. cbn [pre_term]. unfold pre. cbn [rest].
  rewrite (skip_filler_id (c :: r) (solid_no_filler c r H)).
  change (moved {| pk := q; rest := c :: r |} (c :: r)) with (moved {| pk := q; rest := c :: r |} (rest {| pk := q; rest := c :: r |})).
  rewrite moved_same. cbn [rest chars_of prefix]. change (chars_of (String c EmptyString)) with [c].
  cbn [prefix]. unfold ceq. rewrite Ascii.eqb_refl. eexists. reflexivity.
Qed.

Lemma moved_same' : forall q s, moved {| pk := q; rest := s |} s = {| pk := q; rest := s |}.
Proof. intros q s. unfold moved. cbn [rest]. rewrite Nat.ltb_irrefl. reflexivity. Qed.

Lemma notin_ok : forall q c t R, solid c = true -> forallb not_gt (c :: t) = true ->
  exists q', run_term (TNotIn ">") {| pk := q; rest := (c :: t) ++ ">"%char :: R |}
             = Match [([], VStr (string_of (c :: t)))] {| pk := q'; rest := ">"%char :: R |}.
Proof.
  intros q c t R H1 H2. unfold run_term. cbn [pre_term rest app].
  rewrite (skip_ign_solid _ c (t ++ ">"%char :: R) H1), moved_same'. cbn [rest].
  change (fun x : ascii => negb (cmem x (chars_of ">"))) with not_gt.
  change (c :: t ++ ">"%char :: R) with ((c :: t) ++ ">"%char :: R).
  rewrite (span_word not_gt (c :: t) (">"%char :: R) H2) by (right; exists ">"%char, R; split; reflexivity).
  assert (LT : Nat.ltb (length (">"%char :: R)) (length ((c :: t) ++ ">"%char :: R)) = true).
  { apply Nat.ltb_lt. rewrite app_length. cbn [length]. lia. }
  rewrite LT, (firstn_exact _ (c :: t) (">"%char :: R)). eexists. reflexivity.
Qed.

Lemma include_ok : forall f p path R, path_ok_c path ->
  exists p', interp g (6 + f) (GRef "Include") {| pk := p; rest := sp kinclude (sp (inc_tok path) R) |}
             = Match [([], inc_value path)] {| pk := p'; rest := R |}.
Proof.
  intros f p path R [H1 [H2 _]]. destruct path as [|c t]; [contradiction|]. cbn [Nat.add]. rule "Include"%string.
  rewrite i_and, seq_cons, i_and, seq_cons, i_and, seq_cons, i_term.
  assert (Bd : boundary (sp (inc_tok (c :: t)) R)) by (right; eexists; reflexivity).
  destruct (kw_self p "#"%char (chars_of "include") (sp (inc_tok (c :: t)) R) eq_refl Bd) as [p1 E1].
  change (string_of ("#"%char :: chars_of "include")) with "#include"%string in E1.
  change (sp ("#"%char :: chars_of "include") (sp (inc_tok (c :: t)) R)) with (sp kinclude (sp (inc_tok (c :: t)) R)) in E1. rewrite E1. cbn [app].
  rewrite seq_cons, i_sup.
  set (BODY := (c :: t) ++ ">"%char :: R).
  assert (EB : sp (inc_tok (c :: t)) R = sp ["<"%char] BODY).
  { unfold sp, inc_tok, BODY. cbn [app]. rewrite <- app_assoc. reflexivity. }
  rewrite EB. destruct (lit1_at f p1 "<"%char BODY eq_refl) as [p2 E2]. rewrite E2, seq_nil. cbn [app].
  rewrite seq_cons, i_name, i_term. unfold BODY.
  destruct (notin_ok p2 c t R H1 H2) as [p3 E3]. rewrite E3.
  cbn [map add_name fst snd]. rewrite seq_nil. cbn [app]. rewrite seq_cons, i_sup, i_term.
  destruct (lit_now p3 ">"%char R eq_refl) as [p4 E4]. rewrite E4, seq_nil. cbn [app]. exists p4. reflexivity.
Qed.

Lemma b_decl_include : forall k path, b_decl (S k) (inc_value path) = Ok (DInclude (string_of path)).
Proof. intros k path. reflexivity. Qed.

Lemma content_step_inc : forall h, path_ok_c (chars_of h) -> forall p R f, 40 <= f ->
  exists v p', interp g f OR7 {| pk := p; rest := render (inc_toks h) R |} = Match [([], v)] {| pk := p'; rest := R |}
               /\ forall k, b_decl (S k) v = Ok (DInclude h).
Proof.
  intros h Hp p R f Hf. replace f with (30 + (f - 30)) by lia. set (z := f - 30).
  unfold inc_toks. change (render [kinclude; inc_tok (chars_of h)] R) with (sp kinclude (sp (inc_tok (chars_of h)) R)).
  set (X := sp (inc_tok (chars_of h)) R).
  destruct (include_ok (17 + z) p (chars_of h) R Hp) as [p' E]. fold X in E.
  exists (inc_value (chars_of h)), p'. split; [|intros k; rewrite b_decl_include, string_chars; reflexivity].
  assert (E1 : interp g (24 + z) OR1 {| pk := p; rest := sp kinclude X |} = Match [([], inc_value (chars_of h))] {| pk := p'; rest := R |}).
  { unfold OR1. change (24 + z) with (S (23 + z)). rewrite or2_r; [exact E | apply fwd_b_h]. }
  assert (E2 : interp g (25 + z) OR2 {| pk := p; rest := sp kinclude X |} = Match [([], inc_value (chars_of h))] {| pk := p'; rest := R |})
    by (unfold OR2; change (25 + z) with (S (24 + z)); apply or2_l; [exact E1 | apply class_b_h]).
  assert (E3 : interp g (26 + z) OR3 {| pk := p; rest := sp kinclude X |} = Match [([], inc_value (chars_of h))] {| pk := p'; rest := R |})
    by (unfold OR3; change (26 + z) with (S (25 + z)); apply or2_l; [exact E2 | apply typedef_b_h]).
  assert (E4 : interp g (27 + z) OR4 {| pk := p; rest := sp kinclude X |} = Match [([], inc_value (chars_of h))] {| pk := p'; rest := R |})
    by (unfold OR4; change (27 + z) with (S (26 + z)); apply or2_l; [exact E3 | apply fn_b_h]).
  assert (E5 : interp g (28 + z) OR5 {| pk := p; rest := sp kinclude X |} = Match [([], inc_value (chars_of h))] {| pk := p'; rest := R |})
    by (unfold OR5; change (28 + z) with (S (27 + z)); apply or2_l; [exact E4 | apply enum_b_h]).
  assert (E6 : interp g (29 + z) OR6 {| pk := p; rest := sp kinclude X |} = Match [([], inc_value (chars_of h))] {| pk := p'; rest := R |})
    by (unfold OR6; change (29 + z) with (S (28 + z)); apply or2_l; [exact E5 | apply var_b_h]).
  unfold OR7. change (30 + z) with (S (29 + z)). apply or2_l; [exact E6 | apply ns_b_h].
Qed.

(* ---- the members of a class: the repetition stops at the closing brace ---- *)
Definition MOR1 : gexpr := GOr [GRef "DunderMethod"; GRef "Constructor"].
Definition MOR2 : gexpr := GOr [MOR1; GRef "Method"].
Definition MOR3 : gexpr := GOr [MOR2; GRef "StaticMethod"].
Definition MOR4 : gexpr := GOr [MOR3; GRef "Variable"].
Definition MOR5 : gexpr := GOr [MOR4; GRef "Operator"].
Definition MOR6 : gexpr := GOr [MOR5; GRef "Enum"].
Lemma members_rule : lookup g "Class.Members" = Some (GStar MOR6). Proof. reflexivity. Qed.

Lemma members_stop : forall p X f, interp g (40 + f) MOR6 {| pk := p; rest := sp rbrace X |} = Fail.
Proof.
  intros p X f. set (st := {| pk := p; rest := sp rbrace X |}).
  assert (E1 : interp g (35 + f) MOR1 st = Fail) by (unfold MOR1; change (35 + f) with (S (34 + f)); rewrite or2_r; [apply (ctor_b p X (20 + f)) | apply (dunder_b p X (25 + f))]).
  assert (E2 : interp g (36 + f) MOR2 st = Fail) by (unfold MOR2; change (36 + f) with (S (35 + f)); rewrite or2_r; [apply (method_b p X (10 + f)) | exact E1]).
  assert (E3 : interp g (37 + f) MOR3 st = Fail) by (unfold MOR3; change (37 + f) with (S (36 + f)); rewrite or2_r; [apply (static_b p X (19 + f)) | exact E2]).
  assert (E4 : interp g (38 + f) MOR4 st = Fail) by (unfold MOR4; change (38 + f) with (S (37 + f)); rewrite or2_r; [apply (var_b p X (9 + f)) | exact E3]).
  assert (E5 : interp g (39 + f) MOR5 st = Fail) by (unfold MOR5; change (39 + f) with (S (38 + f)); rewrite or2_r; [apply (oper_b p X (13 + f)) | exact E4]).
  unfold MOR6. change (40 + f) with (S (39 + f)). rewrite or2_r; [apply (enum_b p X (12 + f)) | exact E5].
Qed.

(* ---- `[virtual] class Name { members } ;` (no template, no base class) ---- *)
Definition items_of (vs : list value) : list item := map (fun v => ([], v)) vs.
Definition class_value (virt : bool) (n : chars) (mvals : list value) : value :=
  VNode "Class" (virt_items virt ++ [([], VStr "class"); (["name"%string], VStr (string_of n));
                                     (["members"%string], VNode "Class.Members" (items_of mvals))]).
Definition class_toks (virt : bool) (n : chars) (mtoks : list chars) : list chars :=
  virt_toks virt ++ [kclass; n; lbrace] ++ mtoks ++ [rbrace; semi].

Lemma class_ok : forall (Q : list value -> Prop) (virt : bool) n mtoks R F, is_ident n = true -> 20 <= F ->
  (forall p, exists mvals p', star (interp g F) F MOR6 [] {| pk := p; rest := render mtoks (sp rbrace (sp semi R)) |}
                              = Match (items_of mvals) {| pk := p'; rest := sp rbrace (sp semi R) |} /\ Q mvals) ->
  forall p, exists mvals p', interp g (7 + F) (GRef "Class") {| pk := p; rest := render (class_toks virt n mtoks) R |}
                             = Match [([], class_value virt n mvals)] {| pk := p'; rest := R |} /\ Q mvals.
Proof.
  intros Q virt n mtoks R F Hn HF Hstar p.
  assert (XF : exists f, F = 13 + f) by (exists (F - 13); lia). destruct XF as [f EF].
  set (AFTER := sp rbrace (sp semi R)) in *. set (BODY := render mtoks AFTER) in *.
  set (TAIL := sp n (sp lbrace BODY)).
  assert (ET : render (class_toks virt n mtoks) R = render (virt_toks virt) (sp kclass TAIL)).
  { unfold class_toks, TAIL, BODY, AFTER. rewrite !render_app. reflexivity. }
  rewrite ET. clear ET.
  assert (Bd : boundary TAIL) by (right; eexists; reflexivity).
  assert (Bc : boundary (sp kclass TAIL)) by (right; eexists; reflexivity).
  assert (Wc : word kclass) by (split; [discriminate | reflexivity]).
  assert (Wv : word kvirtual) by (split; [discriminate | reflexivity]).
  (* the head: optional template (absent), optional `virtual`, then `class` *)
  assert (Head : exists q, seq (interp g (Sn 11 f)) [GOpt (GName "template" (GRef "Template")); GOpt (GName "is_virtual" (GTerm (TKw "virtual")))] []
                               {| pk := p; rest := render (virt_toks virt) (sp kclass TAIL) |}
                           = Match (virt_items virt) {| pk := q; rest := sp kclass TAIL |}).
  { destruct virt; cbn [virt_toks virt_items render fold_right Sn].
    - pose proof (template_opt_none (4 + f) p kvirtual (sp kclass TAIL) Wv Bc ltac:(discriminate)) as T. unfold TEMPLATE_OPT in T. cbn [Nat.add] in T.
      rewrite seq_cons, T. cbn [app]. rewrite seq_cons, i_opt, i_name, i_term.
      destruct (kw_self p "v"%char (chars_of "irtual") (sp kclass TAIL) eq_refl Bc) as [q1 E1].
      change (string_of ("v"%char :: chars_of "irtual")) with "virtual"%string in E1.
      change (sp ("v"%char :: chars_of "irtual") (sp kclass TAIL)) with (sp kvirtual (sp kclass TAIL)) in E1. rewrite E1.
      cbn [map add_name fst snd app]. rewrite seq_nil. exists q1. reflexivity.
    - pose proof (template_opt_none (4 + f) p kclass TAIL Wc Bd ltac:(discriminate)) as T. unfold TEMPLATE_OPT in T. cbn [Nat.add] in T.
      rewrite seq_cons, T. cbn [app]. rewrite seq_cons, i_opt, i_name.
      rewrite (kw_word_fail _ p "virtual" kclass TAIL Wc Bd (safe_nospace _ _ no_blank_virtual) ltac:(discriminate)).
      cbn [app]. rewrite seq_nil. exists p. reflexivity. }
  destruct Head as [q EH].
  subst F. change (7 + (13 + f)) with (Sn 20 f). cbn [Sn]. rule "Class"%string.
  rewrite i_and, seq_cons, i_and, seq_cons, i_and, seq_cons, i_and, seq_cons, i_and, seq_cons, i_and, seq_cons, i_and, seq_cons, i_and.
  cbn [Sn] in EH. rewrite EH. rewrite seq_cons, i_term.
  destruct (kw_self q "c"%char (chars_of "lass") TAIL eq_refl Bd) as [q1 E1].
  change (string_of ("c"%char :: chars_of "lass")) with "class"%string in E1.
  change (sp ("c"%char :: chars_of "lass") TAIL) with (sp kclass TAIL) in E1. rewrite E1, seq_nil. rewrite seq_cons, i_name. unfold TAIL.
  assert (Bl : boundary (sp lbrace BODY)) by (right; eexists; reflexivity).
  destruct (IDENT_ok (Sn 10 f) q1 n (sp lbrace BODY) Hn Bl) as [q2 E2]. cbn [Sn] in E2. unfold IDENT in E2. rewrite E2.
  cbn [map add_name fst snd]. rewrite seq_nil. rewrite seq_cons, i_opt, i_and, seq_cons, i_sup.
  rewrite (lit1_other _ q2 ":"%char "{"%char [] BODY eq_refl eq_refl). rewrite seq_nil. rewrite seq_cons, i_sup.
  destruct (lit1_at (Sn 13 f) q2 "{"%char BODY eq_refl) as [q3 E3]. cbn [Sn] in E3. change (sp ["{"%char] BODY) with (sp lbrace BODY) in E3.
  rewrite E3, seq_nil. rewrite seq_cons, i_name, (i_ref _ _ "Class.Members" (GStar MOR6) members_rule), i_star.
  destruct (Hstar q3) as [mvals [q4 [E4 HQ]]]. cbn [Nat.add] in E4. rewrite E4. cbn [map add_name fst snd]. rewrite seq_nil.
  rewrite seq_cons, i_sup. unfold AFTER.
  destruct (lit1_at (Sn 15 f) q4 "}"%char (sp semi R) eq_refl) as [q5 E5]. cbn [Sn] in E5. change (sp ["}"%char] (sp semi R)) with (sp rbrace (sp semi R)) in E5.
  rewrite E5, seq_nil. rewrite seq_cons, i_sup.
  destruct (lit1_at (Sn 16 f) q5 ";"%char R eq_refl) as [q6 E6]. cbn [Sn] in E6. change (sp [";"%char] R) with (sp semi R) in E6.
  rewrite E6, seq_nil. exists mvals, q6. split; [|exact HQ]. unfold class_value. rewrite !app_nil_r, <- !app_assoc. reflexivity.
Qed.

(* ---- a class with a base: `[virtual] class Name : ns :: Base { members } ;` ---- *)
Definition class_value_b (virt : bool) (n : chars) (names : list chars) (mvals : list value) : value :=
  VNode "Class" (virt_items virt ++ [([], VStr "class"); (["name"%string], VStr (string_of n));
                                     (["parent_class"; "namespaces_and_name"]%string, VNode "Typename" (strs_items names));
                                     (["members"%string], VNode "Class.Members" (items_of mvals))]).
Definition class_toks_b (virt : bool) (n : chars) (names : list chars) (mtoks : list chars) : list chars :=
  virt_toks virt ++ [kclass; n; colon1] ++ path_toks names ++ [lbrace] ++ mtoks ++ [rbrace; semi].

Lemma class_ok_b : forall (Q : list value -> Prop) (virt : bool) n h l mtoks R F, is_ident n = true ->
  is_ident h = true -> Forall (fun x => is_ident x = true) l -> h <> kconst -> length l + 22 <= F ->
  (forall p, exists mvals p', star (interp g F) F MOR6 [] {| pk := p; rest := render mtoks (sp rbrace (sp semi R)) |}
                              = Match (items_of mvals) {| pk := p'; rest := sp rbrace (sp semi R) |} /\ Q mvals) ->
  forall p, exists mvals p', interp g (7 + F) (GRef "Class") {| pk := p; rest := render (class_toks_b virt n (h :: l) mtoks) R |}
                             = Match [([], class_value_b virt n (h :: l) mvals)] {| pk := p'; rest := R |} /\ Q mvals.
Proof.
  intros Q virt n h l mtoks R F Hn Hh Hl Hk HF Hstar p.
  assert (XF : exists f, F = 13 + f) by (exists (F - 13); lia). destruct XF as [f EF].
  set (AFTER := sp rbrace (sp semi R)) in *. set (BODY := render mtoks AFTER) in *.
  set (BASE := render (path_toks (h :: l)) (sp lbrace BODY)). set (TAIL := sp n (sp colon1 BASE)).
  assert (ET : render (class_toks_b virt n (h :: l) mtoks) R = render (virt_toks virt) (sp kclass TAIL)).
  { unfold class_toks_b, TAIL, BASE, BODY, AFTER. rewrite !render_app. reflexivity. }
  rewrite ET. clear ET.
  assert (Bd : boundary TAIL) by (right; eexists; reflexivity).
  assert (Bc : boundary (sp kclass TAIL)) by (right; eexists; reflexivity).
  assert (Wc : word kclass) by (split; [discriminate | reflexivity]).
  assert (Wv : word kvirtual) by (split; [discriminate | reflexivity]).
  (* the head: optional template (absent), optional `virtual`, then `class` *)
  assert (Head : exists q, seq (interp g (Sn 11 f)) [GOpt (GName "template" (GRef "Template")); GOpt (GName "is_virtual" (GTerm (TKw "virtual")))] []
                               {| pk := p; rest := render (virt_toks virt) (sp kclass TAIL) |}
                           = Match (virt_items virt) {| pk := q; rest := sp kclass TAIL |}).
  { destruct virt; cbn [virt_toks virt_items render fold_right Sn].
    - pose proof (template_opt_none (4 + f) p kvirtual (sp kclass TAIL) Wv Bc ltac:(discriminate)) as T. unfold TEMPLATE_OPT in T. cbn [Nat.add] in T.
      rewrite seq_cons, T. cbn [app]. rewrite seq_cons, i_opt, i_name, i_term.
      destruct (kw_self p "v"%char (chars_of "irtual") (sp kclass TAIL) eq_refl Bc) as [q1 E1].
      change (string_of ("v"%char :: chars_of "irtual")) with "virtual"%string in E1.
      change (sp ("v"%char :: chars_of "irtual") (sp kclass TAIL)) with (sp kvirtual (sp kclass TAIL)) in E1. rewrite E1.
      cbn [map add_name fst snd app]. rewrite seq_nil. exists q1. reflexivity.
    - pose proof (template_opt_none (4 + f) p kclass TAIL Wc Bd ltac:(discriminate)) as T. unfold TEMPLATE_OPT in T. cbn [Nat.add] in T.
      rewrite seq_cons, T. cbn [app]. rewrite seq_cons, i_opt, i_name.
      rewrite (kw_word_fail _ p "virtual" kclass TAIL Wc Bd (safe_nospace _ _ no_blank_virtual) ltac:(discriminate)).
      cbn [app]. rewrite seq_nil. exists p. reflexivity. }
  destruct Head as [q EH].
  subst F. change (7 + (13 + f)) with (Sn 20 f). cbn [Sn]. rule "Class"%string.
  rewrite i_and, seq_cons, i_and, seq_cons, i_and, seq_cons, i_and, seq_cons, i_and, seq_cons, i_and, seq_cons, i_and, seq_cons, i_and.
  cbn [Sn] in EH. rewrite EH. rewrite seq_cons, i_term.
  destruct (kw_self q "c"%char (chars_of "lass") TAIL eq_refl Bd) as [q1 E1].
  change (string_of ("c"%char :: chars_of "lass")) with "class"%string in E1.
  change (sp ("c"%char :: chars_of "lass") TAIL) with (sp kclass TAIL) in E1. rewrite E1, seq_nil. rewrite seq_cons, i_name. unfold TAIL.
  assert (Bl : boundary (sp colon1 BASE)) by (right; eexists; reflexivity).
  destruct (IDENT_ok (Sn 10 f) q1 n (sp colon1 BASE) Hn Bl) as [q2 E2]. cbn [Sn] in E2. unfold IDENT in E2. rewrite E2.
  cbn [map add_name fst snd]. rewrite seq_nil. rewrite seq_cons, i_opt, i_and, seq_cons, i_sup.
  destruct (lit1_at (Sn 10 f) q2 ":"%char BASE eq_refl) as [qa Ea]. cbn [Sn] in Ea. change (sp [":"%char] BASE) with (sp colon1 BASE) in Ea.
  rewrite Ea. cbn [app]. rewrite seq_cons, i_name. unfold BASE.
  assert (NC : no_colons (sp lbrace BODY)) by (right; exists "{"%char, BODY; split; [reflexivity|]; split; reflexivity).
  assert (FO : follow (sp lbrace BODY)) by (right; exists "{"%char, BODY; split; [reflexivity|]; split; reflexivity).
  assert (Xf : exists f2, f = S (S f2) /\ length l <= f2) by (exists (f - 2); lia). destruct Xf as [f2 [Ef2 Hl2]].
  pose proof (tt_fails_on_plain f2 qa false h l PNone (sp lbrace BODY) Hh Hl Hk FO Hl2) as TF.
  cbn [const_toks marker app Nat.add] in TF. rewrite app_nil_r in TF. rewrite <- Ef2 in TF.
  rewrite (or2_r _ _ _ _ TF). clear TF.
  rewrite i_name, (i_ref _ _ "Typename" TN_BODY lookup_Typename).
  destruct (tn_body_ok (S (S f)) qa h l (sp lbrace BODY) NC Hh Hl ltac:(lia)) as [qb Eb]. rewrite Eb.
  cbn [map add_name fst snd app]. rewrite seq_nil. rewrite seq_nil. rewrite seq_cons, i_sup.
  destruct (lit1_at (Sn 13 f) qb "{"%char BODY eq_refl) as [q3 E3]. cbn [Sn] in E3. change (sp ["{"%char] BODY) with (sp lbrace BODY) in E3.
  rewrite E3, seq_nil. rewrite seq_cons, i_name, (i_ref _ _ "Class.Members" (GStar MOR6) members_rule), i_star.
  destruct (Hstar q3) as [mvals [q4 [E4 HQ]]]. cbn [Nat.add] in E4. rewrite E4. cbn [map add_name fst snd]. rewrite seq_nil.
  rewrite seq_cons, i_sup. unfold AFTER.
  destruct (lit1_at (Sn 15 f) q4 "}"%char (sp semi R) eq_refl) as [q5 E5]. cbn [Sn] in E5. change (sp ["}"%char] (sp semi R)) with (sp rbrace (sp semi R)) in E5.
  rewrite E5, seq_nil. rewrite seq_cons, i_sup.
  destruct (lit1_at (Sn 16 f) q5 ";"%char R eq_refl) as [q6 E6]. cbn [Sn] in E6. change (sp [";"%char] R) with (sp semi R) in E6.
  rewrite E6, seq_nil. exists mvals, q6. split; [|exact HQ]. unfold class_value_b. rewrite ?app_nil_r, <- ?app_assoc. reflexivity.
Qed.

Lemma snd_items0 : forall vs, map snd (items_of vs) = vs.
Proof. induction vs as [|v vs IH]; [reflexivity|]. unfold items_of in *. cbn [map snd]. f_equal. exact IH. Qed.

Definition class_of_members (virt : bool) (n : string) (ms : list member) : class :=
  {| c_tmpl := None; c_virtual := virt; c_name := n; c_base := None;
     c_ctors := flat_map (fun m => match m with MCtor k => [k] | _ => [] end) ms;
     c_methods := flat_map (fun m => match m with MMethod x => [x] | _ => [] end) ms;
     c_statics := flat_map (fun m => match m with MStatic x => [x] | _ => [] end) ms;
     c_dunders := flat_map (fun m => match m with MDunder x => [x] | _ => [] end) ms;
     c_props := flat_map (fun m => match m with MVar x => [x] | _ => [] end) ms;
     c_ops := flat_map (fun m => match m with MOper x => [x] | _ => [] end) ms;
     c_enums := flat_map (fun m => match m with MEnum x => [x] | _ => [] end) ms |}.

Lemma b_decl_class : forall k virt n mvals ms, mapM b_member mvals = Ok ms ->
  forallb (fun c => String.eqb (k_name c) (string_of n)) (flat_map (fun m => match m with MCtor c => [c] | _ => [] end) ms) = true ->
  b_decl (S k) (class_value virt n mvals) = Ok (DClass (class_of_members virt (string_of n) ms)).
Proof.
  intros k virt n mvals ms HM HC. unfold class_value. cbn [b_decl].
  change (String.eqb "Class" "Class") with true. cbv iota. unfold b_class, b_tmpl, name_of.
  set (L := [([], VStr "class"); (["name"%string], VStr (string_of n)); (["members"%string], VNode "Class.Members" (items_of mvals))]).
  assert (E1 : first_named "template" (virt_items virt ++ L) = None) by (destruct virt; reflexivity).
  assert (E2 : first_named "name" (virt_items virt ++ L) = Some (VStr (string_of n))) by (destruct virt; reflexivity).
  assert (E3 : first_named "parent_class" (virt_items virt ++ L) = None) by (destruct virt; reflexivity).
  assert (E4 : first_named "members" (virt_items virt ++ L) = Some (VNode "Class.Members" (items_of mvals))) by (destruct virt; reflexivity).
  assert (E5 : flag "is_virtual" (virt_items virt ++ L) = virt) by (destruct virt; reflexivity).
  rewrite E1, E2, E3, E4, E5. cbn [bind]. rewrite snd_items0, HM. cbn [bind]. rewrite HC. reflexivity.
Qed.

Definition with_base (c : class) (b : option base) : class :=
  {| c_tmpl := c_tmpl c; c_virtual := c_virtual c; c_name := c_name c; c_base := b; c_ctors := c_ctors c; c_methods := c_methods c;
     c_statics := c_statics c; c_dunders := c_dunders c; c_props := c_props c; c_ops := c_ops c; c_enums := c_enums c |}.
Definition base_named (ns : list string) (bn : string) : option base := Some (BName (Typename ns (NStr bn) [])).

Lemma b_decl_class_b : forall k virt n ns bn mvals ms, mapM b_member mvals = Ok ms ->
  forallb (fun c => String.eqb (k_name c) (string_of n)) (flat_map (fun m => match m with MCtor c => [c] | _ => [] end) ms) = true ->
  b_decl (S k) (class_value_b virt n (names_of ns bn) mvals) = Ok (DClass (with_base (class_of_members virt (string_of n) ms) (base_named ns bn))).
Proof.
  intros k virt n ns bn mvals ms HM HC. unfold class_value_b. cbn [b_decl].
  change (String.eqb "Class" "Class") with true. cbv iota. unfold b_class, b_tmpl, name_of.
  set (PV := VNode "Typename" (strs_items (names_of ns bn))).
  set (L := [([], VStr "class"); (["name"%string], VStr (string_of n)); (["parent_class"; "namespaces_and_name"]%string, PV);
             (["members"%string], VNode "Class.Members" (items_of mvals))]).
  assert (E1 : first_named "template" (virt_items virt ++ L) = None) by (destruct virt; reflexivity).
  assert (E2 : first_named "name" (virt_items virt ++ L) = Some (VStr (string_of n))) by (destruct virt; reflexivity).
  assert (E3 : first_named "parent_class" (virt_items virt ++ L) = Some PV) by (destruct virt; reflexivity).
  assert (E4 : first_named "members" (virt_items virt ++ L) = Some (VNode "Class.Members" (items_of mvals))) by (destruct virt; reflexivity).
  assert (E5 : flag "is_virtual" (virt_items virt ++ L) = virt) by (destruct virt; reflexivity).
  rewrite E1, E2, E3, E4, E5. cbn [bind]. unfold PV. change (String.eqb "Typename" "TemplatedType") with false. cbv iota.
  unfold b_typename. rewrite strs_strs_items. unfold names_of. rewrite map_string_chars, typename_of_path. cbn [bind].
  rewrite snd_items0, HM. cbn [bind]. rewrite HC. reflexivity.
Qed.


Lemma content_step_class : forall (virt : bool) name mtoks ms F, is_ident (chars_of name) = true -> 40 <= F ->
  (forall R p, exists mvals p', star (interp g F) F MOR6 [] {| pk := p; rest := render mtoks (sp rbrace (sp semi R)) |}
                                = Match (items_of mvals) {| pk := p'; rest := sp rbrace (sp semi R) |} /\ mapM b_member mvals = Ok ms) ->
  forallb (fun c => String.eqb (k_name c) name) (flat_map (fun m => match m with MCtor c => [c] | _ => [] end) ms) = true ->
  forall p R f, F + 13 <= f ->
  exists v p', interp g f OR7 {| pk := p; rest := render (class_toks virt (chars_of name) mtoks) R |} = Match [([], v)] {| pk := p'; rest := R |}
               /\ forall k, b_decl (S k) v = Ok (DClass (class_of_members virt name ms)).
Proof.
  intros virt name mtoks ms F Hn HF Hstar HC p R f Hf. set (n := chars_of name) in *.
  assert (XF : exists F0, F = 40 + F0) by (exists (F - 40); lia). destruct XF as [F0 EF0]. subst F. set (F := 40 + F0) in *.
  assert (X : exists z, f = Sn 7 (6 + F + z)) by (exists (f - 13 - F); cbn [Sn]; lia). destruct X as [z Ef]. subst f. cbn [Sn].
  (* more fuel for the members does not change their parse *)
  assert (Hstar' : forall q, exists mvals q', star (interp g (F + z)) (F + z) MOR6 [] {| pk := q; rest := render mtoks (sp rbrace (sp semi R)) |}
                                             = Match (items_of mvals) {| pk := q'; rest := sp rbrace (sp semi R) |} /\ mapM b_member mvals = Ok ms).
  { intros q. destruct (Hstar R q) as [mvals [q' [E HM]]]. exists mvals, q'. split; [|exact HM].
    pose proof (fuel_mono run_term g (S F) (GStar MOR6) {| pk := q; rest := render mtoks (sp rbrace (sp semi R)) |}) as M.
    change (interp_with run_term g) with (interp g) in M. rewrite !i_star in M. rewrite E in M.
    specialize (M ltac:(discriminate) (S (F + z)) ltac:(lia)). rewrite i_star in M. exact M. }
  destruct (class_ok (fun vs => mapM b_member vs = Ok ms) virt n mtoks R (F + z) Hn ltac:(lia) Hstar' p) as [mvals [p' [E HM]]].
  exists (class_value virt n mvals), p'. split.
  2:{ intros k. rewrite <- (string_chars name). fold n. apply b_decl_class; [exact HM|]. unfold n. rewrite string_chars. exact HC. }
  assert (Wc : word kclass) by (split; [discriminate | reflexivity]).
  assert (Wv : word kvirtual) by (split; [discriminate | reflexivity]).
  set (BODY := render (mtoks ++ [rbrace; semi]) R).
  set (TAIL := sp n (sp lbrace BODY)).
  assert (ET : render (class_toks virt n mtoks) R = render (virt_toks virt) (sp kclass TAIL)).
  { unfold class_toks, TAIL, BODY. rewrite !render_app. reflexivity. }
  rewrite ET in *. clear ET.
  assert (Bd : boundary TAIL) by (right; eexists; reflexivity).
  assert (Bc : boundary (sp kclass TAIL)) by (right; eexists; reflexivity).
  pose proof (fwd_fails_class virt (33 + F0 + z) p n BODY Hn) as FF. fold TAIL in FF.
  destruct (ident_first_alpha n Hn) as [c [w [En Hc]]]. destruct (alpha_plain c Hc) as [Cs [Cl [Ce [Csm _]]]].
  assert (EQ : 7 + (F + z) = S (6 + F + z)) by lia. rewrite EQ in E.
  assert (EQ2 : 13 + (33 + F0 + z) = 6 + (40 + F0) + z) by lia. rewrite EQ2 in FF.
  destruct virt; cbn [virt_toks render fold_right] in E, FF |- *.
  - unfold OR7. apply or2_l; [|apply (namespace_fails p kvirtual _ Wv Bc (5 + F + z)); discriminate].
    unfold OR6. apply or2_l.
    2:{ unfold TAIL. rewrite En. apply (variable_fails 13 [kvirtual] (ty_value (kw_type "virtual")) kclass c w (sp lbrace BODY) virtual_parses eq_refl Cs Ce Csm (3 + F + z) p). lia. }
    unfold OR5. apply or2_l; [|apply (enum_fails2 p kvirtual _ (F + z) Wv Bc); discriminate].
    unfold OR4. apply or2_l.
    2:{ unfold TAIL. rewrite En. apply (function_fails 13 [kvirtual] (ty_value (kw_type "virtual")) kclass c w (sp lbrace BODY) virtual_parses
                                         (wf_head_kw kvirtual Wv ltac:(discriminate) ltac:(discriminate)) eq_refl Cs Cl (29 + F0 + z) p). lia. }
    unfold OR3. apply or2_l; [|apply (typedef_fails2 p kvirtual _ (2 + F + z) Wv Bc); discriminate].
    unfold OR2. rewrite or2_r; [exact E|].
    unfold OR1. rewrite or2_r; [apply (include_fails2 p kvirtual _ (F + z) Wv Bc) | exact FF].
  - unfold OR7. apply or2_l; [|apply (namespace_fails p kclass _ Wc Bd (5 + F + z)); discriminate].
    unfold OR6. apply or2_l.
    2:{ unfold TAIL. apply (variable_fails 13 [kclass] (ty_value (kw_type "class")) n "{"%char [] BODY class_parses Hn eq_refl eq_refl eq_refl (3 + F + z) p). lia. }
    unfold OR5. apply or2_l; [|apply (enum_fails2 p kclass _ (F + z) Wc Bd); discriminate].
    unfold OR4. apply or2_l.
    2:{ unfold TAIL. apply (function_fails 13 [kclass] (ty_value (kw_type "class")) n "{"%char [] BODY class_parses
                                         (wf_head_kw kclass Wc ltac:(discriminate) ltac:(discriminate)) Hn eq_refl eq_refl (29 + F0 + z) p). lia. }
    unfold OR3. apply or2_l; [|apply (typedef_fails2 p kclass _ (2 + F + z) Wc Bd); discriminate].
    unfold OR2. rewrite or2_r; [exact E|].
    unfold OR1. rewrite or2_r; [apply (include_fails2 p kclass _ (F + z) Wc Bd) | exact FF].
Qed.

Lemma content_step_class_b : forall (virt : bool) name ns bn mtoks ms F, is_ident (chars_of name) = true ->
  Forall (fun x => is_ident x = true) (names_of ns bn) -> hd [] (names_of ns bn) <> kconst -> 40 + length ns <= F ->
  (forall R p, exists mvals p', star (interp g F) F MOR6 [] {| pk := p; rest := render mtoks (sp rbrace (sp semi R)) |}
                                = Match (items_of mvals) {| pk := p'; rest := sp rbrace (sp semi R) |} /\ mapM b_member mvals = Ok ms) ->
  forallb (fun c => String.eqb (k_name c) name) (flat_map (fun m => match m with MCtor c => [c] | _ => [] end) ms) = true ->
  forall p R f, F + 13 <= f ->
  exists v p', interp g f OR7 {| pk := p; rest := render (class_toks_b virt (chars_of name) (names_of ns bn) mtoks) R |} = Match [([], v)] {| pk := p'; rest := R |}
               /\ forall k, b_decl (S k) v = Ok (DClass (with_base (class_of_members virt name ms) (base_named ns bn))).
Proof.
  intros virt name ns bn mtoks ms F Hn Hnames Hkc HF Hstar HC p R f Hf. set (n := chars_of name) in *.
  destruct (names_of_cons ns bn) as [h [l [Enames Hlen]]]. rewrite Enames in *. cbn [hd] in Hkc.
  pose proof (Forall_inv Hnames) as Hh. pose proof (Forall_inv_tail Hnames) as Hl.
  assert (XF : exists F0, F = 40 + F0) by (exists (F - 40); lia). destruct XF as [F0 EF0]. subst F. set (F := 40 + F0) in *.
  assert (X : exists z, f = Sn 7 (6 + F + z)) by (exists (f - 13 - F); cbn [Sn]; lia). destruct X as [z Ef]. subst f. cbn [Sn].
  (* more fuel for the members does not change their parse *)
  assert (Hstar' : forall q, exists mvals q', star (interp g (F + z)) (F + z) MOR6 [] {| pk := q; rest := render mtoks (sp rbrace (sp semi R)) |}
                                             = Match (items_of mvals) {| pk := q'; rest := sp rbrace (sp semi R) |} /\ mapM b_member mvals = Ok ms).
  { intros q. destruct (Hstar R q) as [mvals [q' [E HM]]]. exists mvals, q'. split; [|exact HM].
    pose proof (fuel_mono run_term g (S F) (GStar MOR6) {| pk := q; rest := render mtoks (sp rbrace (sp semi R)) |}) as M.
    change (interp_with run_term g) with (interp g) in M. rewrite !i_star in M. rewrite E in M.
    specialize (M ltac:(discriminate) (S (F + z)) ltac:(lia)). rewrite i_star in M. exact M. }
  destruct (class_ok_b (fun vs => mapM b_member vs = Ok ms) virt n h l mtoks R (F + z) Hn Hh Hl Hkc ltac:(lia) Hstar' p) as [mvals [p' [E HM]]].
  exists (class_value_b virt n (h :: l) mvals), p'. split.
  2:{ intros k. rewrite <- (string_chars name). fold n. rewrite <- Enames. apply b_decl_class_b; [exact HM|]. unfold n. rewrite string_chars. exact HC. }
  assert (Wc : word kclass) by (split; [discriminate | reflexivity]).
  assert (Wv : word kvirtual) by (split; [discriminate | reflexivity]).
  set (BODY := render (mtoks ++ [rbrace; semi]) R).
  set (BASE := render (path_toks (h :: l)) (sp lbrace BODY)). set (TAIL := sp n (sp colon1 BASE)).
  assert (ET : render (class_toks_b virt n (h :: l) mtoks) R = render (virt_toks virt) (sp kclass TAIL)).
  { unfold class_toks_b, TAIL, BASE, BODY. rewrite !render_app. reflexivity. }
  rewrite ET in *. clear ET.
  assert (Bd : boundary TAIL) by (right; eexists; reflexivity).
  assert (Bc : boundary (sp kclass TAIL)) by (right; eexists; reflexivity).
  pose proof (fwd_fails_class_b virt (33 + F0 + z) p n h l BODY Hn Hh Hl ltac:(lia)) as FF. fold BASE in FF. fold TAIL in FF.
  destruct (ident_first_alpha n Hn) as [c [w [En Hc]]]. destruct (alpha_plain c Hc) as [Cs [Cl [Ce [Csm _]]]].
  assert (EQ : 7 + (F + z) = S (6 + F + z)) by lia. rewrite EQ in E.
  assert (EQ2 : 13 + (33 + F0 + z) = 6 + (40 + F0) + z) by lia. rewrite EQ2 in FF.
  destruct virt; cbn [virt_toks render fold_right] in E, FF |- *.
  - unfold OR7. apply or2_l; [|apply (namespace_fails p kvirtual _ Wv Bc (5 + F + z)); discriminate].
    unfold OR6. apply or2_l.
    2:{ unfold TAIL. rewrite En. apply (variable_fails 13 [kvirtual] (ty_value (kw_type "virtual")) kclass c w (sp colon1 BASE) virtual_parses eq_refl Cs Ce Csm (3 + F + z) p). lia. }
    unfold OR5. apply or2_l; [|apply (enum_fails2 p kvirtual _ (F + z) Wv Bc); discriminate].
    unfold OR4. apply or2_l.
    2:{ unfold TAIL. rewrite En. apply (function_fails 13 [kvirtual] (ty_value (kw_type "virtual")) kclass c w (sp colon1 BASE) virtual_parses
                                         (wf_head_kw kvirtual Wv ltac:(discriminate) ltac:(discriminate)) eq_refl Cs Cl (29 + F0 + z) p). lia. }
    unfold OR3. apply or2_l; [|apply (typedef_fails2 p kvirtual _ (2 + F + z) Wv Bc); discriminate].
    unfold OR2. rewrite or2_r; [exact E|].
    unfold OR1. rewrite or2_r; [apply (include_fails2 p kvirtual _ (F + z) Wv Bc) | exact FF].
  - unfold OR7. apply or2_l; [|apply (namespace_fails p kclass _ Wc Bd (5 + F + z)); discriminate].
    unfold OR6. apply or2_l.
    2:{ unfold TAIL. apply (variable_fails 13 [kclass] (ty_value (kw_type "class")) n ":"%char [] BASE class_parses Hn eq_refl eq_refl eq_refl (3 + F + z) p). lia. }
    unfold OR5. apply or2_l; [|apply (enum_fails2 p kclass _ (F + z) Wc Bd); discriminate].
    unfold OR4. apply or2_l.
    2:{ unfold TAIL. apply (function_fails 13 [kclass] (ty_value (kw_type "class")) n ":"%char [] BASE class_parses
                                         (wf_head_kw kclass Wc ltac:(discriminate) ltac:(discriminate)) Hn eq_refl eq_refl (29 + F0 + z) p). lia. }
    unfold OR3. apply or2_l; [|apply (typedef_fails2 p kclass _ (2 + F + z) Wc Bd); discriminate].
    unfold OR2. rewrite or2_r; [exact E|].
    unfold OR1. rewrite or2_r; [apply (include_fails2 p kclass _ (F + z) Wc Bd) | exact FF].
Qed.

(* ---- class members: constructors, methods, properties ---- *)
(* the token after the first token of a type that is followed by an identifier: `::`, `<`, a marker, or the identifier *)
Lemma ty_second : forall t n tl, wf_ty t -> is_ident n = true ->
  exists h c t' rest', ty_toks t ++ n :: tl = h :: (c :: t') :: rest' /\ is_ident h = true /\ solid c = true /\ ceq "("%char c = false.
Proof.
  intros t n tl Hw Hn.
  destruct (ident_first_alpha n Hn) as [cn [wn [En Hcn]]]. destruct (alpha_plain cn Hcn) as [Sn_ [Ln _]].
  assert (Wk : is_ident kconst = true) by reflexivity.
  destruct t as [[ns [nm|o] insts] c k basic | ns [nm|o] ps c k]; cbn [wf_ty] in Hw; try contradiction.
  - destruct Hw as [Hi Hb]. subst insts. cbn [ty_toks].
    assert (Hp : Forall (fun x => is_ident x = true) (names_of ns nm)).
    { destruct basic; [|exact (proj1 Hb)]. destruct Hb as [E Hin]. subst ns. cbn. constructor; [|constructor]. exact (proj1 (basic_ident nm Hin)). }
    destruct (names_of_cons ns nm) as [h [l [E _]]]. rewrite E in *. pose proof (Forall_inv Hp) as Hh. rewrite path_toks_cons.
    destruct (ident_first_alpha h Hh) as [ch [wh [Eh Hch]]]. destruct (alpha_plain ch Hch) as [Sh [Lh _]].
    destruct c; cbn [const_toks app].
    + exists kconst, ch, wh. eexists. split; [rewrite Eh; reflexivity|]. split; [exact Wk|]. split; assumption.
    + destruct l as [|m l]; cbn [tail_toks flat_map app].
      * destruct k; cbn [marker app].
        -- exists h, cn, wn. eexists. split; [rewrite En; reflexivity|]. split; [exact Hh|]. split; assumption.
        -- exists h, "*"%char, []. eexists. split; [reflexivity|]. split; [exact Hh|]. split; reflexivity.
        -- exists h, "@"%char, []. eexists. split; [reflexivity|]. split; [exact Hh|]. split; reflexivity.
        -- exists h, "&"%char, []. eexists. split; [reflexivity|]. split; [exact Hh|]. split; reflexivity.
      * exists h, ":"%char, [":"%char]. eexists. split; [reflexivity|]. split; [exact Hh|]. split; reflexivity.
  - destruct Hw as [[Hp _] _]. cbn [ty_toks]. unfold tt_toks.
    destruct (names_of_cons ns nm) as [h [l [E _]]]. rewrite E in *. pose proof (Forall_inv Hp) as Hh. rewrite path_toks_cons.
    destruct (ident_first_alpha h Hh) as [ch [wh [Eh Hch]]]. destruct (alpha_plain ch Hch) as [Sh [Lh _]].
    destruct c; cbn [const_toks app].
    + exists kconst, ch, wh. eexists. split; [rewrite Eh; reflexivity|]. split; [exact Wk|]. split; assumption.
    + destruct l as [|m l]; cbn [tail_toks flat_map app].
      * exists h, "<"%char, []. eexists. split; [reflexivity|]. split; [exact Hh|]. split; reflexivity.
      * exists h, ":"%char, [":"%char]. eexists. split; [reflexivity|]. split; [exact Hh|]. split; reflexivity.
Qed.
Lemma ty_second4 : forall t n tl, wf_ty t -> is_ident n = true ->
  exists h c t' rest', ty_toks t ++ n :: tl = h :: (c :: t') :: rest' /\ is_ident h = true /\ solid c = true /\ ceq "("%char c = false /\ ceq "="%char c = false /\ ceq ";"%char c = false.
Proof.
  intros t n tl Hw Hn.
  destruct (ident_first_alpha n Hn) as [cn [wn [En Hcn]]]. destruct (alpha_plain cn Hcn) as [Sn_ [Ln [En_ [Smn _]]]].
  assert (Wk : is_ident kconst = true) by reflexivity.
  destruct t as [[ns [nm|o] insts] c k basic | ns [nm|o] ps c k]; cbn [wf_ty] in Hw; try contradiction.
  - destruct Hw as [Hi Hb]. subst insts. cbn [ty_toks].
    assert (Hp : Forall (fun x => is_ident x = true) (names_of ns nm)).
    { destruct basic; [|exact (proj1 Hb)]. destruct Hb as [E Hin]. subst ns. cbn. constructor; [|constructor]. exact (proj1 (basic_ident nm Hin)). }
    destruct (names_of_cons ns nm) as [h [l [E _]]]. rewrite E in *. pose proof (Forall_inv Hp) as Hh. rewrite path_toks_cons.
    destruct (ident_first_alpha h Hh) as [ch [wh [Eh Hch]]]. destruct (alpha_plain ch Hch) as [Sh [Lh [Eh_ [Smh _]]]].
    destruct c; cbn [const_toks app].
    + exists kconst, ch, wh. eexists. split; [rewrite Eh; reflexivity|]. split; [exact Wk|]. repeat split; assumption.
    + destruct l as [|m l]; cbn [tail_toks flat_map app].
      * destruct k; cbn [marker app].
        -- exists h, cn, wn. eexists. split; [rewrite En; reflexivity|]. split; [exact Hh|]. repeat split; assumption.
        -- exists h, "*"%char, []. eexists. split; [reflexivity|]. split; [exact Hh|]. repeat split; reflexivity.
        -- exists h, "@"%char, []. eexists. split; [reflexivity|]. split; [exact Hh|]. repeat split; reflexivity.
        -- exists h, "&"%char, []. eexists. split; [reflexivity|]. split; [exact Hh|]. repeat split; reflexivity.
      * exists h, ":"%char, [":"%char]. eexists. split; [reflexivity|]. split; [exact Hh|]. repeat split; reflexivity.
  - destruct Hw as [[Hp _] _]. cbn [ty_toks]. unfold tt_toks.
    destruct (names_of_cons ns nm) as [h [l [E _]]]. rewrite E in *. pose proof (Forall_inv Hp) as Hh. rewrite path_toks_cons.
    destruct (ident_first_alpha h Hh) as [ch [wh [Eh Hch]]]. destruct (alpha_plain ch Hch) as [Sh [Lh [Eh_ [Smh _]]]].
    destruct c; cbn [const_toks app].
    + exists kconst, ch, wh. eexists. split; [rewrite Eh; reflexivity|]. split; [exact Wk|]. repeat split; assumption.
    + destruct l as [|m l]; cbn [tail_toks flat_map app].
      * exists h, "<"%char, []. eexists. split; [reflexivity|]. split; [exact Hh|]. repeat split; reflexivity.
      * exists h, ":"%char, [":"%char]. eexists. split; [reflexivity|]. split; [exact Hh|]. repeat split; reflexivity.
Qed.

Lemma lit_noprefix : forall p (l : string) n r, word n -> boundary r -> ~ In " "%char (chars_of l) -> prefix (chars_of l) n = None ->
  run_term (TLit l) {| pk := p; rest := sp n r |} = Fail.
Proof.
  intros p l n r [Hne Hn] Hr Hb Hp. destruct n as [|c w]; [contradiction|].
  assert (Hc : solid c = true) by (cbn [forallb] in Hn; apply andb_true_iff in Hn; apply alnum_solid; tauto).
  unfold run_term. cbn [pre_term]. rewrite (pre_sp p c w r Hc). cbn [rest].
  destruct (prefix (chars_of l) ((c :: w) ++ r)) as [x|] eqn:P; [|reflexivity]. exfalso.
  destruct (prefix_word (chars_of l) (c :: w) r x Hr Hn (safe_nospace _ _ Hb) P) as [n2 [E _]].
  rewrite E, prefix_self in Hp. discriminate.
Qed.

Definition koperator : chars := chars_of "operator".
Definition kstatic : chars := chars_of "static".
Definition no_us (h : chars) : Prop := match h with c :: _ => ceq "_"%char c = false | [] => False end.

Section MemberAlts.
  Variables (p : bool) (h r : chars).
  Hypothesis Hw : word h.
  Hypothesis B : boundary r.

  Lemma dunder_fails_w : forall f, no_us h -> interp g (9 + f) (GRef "DunderMethod") {| pk := p; rest := sp h r |} = Fail.
  Proof.
    intros f Hu. cbn [Nat.add]. rule "DunderMethod"%string.
    rewrite i_and, seq_cons, i_and, seq_cons, i_and, seq_cons, i_and, seq_cons, i_and, seq_cons, i_and, seq_cons, i_sup, i_term.
    destruct h as [|c t]; [contradiction|]. cbn [no_us] in Hu.
    assert (Hc : solid c = true) by (destruct Hw as [_ Hn]; cbn [forallb] in Hn; apply andb_true_iff in Hn; apply alnum_solid; tauto).
    pose proof (lit_fail p (chars_of "__") c t r Hc Hu) as L. change (string_of (chars_of "__")) with "__"%string in L. rewrite L. reflexivity.
  Qed.
  Lemma static_fails_w : forall f, h <> ktemplate -> h <> kstatic -> interp g (17 + f) (GRef "StaticMethod") {| pk := p; rest := sp h r |} = Fail.
  Proof.
    intros f H0 H1. cbn [Nat.add]. rule "StaticMethod"%string.
    rewrite i_and, seq_cons, i_and, seq_cons, i_and, seq_cons, i_and, seq_cons, i_and, seq_cons, i_and, seq_cons, i_and, seq_cons.
    pose proof (template_opt_none (2 + f) p h r Hw B H0) as T. unfold TEMPLATE_OPT in T. cbn [Nat.add] in T. rewrite T. clear T. cbn [app]. rewrite seq_cons.
    assert (Nb : ~ In " "%char (chars_of "static")) by noblank.
    rewrite (kw_word_fail _ p "static" h r Hw B (safe_nospace _ _ Nb)) by (intros E; apply H1; symmetry; exact E). reflexivity.
  Qed.
End MemberAlts.

(* a constructor needs `(` right after its name *)
Lemma ctor_fails_second : forall p h c t X f, is_ident h = true -> h <> ktemplate -> solid c = true -> ceq "("%char c = false ->
  interp g (14 + f) (GRef "Constructor") {| pk := p; rest := sp h (sp (c :: t) X) |} = Fail.
Proof.
  intros p h c t X f Hh H0 Hc Hl. cbn [Nat.add]. rule "Constructor"%string.
  rewrite i_and, seq_cons, i_and, seq_cons, i_and, seq_cons, i_and, seq_cons, i_and, seq_cons.
  assert (Bd : boundary (sp (c :: t) X)) by (right; eexists; reflexivity).
  pose proof (template_opt_none (1 + f) p h _ (ident_word h Hh) Bd H0) as T. unfold TEMPLATE_OPT in T. cbn [Nat.add] in T. rewrite T. clear T.
  cbn [app]. rewrite seq_cons, i_name.
  destruct (IDENT_ok (5 + f) p h (sp (c :: t) X) Hh Bd) as [p1 E1]. cbn [Nat.add] in E1. unfold IDENT in E1. rewrite E1.
  cbn [map add_name fst snd]. rewrite seq_nil. cbn [app]. rewrite seq_cons, i_sup.
  rewrite (lit1_other _ p1 "("%char c t X Hc Hl). reflexivity.
Qed.

Definition ctor_toks (n : chars) (args : list (ty * string)) : list chars := [n; lparen] ++ args_toks args ++ [rparen; semi].
Definition ctor_member (n : string) (args : list (ty * string)) : member :=
  MCtor {| k_tmpl := None; k_name := n; k_args := map mk_arg args |}.

Lemma ctor_ok : forall n args, is_ident n = true -> n <> ktemplate -> Forall wf_arg args ->
  forall p R f, args_fuel args <= f ->
  exists v p', interp g (14 + f) (GRef "Constructor") {| pk := p; rest := render (ctor_toks n args) R |} = Match [([], v)] {| pk := p'; rest := R |}
               /\ b_member v = Ok (ctor_member (string_of n) args).
Proof.
  intros n args Hn H0 Ha p R f Hf. cbn [Nat.add]. rule "Constructor"%string.
  rewrite i_and, seq_cons, i_and, seq_cons, i_and, seq_cons, i_and, seq_cons, i_and, seq_cons.
  unfold ctor_toks. rewrite !render_app. change (render [n; lparen] ?x) with (sp n (sp lparen x)).
  change (render [rparen; semi] R) with (sp rparen (sp semi R)).
  set (AFTER := sp semi R). set (ARGS := render (args_toks args) (sp rparen AFTER)).
  assert (Bl : boundary (sp lparen ARGS)) by (right; eexists; reflexivity).
  pose proof (template_opt_none (1 + f) p n _ (ident_word n Hn) Bl H0) as T. unfold TEMPLATE_OPT in T. cbn [Nat.add] in T. rewrite T. clear T.
  cbn [app]. rewrite seq_cons, i_name.
  destruct (IDENT_ok (5 + f) p n (sp lparen ARGS) Hn Bl) as [p1 E1]. cbn [Nat.add] in E1. unfold IDENT in E1. rewrite E1.
  cbn [map add_name fst snd]. rewrite seq_nil. cbn [app]. rewrite seq_cons, i_sup.
  destruct (lit1_at (Sn 7 f) p1 "("%char ARGS eq_refl) as [p2 E2]. cbn [Sn] in E2. change (sp ["("%char] ARGS) with (sp lparen ARGS) in E2.
  rewrite E2, seq_nil. cbn [app]. rewrite seq_cons, i_name. unfold ARGS.
  destruct (arglist_roundtrip args Ha p2 AFTER (Sn 9 f) ltac:(cbn [Sn]; lia)) as [va [p3 [E3 B3]]]. cbn [Sn] in E3. rewrite E3.
  cbn [map add_name fst snd]. rewrite seq_nil. cbn [app]. rewrite seq_cons, i_sup.
  destruct (lit1_at (Sn 9 f) p3 ")"%char AFTER eq_refl) as [p4 E4]. cbn [Sn] in E4. change (sp [")"%char] AFTER) with (sp rparen AFTER) in E4.
  rewrite E4, seq_nil. cbn [app]. rewrite seq_cons, i_sup. unfold AFTER.
  destruct (lit1_at (Sn 10 f) p4 ";"%char R eq_refl) as [p5 E5]. cbn [Sn] in E5. change (sp [";"%char] R) with (sp semi R) in E5.
  rewrite E5, seq_nil. cbn [app]. eexists. exists p5. split; [reflexivity|].
  cbn [b_member]. unfold add_name. cbn [fst snd]. change (String.eqb "Constructor" "Constructor") with true. cbv iota. unfold b_tmpl, name_of, args_of.
  change (first_named "template" [(["name"%string], VStr (string_of n)); (["args_list"%string], va)]) with (@None value).
  change (first_named "name" [(["name"%string], VStr (string_of n)); (["args_list"%string], va)]) with (Some (VStr (string_of n))).
  change (first_named "args_list" [(["name"%string], VStr (string_of n)); (["args_list"%string], va)]) with (Some va).
  cbv iota. cbn [bind]. rewrite B3. reflexivity.
Qed.

Definition method_member (t : ty) (n : string) (args : list (ty * string)) (cst : bool) : member :=
  MMethod {| m_tmpl := None; m_name := n; m_ret := RSingle t; m_args := map mk_arg args; m_const := cst |}.
Definition method_toks (t : ty) (n : chars) (args : list (ty * string)) (cst : bool) : list chars :=
  ty_toks t ++ [n; lparen] ++ args_toks args ++ [rparen] ++ const_toks cst ++ [semi].

Lemma method_ok : forall t n args cst, wf_ty t -> depth t < depth_fuel -> wf_head t -> is_ident n = true -> Forall wf_arg args ->
  forall p R f, fuel_of t <= f -> args_fuel args <= f ->
  exists v p', interp g (20 + f) (GRef "Method") {| pk := p; rest := render (method_toks t n args cst) R |} = Match [([], v)] {| pk := p'; rest := R |}
               /\ b_member v = Ok (method_member t (string_of n) args cst).
Proof.
  intros t n args cst Hw Hd [h [rest' [Eh [Hwh [Hkp Hkt]]]]] Hn Ha p R f Hft Hfa. cbn [Nat.add]. rule "Method"%string.
  rewrite i_and, seq_cons, i_and, seq_cons, i_and, seq_cons, i_and, seq_cons, i_and, seq_cons, i_and, seq_cons, i_and, seq_cons.
  unfold method_toks. rewrite !render_app. change (render [n; lparen] ?x) with (sp n (sp lparen x)).
  change (render [rparen] ?x) with (sp rparen x). change (render [semi] R) with (sp semi R).
  set (AFTER := render (const_toks cst) (sp semi R)). set (ARGS := render (args_toks args) (sp rparen AFTER)).
  set (NAME := sp n (sp lparen ARGS)).
  rewrite Eh. change (render (h :: rest') NAME) with (sp h (render rest' NAME)).
  assert (Fn : follow NAME) by (apply follow_ident; exact Hn).
  assert (B : boundary (render rest' NAME)) by (apply render_boundary, follow_boundary; exact Fn).
  pose proof (template_opt_none (5 + f) p h _ Hwh B Hkt) as T. unfold TEMPLATE_OPT in T. cbn [Nat.add] in T. rewrite T. clear T.
  cbn [app]. rewrite seq_cons, i_name.
  change (sp h (render rest' NAME)) with (render (h :: rest') NAME). rewrite <- Eh.
  assert (HP : parses (fuel_of t) (ty_toks t) (ty_value t)) by (apply (ty_parses (S (depth t))); [apply Nat.lt_succ_diag_r | exact Hw]).
  assert (HH : head_word (ty_toks t)) by (exists h, rest'; split; [exact Eh | split; [exact Hwh | exact Hkp]]).
  destruct (rt_single_ok (fuel_of t) (ty_toks t) (ty_value t) HP HH f p NAME Fn Hft) as [p1 E1]. cbn [Nat.add] in E1. rewrite E1.
  cbn [map add_name fst snd app]. rewrite seq_nil. cbn [app]. rewrite seq_cons, i_name.
  assert (Bl : boundary (sp lparen ARGS)) by (right; eexists; reflexivity).
  unfold NAME. destruct (IDENT_ok (Sn 10 f) p1 n (sp lparen ARGS) Hn Bl) as [p2 E2]. cbn [Sn] in E2. unfold IDENT in E2. rewrite E2.
  cbn [map add_name fst snd]. rewrite seq_nil. cbn [app]. rewrite seq_cons, i_sup.
  destruct (lit1_at (Sn 12 f) p2 "("%char ARGS eq_refl) as [p3 E3]. cbn [Sn] in E3. change (sp ["("%char] ARGS) with (sp lparen ARGS) in E3.
  rewrite E3, seq_nil. cbn [app]. rewrite seq_cons, i_name. unfold ARGS.
  destruct (arglist_roundtrip args Ha p3 AFTER (Sn 14 f) ltac:(cbn [Sn]; lia)) as [va [p4 [E4 B4]]]. cbn [Sn] in E4. rewrite E4.
  cbn [map add_name fst snd]. rewrite seq_nil. cbn [app]. rewrite seq_cons, i_sup.
  destruct (lit1_at (Sn 14 f) p4 ")"%char AFTER eq_refl) as [p5 E5]. cbn [Sn] in E5. change (sp [")"%char] AFTER) with (sp rparen AFTER) in E5.
  rewrite E5, seq_nil. cbn [app]. rewrite seq_cons, i_opt, i_name, i_term. unfold AFTER.
  destruct cst; cbn [const_toks const_items render fold_right].
  - assert (Bs : boundary (sp semi R)) by (right; eexists; reflexivity).
    destruct (kw_self p5 "c"%char (chars_of "onst") (sp semi R) eq_refl Bs) as [q E].
    change (string_of ("c"%char :: chars_of "onst")) with "const"%string in E.
    change (sp ("c"%char :: chars_of "onst") (sp semi R)) with (sp kconst (sp semi R)) in E. rewrite E. cbn [map add_name fst snd].
    rewrite seq_nil. cbn [app]. rewrite seq_cons, i_sup.
    destruct (lit1_at (Sn 16 f) q ";"%char R eq_refl) as [p6 E6]. cbn [Sn] in E6. change (sp [";"%char] R) with (sp semi R) in E6.
    rewrite E6, seq_nil. cbn [app]. eexists. exists p6. split; [reflexivity|].
    cbn [b_member]. unfold add_name. cbn [fst snd map app]. change (String.eqb "Method" "Constructor") with false. change (String.eqb "Method" "Method") with true. cbv iota.
    unfold b_tmpl, name_of, ret_of, args_of.
    match goal with |- context [first_named "template" ?L] =>
      change (first_named "template" L) with (@None value); change (first_named "name" L) with (Some (VStr (string_of n)));
      change (first_named "return_type" L) with (Some (VNode "ReturnType" [(["type1"%string], ty_value t)]));
      change (first_named "args_list" L) with (Some va) end.
    cbv iota. cbn [bind].
    rewrite (b_ret_single (ty_value t) t ltac:(unfold b_type; apply (ty_rebuilt depth_fuel t Hd Hw))). cbn [bind]. rewrite B4. reflexivity.
  - pose proof (kw_fail_first 0 p5 "const" ";"%char [] R eq_refl eq_refl) as E. rewrite i_term in E.
    change (sp [";"%char] R) with (sp semi R) in E. rewrite E. set (q := p5).
    rewrite seq_nil. cbn [app]. rewrite seq_cons, i_sup.
    destruct (lit1_at (Sn 16 f) q ";"%char R eq_refl) as [p6 E6]. cbn [Sn] in E6. change (sp [";"%char] R) with (sp semi R) in E6.
    rewrite E6, seq_nil. cbn [app]. eexists. exists p6. split; [reflexivity|].
    cbn [b_member]. unfold add_name. cbn [fst snd map app]. change (String.eqb "Method" "Constructor") with false. change (String.eqb "Method" "Method") with true. cbv iota.
    unfold b_tmpl, name_of, ret_of, args_of.
    match goal with |- context [first_named "template" ?L] =>
      change (first_named "template" L) with (@None value); change (first_named "name" L) with (Some (VStr (string_of n)));
      change (first_named "return_type" L) with (Some (VNode "ReturnType" [(["type1"%string], ty_value t)]));
      change (first_named "args_list" L) with (Some va) end.
    cbv iota. cbn [bind].
    rewrite (b_ret_single (ty_value t) t ltac:(unfold b_type; apply (ty_rebuilt depth_fuel t Hd Hw))). cbn [bind]. rewrite B4. reflexivity.
Qed.

(* ---- `static T name ( args ) ;` ---- *)
Definition static_member (t : ty) (n : string) (args : list (ty * string)) : member :=
  MStatic {| s_tmpl := None; s_name := n; s_ret := RSingle t; s_args := map mk_arg args |}.
Definition static_toks (t : ty) (n : chars) (args : list (ty * string)) : list chars :=
  [kstatic] ++ ty_toks t ++ [n; lparen] ++ args_toks args ++ [rparen; semi].

Lemma static_ok : forall t n args, wf_ty t -> depth t < depth_fuel -> head_word (ty_toks t) -> is_ident n = true -> Forall wf_arg args ->
  forall p R f, fuel_of t <= f -> args_fuel args <= f ->
  exists v p', interp g (20 + f) (GRef "StaticMethod") {| pk := p; rest := render (static_toks t n args) R |} = Match [([], v)] {| pk := p'; rest := R |}
               /\ b_member v = Ok (static_member t (string_of n) args).
Proof.
  intros t n args Hw Hd HH Hn Ha p R f Hft Hfa. cbn [Nat.add]. rule "StaticMethod"%string.
  rewrite i_and, seq_cons, i_and, seq_cons, i_and, seq_cons, i_and, seq_cons, i_and, seq_cons, i_and, seq_cons, i_and, seq_cons.
  unfold static_toks. rewrite !render_app. change (render [kstatic] ?x) with (sp kstatic x). change (render [n; lparen] ?x) with (sp n (sp lparen x)).
  change (render [rparen; semi] R) with (sp rparen (sp semi R)).
  set (AFTER := sp semi R). set (ARGS := render (args_toks args) (sp rparen AFTER)).
  set (NAME := sp n (sp lparen ARGS)).
  assert (Fn : follow NAME) by (apply follow_ident; exact Hn).
  assert (Bt : boundary (render (ty_toks t) NAME)).
  { destruct HH as [h [rest' [Eh _]]]. rewrite Eh. right. eexists. reflexivity. }
  assert (Ws : word kstatic) by (split; [discriminate | reflexivity]).
  pose proof (template_opt_none (5 + f) p kstatic _ Ws Bt ltac:(discriminate)) as T. unfold TEMPLATE_OPT in T. cbn [Nat.add] in T. rewrite T. clear T.
  cbn [app]. rewrite seq_cons, i_term.
  destruct (kw_self p "s"%char (chars_of "tatic") (render (ty_toks t) NAME) eq_refl Bt) as [p0 E0].
  change (string_of ("s"%char :: chars_of "tatic")) with "static"%string in E0.
  change (sp ("s"%char :: chars_of "tatic") (render (ty_toks t) NAME)) with (sp kstatic (render (ty_toks t) NAME)) in E0. rewrite E0.
  rewrite seq_nil. cbn [app]. rewrite seq_cons, i_name.
  assert (HP : parses (fuel_of t) (ty_toks t) (ty_value t)) by (apply (ty_parses (S (depth t))); [apply Nat.lt_succ_diag_r | exact Hw]).
  destruct (rt_single_ok (fuel_of t) (ty_toks t) (ty_value t) HP HH (S f) p0 NAME Fn ltac:(lia)) as [p1 E1]. cbn [Nat.add] in E1. rewrite E1.
  cbn [map add_name fst snd app]. rewrite seq_nil. cbn [app]. rewrite seq_cons, i_name.
  assert (Bl : boundary (sp lparen ARGS)) by (right; eexists; reflexivity).
  unfold NAME. destruct (IDENT_ok (Sn 11 f) p1 n (sp lparen ARGS) Hn Bl) as [p2 E2]. cbn [Sn] in E2. unfold IDENT in E2. rewrite E2.
  cbn [map add_name fst snd]. rewrite seq_nil. cbn [app]. rewrite seq_cons, i_sup.
  destruct (lit1_at (Sn 13 f) p2 "("%char ARGS eq_refl) as [p3 E3]. cbn [Sn] in E3. change (sp ["("%char] ARGS) with (sp lparen ARGS) in E3.
  rewrite E3, seq_nil. cbn [app]. rewrite seq_cons, i_name. unfold ARGS.
  destruct (arglist_roundtrip args Ha p3 AFTER (Sn 15 f) ltac:(cbn [Sn]; lia)) as [va [p4 [E4 B4]]]. cbn [Sn] in E4. rewrite E4.
  cbn [map add_name fst snd]. rewrite seq_nil. cbn [app]. rewrite seq_cons, i_sup.
  destruct (lit1_at (Sn 15 f) p4 ")"%char AFTER eq_refl) as [p5 E5]. cbn [Sn] in E5. change (sp [")"%char] AFTER) with (sp rparen AFTER) in E5.
  rewrite E5, seq_nil. cbn [app]. rewrite seq_cons, i_sup. unfold AFTER.
  destruct (lit1_at (Sn 16 f) p5 ";"%char R eq_refl) as [p6 E6]. cbn [Sn] in E6. change (sp [";"%char] R) with (sp semi R) in E6.
  rewrite E6, seq_nil. cbn [app]. eexists. exists p6. split; [reflexivity|].
  cbn [b_member]. unfold add_name. cbn [fst snd map app].
  repeat match goal with |- context [String.eqb ?a ?b] =>
    let x := eval vm_compute in (String.eqb a b) in change (String.eqb a b) with x end.
  cbv iota. unfold b_tmpl, name_of, ret_of, args_of.
  match goal with |- context [first_named "template" ?L] =>
    change (first_named "template" L) with (@None value); change (first_named "name" L) with (Some (VStr (string_of n)));
    change (first_named "return_type" L) with (Some (VNode "ReturnType" [(["type1"%string], ty_value t)]));
    change (first_named "args_list" L) with (Some va) end.
  cbv iota. cbn [bind].
  rewrite (b_ret_single (ty_value t) t ltac:(unfold b_type; apply (ty_rebuilt depth_fuel t Hd Hw))). cbn [bind]. rewrite B4. reflexivity.
Qed.

Lemma static_parses : parses 13 [kstatic] (ty_value (kw_type "static")).
Proof. apply (kw_parses "static"); [reflexivity|]. vm_compute. intuition discriminate. Qed.

Lemma name_parses : forall n, is_ident n = true -> ~ In n reserved -> parses 13 [n] (VNode "Type" (custom_items false [n] PNone)).
Proof.
  intros n Hn Hr f p r Hfo Hf. assert (X : exists f', f = 13 + f') by (exists (f - 13); lia). destruct X as [f' E]. subst f.
  apply (ty_custom_ok f' p false n [] PNone r Hn (Forall_nil _) Hr Hfo). cbn. lia.
Qed.

(* a method needs a name after its return type ... *)
Lemma method_fails_noname : forall F0 toks v c t X, parses F0 toks v -> wf_head_toks toks ->
  solid c = true -> in_str alpha_ c = false -> cmem c (chars_of digits) = false -> cmem c (chars_of "*@&:<") = false ->
  forall f p, F0 <= f -> interp g (20 + f) (GRef "Method") {| pk := p; rest := render toks (sp (c :: t) X) |} = Fail.
Proof.
  intros F0 toks v c t X Hp [h [rest' [Eh [Hwh [Hkp Hkt]]]]] Hc Ha Hd Hm f p Hf. cbn [Nat.add]. rule "Method"%string.
  rewrite i_and, seq_cons, i_and, seq_cons, i_and, seq_cons, i_and, seq_cons, i_and, seq_cons, i_and, seq_cons, i_and, seq_cons.
  set (NEXT := sp (c :: t) X).
  assert (Fn : follow NEXT) by (right; exists c, (t ++ X); split; [reflexivity|]; split; assumption).
  rewrite Eh. change (render (h :: rest') NEXT) with (sp h (render rest' NEXT)).
  assert (B : boundary (render rest' NEXT)) by (apply render_boundary, follow_boundary; exact Fn).
  pose proof (template_opt_none (5 + f) p h _ Hwh B Hkt) as T. unfold TEMPLATE_OPT in T. cbn [Nat.add] in T. rewrite T. clear T.
  cbn [app]. rewrite seq_cons, i_name. change (sp h (render rest' NEXT)) with (render (h :: rest') NEXT). rewrite <- Eh.
  assert (HH : head_word toks) by (exists h, rest'; split; [exact Eh | split; [exact Hwh | exact Hkp]]).
  destruct (rt_single_ok F0 toks v Hp HH f p NEXT Fn Hf) as [p1 E1]. cbn [Nat.add] in E1. rewrite E1.
  cbn [map add_name fst snd app]. rewrite seq_nil. cbn [app]. rewrite seq_cons, i_name.
  pose proof (IDENT_fail (Sn 10 f) p1 c t X Hc Ha Hd) as E2. cbn [Sn] in E2. unfold IDENT in E2. unfold NEXT. rewrite E2. reflexivity.
Qed.
(* ... and `(` after the name *)
Lemma method_fails_nolparen : forall F0 toks v n c t X, parses F0 toks v -> wf_head_toks toks -> is_ident n = true ->
  solid c = true -> ceq "("%char c = false ->
  forall f p, F0 <= f -> interp g (20 + f) (GRef "Method") {| pk := p; rest := render toks (sp n (sp (c :: t) X)) |} = Fail.
Proof.
  intros F0 toks v n c t X Hp [h [rest' [Eh [Hwh [Hkp Hkt]]]]] Hn Hc Hl f p Hf. cbn [Nat.add]. rule "Method"%string.
  rewrite i_and, seq_cons, i_and, seq_cons, i_and, seq_cons, i_and, seq_cons, i_and, seq_cons, i_and, seq_cons, i_and, seq_cons.
  set (NAME := sp n (sp (c :: t) X)).
  assert (Fn : follow NAME) by (apply follow_ident; exact Hn).
  rewrite Eh. change (render (h :: rest') NAME) with (sp h (render rest' NAME)).
  assert (B : boundary (render rest' NAME)) by (apply render_boundary, follow_boundary; exact Fn).
  pose proof (template_opt_none (5 + f) p h _ Hwh B Hkt) as T. unfold TEMPLATE_OPT in T. cbn [Nat.add] in T. rewrite T. clear T.
  cbn [app]. rewrite seq_cons, i_name. change (sp h (render rest' NAME)) with (render (h :: rest') NAME). rewrite <- Eh.
  assert (HH : head_word toks) by (exists h, rest'; split; [exact Eh | split; [exact Hwh | exact Hkp]]).
  destruct (rt_single_ok F0 toks v Hp HH f p NAME Fn Hf) as [p1 E1]. cbn [Nat.add] in E1. rewrite E1.
  cbn [map add_name fst snd app]. rewrite seq_nil. cbn [app]. rewrite seq_cons, i_name.
  assert (Bl : boundary (sp (c :: t) X)) by (right; eexists; reflexivity).
  unfold NAME. destruct (IDENT_ok (Sn 10 f) p1 n (sp (c :: t) X) Hn Bl) as [p2 E2]. cbn [Sn] in E2. unfold IDENT in E2. rewrite E2.
  cbn [map add_name fst snd]. rewrite seq_nil. cbn [app]. rewrite seq_cons, i_sup.
  rewrite (lit1_other _ p2 "("%char c t X Hc Hl). reflexivity.
Qed.
(* an operator needs the literal `operator` after its return type *)
Lemma oper_fails_lit : forall F0 toks v NEXT, parses F0 toks v -> head_word toks -> follow NEXT ->
  (forall q, run_term (TLit "operator") {| pk := q; rest := NEXT |} = Fail) ->
  forall f p, F0 <= f -> interp g (20 + f) (GRef "Operator") {| pk := p; rest := render toks NEXT |} = Fail.
Proof.
  intros F0 toks v NEXT Hp HH Fn Hlit f p Hf. cbn [Nat.add]. rule "Operator"%string.
  rewrite i_and, seq_cons, i_and, seq_cons, i_and, seq_cons, i_and, seq_cons, i_and, seq_cons, i_and, seq_cons, i_and, seq_cons, i_name.
  destruct (rt_single_ok F0 toks v Hp HH f p NEXT Fn Hf) as [p1 E1]. cbn [Nat.add] in E1. rewrite E1.
  cbn [map add_name fst snd app]. rewrite seq_cons, i_name, i_term. rewrite (Hlit p1). reflexivity.
Qed.

Lemma variable_fails_noname : forall F0 toks v c t X, parses F0 toks v ->
  solid c = true -> in_str alpha_ c = false -> cmem c (chars_of digits) = false -> cmem c (chars_of "*@&:<") = false ->
  forall f p, F0 <= f -> interp g (8 + f) (GRef "Variable") {| pk := p; rest := render toks (sp (c :: t) X) |} = Fail.
Proof.
  intros F0 toks v c t X Hp Hc Ha Hd Hm f p Hf. cbn [Nat.add]. rule "Variable"%string.
  rewrite i_and, seq_cons, i_and, seq_cons, i_and, seq_cons, i_name.
  assert (Fn : follow (sp (c :: t) X)) by (right; exists c, (t ++ X); split; [reflexivity|]; split; assumption).
  destruct (Hp (3 + f) p (sp (c :: t) X) Fn ltac:(lia)) as [p1 E1]. cbn [Nat.add] in E1. unfold TY in E1.
  rewrite E1. cbn [map add_name fst snd app]. rewrite ?seq_cons, i_name.
  pose proof (IDENT_fail (1 + f) p1 c t X Hc Ha Hd) as E2. cbn [Nat.add] in E2. unfold IDENT in E2. rewrite E2. reflexivity.
Qed.

(* the members of the fragment *)
Inductive mem : Type :=
| MC (args : list (ty * string))
| MM (t : ty) (name : string) (args : list (ty * string)) (cst : bool)
| MP (t : ty) (name : string)
| ME (name : string) (enumerators : list string)
| MS (t : ty) (name : string) (args : list (ty * string)).

Definition mem_toks (cn : chars) (m : mem) : list chars :=
  match m with
  | MC args => ctor_toks cn args
  | MM t n args cst => method_toks t (chars_of n) args cst
  | MP t n => var_toks t n
  | ME n l => enum_toks n l
  | MS t n args => static_toks t (chars_of n) args
  end.
Definition mem_member (cn : string) (m : mem) : member :=
  match m with
  | MC args => ctor_member cn args
  | MM t n args cst => method_member t n args cst
  | MP t n => MVar {| v_ty := t; v_name := n; v_default := None |}
  | ME n l => MEnum {| e_name := n; e_items := l |}
  | MS t n args => static_member t n args
  end.
Definition name_ok (h : chars) : Prop :=
  no_us h /\ h <> ktemplate /\ h <> kstatic /\ h <> kenum /\ h <> kpair.
Definition head_mem (t : ty) : Prop := exists h rest', ty_toks t = h :: rest' /\ word h /\ name_ok h.
Definition not_operator (n : chars) : Prop := prefix koperator n = None.
Definition head_stat (t : ty) : Prop := exists h rest', ty_toks t = h :: rest' /\ word h /\ h <> kpair /\ not_operator h.
Definition wf_mem (m : mem) : Prop :=
  match m with
  | MC args => Forall wf_arg args
  | MM t n args _ => wf_ty t /\ depth t < depth_fuel /\ head_mem t /\ is_ident (chars_of n) = true /\ not_operator (chars_of n) /\ Forall wf_arg args
  | MP t n => wf_ty t /\ depth t < depth_fuel /\ head_mem t /\ is_ident (chars_of n) = true /\ not_operator (chars_of n)
  | ME n l => wf_enum n l /\ not_operator (chars_of n)
  | MS t n args => wf_ty t /\ depth t < depth_fuel /\ head_stat t /\ is_ident (chars_of n) = true /\ Forall wf_arg args
  end.
Definition mem_fuel (m : mem) : nat :=
  match m with
  | MC args => args_fuel args
  | MM t _ args _ => fuel_of t + args_fuel args
  | MP t _ => fuel_of t
  | ME _ l => length l
  | MS t _ args => fuel_of t + args_fuel args
  end.

Lemma lit_operator_lparen : forall q X, run_term (TLit "operator") {| pk := q; rest := sp lparen X |} = Fail.
Proof. intros q X. apply (lit_fail q (chars_of "operator") "("%char [] X); reflexivity. Qed.
Lemma lit_operator_name : forall q n r, is_ident n = true -> boundary r -> not_operator n ->
  run_term (TLit "operator") {| pk := q; rest := sp n r |} = Fail.
Proof. intros q n r Hn Hr Ho. apply (lit_noprefix q "operator" n r (ident_word n Hn) Hr); [noblank | exact Ho]. Qed.

Lemma b_member_var : forall v n t, b_type v = Ok t ->
  b_member (var_value v n) = Ok (MVar {| v_ty := t; v_name := string_of n; v_default := None |}).
Proof.
  intros v n t H. unfold var_value. cbn [b_member].
  repeat match goal with |- context [String.eqb ?a ?b] =>
    let x := eval vm_compute in (String.eqb a b) in change (String.eqb a b) with x end.
  cbv iota. unfold b_var, name_of, b_default.
  change (first_named "ctype" [(["ctype"%string], v); (["name"%string], VStr (string_of n))]) with (Some v).
  change (first_named "name" [(["ctype"%string], v); (["name"%string], VStr (string_of n))]) with (Some (VStr (string_of n))).
  change (named "default" [(["ctype"%string], v); (["name"%string], VStr (string_of n))]) with (@nil value).
  cbv iota. rewrite H. reflexivity.
Qed.

Lemma b_member_enum : forall name items,
  b_member (enum_value name items) = Ok (MEnum {| e_name := string_of name; e_items := map string_of items |}).
Proof.
  intros name items. unfold enum_value. cbn [b_member].
  repeat match goal with |- context [String.eqb ?a ?b] =>
    let x := eval vm_compute in (String.eqb a b) in change (String.eqb a b) with x end.
  cbv iota. unfold b_enum, name_of, first_named. rewrite !named_app, named_enumerators.
  change (named "name" [([], VStr "enum"); (["name"%string], VStr (string_of name))]) with [VStr (string_of name)].
  change (named "enumerators" [([], VStr "enum"); (["name"%string], VStr (string_of name))]) with (@nil value).
  cbn [app hd_error bind].
  assert (M : mapM (fun e => match e with
                             | VNode _ eits => match strs eits with [x] => Ok x | _ => bad "enumerator" end
                             | _ => bad "enumerator" end) (map enumerator_value items) = Ok (map string_of items)).
  { induction items as [|x items IH]; [reflexivity|]. cbn [map mapM enumerator_value strs flat_map snd app bind]. rewrite IH. reflexivity. }
  rewrite M. reflexivity.
Qed.

Lemma mem_step : forall cn m, is_ident cn = true -> name_ok cn -> ~ In cn reserved -> wf_mem m ->
  forall p R f, mem_fuel m + 40 <= f ->
  exists v p', interp g f MOR6 {| pk := p; rest := render (mem_toks cn m) R |} = Match [([], v)] {| pk := p'; rest := R |}
               /\ b_member v = Ok (mem_member (string_of cn) m).
Proof.
  intros cn m Hcn [Hus [Hct [Hcs [Hce Hcp]]]] Hcr Hwm p R f Hf.
  assert (X : exists y, f = Sn 6 (20 + y) /\ mem_fuel m + 14 <= y) by (exists (f - 26); cbn [Sn]; lia).
  destruct X as [y [Ef Hy]]. subst f. cbn [Sn].
  destruct m as [args | t n args cst | t n | n items | t n args]; cbn [mem_toks mem_member wf_mem mem_fuel] in *.
  - (* constructor *)
    destruct (ctor_ok cn args Hcn Hct Hwm p R (6 + y) ltac:(lia)) as [v [p' [E Bm]]].
    exists v, p'. split; [|exact Bm].
    set (X := render (args_toks args ++ [rparen; semi]) R).
    assert (ET : render (ctor_toks cn args) R = sp cn (sp lparen X)) by (unfold ctor_toks, X; rewrite !render_app; reflexivity).
    rewrite ET in *. clear ET.
    assert (Wn : word cn) by (apply ident_word; exact Hcn).
    assert (Bl : boundary (sp lparen X)) by (right; eexists; reflexivity).
    pose proof (name_parses cn Hcn Hcr) as NP.
    assert (WH : wf_head_toks [cn]) by (exists cn, []; split; [reflexivity|]; split; [exact Wn|]; split; assumption).
    assert (HW : head_word [cn]) by (exists cn, []; split; [reflexivity|]; split; assumption).
    unfold MOR6. apply or2_l; [|apply (enum_fails2 p cn _ (15 + y) Wn Bl Hce)].
    unfold MOR5. apply or2_l.
    2:{ change (render [cn] (sp lparen X)) with (sp cn (sp lparen X)) || idtac.
        apply (oper_fails_lit 13 [cn] _ (sp lparen X) NP HW).
        - right. exists "("%char, X. split; [reflexivity|]. split; reflexivity.
        - intros q. apply lit_operator_lparen.
        - lia. }
    unfold MOR4. apply or2_l.
    2:{ apply (variable_fails_noname 13 [cn] _ "("%char [] X NP eq_refl eq_refl eq_refl eq_refl (15 + y) p). lia. }
    unfold MOR3. apply or2_l; [|apply (static_fails_w p cn _ Wn Bl (5 + y) Hct Hcs)].
    unfold MOR2. apply or2_l.
    2:{ apply (method_fails_noname 13 [cn] _ "("%char [] X NP WH eq_refl eq_refl eq_refl eq_refl (1 + y) p). lia. }
    unfold MOR1. rewrite or2_r; [exact E|]. apply (dunder_fails_w p cn _ Wn (11 + y) Hus).
  - (* method *)
    destruct Hwm as [Hw [Hd [[h [rest' [Eh [Hwh [Hhu [Hht [Hhs [Hhe Hhp]]]]]]]] [Hn [Hno Ha]]]]].
    assert (WHt : wf_head t) by (exists h, rest'; split; [exact Eh|]; split; [exact Hwh|]; split; assumption).
    destruct (method_ok t (chars_of n) args cst Hw Hd WHt Hn Ha p R (1 + y) ltac:(lia) ltac:(lia)) as [v [p' [E Bm]]].
    exists v, p'. split; [|rewrite string_chars in Bm; exact Bm].
    set (TLX := [lparen] ++ args_toks args ++ [rparen] ++ const_toks cst ++ [semi]).
    assert (ET : render (method_toks t (chars_of n) args cst) R = render (ty_toks t) (sp (chars_of n) (sp lparen (render (args_toks args ++ [rparen] ++ const_toks cst ++ [semi]) R)))).
    { unfold method_toks. rewrite !render_app. reflexivity. }
    rewrite ET in *. clear ET. set (X := render (args_toks args ++ [rparen] ++ const_toks cst ++ [semi]) R) in *.
    assert (HP : parses (fuel_of t) (ty_toks t) (ty_value t)) by (apply (ty_parses (S (depth t))); [apply Nat.lt_succ_diag_r | exact Hw]).
    assert (WH : wf_head_toks (ty_toks t)) by (exists h, rest'; split; [exact Eh|]; split; [exact Hwh|]; split; assumption).
    assert (HW : head_word (ty_toks t)) by (exists h, rest'; split; [exact Eh|]; split; assumption).
    set (NAME := sp (chars_of n) (sp lparen X)) in *.
    assert (EH2 : render (ty_toks t) NAME = sp h (render rest' NAME)) by (rewrite Eh; reflexivity).
    assert (Bd : boundary (render rest' NAME)) by (apply render_boundary; right; eexists; reflexivity).
    unfold MOR6. apply or2_l; [|rewrite EH2; apply (enum_fails2 p h _ (15 + y) Hwh Bd Hhe)].
    unfold MOR5. apply or2_l.
    2:{ apply (oper_fails_lit (fuel_of t) (ty_toks t) _ NAME HP HW (follow_ident _ _ Hn)).
        - intros q. apply lit_operator_name; [exact Hn | right; eexists; reflexivity | exact Hno].
        - lia. }
    unfold MOR4. apply or2_l.
    2:{ apply (variable_fails (fuel_of t) (ty_toks t) _ (chars_of n) "("%char [] X HP Hn eq_refl eq_refl eq_refl (15 + y) p). lia. }
    unfold MOR3. apply or2_l; [|rewrite EH2; apply (static_fails_w p h _ Hwh Bd (5 + y) Hht Hhs)].
    unfold MOR2. rewrite or2_r; [exact E|].
    unfold MOR1. rewrite or2_r.
    + destruct (ty_second t (chars_of n) (lparen :: args_toks args ++ [rparen] ++ const_toks cst ++ [semi]) Hw Hn) as [h2 [c2 [t2 [r2 [E2 [Hh2 [Cs2 Cl2]]]]]]].
      assert (ER : render (ty_toks t) NAME = sp h2 (sp (c2 :: t2) (render r2 R))).
      { unfold NAME, X. change (sp (chars_of n) (sp lparen (render (args_toks args ++ [rparen] ++ const_toks cst ++ [semi]) R)))
          with (render (chars_of n :: lparen :: args_toks args ++ [rparen] ++ const_toks cst ++ [semi]) R).
        rewrite <- render_app, E2. reflexivity. }
      rewrite ER. assert (Eh2 : h2 = h) by (rewrite Eh in E2; cbn [app] in E2; inversion E2; reflexivity). subst h2.
      apply (ctor_fails_second p h c2 t2 _ (6 + y) Hh2 Hht Cs2 Cl2).
    + rewrite EH2. apply (dunder_fails_w p h _ Hwh (11 + y) Hhu).
  - (* property *)
    destruct Hwm as [Hw [Hd [[h [rest' [Eh [Hwh [Hhu [Hht [Hhs [Hhe Hhp]]]]]]]] [Hn Hno]]]].
    assert (HP : parses (fuel_of t) (ty_toks t) (ty_value t)) by (apply (ty_parses (S (depth t))); [apply Nat.lt_succ_diag_r | exact Hw]).
    unfold var_toks. rewrite render_app. change (render [chars_of n; semi] R) with (sp (chars_of n) (sp semi R)).
    destruct (variable_ok (fuel_of t) (ty_toks t) (ty_value t) (chars_of n) HP Hn (15 + y) p R ltac:(lia)) as [p' E].
    exists (var_value (ty_value t) (chars_of n)), p'. split.
    2:{ rewrite <- (string_chars n) at 2. apply b_member_var. unfold b_type. apply (ty_rebuilt depth_fuel t Hd Hw). }
    assert (WH : wf_head_toks (ty_toks t)) by (exists h, rest'; split; [exact Eh|]; split; [exact Hwh|]; split; assumption).
    assert (HW : head_word (ty_toks t)) by (exists h, rest'; split; [exact Eh|]; split; assumption).
    set (NAME := sp (chars_of n) (sp semi R)) in *.
    assert (EH2 : render (ty_toks t) NAME = sp h (render rest' NAME)) by (rewrite Eh; reflexivity).
    assert (Bd : boundary (render rest' NAME)) by (apply render_boundary; right; eexists; reflexivity).
    unfold MOR6. apply or2_l; [|rewrite EH2; apply (enum_fails2 p h _ (15 + y) Hwh Bd Hhe)].
    unfold MOR5. apply or2_l.
    2:{ apply (oper_fails_lit (fuel_of t) (ty_toks t) _ NAME HP HW (follow_ident _ _ Hn)).
        - intros q. apply lit_operator_name; [exact Hn | right; eexists; reflexivity | exact Hno].
        - lia. }
    unfold MOR4. rewrite or2_r; [exact E|].
    unfold MOR3. rewrite or2_r; [rewrite EH2; apply (static_fails_w p h _ Hwh Bd (5 + y) Hht Hhs)|].
    unfold MOR2. rewrite or2_r.
    { apply (method_fails_nolparen (fuel_of t) (ty_toks t) _ (chars_of n) ";"%char [] R HP WH Hn eq_refl eq_refl (1 + y) p). lia. }
    unfold MOR1. rewrite or2_r.
    + destruct (ty_second t (chars_of n) [semi] Hw Hn) as [h2 [c2 [t2 [r2 [E2 [Hh2 [Cs2 Cl2]]]]]]].
      assert (ER : render (ty_toks t) NAME = sp h2 (sp (c2 :: t2) (render r2 R))).
      { unfold NAME. change (sp (chars_of n) (sp semi R)) with (render [chars_of n; semi] R). rewrite <- render_app, E2. reflexivity. }
      rewrite ER. assert (Eh2 : h2 = h) by (rewrite Eh in E2; cbn [app] in E2; inversion E2; reflexivity). subst h2.
      apply (ctor_fails_second p h c2 t2 _ (6 + y) Hh2 Hht Cs2 Cl2).
    + rewrite EH2. apply (dunder_fails_w p h _ Hwh (11 + y) Hhu).
  - (* nested enumeration *)
    destruct Hwm as [[Hn [H1 [H2 [Hne Hi]]]] Hno]. destruct items as [|x items]; [contradiction|].
    inversion Hi as [|? ? Hx Hrest]; subst.
    assert (Hrest' : Forall (fun y => is_ident y = true) (map chars_of items)).
    { apply Forall_forall. intros z Hz. apply in_map_iff in Hz. destruct Hz as [w [E Hw]]. subst z. rewrite Forall_forall in Hrest. apply Hrest. exact Hw. }
    cbn [length] in Hy. set (k := length items) in *.
    unfold enum_toks.
    replace (map (fun y : string => [chars_of y]) (x :: items)) with (map (fun y => [y]) (chars_of x :: map chars_of items))
      by (cbn [map]; rewrite map_map; reflexivity).
    destruct (enum_ok (chars_of n) (chars_of x) (map chars_of items) (12 + y - k) p R Hn H1 H2 Hx Hrest') as [p' E].
    rewrite map_length in E. fold k in E.
    exists (enum_value (chars_of n) (chars_of x :: map chars_of items)), p'. split.
    2:{ rewrite b_member_enum, string_chars. cbn [map]. rewrite string_chars, map_string_chars. reflexivity. }
    set (TXT := render ([kenum; chars_of n; lbrace] ++ sep_toks (map (fun y => [y]) (chars_of x :: map chars_of items)) ++ [rbrace; semi]) R) in *.
    set (AFTER := render ([lbrace] ++ sep_toks (map (fun y => [y]) (chars_of x :: map chars_of items)) ++ [rbrace; semi]) R).
    assert (ET : TXT = sp kenum (sp (chars_of n) AFTER)) by reflexivity.
    assert (EA : AFTER = sp ("{"%char :: []) (render (sep_toks (map (fun y => [y]) (chars_of x :: map chars_of items)) ++ [rbrace; semi]) R)) by reflexivity.
    assert (We : word kenum) by (split; [discriminate | reflexivity]).
    assert (Bd : boundary (sp (chars_of n) AFTER)) by (right; eexists; reflexivity).
    assert (WH : wf_head_toks [kenum]) by (exists kenum, []; split; [reflexivity|]; split; [exact We|]; split; discriminate).
    assert (HW : head_word [kenum]) by (exists kenum, []; split; [reflexivity|]; split; [exact We | discriminate]).
    rewrite ET in *.
    assert (EQ : 13 + k + (12 + y - k) = S (S (S (S (S (20 + y)))))) by lia. rewrite EQ in E.
    unfold MOR6. rewrite or2_r; [exact E|].
    unfold MOR5. rewrite or2_r.
    { apply (oper_fails_lit 13 [kenum] _ (sp (chars_of n) AFTER) enum_parses HW (follow_ident _ _ Hn)).
      - intros q. apply lit_operator_name; [exact Hn | right; eexists; reflexivity | exact Hno].
      - lia. }
    unfold MOR4. rewrite or2_r.
    { rewrite EA. apply (variable_fails 13 [kenum] (ty_value (kw_type "enum")) (chars_of n) "{"%char [] _ enum_parses Hn eq_refl eq_refl eq_refl (15 + y) p). lia. }
    unfold MOR3. rewrite or2_r; [apply (static_fails_w p kenum _ We Bd (5 + y)); discriminate|].
    unfold MOR2. rewrite or2_r.
    { rewrite EA. apply (method_fails_nolparen 13 [kenum] _ (chars_of n) "{"%char [] _ enum_parses WH Hn eq_refl eq_refl (1 + y) p). lia. }
    unfold MOR1. rewrite or2_r.
    + destruct (ident_first_alpha (chars_of n) Hn) as [c [w [En Hc]]]. destruct (alpha_plain c Hc) as [Cs [Cl _]]. rewrite En.
      apply (ctor_fails_second p kenum c w AFTER (6 + y) eq_refl ltac:(discriminate) Cs Cl).
    + apply (dunder_fails_w p kenum _ We (11 + y)). reflexivity.
  - (* static method *)
    destruct Hwm as [Hw [Hd [[h [rest' [Eh [Hwh [Hhp Hho]]]]] [Hn Ha]]]].
    assert (HHt : head_word (ty_toks t)) by (exists h, rest'; split; [exact Eh|]; split; assumption).
    destruct (static_ok t (chars_of n) args Hw Hd HHt Hn Ha p R (2 + y) ltac:(lia) ltac:(lia)) as [v [p' [E Bm]]].
    exists v, p'. split; [|rewrite string_chars in Bm; exact Bm].
    set (TL := lparen :: args_toks args ++ [rparen; semi]).
    destruct (ty_second4 t (chars_of n) TL Hw Hn) as [h2 [c2 [t2 [r2 [E2 [Hh2 [Cs2 [Cl2 [Ce2 Csm2]]]]]]]]].
    assert (Eh2 : h2 = h) by (rewrite Eh in E2; cbn [app] in E2; inversion E2; reflexivity). subst h2.
    assert (ET : render (static_toks t (chars_of n) args) R = sp kstatic (sp h (sp (c2 :: t2) (render r2 R)))).
    { unfold static_toks. rewrite render_app. change (render [kstatic] ?x) with (sp kstatic x). f_equal.
      change ([chars_of n; lparen] ++ args_toks args ++ [rparen; semi]) with (chars_of n :: TL). rewrite E2. reflexivity. }
    rewrite ET in *. clear ET. set (X := render r2 R) in *.
    assert (Ws : word kstatic) by (split; [discriminate | reflexivity]).
    assert (Bd : boundary (sp h (sp (c2 :: t2) X))) by (right; eexists; reflexivity).
    assert (WH : wf_head_toks [kstatic]) by (exists kstatic, []; split; [reflexivity|]; split; [exact Ws|]; split; discriminate).
    assert (HW : head_word [kstatic]) by (exists kstatic, []; split; [reflexivity|]; split; [exact Ws | discriminate]).
    unfold MOR6. apply or2_l; [|apply (enum_fails2 p kstatic _ (15 + y) Ws Bd); discriminate].
    unfold MOR5. apply or2_l.
    2:{ apply (oper_fails_lit 13 [kstatic] _ (sp h (sp (c2 :: t2) X)) static_parses HW (follow_ident _ _ Hh2)).
        - intros q. apply lit_operator_name; [exact Hh2 | right; eexists; reflexivity | exact Hho].
        - lia. }
    unfold MOR4. apply or2_l.
    2:{ apply (variable_fails 13 [kstatic] (ty_value (kw_type "static")) h c2 t2 X static_parses Hh2 Cs2 Ce2 Csm2 (15 + y) p). lia. }
    unfold MOR3. rewrite or2_r; [exact E|].
    unfold MOR2. rewrite or2_r.
    { apply (method_fails_nolparen 13 [kstatic] _ h c2 t2 X static_parses WH Hh2 Cs2 Cl2 (1 + y) p). lia. }
    unfold MOR1. rewrite or2_r.
    + destruct (ident_first_alpha h Hh2) as [ch [wh [Ehh Hch]]]. destruct (alpha_plain ch Hch) as [Sh [Lh _]]. rewrite Ehh.
      apply (ctor_fails_second p kstatic ch wh _ (6 + y) eq_refl ltac:(discriminate) Sh Lh).
    + apply (dunder_fails_w p kstatic _ Ws (11 + y)). reflexivity.
Qed.

(* ---- the members of a class, one after the other, up to the closing brace ---- *)
Lemma members_star : forall cn, is_ident cn = true -> name_ok cn -> ~ In cn reserved ->
  forall ms, Forall wf_mem ms -> forall F, 40 <= F -> (forall m, In m ms -> mem_fuel m + 40 <= F) ->
  forall X k acc p, length ms < k ->
  exists vs p', star (interp g F) k MOR6 acc {| pk := p; rest := render (flat_map (mem_toks cn) ms) (sp rbrace X) |}
                = Match (acc ++ items_of vs) {| pk := p'; rest := sp rbrace X |}
                /\ mapM b_member vs = Ok (map (mem_member (string_of cn)) ms).
Proof.
  intros cn Hcn Hok Hres ms. induction ms as [|m ms IH]; intros Hwf F HF Hfuel X k acc p Hk.
  - destruct k as [|k]; [cbn in Hk; lia|]. exists [], p. cbn [flat_map render fold_right items_of map mapM].
    assert (EM : interp g F MOR6 {| pk := p; rest := sp rbrace X |} = Fail) by (replace F with (40 + (F - 40)) by lia; apply members_stop).
    rewrite star_S, EM, app_nil_r. split; reflexivity.
  - destruct k as [|k]; [cbn in Hk; lia|]. inversion Hwf as [|? ? Hm Hrest]; subst.
    cbn [flat_map]. rewrite render_app. set (REST := render (flat_map (mem_toks cn) ms) (sp rbrace X)) in *.
    destruct (mem_step cn m Hcn Hok Hres Hm p REST F (Hfuel m (or_introl eq_refl))) as [v [p1 [E B]]].
    rewrite star_S, E.
    destruct (IH Hrest F HF (fun y Hy => Hfuel y (or_intror Hy)) X k (acc ++ [([], v)]) p1 ltac:(cbn [length] in Hk; lia)) as [vs [p2 [E2 B2]]].
    exists (v :: vs), p2. fold REST in E2. rewrite E2. split.
    + rewrite <- app_assoc. reflexivity.
    + cbn [mapM map]. rewrite B. cbn [bind]. rewrite B2. reflexivity.
Qed.

Definition mems_fuel (ms : list mem) : nat := fold_right (fun m acc => mem_fuel m + acc) 0 ms.
Lemma mems_fuel_ge : forall ms m, In m ms -> mem_fuel m <= mems_fuel ms.
Proof. induction ms as [|x ms IH]; intros m H; [destruct H|]. cbn [mems_fuel fold_right]. fold (mems_fuel ms). destruct H as [E|H]; [subst; lia | specialize (IH m H); lia]. Qed.

Lemma ctor_names : forall name ms,
  forallb (fun c => String.eqb (k_name c) name) (flat_map (fun m => match m with MCtor c => [c] | _ => [] end) (map (mem_member name) ms)) = true.
Proof.
  intros name ms. induction ms as [|m ms IH]; [reflexivity|]. cbn [map flat_map]. rewrite forallb_app, IH, andb_true_r.
  destruct m as [args | t n args cst | t n | n l | t n args]; cbn [mem_member]; unfold ctor_member, method_member, static_member; cbn [forallb k_name]; [|reflexivity|reflexivity|reflexivity|reflexivity].
  rewrite String.eqb_refl. reflexivity.
Qed.

Definition wf_class (name : string) (ms : list mem) : Prop :=
  is_ident (chars_of name) = true /\ name_ok (chars_of name) /\ ~ In (chars_of name) reserved /\ Forall wf_mem ms.
Definition class_decl (virt : bool) (name : string) (ms : list mem) : decl :=
  DClass (class_of_members virt name (map (mem_member name) ms)).
Definition class_item_toks (virt : bool) (name : string) (ms : list mem) : list chars :=
  class_toks virt (chars_of name) (flat_map (mem_toks (chars_of name)) ms).

Lemma content_step_cls : forall virt name ms, wf_class name ms ->
  forall p R f, 54 + length ms + mems_fuel ms <= f ->
  exists v p', interp g f OR7 {| pk := p; rest := render (class_item_toks virt name ms) R |} = Match [([], v)] {| pk := p'; rest := R |}
               /\ forall k, b_decl (S k) v = Ok (class_decl virt name ms).
Proof.
  intros virt name ms [Hn [Hok [Hres Hwf]]] p R f Hf. set (F := 41 + length ms + mems_fuel ms).
  apply (content_step_class virt name (flat_map (mem_toks (chars_of name)) ms) (map (mem_member name) ms) F Hn ltac:(unfold F; lia)).
  - intros R0 q.
    destruct (members_star (chars_of name) Hn Hok Hres ms Hwf F ltac:(unfold F; lia)
                (fun m Hm => ltac:(pose proof (mems_fuel_ge ms m Hm); unfold F; lia)) (sp semi R0) F [] q ltac:(unfold F; lia)) as [vs [q' [E B]]].
    exists vs, q'. split; [exact E|]. rewrite string_chars in B. exact B.
  - apply ctor_names.
  - unfold F. lia.
Qed.

Definition wf_class_b (name : string) (ns : list string) (bn : string) (ms : list mem) : Prop :=
  wf_class name ms /\ Forall (fun x => is_ident x = true) (names_of ns bn) /\ hd [] (names_of ns bn) <> kconst.
Definition class_decl_b (virt : bool) (name : string) (ns : list string) (bn : string) (ms : list mem) : decl :=
  DClass (with_base (class_of_members virt name (map (mem_member name) ms)) (base_named ns bn)).
Definition class_item_toks_b (virt : bool) (name : string) (ns : list string) (bn : string) (ms : list mem) : list chars :=
  class_toks_b virt (chars_of name) (names_of ns bn) (flat_map (mem_toks (chars_of name)) ms).

Lemma content_step_cls_b : forall virt name ns bn ms, wf_class_b name ns bn ms ->
  forall p R f, 54 + length ns + length ms + mems_fuel ms <= f ->
  exists v p', interp g f OR7 {| pk := p; rest := render (class_item_toks_b virt name ns bn ms) R |} = Match [([], v)] {| pk := p'; rest := R |}
               /\ forall k, b_decl (S k) v = Ok (class_decl_b virt name ns bn ms).
Proof.
  intros virt name ns bn ms [[Hn [Hok [Hres Hwf]]] [Hnames Hkc]] p R f Hf. set (F := 41 + length ns + length ms + mems_fuel ms).
  apply (content_step_class_b virt name ns bn (flat_map (mem_toks (chars_of name)) ms) (map (mem_member name) ms) F Hn Hnames Hkc ltac:(unfold F; lia)).
  - intros R0 q.
    destruct (members_star (chars_of name) Hn Hok Hres ms Hwf F ltac:(unfold F; lia)
                (fun m Hm => ltac:(pose proof (mems_fuel_ge ms m Hm); unfold F; lia)) (sp semi R0) F [] q ltac:(unfold F; lia)) as [vs [q' [E B]]].
    exists vs, q'. split; [exact E|]. rewrite string_chars in B. exact B.
  - apply ctor_names.
  - unfold F. lia.
Qed.



Definition stops (R : chars) : Prop := forall p f, 30 <= f -> interp g f OR7 {| pk := p; rest := R |} = Fail.

Lemma end_fails : forall p f, 30 <= f -> interp g f OR7 {| pk := p; rest := [] |} = Fail.
Proof.
  intros p f Hf. assert (E : interp g 30 OR7 {| pk := p; rest := [] |} = Fail) by (destruct p; vm_compute; reflexivity).
  unfold interp in *. rewrite (fuel_mono run_term g 30 OR7 _ ltac:(rewrite E; discriminate) f Hf). exact E.
Qed.
Lemma end_stops : stops []. Proof. exact end_fails. Qed.
Lemma rbrace_stops : forall X, stops (sp rbrace X).
Proof. intros X p f Hf. replace f with (30 + (f - 30)) by lia. apply rbrace_fails. Qed.

(* ---- one namespace: `namespace name { content }` where the content is a run of declarations ---- *)
Definition ns_value (nm : string) (vs : list value) : value :=
  VNode "Namespace" ([([], VStr "namespace"); (["name"%string], VStr nm)] ++ map (add_name "content") (items_of vs)).
Definition ns_type : ty := TPlain (Typename [] (NStr "namespace") []) false PNone false.

Lemma ns_parses : parses 13 [knamespace] (ty_value ns_type).
Proof.
  apply (ty_parses 1 ns_type); [cbn; lia|]. cbn [wf_ty ns_type]. split; [reflexivity|]. split.
  - repeat constructor.
  - vm_compute. intuition discriminate.
Qed.
Lemma ns_word : word knamespace. Proof. split; [discriminate | reflexivity]. Qed.
Lemma ns_not_other : ~ In knamespace other_keywords. Proof. vm_compute. intuition discriminate. Qed.

Lemma ns_step : forall (Q : list value -> Prop) nm body R y, is_ident (chars_of nm) = true -> 12 <= y ->
  (forall p, exists vs p', star (interp g (19 + y)) (19 + y) OR7 [] {| pk := p; rest := render body (sp rbrace R) |}
                           = Match (items_of vs) {| pk := p'; rest := sp rbrace R |} /\ Q vs) ->
  forall p, exists vs p', interp g (25 + y) OR7 {| pk := p; rest := render ([knamespace; chars_of nm; lbrace] ++ body ++ [rbrace]) R |}
                          = Match [([], ns_value nm vs)] {| pk := p'; rest := R |} /\ Q vs.
Proof.
  intros Q nm body R y Hn Hy Hstar p.
  set (INNER := render body (sp rbrace R)).
  assert (Etext : render ([knamespace; chars_of nm; lbrace] ++ body ++ [rbrace]) R = sp knamespace (sp (chars_of nm) (sp lbrace INNER))).
  { unfold INNER. cbn [app render fold_right]. fold (render (body ++ [rbrace]) R). rewrite render_app. reflexivity. }
  rewrite Etext. set (AFTER := sp (chars_of nm) (sp lbrace INNER)).
  assert (Bd : boundary AFTER) by (right; eexists; reflexivity).
  change (25 + y) with (Sn 7 (18 + y)). cbn [Sn Nat.add].
  (* the namespace rule matches *)
  assert (M : exists vs p', interp g (Sn 6 (18 + y)) (GRef "Namespace") {| pk := p; rest := sp knamespace AFTER |}
                            = Match [([], ns_value nm vs)] {| pk := p'; rest := R |} /\ Q vs).
  { cbn [Sn Nat.add]. rule "Namespace"%string. rewrite i_and, seq_cons, i_and, seq_cons, i_and, seq_cons, i_and, seq_cons, i_term.
    destruct (kw_self p "n"%char (chars_of "amespace") AFTER eq_refl Bd) as [p1 E1].
    change (string_of ("n"%char :: chars_of "amespace")) with "namespace"%string in E1.
    change (sp ("n"%char :: chars_of "amespace") AFTER) with (sp knamespace AFTER) in E1. rewrite E1. cbn [app].
    rewrite seq_cons, i_name. unfold AFTER.
    assert (Bl : boundary (sp lbrace INNER)) by (right; eexists; reflexivity).
    destruct (IDENT_ok (Sn 16 y) p1 (chars_of nm) (sp lbrace INNER) Hn Bl) as [p2 E2]. cbn [Sn] in E2. unfold IDENT in E2. rewrite E2.
    cbn [map add_name fst snd app]. rewrite seq_nil. cbn [app]. rewrite seq_cons, i_sup.
    destruct (lit1_at (Sn 18 y) p2 "{"%char INNER eq_refl) as [p3 E3]. cbn [Sn] in E3. change (sp ["{"%char] INNER) with (sp lbrace INNER) in E3.
    rewrite E3, seq_nil. cbn [app]. rewrite seq_cons, i_name, i_star.
    change (GOr [GOr [GOr [GOr [GOr [GOr [GOr [GRef "ForwardDeclaration"; GRef "Include"]; GRef "Class"];
      GRef "TypedefTemplateInstantiation"]; GRef "GlobalFunction"]; GRef "Enum"]; GRef "Variable"]; GRef "Namespace"]) with OR7.
    destruct (Hstar p3) as [vs [p4 [E4 HQ]]]. cbn [Nat.add] in E4. unfold INNER. rewrite E4. rewrite seq_nil. cbn [app]. rewrite seq_cons, i_sup.
    destruct (lit1_at (Sn 20 y) p4 "}"%char R eq_refl) as [p5 E5]. cbn [Sn] in E5. change (sp ["}"%char] R) with (sp rbrace R) in E5.
    rewrite E5, seq_nil. cbn [app]. rewrite string_chars, app_nil_r. exists vs, p5. split; [reflexivity | exact HQ]. }
  destruct M as [vs [p' [M HQ]]]. exists vs, p'. split; [|exact HQ]. cbn [Sn Nat.add] in M.
  pose proof ns_word as Hw. pose proof ns_not_other as Hk.
  unfold OR7. rewrite or2_r; [exact M|].
  unfold OR6. rewrite or2_r.
  { unfold AFTER. apply (variable_fails 13 [knamespace] (ty_value ns_type) (chars_of nm) "{"%char [] INNER ns_parses Hn eq_refl eq_refl eq_refl
                        (15 + y) p). lia. }
  unfold OR5. rewrite or2_r; [apply (enum_fails p knamespace AFTER Hw Bd Hk (12 + y))|].
  unfold OR4. rewrite or2_r.
  { unfold AFTER. apply (function_fails 13 [knamespace] (ty_value ns_type) (chars_of nm) "{"%char [] INNER ns_parses).
    - exists knamespace, []. split; [reflexivity|]. split; [exact Hw|]. split; discriminate.
    - exact Hn.
    - reflexivity.
    - reflexivity.
    - lia. }
  unfold OR3. rewrite or2_r; [apply (typedef_fails p knamespace AFTER Hw Bd Hk (14 + y))|].
  unfold OR2. rewrite or2_r; [apply (class_fails p knamespace AFTER Hw Bd Hk (1 + y))|].
  unfold OR1. rewrite or2_r; [apply (include_fails p knamespace AFTER Hw Bd Hk (12 + y))|].
  apply (fwd_fails p knamespace AFTER Hw Bd Hk (9 + y)).
Qed.

(* ---- declaration trees: functions inside namespaces nested to any depth ---- *)
Inductive item : Type :=
| IFn (x : fn)
| IVar (t : ty) (name : string)
| IFwd (virt : bool) (name : string)
| IInc (header : string)
| IEnum (name : string) (enumerators : list string)
| ITypedef (t : ty) (name : string)
| IFnP (t1 t2 : ty) (name : string) (args : list (ty * string))
| IClass (virt : bool) (name : string) (ms : list mem)
| IClassB (virt : bool) (name : string) (ns : list string) (base : string) (ms : list mem)
| INs (name : string) (body : list item).

Fixpoint itoks (i : item) : list chars :=
  match i with
  | IFn x => toks_of x
  | IVar t n => var_toks t n
  | IFwd v n => fwd_toks v n
  | IInc h => inc_toks h
  | IEnum n l => enum_toks n l
  | ITypedef t n => typedef_toks t n
  | IFnP a b n l => pfn_toks a b n l
  | IClass v n ms => class_item_toks v n ms
  | IClassB v n ns bn ms => class_item_toks_b v n ns bn ms
  | INs n b => [knamespace; chars_of n; lbrace] ++ flat_map itoks b ++ [rbrace]
  end.
Definition items_toks (l : list item) : list chars := flat_map itoks l.
Fixpoint idecl (i : item) : decl :=
  match i with
  | IFn x => decl_of x
  | IVar t n => DVar {| v_ty := t; v_name := n; v_default := None |}
  | IFwd v n => fwd_decl v n
  | IInc h => DInclude h
  | IEnum n l => enum_decl n l
  | ITypedef t n => DTypedef (ty_typename t) n
  | IFnP a b n l => pfn_decl a b n l
  | IClass v n ms => class_decl v n ms
  | IClassB v n ns bn ms => class_decl_b v n ns bn ms
  | INs n b => DNamespace n (map idecl b)
  end.
Fixpoint idepth (i : item) : nat :=
  match i with IFn _ => 0 | IVar _ _ => 0 | IFwd _ _ => 0 | IInc _ => 0 | IEnum _ _ => 0 | ITypedef _ _ => 0 | IFnP _ _ _ _ => 0 | IClass _ _ _ => 0 | IClassB _ _ _ _ _ => 0 | INs _ b => S (fold_right (fun x acc => Nat.max (idepth x) acc) 0 b) end.
Fixpoint wf_item (i : item) : Prop :=
  match i with
  | IFn x => wf_fn x
  | IVar t n => wf_var t n
  | IFwd _ n => is_ident (chars_of n) = true
  | IInc h => path_ok_c (chars_of h)
  | IEnum n l => wf_enum n l
  | ITypedef t n => wf_typedef t n
  | IFnP a b n l => wf_pfn a b n l
  | IClass _ n ms => wf_class n ms
  | IClassB _ n ns bn ms => wf_class_b n ns bn ms
  | INs n b => is_ident (chars_of n) = true /\ (fix all (l : list item) : Prop := match l with [] => True | x :: r => wf_item x /\ all r end) b
  end.
Fixpoint need (i : item) : nat :=
  match i with
  | IFn x => fuel_fn x + 25
  | IVar t _ => fuel_of t + 25
  | IFwd _ _ => 40
  | IInc _ => 40
  | IEnum _ l => 40 + length l
  | ITypedef t _ => 40 + fuel_of t
  | IFnP a b _ l => pfn_fuel a b l + 25
  | IClass _ _ ms => 54 + length ms + mems_fuel ms
  | IClassB _ _ ns _ ms => 54 + length ns + length ms + mems_fuel ms
  | INs _ b => 37 + length b + fold_right (fun x acc => need x + acc) 0 b
  end.
Definition needs (l : list item) : nat := 31 + length l + fold_right (fun x acc => need x + acc) 0 l.

Lemma wf_items_all : forall b, (fix all (l : list item) : Prop := match l with [] => True | x :: r => wf_item x /\ all r end) b ->
  forall x, In x b -> wf_item x.
Proof. induction b as [|y r IH]; intros H x Hx; [destruct Hx|]. destruct H as [H1 H2]. destruct Hx as [E|Hx]; [subst; exact H1 | apply IH; assumption]. Qed.
Lemma idepth_ge : forall (b : list item) x, In x b -> idepth x <= fold_right (fun y acc => Nat.max (idepth y) acc) 0 b.
Proof. induction b as [|y r IH]; intros x H; [destruct H|]. cbn [fold_right]. destruct H as [E|H]; [subst; lia | specialize (IH x H); lia]. Qed.

Lemma named_content : forall vs, named "content" (map (add_name "content") (items_of vs)) = vs.
Proof. induction vs as [|v r IH]; [reflexivity|]. unfold named, items_of in *. cbn. f_equal. exact IH. Qed.

Lemma b_decl_ns : forall k nm vs ds, mapM (b_decl k) vs = Ok ds -> b_decl (S k) (ns_value nm vs) = Ok (DNamespace nm ds).
Proof.
  intros k nm vs ds H. unfold ns_value. cbn [b_decl].
  repeat match goal with |- context [String.eqb ?a ?b] =>
    let v := eval vm_compute in (String.eqb a b) in change (String.eqb a b) with v end.
  cbv iota. unfold name_of, first_named. rewrite !named_app, named_content.
  change (named "name" [([], VStr "namespace"); (["name"%string], VStr nm)]) with [VStr nm].
  change (named "content" [([], VStr "namespace"); (["name"%string], VStr nm)]) with (@nil value).
  cbn [app hd_error bind]. rewrite H. reflexivity.
Qed.

Theorem items_star : forall n items, (forall i, In i items -> idepth i < n /\ wf_item i) ->
  forall F, needs items <= F -> forall R, stops R -> forall k acc p, length items < k ->
  exists vs p', star (interp g F) k OR7 acc {| pk := p; rest := render (items_toks items) R |}
                = Match (acc ++ items_of vs) {| pk := p'; rest := R |}
                /\ forall bf, n <= bf -> mapM (b_decl bf) vs = Ok (map idecl items).
Proof.
  induction n as [|n IHn]; intros items.
  - destruct items as [|i items]; intros H F HF R HR k acc p Hk.
    + destruct k as [|k]; [cbn in Hk; lia|]. exists [], p. cbn [items_toks flat_map render fold_right items_of map mapM].
      unfold needs in HF. rewrite star_S, (HR p F ltac:(cbn [length] in HF; lia)), app_nil_r. split; [reflexivity | intros; reflexivity].
    + destruct (H i (or_introl eq_refl)) as [X _]. lia.
  - induction items as [|i items IHi]; intros H F HF R HR k acc p Hk.
    + destruct k as [|k]; [cbn in Hk; lia|]. exists [], p. cbn [items_toks flat_map render fold_right items_of map mapM].
      unfold needs in HF. rewrite star_S, (HR p F ltac:(cbn [length] in HF; lia)), app_nil_r. split; [reflexivity | intros; reflexivity].
    + destruct k as [|k]; [cbn in Hk; lia|].
      destruct (H i (or_introl eq_refl)) as [Hdi Hwi].
      assert (Hrest : forall j, In j items -> idepth j < S n /\ wf_item j) by (intros j Hj; apply H; right; exact Hj).
      unfold needs in HF. cbn [length fold_right] in HF.
      assert (HFr : needs items <= F) by (unfold needs; lia).
      cbn [items_toks flat_map]. fold (items_toks items). rewrite render_app.
      set (REST := render (items_toks items) R) in *.
      assert (Step : exists v p1, interp g F OR7 {| pk := p; rest := render (itoks i) REST |} = Match [([], v)] {| pk := p1; rest := REST |}
                                  /\ forall bf, S n <= bf -> b_decl bf v = Ok (idecl i)).
      { destruct i as [x|t nm|vt nm|hd|en el|tt tnm|pa pb pn pl|cv cn cms|bv bcn bns bbn bms|nm b].
        - cbn [wf_item itoks idecl need] in *. destruct (content_step x Hwi p REST F ltac:(lia)) as [v [p1 [E B]]].
          exists v, p1. split; [exact E|]. intros bf Hbf. destruct bf as [|bf]; [lia|]. apply B.
        - cbn [wf_item itoks idecl need] in *. destruct (content_step_var t nm Hwi p REST F ltac:(lia)) as [v [p1 [E B]]].
          exists v, p1. split; [exact E|]. intros bf Hbf. destruct bf as [|bf]; [lia|]. apply B.
        - cbn [wf_item itoks idecl need] in *. destruct (content_step_fwd vt nm Hwi p REST F ltac:(lia)) as [v [p1 [E B]]].
          exists v, p1. split; [exact E|]. intros bf Hbf. destruct bf as [|bf]; [lia|]. apply B.
        - cbn [wf_item itoks idecl need] in *. destruct (content_step_inc hd Hwi p REST F ltac:(lia)) as [v [p1 [E B]]].
          exists v, p1. split; [exact E|]. intros bf Hbf. destruct bf as [|bf]; [lia|]. apply B.
        - cbn [wf_item itoks idecl need] in *. destruct (content_step_enum en el Hwi p REST F ltac:(lia)) as [v [p1 [E B]]].
          exists v, p1. split; [exact E|]. intros bf Hbf. destruct bf as [|bf]; [lia|]. apply B.
        - cbn [wf_item itoks idecl need] in *. destruct (content_step_typedef tt tnm Hwi p REST F ltac:(lia)) as [v [p1 [E B]]].
          exists v, p1. split; [exact E|]. intros bf Hbf. destruct bf as [|bf]; [lia|]. apply B.
        - cbn [wf_item itoks idecl need] in *. destruct (content_step_pfn pa pb pn pl Hwi p REST F ltac:(lia)) as [v [p1 [E B]]].
          exists v, p1. split; [exact E|]. intros bf Hbf. destruct bf as [|bf]; [lia|]. apply B.
        - cbn [wf_item itoks idecl need] in *. destruct (content_step_cls cv cn cms Hwi p REST F ltac:(lia)) as [v [p1 [E B]]].
          exists v, p1. split; [exact E|]. intros bf Hbf. destruct bf as [|bf]; [lia|]. apply B.
        - cbn [wf_item itoks idecl need] in *. destruct (content_step_cls_b bv bcn bns bbn bms Hwi p REST F ltac:(lia)) as [v [p1 [E B]]].
          exists v, p1. split; [exact E|]. intros bf Hbf. destruct bf as [|bf]; [lia|]. apply B.
        - cbn [wf_item itoks idecl need idepth] in *. destruct Hwi as [Hnm Hall].
          assert (Hb : forall j, In j b -> idepth j < n /\ wf_item j).
          { intros j Hj. split; [pose proof (idepth_ge b j Hj); lia | apply (wf_items_all b Hall j Hj)]. }
          assert (Y : exists y, F = 25 + y /\ 12 <= y /\ needs b <= 19 + y) by (exists (F - 25); unfold needs; lia).
          destruct Y as [y [EF [Hy Hnb]]]. subst F.
          destruct (ns_step (fun vs => forall bf, n <= bf -> mapM (b_decl bf) vs = Ok (map idecl b)) nm (flat_map itoks b) REST y Hnm Hy) with (p := p)
            as [vs [p1 [E Q]]].
          { intros q. fold (items_toks b).
            destruct (IHn b Hb (19 + y) Hnb (sp rbrace REST) (rbrace_stops REST) (19 + y) [] q ltac:(unfold needs in Hnb; lia)) as [vs [q' [E Q]]].
            exists vs, q'. split; [exact E | exact Q]. }
          exists (ns_value nm vs), p1. split; [exact E|]. intros bf Hbf. destruct bf as [|bf]; [lia|].
          apply b_decl_ns. apply Q. lia. }
      destruct Step as [v [p1 [E B]]]. rewrite star_S, E.
      destruct (IHi Hrest F HFr R HR k (acc ++ [([], v)]) p1 ltac:(cbn [length] in Hk; lia)) as [vs [p2 [E2 B2]]].
      exists (v :: vs), p2. fold REST in E2. rewrite E2. split.
      * rewrite <- app_assoc. reflexivity.
      * intros bf Hbf. cbn [mapM map]. rewrite (B bf Hbf). cbn [bind]. rewrite (B2 bf Hbf). reflexivity.
Qed.

(* ---- the printed text contains no tab: parseString's expandtabs leaves it alone ---- *)
Definition notab (c : ascii) : Prop := code c <> 9.
Definition tok_ok (t : chars) : Prop := Forall notab t.

Lemma expandtabs_notab : forall l col, Forall notab l -> expandtabs_from col l = l.
Proof.
  induction l as [|c l IH]; intros col H; [reflexivity|]. inversion H as [|? ? Hc Hl]; subst. cbn [expandtabs_from].
  destruct (Nat.eqb (code c) 9) eqn:E; [apply Nat.eqb_eq in E; contradiction|].
  destruct (orb _ _); [f_equal; apply IH; exact Hl|]. destruct (andb _ _); f_equal; apply IH; exact Hl.
Qed.

Lemma alnum_notab : forall c, in_str alnum_ c = true -> notab c.
Proof.
  intros c H. unfold in_str, cmem in H. apply existsb_exists in H. destruct H as [z [Hz E]].
  apply ceq_eq in E. subst z.
  assert (A : forallb (fun c => negb (Nat.eqb (code c) 9)) (chars_of alnum_) = true) by (vm_compute; reflexivity).
  rewrite forallb_forall in A. specialize (A c Hz). unfold notab. intros X. rewrite X in A. discriminate.
Qed.
Lemma word_tok : forall n, forallb (in_str alnum_) n = true -> tok_ok n.
Proof. intros n H. apply Forall_forall. intros c Hc. rewrite forallb_forall in H. apply alnum_notab, H, Hc. Qed.
Lemma ident_tok : forall n, is_ident n = true -> tok_ok n.
Proof. intros n H. apply word_tok. exact (proj2 (ident_word n H)). Qed.

Lemma render_notab : forall toks r, Forall tok_ok toks -> Forall notab r -> Forall notab (render toks r).
Proof.
  induction toks as [|t toks IH]; intros r Ht Hr; [exact Hr|]. inversion Ht as [|? ? H1 H2]; subst.
  change (render (t :: toks) r) with (sp t (render toks r)). unfold sp. constructor; [vm_compute; discriminate|].
  apply Forall_app. split; [exact H1|]. apply IH; assumption.
Qed.
Lemma render_length : forall toks r, length toks + length r <= length (render toks r).
Proof.
  induction toks as [|t toks IH]; intros r; [cbn; lia|]. change (render (t :: toks) r) with (sp t (render toks r)).
  unfold sp. cbn [length]. rewrite app_length. specialize (IH r). lia.
Qed.

Lemma lit_tok : forall s : string, Forall notab (chars_of s) -> tok_ok (chars_of s). Proof. intros s H. exact H. Qed.
Ltac tok_lit := repeat constructor; vm_compute; discriminate.

Lemma const_tok : forall c, Forall tok_ok (const_toks c). Proof. intros [|]; cbn; tok_lit. Qed.
Lemma marker_tok : forall k, Forall tok_ok (marker k). Proof. intros [| | |]; cbn; tok_lit. Qed.
Lemma path_tok : forall names, Forall (fun n => is_ident n = true) names ->
  Forall tok_ok (path_toks names) /\ length names <= length (path_toks names).
Proof.
  induction names as [|n names IH]; intros H; [split; [constructor | cbn; lia]|]. inversion H as [|? ? H1 H2]; subst.
  destruct names as [|m names]; [split; [repeat constructor; apply ident_tok; exact H1 | cbn; lia]|].
  change (path_toks (n :: m :: names)) with (n :: colons :: path_toks (m :: names)). destruct (IH H2) as [I1 I2]. split.
  - constructor; [apply ident_tok; exact H1|]. constructor; [tok_lit | exact I1].
  - cbn [length] in *. lia.
Qed.
Lemma more_toks_cons : forall t pss, more_toks (t :: pss) = comma_tok :: t ++ more_toks pss. Proof. reflexivity. Qed.
Lemma more_args_cons : forall t l, more_args (t :: l) = comma_tok :: t ++ more_args l. Proof. reflexivity. Qed.
Lemma more_tok : forall pss, Forall (Forall tok_ok) pss -> Forall tok_ok (more_toks pss).
Proof.
  induction pss as [|t pss IH]; intros H; [constructor|]. inversion H as [|? ? H1 H2]; subst. rewrite more_toks_cons.
  constructor; [tok_lit|]. apply Forall_app. split; [exact H1 | apply IH; exact H2].
Qed.

Lemma sum_bound : forall ps, (forall x, In x ps -> fuel_of x <= 13 * length (ty_toks x)) ->
  length ps + fold_right (fun x acc => fuel_of x + acc) 0 ps <= 13 * length (more_toks (map ty_toks ps)).
Proof.
  induction ps as [|x ps IH]; intros H; [cbn; lia|]. cbn [map fold_right]. rewrite more_toks_cons. cbn [length]. rewrite app_length.
  specialize (IH (fun y Hy => H y (or_intror Hy))). specialize (H x (or_introl eq_refl)). lia.
Qed.

(* every token of a well-formed type is tab-free, and the fuel the round trip asks for is linear in the token count *)
Lemma ty_facts : forall n t, depth t < n -> wf_ty t -> Forall tok_ok (ty_toks t) /\ fuel_of t <= 13 * length (ty_toks t).
Proof.
  induction n as [|n IH]; intros t Hd Hw; [lia|].
  destruct t as [[ns [nm|o] insts] c k basic | ns [nm|o] ps c k]; cbn [wf_ty] in Hw; try contradiction.
  - destruct Hw as [Hi Hb]. subst insts. cbn [ty_toks fuel_of].
    assert (Hp : Forall (fun x => is_ident x = true) (names_of ns nm)).
    { destruct basic; [|exact (proj1 Hb)]. destruct Hb as [E Hin]. subst ns. cbn. constructor; [|constructor].
      exact (proj1 (basic_ident nm Hin)). }
    destruct (path_tok _ Hp) as [P1 P2]. split.
    + apply Forall_app. split; [apply const_tok|]. apply Forall_app. split; [exact P1 | apply marker_tok].
    + rewrite !app_length. unfold names_of in *. rewrite map_length, app_length in P2. cbn [length] in P2. lia.
  - destruct Hw as [[Hp Hres] [Hne Hall]]. apply wf_all in Hall. cbn [ty_toks fuel_of]. unfold tt_toks.
    destruct (path_tok _ Hp) as [P1 P2]. unfold names_of in *. rewrite map_length, app_length in P2. cbn [length] in P2.
    assert (Hsub : forall x, In x ps -> Forall tok_ok (ty_toks x) /\ fuel_of x <= 13 * length (ty_toks x)).
    { intros x Hx. apply IH; [|rewrite Forall_forall in Hall; apply Hall; exact Hx].
      cbn [depth] in Hd. pose proof (max_ge ps x Hx). lia. }
    destruct ps as [|t1 ps]; [contradiction|]. cbn [map]. rewrite sep_toks_cons.
    destruct (Hsub t1 (or_introl eq_refl)) as [T1 T2].
    pose proof (sum_bound ps (fun x Hx => proj2 (Hsub x (or_intror Hx)))) as SB. split.
    + apply Forall_app. split; [apply const_tok|]. apply Forall_app. split; [exact P1|].
      apply Forall_app. split; [tok_lit|]. apply Forall_app. split.
      * apply Forall_app. split; [exact T1|]. apply more_tok. apply Forall_forall. intros l Hl. apply in_map_iff in Hl.
        destruct Hl as [x [E Hx]]. subst l. exact (proj1 (Hsub x (or_intror Hx))).
      * apply Forall_app. split; [tok_lit | apply marker_tok].
    + cbn [fold_right length]. rewrite !app_length. cbn [length]. lia.
Qed.

Lemma args_facts : forall args, Forall wf_arg args ->
  Forall tok_ok (args_toks args) /\ args_fuel args <= 20 + 13 * length (args_toks args).
Proof.
  intros args H. unfold args_toks, args_fuel.
  assert (M : Forall tok_ok (more_args (map one_arg_toks args)) /\
              length args + fold_right (fun a acc => 5 + fuel_of (fst a) + acc) 0 args <= 13 * length (more_args (map one_arg_toks args))).
  { induction H as [|a args [Hw [Hd Hn]] Hrest IH]; [split; [constructor | cbn; lia]|]. destruct IH as [I1 I2].
    destruct (ty_facts _ _ Hd Hw) as [T1 T2]. cbn [map fold_right]. rewrite more_args_cons. cbn [length]. split.
    - constructor; [tok_lit|]. apply Forall_app. split; [|exact I1]. unfold one_arg_toks. apply Forall_app. split; [exact T1|].
      repeat constructor. apply ident_tok. exact Hn.
    - rewrite app_length. unfold one_arg_toks at 1. rewrite app_length. cbn [length]. lia. }
  destruct args as [|a args]; [split; [constructor | cbn; lia]|].
  inversion H as [|? ? [Hw [Hd Hn]] Hrest]; subst. destruct (ty_facts _ _ Hd Hw) as [T1 T2].
  assert (M2 : Forall tok_ok (more_args (map one_arg_toks args)) /\
              length args + fold_right (fun a acc => 5 + fuel_of (fst a) + acc) 0 args <= 13 * length (more_args (map one_arg_toks args))).
  { clear - Hrest. induction Hrest as [|a args [Hw [Hd Hn]] Hrest IH]; [split; [constructor | cbn; lia]|]. destruct IH as [I1 I2].
    destruct (ty_facts _ _ Hd Hw) as [T1 T2]. cbn [map fold_right]. rewrite more_args_cons. cbn [length]. split.
    - constructor; [tok_lit|]. apply Forall_app. split; [|exact I1]. unfold one_arg_toks. apply Forall_app. split; [exact T1|].
      repeat constructor. apply ident_tok. exact Hn.
    - rewrite app_length. unfold one_arg_toks at 1. rewrite app_length. cbn [length]. lia. }
  destruct M2 as [I1 I2]. cbn [map sep_args fold_right length]. split.
  - apply Forall_app. split; [|exact I1]. unfold one_arg_toks. apply Forall_app. split; [exact T1|]. repeat constructor. apply ident_tok. exact Hn.
  - rewrite app_length. unfold one_arg_toks at 1. rewrite app_length. cbn [length]. lia.
Qed.

Lemma fn_facts : forall x, wf_fn x -> Forall tok_ok (toks_of x) /\ fuel_fn x <= 50 + 13 * length (toks_of x) /\ 4 <= length (toks_of x).
Proof.
  intros [[t name] args] [Hw [Hd [_ [Hn Ha]]]]. cbn [toks_of fuel_fn]. unfold fn_toks, fn_fuel.
  destruct (ty_facts _ _ Hd Hw) as [T1 T2]. destruct (args_facts args Ha) as [A1 A2]. split; [|split].
  - apply Forall_app. split; [exact T1|]. apply Forall_app. split; [repeat constructor; apply ident_tok; exact Hn|].
    apply Forall_app. split; [tok_lit|]. apply Forall_app. split; [exact A1|]. apply Forall_app. split; tok_lit.
  - rewrite !app_length. cbn [length]. lia.
  - rewrite !app_length. cbn [length]. lia.
Qed.


Lemma mem_facts : forall cn m, is_ident cn = true -> wf_mem m ->
  Forall tok_ok (mem_toks cn m) /\ mem_fuel m + 1 <= 32 * length (mem_toks cn m).
Proof.
  intros cn m Hcn Hw. destruct m as [args | t n args cst | t n | en el | t n args]; cbn [mem_toks mem_fuel wf_mem] in *.
  - destruct (args_facts args Hw) as [A1 A2]. unfold ctor_toks. split.
    + cbn [app]. constructor; [apply ident_tok; exact Hcn|]. constructor; [tok_lit|]. apply Forall_app. split; [exact A1 | tok_lit].
    + cbn [app length]. rewrite app_length. cbn [length]. lia.
  - destruct Hw as [Hw [Hd [_ [Hn [_ Ha]]]]]. destruct (ty_facts _ _ Hd Hw) as [T1 T2]. destruct (args_facts args Ha) as [A1 A2].
    unfold method_toks. split.
    + apply Forall_app. split; [exact T1|]. cbn [app]. constructor; [apply ident_tok; exact Hn|]. constructor; [tok_lit|].
      apply Forall_app. split; [exact A1|]. constructor; [tok_lit|]. apply Forall_app. split; [apply const_tok | tok_lit].
    + rewrite !app_length. cbn [length]. lia.
  - destruct Hw as [Hw [Hd [_ [Hn _]]]]. destruct (ty_facts _ _ Hd Hw) as [T1 T2]. unfold var_toks. split.
    + apply Forall_app. split; [exact T1|]. constructor; [apply ident_tok; exact Hn | tok_lit].
    + rewrite app_length. cbn [length]. lia.
  - destruct Hw as [[Hn [_ [_ [Hne Hi]]]] _]. destruct el as [|x el]; [contradiction|].
    inversion Hi as [|? ? Hx Hrest]; subst. unfold enum_toks. cbn [map]. rewrite sep_toks_cons. split.
    + constructor; [tok_lit|]. constructor; [apply ident_tok; exact Hn|]. constructor; [tok_lit|].
      apply Forall_app. split; [|tok_lit]. apply Forall_app. split; [constructor; [apply ident_tok; exact Hx | constructor]|].
      apply more_tok. apply Forall_forall. intros l Hl. apply in_map_iff in Hl. destruct Hl as [y [E Hy]]. subst l.
      constructor; [|constructor]. apply ident_tok. rewrite Forall_forall in Hrest. apply Hrest. exact Hy.
    + assert (L : length (more_toks (map (fun y : string => [chars_of y]) el)) = 2 * length el).
      { clear. induction el as [|y el IH]; [reflexivity|]. cbn [map]. rewrite more_toks_cons. cbn [length app]. rewrite IH. lia. }
      cbn [length app]. rewrite !app_length. cbn [length]. rewrite L. lia.
  - destruct Hw as [Hw [Hd [_ [Hn Ha]]]]. destruct (ty_facts _ _ Hd Hw) as [T1 T2]. destruct (args_facts args Ha) as [A1 A2].
    unfold static_toks. split.
    + cbn [app]. constructor; [tok_lit|]. apply Forall_app. split; [exact T1|]. cbn [app]. constructor; [apply ident_tok; exact Hn|]. constructor; [tok_lit|].
      apply Forall_app. split; [exact A1 | tok_lit].
    + cbn [app length]. rewrite !app_length. cbn [length]. rewrite app_length. cbn [length]. lia.
Qed.
Lemma mems_facts : forall cn ms, is_ident cn = true -> Forall wf_mem ms ->
  Forall tok_ok (flat_map (mem_toks cn) ms) /\ length ms + mems_fuel ms <= 32 * length (flat_map (mem_toks cn) ms).
Proof.
  intros cn ms Hcn H. induction H as [|m ms Hm Hrest [I1 I2]]; [split; [constructor | cbn; lia]|].
  destruct (mem_facts cn m Hcn Hm) as [M1 M2]. cbn [flat_map mems_fuel fold_right length]. fold (mems_fuel ms).
  split; [apply Forall_app; split; assumption|]. rewrite app_length. lia.
Qed.


Lemma flat_tok : forall (b : list item), (forall j, In j b -> Forall tok_ok (itoks j)) -> Forall tok_ok (flat_map itoks b).
Proof.
  induction b as [|j b IH]; intros H; [constructor|]. cbn [flat_map]. apply Forall_app. split; [apply H; left; reflexivity|].
  apply IH. intros k Hk. apply H. right. exact Hk.
Qed.
Lemma flat_need : forall (b : list item), (forall j, In j b -> need j + 1 <= 32 * length (itoks j)) ->
  length b + fold_right (fun x acc => need x + acc) 0 b <= 32 * length (flat_map itoks b).
Proof.
  induction b as [|j b IH]; intros H; [cbn; lia|]. cbn [flat_map fold_right length]. rewrite app_length.
  specialize (IH (fun k Hk => H k (or_intror Hk))). specialize (H j (or_introl eq_refl)). lia.
Qed.

Lemma item_facts : forall n i, idepth i < n -> wf_item i -> Forall tok_ok (itoks i) /\ need i + 1 <= 32 * length (itoks i).
Proof.
  induction n as [|n IH]; intros i Hd Hw; [lia|]. destruct i as [x|t nm|vt nm|hd|en el|tt tnm|pa pb pn pl|cv cn cms|bv bcn bns bbn bms|nm b].
  - cbn [wf_item itoks need] in *. destruct (fn_facts x Hw) as [F1 [F2 F3]]. split; [exact F1 | lia].
  - cbn [wf_item itoks need] in *. destruct Hw as [Hw [Hdt [_ Hn]]]. destruct (ty_facts _ _ Hdt Hw) as [T1 T2]. unfold var_toks. split.
    + apply Forall_app. split; [exact T1|]. constructor; [apply ident_tok; exact Hn | tok_lit].
    + rewrite app_length. cbn [length]. lia.
  - cbn [wf_item itoks need] in *. unfold fwd_toks. split.
    + apply Forall_app. split; [destruct vt; cbn [virt_toks]; tok_lit|]. constructor; [tok_lit|]. constructor; [apply ident_tok; exact Hw | tok_lit].
    + rewrite app_length. cbn [length]. lia.
  - cbn [wf_item itoks need] in *. destruct Hw as [_ [_ Hnt]]. unfold inc_toks. split.
    + constructor; [tok_lit|]. constructor; [|constructor]. unfold inc_tok, tok_ok. constructor; [vm_compute; discriminate|].
      apply Forall_app. split; [exact Hnt | tok_lit].
    + cbn [length]. lia.
  - cbn [wf_item itoks need] in *. destruct Hw as [Hn [_ [_ [Hne Hi]]]]. destruct el as [|x el]; [contradiction|].
    inversion Hi as [|? ? Hx Hrest]; subst. unfold enum_toks. cbn [map]. rewrite sep_toks_cons. split.
    + constructor; [tok_lit|]. constructor; [apply ident_tok; exact Hn|]. constructor; [tok_lit|].
      apply Forall_app. split; [|tok_lit]. apply Forall_app. split; [constructor; [apply ident_tok; exact Hx | constructor]|].
      apply more_tok. apply Forall_forall. intros l Hl. apply in_map_iff in Hl. destruct Hl as [y [E Hy]]. subst l.
      constructor; [|constructor]. apply ident_tok. rewrite Forall_forall in Hrest. apply Hrest. exact Hy.
    + assert (L : length (more_toks (map (fun y : string => [chars_of y]) el)) = 2 * length el).
      { clear. induction el as [|y el IH]; [reflexivity|]. cbn [map]. rewrite more_toks_cons. cbn [length app]. rewrite IH. lia. }
      cbn [length app]. rewrite !app_length. cbn [length]. rewrite L. lia.
  - cbn [wf_item itoks need] in *. destruct Hw as [Hw [Hdt [_ Hn]]]. destruct (ty_facts _ _ Hdt Hw) as [T1 T2]. unfold typedef_toks. split.
    + constructor; [tok_lit|]. apply Forall_app. split; [exact T1|]. constructor; [apply ident_tok; exact Hn | tok_lit].
    + cbn [app length]. rewrite app_length. cbn [length]. lia.
  - cbn [wf_item itoks need] in *. destruct Hw as [W1 [W2 [P1 [P2 [Hn Ha]]]]].
    assert (Dp : depth (pair_type pa pb) < 2) by (cbn [depth pair_type fold_right]; rewrite (plain_depth pa P1), (plain_depth pb P2); cbn; lia).
    destruct (ty_facts 2 (pair_type pa pb) Dp (wf_pair_type pa pb W1 W2)) as [T1 T2]. fold (pair_toks pa pb) in T1, T2.
    destruct (args_facts pl Ha) as [A1 A2]. unfold pfn_toks, pfn_fuel. split.
    + apply Forall_app. split; [exact T1|]. apply Forall_app. split; [repeat constructor; apply ident_tok; exact Hn|].
      apply Forall_app. split; [tok_lit|]. apply Forall_app. split; [exact A1|]. apply Forall_app. split; tok_lit.
    + rewrite !app_length. cbn [length]. lia.
  - cbn [wf_item itoks need] in *. destruct Hw as [Hn [_ [_ Hwf]]]. destruct (mems_facts (chars_of cn) cms Hn Hwf) as [M1 M2].
    unfold class_item_toks, class_toks. split.
    + apply Forall_app. split; [destruct cv; cbn [virt_toks]; tok_lit|]. cbn [app]. constructor; [tok_lit|]. constructor; [apply ident_tok; exact Hn|].
      constructor; [tok_lit|]. apply Forall_app. split; [exact M1 | tok_lit].
    + rewrite !app_length. cbn [length]. lia.
  - cbn [wf_item itoks need] in *. destruct Hw as [[Hn [_ [_ Hwf]]] [Hnames _]]. destruct (mems_facts (chars_of bcn) bms Hn Hwf) as [M1 M2].
    destruct (path_tok _ Hnames) as [P1 P2].
    assert (LN : length (names_of bns bbn) = length bns + 1) by (unfold names_of; rewrite map_length, app_length; reflexivity).
    unfold class_item_toks_b, class_toks_b. split.
    + apply Forall_app. split; [destruct bv; cbn [virt_toks]; tok_lit|]. cbn [app]. constructor; [tok_lit|]. constructor; [apply ident_tok; exact Hn|].
      constructor; [tok_lit|]. apply Forall_app. split; [exact P1|]. cbn [app]. constructor; [tok_lit|]. apply Forall_app. split; [exact M1 | tok_lit].
    + rewrite !app_length. cbn [length]. lia.
  - cbn [wf_item itoks need idepth] in *. destruct Hw as [Hnm Hall].
    assert (Hb : forall j, In j b -> Forall tok_ok (itoks j) /\ need j + 1 <= 32 * length (itoks j)).
    { intros j Hj. apply IH; [pose proof (idepth_ge b j Hj); lia | apply (wf_items_all b Hall j Hj)]. }
    split.
    + apply Forall_app. split; [repeat constructor; try (vm_compute; discriminate); apply ident_tok; exact Hnm|].
      apply Forall_app. split; [apply flat_tok; intros j Hj; apply Hb; exact Hj | tok_lit].
    + pose proof (flat_need b (fun j Hj => proj2 (Hb j Hj))) as FN. rewrite !app_length. cbn [length]. lia.
Qed.

Lemma items_facts : forall n items, (forall i, In i items -> idepth i < n /\ wf_item i) ->
  Forall tok_ok (items_toks items) /\ needs items <= 31 + 32 * length (items_toks items).
Proof.
  intros n items H.
  assert (Hb : forall j, In j items -> Forall tok_ok (itoks j) /\ need j + 1 <= 32 * length (itoks j)).
  { intros j Hj. destruct (H j Hj) as [Hd Hw]. apply (item_facts n j Hd Hw). }
  split; [apply flat_tok; intros j Hj; apply Hb; exact Hj|].
  pose proof (flat_need items (fun j Hj => proj2 (Hb j Hj))) as FN. unfold needs, items_toks. lia.
Qed.

Lemma string_of_length : forall l, String.length (string_of l) = length l.
Proof. induction l as [|c l IH]; [reflexivity|]. cbn. rewrite IH. reflexivity. Qed.
Lemma snd_items : forall vs, map snd (items_of vs) = vs.
Proof. induction vs as [|v vs IH]; [reflexivity|]. unfold items_of in *. cbn [map snd]. f_equal. exact IH. Qed.

(* ---- Module = ModuleContent StringEnd ---- *)
Lemma module_parses : forall items, (forall i, In i items -> idepth i < depth_fuel /\ wf_item i) -> forall F, needs items <= F ->
  exists vs p', interp g (5 + F) (GRef "Module") {| pk := false; rest := render (items_toks items) [] |}
                = Match [([], VNode "Module" [([], VNode "ModuleContent" (items_of vs))])] {| pk := p'; rest := [] |}
                /\ mapM (b_decl depth_fuel) vs = Ok (map idecl items).
Proof.
  intros items Hwf F HF. cbn [Nat.add]. rule "Module"%string. rewrite i_and, seq_cons. rule "ModuleContent"%string.
  rewrite i_star.
  destruct (items_star depth_fuel items Hwf (S F) ltac:(lia) [] end_stops (S F) [] false ltac:(unfold needs in HF; lia))
    as [vs [p' [E B]]].
  exists vs, p'. split; [|apply B; lia]. change (GOr [GOr [GOr [GOr [GOr [GOr [GOr [GRef "ForwardDeclaration"; GRef "Include"]; GRef "Class"];
    GRef "TypedefTemplateInstantiation"]; GRef "GlobalFunction"]; GRef "Enum"]; GRef "Variable"]; GRef "Namespace"]) with OR7.
  rewrite E. cbn [app]. rewrite seq_cons, i_term. cbn [run_term]. destruct p'; reflexivity.
Qed.

(* the text of a file: one blank before every token *)
Definition print_items (items : list item) : string := string_of (render (items_toks items) []).

Theorem items_roundtrip : forall items, (forall i, In i items -> idepth i < depth_fuel /\ wf_item i) ->
  parse_module g (print_items items) = Ok (map idecl items).
Proof.
  intros items H. destruct (items_facts depth_fuel items H) as [M1 M2].
  pose proof (render_length (items_toks items) []) as RL. cbn [length] in RL.
  unfold parse_module, parse_text, print_items. rewrite chars_string. unfold expandtabs.
  rewrite expandtabs_notab by (apply render_notab; [exact M1 | constructor]).
  set (L := length (render (items_toks items) [])) in *.
  assert (EF : text_fuel (string_of (render (items_toks items) [])) = 5 + (40 * L + 95)).
  { unfold text_fuel. rewrite Nat.tail_add_spec, string_of_length. fold L. lia. }
  rewrite EF.
  destruct (module_parses items H (40 * L + 95) ltac:(lia)) as [vs [p' [E B]]].
  rewrite E. cbv beta iota. unfold b_module. rewrite snd_items. exact B.
Qed.

(* files of functions only *)
Definition module_toks (fns : list fn) : list chars := flat_map toks_of fns.
Definition print_module (fns : list fn) : string := string_of (render (module_toks fns) []).
Lemma toks_IFn : forall fns, items_toks (map IFn fns) = module_toks fns.
Proof. induction fns as [|x fns IH]; [reflexivity|]. unfold items_toks, module_toks in *. cbn [map flat_map itoks]. rewrite IH. reflexivity. Qed.
Lemma decls_IFn : forall fns, map idecl (map IFn fns) = map decl_of fns.
Proof. induction fns as [|x fns IH]; [reflexivity|]. cbn [map idecl]. rewrite IH. reflexivity. Qed.

Theorem module_roundtrip : forall fns, Forall wf_fn fns -> parse_module g (print_module fns) = Ok (map decl_of fns).
Proof.
  intros fns H.
  assert (Hx : forall i, In i (map IFn fns) -> idepth i < depth_fuel /\ wf_item i).
  { intros i Hi. apply in_map_iff in Hi. destruct Hi as [x [E Hx]]. subst i. split; [cbn; unfold depth_fuel; lia|].
    cbn [wf_item]. rewrite Forall_forall in H. apply H. exact Hx. }
  pose proof (items_roundtrip (map IFn fns) Hx) as T. unfold print_items in T. rewrite toks_IFn, decls_IFn in T. exact T.
Qed.

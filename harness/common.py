"""Shared plumbing: paths, model process, implementation runners, evidence, violations."""
import hashlib
import json
import os
import subprocess
import sys
import time

VERIF = os.path.dirname(os.path.dirname(os.path.abspath(__file__)))
REPO = os.environ.get('VERIF_REPO', '/repo')   # the tree under test (registered checks: /repo)
BUILD = os.path.join(VERIF, '_build')
MODEL_BIN = os.path.join(BUILD, 'ocaml', 'model')
EVIDENCE = os.path.join(VERIF, 'evidence')
REPLAYS = os.path.join(VERIF, 'replays')

if REPO not in sys.path:
    sys.path.insert(0, REPO)

import sexp  # noqa: E402


class Model:
    """one long-lived process of the extracted model; one answer line per command line"""
    def __init__(self):
        # binary pipes: text mode would translate a carriage return inside an atom into a line break
        self.p = subprocess.Popen([MODEL_BIN], stdin=subprocess.PIPE, stdout=subprocess.PIPE, bufsize=0)
        self.calls = 0

    def ask(self, cmd: str, payload) -> str:
        line = cmd + ' ' + sexp.dumps(payload)
        assert '\n' not in line
        self.p.stdin.write((line + '\n').encode('utf-8', 'surrogateescape'))
        self.p.stdin.flush()
        self.calls += 1
        out = self.p.stdout.readline()
        if not out:
            raise RuntimeError('model process died on: ' + line[:300])
        return out.decode('utf-8', 'surrogateescape').rstrip('\n')

    def close(self):
        try:
            self.p.stdin.close()
            self.p.wait(timeout=10)
        except Exception:
            self.p.kill()


def ask_batch(cmd_payloads):
    """run many commands through one fresh process (faster for big batches)"""
    lines = [c + ' ' + sexp.dumps(p) for c, p in cmd_payloads]
    out = subprocess.run([MODEL_BIN], input='\n'.join(lines) + '\n', capture_output=True, text=True,
                         encoding='utf-8', errors='surrogateescape')
    res = out.stdout.split('\n')
    if res and res[-1] == '':
        res.pop()
    if len(res) != len(lines):
        raise RuntimeError('model answered %d lines for %d commands: %s' % (len(res), len(lines), out.stderr[:500]))
    return res


def classify_exc(e: BaseException) -> str:
    """small enum of failure kinds of the implementation"""
    import pyparsing
    if isinstance(e, pyparsing.ParseBaseException):
        return 'ParseError'
    if isinstance(e, (ValueError, AssertionError)):
        return 'ValidationError'
    return 'Crash:' + type(e).__name__


def sha(s) -> str:
    if isinstance(s, str):
        s = s.encode('utf-8', 'surrogateescape')
    return hashlib.sha256(s).hexdigest()


class Report:
    """collects what a check run covered; writes evidence and replay files"""
    def __init__(self, prop: str, tier: str, seed: int, level: str = 'proof'):
        self.prop = prop
        self.tier = tier
        self.seed = seed
        self.level = level
        self.t0 = time.time()
        self.coverage = {'evaluations': 0, 'distinct_nontrivial': 0, 'samples': [], 'rule': ''}
        self.assumptions = []
        self.violations = []       # (replay_path, tail)
        self.known_seen = []
        self.distinct = set()
        self.hist = {}

    def hit(self, key, nontrivial=True, n=1):
        self.coverage['evaluations'] += n
        if nontrivial:
            self.distinct.add(key)

    def bump(self, name, k=1):
        self.hist[name] = self.hist.get(name, 0) + k

    def sample(self, x, cap=5):
        if len(self.coverage['samples']) < cap:
            self.coverage['samples'].append(x)

    def violation(self, replay: dict, no_input: bool = False):
        os.makedirs(REPLAYS, exist_ok=True)
        replay = dict(replay)
        replay.setdefault('property', self.prop)
        replay.setdefault('seed', self.seed)
        blob = json.dumps(replay, sort_keys=True, indent=1, default=str)
        path = os.path.join(REPLAYS, '%s-%s.json' % (self.prop, sha(blob)[:12]))
        with open(path, 'w') as f:
            f.write(blob)
        tail = ' no-failing-input-found' if no_input else ''
        self.violations.append((path, tail))
        print('VIOLATION property=%s replay=%s%s' % (self.prop, path, tail), flush=True)

    def known(self, what: str):
        """a finding is only 'known' when the committed known_findings.json lists its id as open"""
        fid = what.split(':', 1)[0].strip()
        try:
            with open(os.path.join(VERIF, 'known_findings.json')) as f:
                listed = {x['id'] for x in json.load(f)['findings'] if x.get('status') == 'open' and x.get('property') == self.prop}
        except Exception:
            listed = set()
        if fid not in listed:
            self.violation({'kind': 'counterexample', 'what': 'a defect the known-findings file does not list as open', 'finding': what})
            return
        if what not in self.known_seen:
            self.known_seen.append(what)
            print('KNOWN-FINDING: property=%s %s' % (self.prop, what), flush=True)

    def finish(self) -> int:
        cov = self.coverage
        cov['distinct_nontrivial'] = len(self.distinct)
        cov['histogram'] = self.hist
        cov['known_findings_seen'] = self.known_seen
        ev = {
            'property_id': self.prop,
            'tier': self.tier,
            'seed': self.seed,
            'level': self.level,
            'coverage': cov,
            'assumptions': self.assumptions,
            'wall_s': round(time.time() - self.t0, 2),
            'violations': len(self.violations),
        }
        os.makedirs(EVIDENCE, exist_ok=True)
        with open(os.path.join(EVIDENCE, self.prop + '.json'), 'w') as f:
            json.dump(ev, f, indent=1, sort_keys=True, default=str)
        return 1 if self.violations else 0

(* C04: a small semantics of binding records - how pybind11 binds a Python call to the lambda's
   parameters and what the lambda body then invokes.  This formalisation of pybind11 / C++ is
   trusted (validated by compile-and-run in the thorough tier), the theorems are about the records
   the generator model emits. *)
From Coq Require Import String Ascii List Bool Arith Lia.
From Wrap Require Import Base.Str Base.StrLemmas Base.ListX Syntax.Ast Syntax.Print Inst.Model Inst.Proj Pybind.Items Pybind.Gen.
From Wrap Require gen.Tables.
Import ListNotations.
Open Scope string_scope.
Open Scope list_scope.

Inductive value :=
| VAct (n : nat)              (* the n-th value supplied by the Python caller *)
| VDefault (text : string).   (* the declared default expression, evaluated by C++ *)

Record event := { ev_entity : string;        (* what is invoked, e.g. "self->f<int>" or "ns::C::g" *)
                  ev_instance : bool;        (* invoked on the receiver object *)
                  ev_args : list value;      (* in the order the C++ entity receives them *)
                  ev_returned : bool }.      (* the result is handed back to Python *)

Fixpoint assoc (n : string) (l : list (string * value)) : option value :=
  match l with [] => None | (k, v) :: r => if String.eqb k n then Some v else assoc n r end.

(* pybind11 argument loading against a py::arg list: positionals first, then keywords by name,
   then defaults; a missing argument is a TypeError (None) *)
Fixpoint load_args (pyargs : list pyarg) (pos : list value) (kw : list (string * value)) : option (list value) :=
  match pyargs with
  | [] => match pos with [] => Some [] | _ => None end
  | (name, dflt) :: rest =>
    match pos with
    | v :: pos' => option_map (cons v) (load_args rest pos' kw)
    | [] =>
      match assoc name kw with
      | Some v => option_map (cons v) (load_args rest [] kw)
      | None => match dflt with
                | Some d => option_map (cons (VDefault d)) (load_args rest [] kw)
                | None => None
                end
      end
    end
  end.

(* the lambda body names its parameters; C++ resolves each name to the parameter of that name *)
Fixpoint lookup_param (n : string) (params : list lparam) (actuals : list value) : option value :=
  match params, actuals with
  | (_, pn) :: ps, v :: vs => if String.eqb pn n then Some v else lookup_param n ps vs
  | _, _ => None
  end.
Definition eval_call (params : list lparam) (call_args : list string) (actuals : list value) : option (list value) :=
  sequence (map (fun n => lookup_param n params actuals) call_args).

Definition sem_member (m : member) (pos : list value) (kw : list (string * value)) : option event :=
  match m with
  | MDef static _ self params returns caller callee call_args pyargs _ _ =>
    match load_args pyargs pos kw with
    | Some actuals =>
      match eval_call params call_args actuals with
      | Some vs => Some {| ev_entity := (caller ++ callee)%string;
                           ev_instance := match self with Some _ => true | None => false end;
                           ev_args := vs; ev_returned := returns |}
      | None => None
      end
    | None => None
    end
  | MInit types pyargs =>
    match load_args pyargs pos kw with
    | Some actuals => Some {| ev_entity := "<constructor>"; ev_instance := false; ev_args := actuals; ev_returned := true |}
    | None => None
    end
  | _ => None
  end.

Definition sem_fun (i : bitem) (pos : list value) (kw : list (string * value)) : option event :=
  match i with
  | BFun _ _ params returns caller callee call_args pyargs =>
    match load_args pyargs pos kw with
    | Some actuals =>
      match eval_call params call_args actuals with
      | Some vs => Some {| ev_entity := (caller ++ callee)%string; ev_instance := false;
                           ev_args := vs; ev_returned := returns |}
      | None => None
      end
    | None => None
    end
  | _ => None
  end.

(* what the declaration asks for: the declared parameters, in declared order, each receiving the
   positional value, else the keyword value of its own name, else its own default *)
Definition declared_call (args : list arg) (pos : list value) (kw : list (string * value)) : option (list value) :=
  load_args (map (fun a => (a_name a, a_default a)) args) pos kw.

(* ---------------- proofs ---------------- *)
Lemma load_args_length : forall pyargs pos kw vs, load_args pyargs pos kw = Some vs -> length vs = length pyargs.
Proof.
  induction pyargs as [|[n d] rest IH]; intros pos kw vs H; cbn [load_args] in H.
  - destruct pos; inversion H. reflexivity.
  - destruct pos as [|v pos'].
    + destruct (assoc n kw).
      * destruct (load_args rest [] kw) eqn:E; inversion H. cbn. f_equal. eapply IH. exact E.
      * destruct d; [|discriminate].
        destruct (load_args rest [] kw) eqn:E; inversion H. cbn. f_equal. eapply IH. exact E.
    + destruct (load_args rest pos' kw) eqn:E; inversion H. cbn. f_equal. eapply IH. exact E.
Qed.

(* with distinct parameter names the lambda hands its actuals through unchanged, in order *)
Lemma lookup_skip : forall t pn n ps v vs, String.eqb pn n = false ->
  lookup_param n ((t, pn) :: ps) (v :: vs) = lookup_param n ps vs.
Proof. intros. cbn [lookup_param]. rewrite H. reflexivity. Qed.

Lemma eval_call_id : forall (args : list arg) (actuals : list value),
  NoDup (arg_names args) -> length actuals = length args ->
  eval_call (lparams_of args) (arg_names args) actuals = Some actuals.
Proof.
  intros args. unfold eval_call, lparams_of, arg_names.
  induction args as [|a args IH]; intros actuals Hnd Hlen.
  - destruct actuals; [reflexivity | discriminate].
  - destruct actuals as [|v vs]; [discriminate|].
    cbn [map] in Hnd. inversion Hnd as [|? ? Hnotin Hnd']; subst.
    change (map a_name (a :: args)) with (a_name a :: map a_name args).
    change (map (fun a0 : arg => (ty_cpp (a_ty a0), a_name a0)) (a :: args))
      with ((ty_cpp (a_ty a), a_name a) :: map (fun a0 : arg => (ty_cpp (a_ty a0), a_name a0)) args).
    cbn [map]. 
    assert (Hhead : lookup_param (a_name a) ((ty_cpp (a_ty a), a_name a) :: map (fun a0 : arg => (ty_cpp (a_ty a0), a_name a0)) args) (v :: vs) = Some v).
    { cbn [lookup_param]. rewrite String.eqb_refl. reflexivity. }
    rewrite Hhead.
    erewrite map_ext_in.
    2:{ intros n Hn. apply lookup_skip. destruct (String.eqb (a_name a) n) eqn:E; [|reflexivity].
        apply String.eqb_eq in E. subst. contradiction. }
    cbn [sequence]. rewrite (IH vs Hnd'); [reflexivity|]. cbn in Hlen. lia.
Qed.

Section Forward.
  Variable q : pquirks.
  Variable c : cfg.
  Variable doc : option (string -> string -> list string -> string).

  Definition special_name (cpp_method : string) : bool :=
    orb (String.eqb cpp_method "serialize") (String.eqb cpp_method "serializable").

  (* an ordinary (non-serialization) method or static method: the first record is its binding *)
  Theorem method_forwards : forall is_method name cpp_method r args cpp pos kw,
    special_name cpp_method = false -> NoDup (arg_names args) ->
    match fst (wrap_method_gen q c doc is_method name cpp_method r args cpp "") with
    | b :: _ =>
      sem_member b pos kw
      = option_map (fun vs => {| ev_entity := ((if is_method then "self->" else cpp ++ "::") ++ cpp_method)%string;
                                 ev_instance := is_method; ev_args := vs;
                                 ev_returned := negb (ret_is_void r) |})
                   (declared_call args pos kw)
    | [] => False
    end.
  Proof.
    intros is_method name cpp_method r args cpp pos kw Hs Hnd.
    unfold wrap_method_gen. unfold special_name in Hs. rewrite Hs.
    assert (H : forall red,
      sem_member (MDef (negb is_method)
                       (escape_keyword (kws q)
                          (if mem_str cpp_method Tables.ipython_special_methods
                           then ("_repr_" ++ cpp_method ++ "_")%string else (name ++ "")%string))
                       (if is_method then Some cpp else None) (lparams_of args) (negb (ret_is_void r))
                       (if is_method then "self->" else (cpp ++ "::")%string) cpp_method (arg_names args)
                       (pyargs_of args)
                       match doc with Some f => Some (f cpp cpp_method (arg_names args)) | None => None end red)
                 pos kw
      = option_map (fun vs => {| ev_entity := ((if is_method then "self->" else cpp ++ "::") ++ cpp_method)%string;
                                 ev_instance := is_method; ev_args := vs; ev_returned := negb (ret_is_void r) |})
                   (declared_call args pos kw)).
    { intros red. cbn [sem_member]. unfold declared_call, pyargs_of.
      destruct (load_args (map (fun a => (a_name a, a_default a)) args) pos kw) as [actuals|] eqn:E; [|reflexivity].
      pose proof (load_args_length _ _ _ _ E) as Hl. rewrite map_length in Hl.
      rewrite (eval_call_id args actuals Hnd Hl). cbn [option_map]. destruct is_method; reflexivity. }
    destruct (String.eqb name "print"); cbn [fst]; apply H.
  Qed.

  Theorem function_forwards : forall namespaces mv f pos kw,
    NoDup (arg_names (if_args f)) ->
    sem_fun (wrap_function q namespaces mv f) pos kw
    = option_map (fun vs => {| ev_entity := (drop_last2 (add_namespaces "" namespaces) ++ "::" ++ ifunc_cpp f)%string;
                               ev_instance := false; ev_args := vs;
                               ev_returned := negb (ret_is_void (if_ret f)) |})
                 (declared_call (if_args f) pos kw).
  Proof.
    intros namespaces mv f pos kw Hnd. unfold wrap_function. cbn [sem_fun].
    unfold declared_call, pyargs_of.
    destruct (load_args (map (fun a => (a_name a, a_default a)) (if_args f)) pos kw) as [actuals|] eqn:E; [|reflexivity].
    pose proof (load_args_length _ _ _ _ E) as Hl. rewrite map_length in Hl.
    rewrite (eval_call_id (if_args f) actuals Hnd Hl). cbn [option_map].
    rewrite Wrap.Base.StrLemmas.append_assoc. reflexivity.
  Qed.
End Forward.

(* Specification side of C03: what the statement says must be bound, derived from the instantiated
   tree by a plain declaration-order traversal.  Definitions only. *)
From Coq Require Import String Ascii List Bool Arith.
From Wrap Require Import Base.Str Base.ListX Syntax.Ast Syntax.Print Inst.Model Inst.Proj Pybind.Items Pybind.Gen.
From Wrap Require gen.Tables.
Import ListNotations.
Open Scope string_scope.
Open Scope list_scope.

Inductive bkind := KSub | KClass | KDecl | KEnum | KValue | KAttr | KFun | KInit | KDef | KDefStatic
                 | KRepr | KSerialize | KDunder | KProp | KOp.
(* scope: the submodule variable for module-level entities, the C++ class for members;
   name: the Python-visible name, with the C++ parameter types for overloadable entities *)
Definition key := (string * bkind * string)%type.

Definition sig_types (l : list lparam) : string := ("(" ++ join "," (map fst l) ++ ")")%string.
Definition op_name (k : opkind) : string :=
  match k with OpGetItem => "__getitem__" | OpCall => "__call__" | OpUnary s => ("unary" ++ s)%string | OpBinary s => s end.

Definition member_key (m : member) : key :=
  match m with
  | MInit types _ => ("", KInit, ("(" ++ join "," types ++ ")")%string)
  | MDef static py _ params _ _ _ _ _ _ _ => ("", if static then KDefStatic else KDef, (py ++ sig_types params)%string)
  | MRepr _ params _ _ _ => ("", KRepr, ("__repr__" ++ sig_types params)%string)
  | MSerialize _ => ("", KSerialize, "serialize")
  | MDunder py _ params _ _ => ("", KDunder, py)
  | MProp _ name _ => ("", KProp, name)
  | MOp k _ => ("", KOp, op_name k)
  end.
Definition in_class (cpp : string) (k : key) : key := (cpp, snd (fst k), snd k).

Definition enum_keys (e : benum) : list key :=
  (be_module e, KEnum, be_name e) :: map (fun v => (be_cpp e, KValue, v)) (be_values e).

Definition item_keys (i : bitem) : list key :=
  match i with
  | BSub var parent name => [(parent, KSub, name)]
  | BClass mv cpp py _ _ members => (mv, KClass, py) :: map (fun m => in_class cpp (member_key m)) members
  | BClassEnum e => enum_keys e
  | BDecl mv _ py => [(mv, KDecl, py)]
  | BEnum e => enum_keys e
  | BAttr mv name _ _ => [(mv, KAttr, name)]
  | BFun mv py params _ _ _ _ _ => [(mv, KFun, (py ++ sig_types params)%string)]
  end.
Definition keys (l : list bitem) : list key := flat_map item_keys l.

(* ---------------- what is declared ---------------- *)
Section Declared.
  Variable c : cfg.
  Variable kws : list string.       (* the Python keywords to escape *)

  Definition is_prefix_str := fix pre (p l : list string) : bool :=
    match p, l with
    | [], _ => true
    | a :: p', b :: l' => andb (String.eqb a b) (pre p' l')
    | _ :: _, [] => false
    end.
  (* the namespace path (with leading "") lies inside the top namespace *)
  Definition under_top (namespaces : list string) : bool := is_prefix_str (top c) namespaces.

  Definition py_method_name (name cpp_method : string) : string :=
    let n1 := if mem_str cpp_method Tables.ipython_special_methods
              then ("_repr_" ++ cpp_method ++ "_")%string else name in
    if mem_str n1 kws then (n1 ++ "_")%string else n1.

  Definition types_of (l : list arg) : string := ("(" ++ join "," (args_cpp l) ++ ")")%string.

  Definition method_keys (static : bool) (cpp : string) (name cpp_method : string) (args : list arg) : list key :=
    if orb (String.eqb cpp_method "serialize") (String.eqb cpp_method "serializable") then
      if boost c then [(cpp, KSerialize, "serialize")] else []
    else
      (cpp, if static then KDefStatic else KDef, (py_method_name name cpp_method ++ types_of args)%string)
      :: (if String.eqb name "print" then [(cpp, KRepr, ("__repr__" ++ types_of args)%string)] else []).

  Definition op_key (cpp : string) (o : oper) : key :=
    (cpp, KOp,
     if String.eqb (o_sym o) "[]" then "__getitem__"
     else if String.eqb (o_sym o) "()" then "__call__"
     else match o_args o with [] => ("unary" ++ o_sym o)%string | _ => o_sym o end).

  Definition class_keys (k : iclass) : list key :=
    let cpp := iclass_cpp k in
    let mv := module_var c ("" :: ic_home k) in
    if mem_str cpp (ignore c) then []
    else
      (mv, KClass, ic_name k)
      :: map (fun x => (cpp, KInit, types_of (ik_args x))) (ic_ctors k)
      ++ flat_map (fun m => method_keys false cpp (im_name m) (imethod_cpp m) (im_args m)) (ic_methods k)
      ++ flat_map (fun m => method_keys true cpp (is_name m) (ismethod_cpp m) (is_args m)) (ic_statics k)
      ++ map (fun d => (cpp, KDunder, du_name d)) (ic_dunders k)
      ++ map (fun v => (cpp, KProp, v_name v)) (ic_props k)
      ++ map (op_key cpp) (ic_ops k)
      ++ flat_map (fun e => (lower (ic_name k), KEnum, e_name e)
                              :: map (fun v => ((cpp ++ "::" ++ e_name e)%string, KValue, v)) (e_items e))
                  (ic_enums k).

  (* declaration-order traversal; functions where they are declared *)
  Fixpoint declared_item (namespaces : list string) (i : item) : list key :=
    match i with
    | INamespace n content =>
      let ns' := namespaces ++ [n] in
      let inner := (fix go (l : list item) : list key :=
                      match l with [] => [] | x :: r => declared_item ns' x ++ go r end) content in
      if under_top ns'
      then (if Nat.ltb (length (top c)) (length ns')
            then [(module_var c namespaces, KSub, n)] else []) ++ inner
      else inner
    | IClass k => if under_top namespaces then class_keys k else []
    | IDecl d =>
      if andb (under_top namespaces) (negb (mem_str (idecl_cpp d) (ignore c)))
      then [(module_var c ("" :: id_home d), KDecl, id_name d)] else []
    | IVar v => if under_top namespaces then [(module_var c namespaces, KAttr, v_name v)] else []
    | IEnum e =>
      if under_top namespaces
      then (module_var c namespaces, KEnum, e_name e)
           :: map (fun v => (tn_cpp (Typename (tl namespaces) (NStr (e_name e)) []), KValue, v)) (e_items e)
      else []
    | IFun f =>
      if under_top namespaces
      then [(module_var c namespaces, KFun,
             (escape_keyword (kws ++ ["print"]) (if_name f) ++ types_of (if_args f))%string)]
      else []
    | IFwd _ => []
    | IInclude _ => []
    end.
  Definition declared (content : list item) : list key := flat_map (declared_item [""]) content.
End Declared.

Definition keywords_complete : bool := forallb (fun k => mem_str k Tables.python_keywords) python3_keywords.

"""Structured view of a generated pybind11 source (slow path of the correspondence).

Parses the text - whoever produced it - into binding records, robust to whitespace and layout:
  ('sub', var, parent, name)
  ('class', module_var, cpp, py_name, [parents...], instance|None)
  ('init', owner_cpp, [types], [pyarg...])
  ('def'|'def_static', owner, py_name, [param...], body, [pyarg...], doc|None)
  ('prop', owner, 'readonly'|'readwrite', name, target)
  ('op', owner, text)
  ('enum', module_var, cpp, py_name) ; ('value', enum_cpp, name, target)
  ('attr', module_var, name, value)
  ('fun', module_var, py_name, [param...], body, [pyarg...])
where owner is the C++ class of the enclosing py::class_ statement."""
import re


def ws(s):
    return re.sub(r'\s+', ' ', s).strip()


def match_close(text, i, open_ch, close_ch):
    """index of the bracket closing the one at text[i] (quote aware); -1 if none"""
    depth = 0
    k = i
    n = len(text)
    while k < n:
        ch = text[k]
        if ch == '"' or ch == "'":
            q = ch
            k += 1
            while k < n and text[k] != q:
                if text[k] == '\\':
                    k += 1
                k += 1
        elif ch == open_ch:
            depth += 1
        elif ch == close_ch:
            depth -= 1
            if depth == 0:
                return k
        k += 1
    return -1


def split_top(s, sep=','):
    """split at separators outside (), [], {}, <> and quotes"""
    out = []
    depth = 0
    cur = []
    k = 0
    n = len(s)
    while k < n:
        ch = s[k]
        if ch == '"' or ch == "'":
            q = ch
            st = k
            k += 1
            while k < n and s[k] != q:
                if s[k] == '\\':
                    k += 1
                k += 1
            cur.append(s[st:k + 1])
        elif ch in '([{<':
            depth += 1
            cur.append(ch)
        elif ch in ')]}>':
            depth -= 1
            cur.append(ch)
        elif ch == sep and depth == 0:
            out.append(''.join(cur))
            cur = []
        else:
            cur.append(ch)
        k += 1
    if cur or out:
        out.append(''.join(cur))
    return [ws(x) for x in out]


def split_lambda_tail(s):
    """', py::arg("a") = 1, py::arg("b"), "doc"' -> (pyargs, doc).  Arguments are cut where a new
    py::arg( starts at bracket depth 0 (default texts may contain commas, <, >)"""
    doc = None
    m = re.search(r',\s*("(?:[^"\\]|\\.)*")\s*$', s)
    if m and 'py::arg(' not in m.group(1) and not re.search(r'=\s*$', s[:m.start()]):
        # a trailing string literal that is not the default of the last py::arg
        head = s[:m.start()]
        last = head.rfind('py::arg(')
        if last < 0 or '=' not in head[last:] or True:
            doc = m.group(1)
            s = head
    starts = []
    depth = 0
    k = 0
    n = len(s)
    while k < n:
        ch = s[k]
        if ch == '"' or ch == "'":
            q = ch
            k += 1
            while k < n and s[k] != q:
                if s[k] == '\\':
                    k += 1
                k += 1
        elif ch in '([{':
            depth += 1
        elif ch in ')]}':
            depth -= 1
        elif depth == 0 and s.startswith('py::arg(', k):
            starts.append(k)
            depth += 0
        k += 1
    parts = []
    for i, st in enumerate(starts):
        en = starts[i + 1] if i + 1 < len(starts) else n
        parts.append(ws(s[st:en]).rstrip(',').strip())
    return parts, doc


def split_top_noangle(s):
    """top-level comma split where < > are NOT brackets (defaults may contain comparison operators)"""
    out = []
    depth = 0
    cur = []
    k = 0
    n = len(s)
    while k < n:
        ch = s[k]
        if ch == '"' or ch == "'":
            q = ch
            st = k
            k += 1
            while k < n and s[k] != q:
                if s[k] == '\\':
                    k += 1
                k += 1
            cur.append(s[st:k + 1])
        elif ch in '([{':
            depth += 1
            cur.append(ch)
        elif ch in ')]}':
            depth -= 1
            cur.append(ch)
        elif ch == ',' and depth == 0:
            out.append(''.join(cur))
            cur = []
        else:
            cur.append(ch)
        k += 1
    out.append(''.join(cur))
    return [ws(x) for x in out]


def parse_def_args(arg_text):
    """content of .def( ... ) -> record tail"""
    a = arg_text.strip()
    if a.startswith('py::init<'):
        j = match_close(a, a.index('<'), '<', '>')
        types = split_top(a[a.index('<') + 1:j]) if a[a.index('<') + 1:j].strip() else []
        rest = a[j + 1:].lstrip()
        assert rest.startswith('()'), rest[:20]
        pyargs, _ = split_lambda_tail(rest[2:])
        return ('init', types, pyargs)
    if a.startswith('py::pickle'):
        return ('pickle', ws(a))
    m = re.match(r'"((?:[^"\\]|\\.)*)"\s*,', a)
    if m:
        name = m.group(1)
        rest = a[m.end():].lstrip()
        if rest.startswith('[]'):
            p0 = rest.index('(')
            p1 = match_close(rest, p0, '(', ')')
            params = split_top(rest[p0 + 1:p1]) if rest[p0 + 1:p1].strip() else []
            b0 = rest.index('{', p1)
            b1 = match_close(rest, b0, '{', '}')
            body = ws(rest[b0 + 1:b1])
            pyargs, doc = split_lambda_tail(rest[b1 + 1:])
            return ('lambda', name, params, body, pyargs, doc)
        return ('ref', name, ws(rest))
    return ('op', ws(a))


def records(text):
    out = []
    # restrict to the module body if present
    i = 0
    n = len(text)
    owner = None
    tok = re.compile(r'pybind11::module\s+(\w+)\s*=\s*(\w+)\s*\.\s*def_submodule\s*\(\s*"([^"]*)"'
                     r'|py::class_\s*<'
                     r'|py::enum_\s*<'
                     r'|\.\s*(def_static|def_readonly|def_readwrite|def|value)\s*\('
                     r'|(\w+)\s*\.\s*attr\s*\(\s*"([^"]*)"\s*\)\s*=\s*'
                     r'|(\bm_\w*)\s*\.\s*def\s*\(')
    pos = 0
    cur_enum = None
    cur_kind = None
    while True:
        m = tok.search(text, pos)
        if not m:
            break
        s = m.group(0)
        if m.group(1):
            out.append(('sub', m.group(1), m.group(2), m.group(3)))
            pos = m.end()
        elif s.startswith('py::class_'):
            a0 = text.index('<', m.start())
            a1 = match_close(text, a0, '<', '>')
            targs = split_top(text[a0 + 1:a1])
            rest = text[a1 + 1:]
            mm = re.match(r'\s*(\w+)?\s*\(\s*(\w+)\s*,\s*"([^"]*)"\s*\)', rest)
            assert mm, rest[:80]
            cpp = targs[0]
            parents = [t for t in targs[1:] if not t.startswith('std::shared_ptr<')]
            out.append(('class', mm.group(2), cpp, mm.group(3), parents, mm.group(1)))
            owner = cpp
            cur_kind = 'class'
            pos = a1 + 1 + mm.end()
        elif s.startswith('py::enum_'):
            a0 = text.index('<', m.start())
            a1 = match_close(text, a0, '<', '>')
            cpp = ws(text[a0 + 1:a1])
            rest = text[a1 + 1:]
            mm = re.match(r'\s*\(\s*(\w+)\s*,\s*"([^"]*)"', rest)
            assert mm, rest[:80]
            out.append(('enum', mm.group(1), cpp, mm.group(2)))
            cur_enum = cpp
            cur_kind = 'enum'
            p0 = a1 + 1 + rest.index('(')
            pos = match_close(text, p0, '(', ')') + 1
        elif m.group(4):
            kind = m.group(4)
            p0 = m.end() - 1
            p1 = match_close(text, p0, '(', ')')
            assert p1 > 0, text[m.start():m.start() + 80]
            arg_text = text[p0 + 1:p1]
            if kind == 'value':
                parts = split_top_noangle(arg_text)
                out.append(('value', cur_enum, parts[0].strip('"'), parts[1]))
            elif kind in ('def_readonly', 'def_readwrite'):
                parts = split_top_noangle(arg_text)
                out.append(('prop', owner, kind[4:], parts[0].strip('"'), parts[1]))
            else:
                r = parse_def_args(arg_text)
                if r[0] == 'init':
                    out.append(('init', owner, r[1], r[2]))
                elif r[0] == 'lambda':
                    out.append((kind, owner, r[1], r[2], r[3], r[4], r[5]))
                elif r[0] == 'ref':
                    out.append(('ref', owner, r[1], r[2]))
                elif r[0] == 'pickle':
                    out.append(('pickle', owner, r[1]))
                else:
                    out.append(('op', owner, r[1]))
            pos = p1 + 1
        elif m.group(5):
            e = text.index(';', m.end())
            out.append(('attr', m.group(5), m.group(6), ws(text[m.end():e])))
            pos = e + 1
        elif m.group(7):
            p0 = m.end() - 1
            p1 = match_close(text, p0, '(', ')')
            r = parse_def_args(text[p0 + 1:p1])
            if r[0] == 'lambda':
                out.append(('fun', m.group(7), r[1], r[2], r[3], r[4]))
            else:
                out.append(('fun?', m.group(7), r))
            pos = p1 + 1
        else:
            pos = m.end()
    return out

"""C07 - input is either fully understood or loudly rejected, never half-used.

Token-level corruptions (deletion, duplication, swap, truncation, stray tokens, unbalanced brackets, dropped ranges) of
generated well-formed files, in every layout style:
  * the implementation either accepts or raises ParseException / ValueError / AssertionError within the time limit -
    any other exception class or a time-out is a violation;
  * when it accepts, every non-blank character of the input outside comments is accounted for by the tree (the tree is
    printed back and compared as a bag of characters; only `std::` before pair and the enum keyword are not recorded);
  * the model (Parse/Peg.v on the regenerated grammar + Parse/Build.v) accepts exactly the same inputs with the same
    tree - this ties the theorems to the code on malformed input as well;
  * both command-line scripts and both generators, run on rejected inputs with a pre-populated output directory:
    non-zero exit / exception, and the directory is byte-for-byte what it was."""
import hashlib
import multiprocessing as mp
import os
import random
import shutil
import subprocess
import tempfile
from collections import Counter

import common
import gen_inputs as G
from props import parsecommon as pc
from props import mlcommon as ml

TRUSTED = ['the corruption operators and the bag-of-characters accounting (harness/props/c07.py)']
STRAY = [('p', x) for x in ';{}()<>,=*&@:'] + [('p', '::'), ('p', '__'), ('p', '#'), ('p', '=='), ('p', '>>')] + \
        [('w', x) for x in ('const', 'class', 'static', 'virtual', 'template', 'namespace', 'typedef', 'enum', 'x', 'int',
                            'operator', '42', 'pair', 'void', 'unsigned', 'char', '#include')]


def corrupt(toks, r):
    t = list(toks)
    if not t:
        return [r.choice(STRAY)], 'stray'
    k = r.random()
    i = r.randrange(len(t))
    if k < 0.18:
        del t[i]
        return t, 'delete'
    if k < 0.32:
        t.insert(i, t[i])
        return t, 'duplicate'
    if k < 0.46:
        j = r.randrange(len(t))
        t[i], t[j] = t[j], t[i]
        return t, 'swap'
    if k < 0.60:
        return t[:i], 'truncate'
    if k < 0.85:
        t.insert(i, r.choice(STRAY))
        return t, 'stray'
    j = min(len(t), i + r.randint(1, 4))
    del t[i:j]
    return t, 'drop-range'


# ---- printing a dumped tree back to characters ----
def c_tn(t):
    s = '::'.join(list(t[1]) + [t[2] if isinstance(t[2], str) else '?'])
    if t[3]:
        s += '<' + ','.join(c_tn(i) for i in t[3]) + '>'
    return s


def c_ty(t):
    if t[0] == 'ty':
        return ('const' if t[2] else '') + '::'.join(list(t[1][1]) + [t[1][2]]) + t[3]
    return ('const' if t[4] else '') + '::'.join(list(t[1]) + [t[2]]) + '<' + ','.join(c_ty(p) for p in t[3]) + '>' + t[5]


def c_ret(r):
    return c_ty(r[1]) if r[0] == 'r1' else 'pair<' + c_ty(r[1]) + ',' + c_ty(r[2]) + '>'


def c_args(l):
    return '(' + ','.join(c_ty(a[1]) + a[2] + ('=' + a[3][0] if a[3] else '') for a in l) + ')'


def c_tmpl(t):
    if not t:
        return ''
    t = t[0]
    return 'template<' + ','.join(n + ('={' + ','.join(c_tn(i) for i in l) + '}' if l else '') for n, l in zip(t[1], t[2])) + '>'


def c_enum(e):
    return e[1] + '{' + ','.join(e[2]) + '};'


def c_var(v):
    return c_ty(v[1]) + v[2] + ('=' + v[3][0] if v[3] else '') + ';'


def c_decl(d):
    k = d[0]
    if k == 'class':
        s = c_tmpl(d[1]) + ('virtual' if d[2] else '') + 'class' + d[3]
        if d[4]:
            b = d[4][0]
            s += ':' + (c_tn(b[1]) if b[0] == 'bn' else c_ty(b[1]))
        s += '{'
        for c in d[5]:
            s += c_tmpl(c[1]) + c[2] + c_args(c[3]) + ';'
        for m in d[6]:
            s += c_tmpl(m[1]) + c_ret(m[3]) + m[2] + c_args(m[4]) + ('const' if m[5] else '') + ';'
        for m in d[7]:
            s += c_tmpl(m[1]) + 'static' + c_ret(m[3]) + m[2] + c_args(m[4]) + ';'
        for m in d[8]:
            s += '__' + m[1] + '__' + c_args(m[2]) + ';'
        for v in d[9]:
            s += c_var(v)
        for o in d[10]:
            s += c_ret(o[2]) + 'operator' + o[1] + c_args(o[3]) + ('const' if o[4] else '') + ';'
        for e in d[11]:
            s += c_enum(e)
        return s + '};'
    if k == 'fun':
        return c_tmpl(d[1]) + c_ret(d[3]) + d[2] + c_args(d[4]) + ';'
    if k == 'typedef':
        return 'typedef' + c_tn(d[1]) + d[2] + ';'
    if k == 'fwd':
        return ('virtual' if d[1] else '') + 'class' + c_tn(d[2]) + (':' + c_tn(d[3][0]) if d[3] else '') + ';'
    if k == 'include':
        return '#include<' + d[1] + '>'
    if k == 'enum':
        return c_enum(d)
    if k == 'var':
        return c_var(d)
    if k == 'ns':
        return 'namespace' + d[1] + '{' + ''.join(c_decl(x) for x in d[2]) + '}'
    raise ValueError(k)


def bag(s):
    return Counter(ch for ch in s if not ch.isspace())


def input_bag(toks):
    return bag(''.join(t for _, t in toks))


COMMENT_RE = __import__('re').compile(r'/\*.*?\*/|//[^\n]*', __import__('re').S)


def comment_chars(text):
    """the characters of everything that looks like a comment: whether the parser skipped such a piece (filler) or
    kept it (inside a default value, which is copied verbatim) depends on where it stands"""
    return bag(''.join(COMMENT_RE.findall(text)))


def _words_cover(rem, words, limits):
    """can the multiset rem be written as copies of the given words (at most limits[i] of word i)?  Every word used here
    has a letter no other word has (m, l, r, d, o), which fixes its multiplicity: no search (a search over all
    multiplicities took hours on trees that lost many characters)."""
    rem = +Counter(rem)
    total = Counter()
    for i, w in enumerate(words):
        own = [c for c in w if all(c not in w2 for j, w2 in enumerate(words) if j != i)]
        if not own:
            return _words_cover_search(rem, words, limits)
        k, r = divmod(rem.get(own[0], 0), w[own[0]])
        if r or k > limits[i]:
            return False
        for c, n in w.items():
            total[c] += n * k
    return +total == rem


def _words_cover_search(rem, words, limits):
    def search(rem, i):
        if not rem:
            return True
        if i == len(words):
            return False
        for k in range(limits[i] + 1):
            need = Counter({c: n * k for c, n in words[i].items()})
            if all(rem.get(c, 0) >= n for c, n in need.items()):
                if search(+(rem - need), i + 1):
                    return True
            else:
                break
        return False
    return search(+Counter(rem), 0)


def _eq_then_brace(text):
    """is there an `=` followed - after blanks and complete comments only - by `{`?  A linear scan: the regular expression
    that did this backtracked for hours on texts with many comment openers."""
    n = len(text)
    at = text.find('=')
    while at != -1:
        i = at + 1
        while i < n:
            if text[i].isspace():
                i += 1
            elif text.startswith('/*', i):
                j = text.find('*/', i + 2)
                if j == -1:
                    break
                i = j + 2
            elif text.startswith('//', i):
                j = text.find('\n', i)
                if j == -1:
                    break
                i = j + 1
            else:
                break
        if i < n and text[i] == '{':
            return True
        at = text.find('=', at + 1)
    return False


def explain(lost, invented, text):
    """The tree records neither the enum keyword (`enum`, `enum class`, `enum struct`) nor `std::` before pair; comment
    text is dropped where it is filler and kept where it is part of a default value.  Returns 'ok',
    'typedef-qualifiers' (recorded defect: const / * / @ / & of a typedef'd type are dropped) or None."""
    cc = comment_chars(text)
    if +(Counter(invented) - cc):
        return None
    base_words = [Counter('enum'), Counter('class'), Counter('struct'), Counter('std::')]
    base_limits = [text.count('enum'), text.count('class'), text.count('struct'), text.count('std::')]
    lost = Counter(lost)
    # characters credited to skipped comments: any sub-multiset of cc; try "as many as possible" and "none"
    for credit in (cc, Counter()):
        rem = +(lost - credit)
        if _words_cover(rem, base_words, base_limits):
            return 'ok'
    import re as _re
    sites = []
    if 'typedef' in text:
        sites.append('typedef-qualifiers')
    if _eq_then_brace(text):
        sites.append('instantiation-qualifiers')
    if sites:
        for credit in (cc, Counter()):
            rem = +(lost - credit)
            for ch in '*@&':
                rem.pop(ch, None)
            if _words_cover(rem, base_words + [Counter('const')], base_limits + [text.count('const')]):
                return sites[0]
    return None


PARSE_LIMIT = 20


def _timed_parse(text):
    # a parse stuck inside one C call (a regular expression that backtracks without end) cannot be interrupted from
    # Python: the worker arms an alarm whose default action ends the process; the pool replaces it, the case never answers
    import signal
    signal.signal(signal.SIGALRM, signal.SIG_DFL)
    signal.alarm(PARSE_LIMIT)
    try:
        return pc.impl_parse(text)
    finally:
        signal.alarm(0)


def parse_with_timeout(texts, limit):
    """impl_parse over a pool; a case that does not come back within the limit is reported as ('timeout',)"""
    import time
    out = [None] * len(texts)
    with mp.get_context('fork').Pool(14) as pool:
        hs = [pool.apply_async(_timed_parse, (t, )) for t in texts]
        lost = 0
        for i, h in enumerate(hs):
            try:
                # cases are started in order: once the pool has had time for everything submitted before this one, a
                # missing answer means its worker was ended by the alarm
                # (after three lost cases the verdict is settled: the rest is collected without waiting)
                out[i] = h.get(timeout=PARSE_LIMIT + 10 if lost < 3 else 1)
            except mp.TimeoutError:
                lost += 1
                out[i] = ('timeout', 'no answer within %d s' % PARSE_LIMIT)
    return out


def digest(root):
    out = {}
    for dp, dn, fn in os.walk(root):
        for f in fn:
            p = os.path.join(dp, f)
            out[os.path.relpath(p, root)] = hashlib.sha256(open(p, 'rb').read()).hexdigest()
    return out


def failing_run_writes_nothing(text, workroot, only=None):
    """the entry points on one rejected input; returns a list of problems"""
    problems = []
    d = tempfile.mkdtemp(dir=workroot)
    try:
        src = os.path.join(d, 'bad.i')
        with open(src, 'w') as f:
            f.write(text)
        tpl = os.path.join(d, 'tpl.example')
        shutil.copy(common.REPO + '/templates/pybind_wrapper.tpl.example', tpl)
        out = os.path.join(d, 'out')
        os.makedirs(os.path.join(out, '+old'))
        for name, content in (('bad.cpp', 'previous pybind output\n'), ('mod_wrapper.cpp', 'previous mex output\n'),
                              ('+old/K.m', 'previous class\n'), ('keep.txt', 'unrelated\n')):
            with open(os.path.join(out, name), 'w') as f:
                f.write(content)
        before = digest(out)
        env = dict(os.environ, PYTHONPATH=common.REPO, PYTHONHASHSEED='0')
        runs = [
            ('scripts/pybind_wrap.py', ['--src', src, '--out', os.path.join(out, 'bad.cpp'), '--module_name', 'mod', '--template', tpl,
                                        '--top_module_namespaces', '']),
            ('scripts/matlab_wrap.py', ['--src', src, '--out', out, '--module_name', 'mod', '--top_module_namespaces', '']),
            # submodule mode writes <stem>.cpp into the working directory: bad.cpp is already there
            ('scripts/pybind_wrap.py', ['--src', src, '--out', 'unused', '--module_name', 'mod', '--template', tpl,
                                        '--top_module_namespaces', '', '--is_submodule']),
        ]
        for script, args in runs:
            if only and only not in script:
                continue
            p = subprocess.run(['/venv/bin/python', os.path.join(common.REPO, script)] + args, cwd=out, env=env, capture_output=True,
                               text=True, timeout=300)
            if p.returncode == 0:
                problems.append('%s exits 0 on a rejected input' % script)
            after = digest(out)
            if after != before:
                changed = sorted(set(after.items()) ^ set(before.items()))
                problems.append('%s failed but changed the output directory: %s' % (script, [c[0] for c in changed][:5]))
                before = after
    finally:
        shutil.rmtree(d, ignore_errors=True)
    return problems


def run(rep, tier, seed, replay=None, proof_ok=True):
    rep.coverage['rule'] = __doc__.split('\n\n', 1)[1][:1500]
    rep.assumptions += TRUSTED
    ml.ensure_tpl()
    n = 220 if tier == "quick" else 2500
    cases = []
    for k in range(n):
        r = random.Random('c07/%d/%d' % (seed, k))
        p = G.Profile()
        p.layout_defaults = True
        g = G.Gen(r, p)
        toks = G.tokens(g.module())
        for c in range(3):
            t, kind = corrupt(toks, r)
            if r.random() < 0.3:
                t, k2 = corrupt(t, r)
                kind += '+' + k2
            text = G.text(t, r, r.choice(G.STYLES))
            if r.random() < 0.12:
                # a block comment that is opened and never closed (the file was cut inside it): must be rejected, promptly
                blanks = [i for i, ch in enumerate(text) if ch == ' ']
                at = r.choice(blanks) if blanks else len(text)
                body = ''.join(r.choice('abc xyz*/ \n*') for _ in range(r.randint(30, 200))).replace('*/', '* ')
                text = text[:at] + ' /* ' + body + (text[at:].replace('*/', '') if r.random() < 0.5 else '')
                kind += '+unterminated-comment'
                # where the piece lands inside a default value it is legitimately part of that value (the scanner of default
                # values takes '/' and '*' as word characters): its characters belong to the input like any token's
                t = list(t) + [('raw', '/* ' + body)]
            cases.append((kind, t, text))
    if replay:
        import json
        cases = [('replay', [], json.load(open(replay))['input'])]
    impl = parse_with_timeout([c[2] for c in cases], 60)
    model = common.Model()
    shown = 0
    rejected = []
    known_typedef = False
    known_inst = False
    try:
        for (kind, toks, text), i in zip(cases, impl):
            rep.hit(common.sha(text)[:16], True)
            rep.bump('corruption_' + kind.split('+')[0])
            rep.bump('impl_' + i[0].split(':')[0])
            bad = None
            if i[0] == 'timeout':
                bad = 'the parser does not terminate within 60 s'
            elif i[0].startswith('crash') or i[0] == 'dump-error':
                bad = 'rejected with %s instead of a parse or validation error: %s' % (i[0], i[1])
            elif i[0] == 'ok' and toks:
                got = bag(''.join(c_decl(d) for d in i[1]))
                want = input_bag(toks)
                missing = want - got
                extra = got - want
                why = explain(missing, extra, text)
                if why == 'ok':
                    rep.bump('accepted_fully_accounted')
                elif why == 'typedef-qualifiers':
                    rep.bump('known:typedef-qualifiers')
                    known_typedef = True
                elif why == 'instantiation-qualifiers':
                    rep.bump('known:instantiation-qualifiers')
                    known_inst = True
                else:
                    bad = 'accepted, but the tree does not account for the input: characters lost %s, invented %s' % (
                        dict(missing), dict(extra))
            if i[0] in ('parse-error', 'invalid'):
                rejected.append(text)
            if bad:
                if shown < 3:
                    shown += 1
                    rep.violation({'kind': 'counterexample', 'what': bad, 'input': text, 'implementation': list(i)[:2]})
                continue
            m = pc.model_parse(model, text)
            v = pc.verdict(i, m)
            if v == 'unsupported':
                rep.bump('model_unsupported')
            elif v != 'agree':
                rep.bump('model_disagrees')
                if shown < 3:
                    shown += 1
                    rep.violation({'kind': 'broken-correspondence', 'what': 'Parse/Peg.v + Build.v on the regenerated grammar: ' + v,
                                   'input': text, 'implementation': list(i)[:2], 'model': list(m)[:2]}, no_input=True)
            else:
                rep.bump('model_agrees')
        # failing runs write nothing
        r = random.Random('c07/files/%d' % seed)
        pick = r.sample(rejected, min(len(rejected), 8 if tier == 'quick' else 60))
        root = ml.scratch_root()
        with mp.get_context('fork').Pool(8) as pool:
            res = pool.starmap(failing_run_writes_nothing, [(t, root) for t in pick])
        for t, problems in zip(pick, res):
            rep.bump('failing_runs_checked')
            for p in problems:
                if shown < 5:
                    shown += 1
                    rep.violation({'kind': 'counterexample', 'what': p, 'input': t})
        wt = pc.impl_parse('typedef Foo<const A&> B;')
        if wt[0] == 'ok' and wt[1] == [['typedef', ['tn', [], 'Foo', [['tn', [], 'A', []]]], 'B']]:
            known_typedef = True
        if known_typedef:
            rep.known('C07-typedef-qualifiers-dropped: const and the pointer/reference markers written on a typedef\'s target type or on '
                      'its template arguments are accepted and appear nowhere in the parse result (TypedefTemplateInstantiation keeps '
                      'only templated_type.typename) [witness: typedef Foo<const A&> B;]')
        # out-of-dialect for the MATLAB generator: a default value before a parameter without one (wrapper.py validation;
        # Matlab/Ids.v expand_defaults = None, theorem C06_rejects_gaps): the run must fail and write nothing
        gaps = []
        for k in range(6 if tier == 'quick' else 40):
            r2 = random.Random('c07/gap/%d/%d' % (seed, k))
            form = r2.choice(['void f%d(int a = %s, double b);', 'class K%d { void m(int a = %s, double b, int c = 3) const; };',
                              'class K%d { static int s(double a = %s, double b); };', 'class K%d { K%d(int a = %s, int b); };',
                              'namespace n { int g%d(bool a = %s, bool b); }'])
            v = r2.choice(['1', '0', 'true'])
            gaps.append(form.replace('%d', str(k)).replace('%s', v))
        with mp.get_context('fork').Pool(6) as pool:
            res = pool.starmap(failing_run_writes_nothing, [(t, root, 'matlab') for t in gaps])
        for t, problems in zip(gaps, res):
            rep.bump('default_gap_inputs_checked')
            for p in problems:
                if shown < 6:
                    shown += 1
                    rep.violation({'kind': 'counterexample', 'what': p + ' (default value before a parameter without one)', 'input': t})
        wi = pc.impl_parse('template<T = {Foo<const A*>}> class C {};')
        if wi[0] == 'ok' and 'A' in str(wi[1]) and '*' not in str(wi[1]):
            known_inst = True
        if known_inst:
            rep.known('C07-instantiation-qualifiers-dropped: const and the pointer/reference markers written on the template arguments of an '
                      'instantiation value are accepted and appear nowhere in the parse result (Template.TypenameAndInstantiations keeps '
                      'inst.typename only) [witness: template<T = {Foo<const A*>}> class C {};]')
        rep.sample({'input': cases[0][2][:300], 'corruption': cases[0][0], 'verdict': impl[0][0]})
    finally:
        model.close()
    return 0

"""Shared machinery of C01 / C07 / C12: the parser model (Parse/Peg.v interpreting the grammar term that
harness/translate_grammar.py regenerates from the live pyparsing objects, Parse/Build.v for the parse actions)
against gtwrap.interface_parser.Module.parseString."""
import multiprocessing as mp

import common
import dump
import sexp

import gtwrap.interface_parser as parser


def impl_parse(text):
    """('ok', dump) | ('parse-error' | 'invalid' | other, message)"""
    try:
        pm = parser.Module.parseString(text)
    except Exception as e:
        k = type(e).__name__
        if k == 'ParseException':
            return ('parse-error', str(e)[:160])
        if k in ('ValueError', 'AssertionError'):
            return ('invalid', k + ': ' + str(e)[:160])
        return ('crash:' + k, str(e)[:160])
    try:
        return ('ok', dump.module(pm))
    except dump.DumpError as e:
        return ('dump-error', str(e)[:200])


def impl_parse_many(texts):
    n = min(14, max(1, len(texts) // 8))
    if n <= 1:
        return [impl_parse(t) for t in texts]
    with mp.get_context('fork').Pool(n) as pool:
        return pool.map(impl_parse, texts, chunksize=4)


def model_parse(model, text):
    """('ok', tree) | ('parse-error'|'invalid', msg) | ('unsupported', msg)"""
    ans = model.ask('parse', text)
    if ans.startswith('ok '):
        return ('ok', sexp.loads(ans[3:]))
    if ans.startswith('err '):
        k = ans[4:].strip()
        return ('parse-error' if k == 'ParseException' else 'invalid', k)
    if ans.startswith('unsupported'):
        return ('unsupported', ans[12:])
    raise RuntimeError('model parse: ' + ans[:200])


def canon(tree):
    """both sides through the same S-expression printer"""
    return sexp.dumps(sexp.loads(sexp.dumps(tree)))


def verdict(impl, mod):
    """'agree' | 'unsupported' | description of the disagreement"""
    if mod[0] == 'unsupported':
        return 'unsupported'
    if impl[0] == 'ok' and mod[0] == 'ok':
        return 'agree' if canon(impl[1]) == canon(mod[1]) else 'trees differ'
    if impl[0] == 'ok' or mod[0] == 'ok':
        return 'accepted by one side only: impl %s, model %s' % (impl[0], mod[0])
    if impl[0].startswith('crash') or impl[0] == 'dump-error':
        return 'implementation %s' % impl[0]
    return 'agree'          # both reject (parse error vs validation error may differ in which is reported first)

#!/bin/bash
# every kept seeded change (four rounds) against the quick check of the property it was written against
cd "$(dirname "$0")/.."
for k in 5 4 3 2 1; do
  for p in C01 C02 C03 C04 C05 C06 C07 C08 C09 C10 C11 C12 C13 C14 C15 C16 C17 C18 C19; do
    s=$p-m$k
    [ -d seeded/$s ] || continue
    ids=$p
    [ "$s" = "C10-m1" ] && ids="C10 C05"
    harness/matrix.sh "$s" "$ids"
  done
done

(* C06 - MATLAB overload guards, default expansion and C++ marshalling line up.
   (theorems added below as they are proved; statements are over Matlab/Ids.v + Matlab/Arity.v) *)
From Coq Require Import String Ascii List Bool Arith Lia.
From Wrap Require Import Base.Str Base.ListX Syntax.Ast Syntax.Print Inst.Model Matlab.Ids Matlab.Arity Matlab.ArityProofs.
Import ListNotations.
Open Scope string_scope.
Open Scope list_scope.

(* a callable with n parameters of which the last k have defaults (none earlier) is offered with
   exactly the k+1 arities n, n-1, ..., n-k, in that order *)
Theorem C06_arities : forall l ovs, expand_defaults l = Some ovs ->
  map (@length arg) ovs = map (fun j => length l - j) (seq 0 (S (trailing_defaults l))).
Proof. exact expand_arities. Qed.
Print Assumptions C06_arities.

(* each overload is a prefix of the declared parameter list: the i-th explicit argument IS the i-th
   declared parameter (type and name) *)
Theorem C06_prefix : forall l ovs o, expand_defaults l = Some ovs -> In o ovs ->
  exists j, j <= trailing_defaults l /\ o = strip_defaults (firstn (length l - j) l).
Proof. exact expand_prefix. Qed.
Print Assumptions C06_prefix.

(* defaults before non-defaults are rejected *)
Theorem C06_rejects_gaps : forall l,
  existsb has_default (firstn (length l - trailing_defaults l) l) = true -> expand_defaults l = None.
Proof. intros l H. unfold expand_defaults. rewrite H. reflexivity. Qed.
Print Assumptions C06_rejects_gaps.

(* the C++ routine unwraps the i-th MATLAB argument as the i-th explicit parameter, positions
   consecutive from the offset (1 after `this`, 0 otherwise), declared order *)
Theorem C06_unwrap_positions : forall e off args,
  unwrap_positions e off args = seq off (length args).
Proof. exact unwrap_positions_seq. Qed.
Print Assumptions C06_unwrap_positions.

(* the call passes, in declared order, each explicit parameter by name and each omitted default by
   its original expression: lengths agree with the declaration *)
Theorem C06_call_length : forall e explicit backup,
  length (map (call_param e (arg_names explicit)) backup) = length backup.
Proof. intros. apply map_length. Qed.
Print Assumptions C06_call_length.

Theorem C06_call_omitted_default : forall e explicit a d,
  a_default a = Some d -> mem_str (a_name a) explicit = false -> call_param e explicit a = d.
Proof. intros e explicit a d Hd Hm. unfold call_param. rewrite Hd, Hm. reflexivity. Qed.
Print Assumptions C06_call_omitted_default.

(* Full statement for the MATLAB-side outputs of static methods (matching outputs for void / pair):
   refuted - generated static methods always assign varargout{1} (pinned by the golden files) *)
Theorem C06_refuted_static_outputs : forall module id s,
  s_role s = RStatic ->
  snd (m_site module id s) = ("varargout{1} = " ++ (module ++ "_wrapper") ++ "(" ++ nat_dec id ++ ", varargin{:});")%string.
Proof. intros module id s H. unfold m_site. rewrite H. reflexivity. Qed.
Print Assumptions C06_refuted_static_outputs.

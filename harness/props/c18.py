"""C18 - the MATLAB runtime header converts values without loss."""
import os
import random
import struct
import subprocess

import common
import cxxbuild
import sexp

TRUSTED = ['mock MEX API harness/cxx/mock/mex.h + mex_impl.h (zero-initialised arrays, mxCreateString stops at NUL, '
           'mxGetScalar per class id)', 'stand-in gtsam::Vector/Matrix/Point2/Point3 headers', 'g++ 12, x86-64 little endian']

CLS = {'uint64': 15, 'int64': 14, 'double': 6, 'char': 4}


def dbits(r):
    k = r.random()
    if k < 0.15:
        return r.choice([0, 1 << 63, 0x7ff0000000000000, 0xfff0000000000000, 0x7ff8000000000001, 0x7ff0000000000001,
                         1, 0x000fffffffffffff, 0x3ff0000000000000, 0x7fefffffffffffff, 0xffffffffffffffff])
    if k < 0.6:
        return struct.unpack('<Q', struct.pack('<d', r.uniform(-1e6, 1e6)))[0]
    return r.getrandbits(64)


def commands(r, tier):
    out = []
    for v in (0, 1):
        out.append(('bool', [v]))
    chars = list(range(-128, 128)) if tier == 'thorough' else [-128, -127, -1, 0, 1, 65, 126, 127] + [r.randint(-128, 127) for _ in range(20)]
    out += [('char', [c]) for c in chars]
    out += [('uchar', [c]) for c in ([0, 1, 127, 128, 255] + [r.randint(0, 255) for _ in range(20)])]
    ints = [-2 ** 31, -2 ** 31 + 1, -65536, -1, 0, 1, 255, 256, 65535, 2 ** 31 - 1] + [r.randint(-2 ** 31, 2 ** 31 - 1) for _ in range(200)]
    out += [('int', [i]) for i in ints]
    sizes = [0, 1, 2 ** 31, 2 ** 32 - 1, 2 ** 32, 2 ** 53, 2 ** 53 + 1, 2 ** 63, 2 ** 64 - 1, (ord('x') << 56) | 1] + [r.getrandbits(64) for _ in range(200)]
    out += [('size_t', [n]) for n in sizes]
    out += [('double', [dbits(r)]) for _ in range(2000 if tier == 'quick' else 40000)]
    strs = [[], [97], list(range(1, 256)), [97, 0, 98], [0], [255] * 50] + [[r.randint(0 if r.random() < 0.1 else 1, 255) for _ in range(r.randint(0, 60))] for _ in range(200)]
    out += [('string', s) for s in strs]
    out += [('vector', [dbits(r) for _ in range(n)]) for n in [0, 1, 2, 3, 7] + [r.randint(0, 40) for _ in range(60)]]
    shapes = [(0, 0), (0, 3), (3, 0), (1, 1), (2, 3), (3, 2), (1, 5), (5, 1)] + [(r.randint(0, 8), r.randint(0, 8)) for _ in range(90)]
    if tier == 'thorough':
        shapes += [(r.randint(0, 40), r.randint(0, 40)) for _ in range(400)]
    out += [('matrix', [m, n] + [dbits(r) for _ in range(m * n)]) for m, n in shapes]
    return out


def cmd_line(c):
    t, a = c
    if t == 'double':
        return 'double %016x' % a[0]
    if t == 'string':
        return 'string ' + (''.join('%02x' % b for b in a) if a else '-')
    if t == 'vector':
        return 'vector %d %s' % (len(a), ' '.join('%016x' % x for x in a))
    if t == 'matrix':
        return 'matrix %d %d %s' % (a[0], a[1], ' '.join('%016x' % x for x in a[2:]))
    return '%s %d' % (t, a[0])


def expect_line(c, ans):
    """the driver's output line, predicted from the model's answer"""
    t, a = c
    arr, un = sexp.loads(ans[3:])
    cls, m, n, cells, chars = arr
    head = '%d %s %s' % (CLS[cls], m, n)
    if cls == 'char':
        head += ' s' + ''.join('%02x' % int(b) for b in chars)
    else:
        head += ''.join(' %016x' % int(x) for x in cells)
    if t == 'matrix':
        if un[0] == 'error':
            return head, 'ERROR'
        return head, '%s %s%s' % (un[0], un[1], ''.join(' %016x' % int(x) for x in un[2]))
    if un[0] == 'error':
        return head, 'ERROR'
    if t == 'double':
        return head, '%016x' % int(un[1])
    if t == 'string':
        return head, 's' + ''.join('%02x' % int(b) for b in un[1])
    if t == 'vector':
        return head, '%d%s' % (len(un[1]), ''.join(' %016x' % int(x) for x in un[1]))
    return head, str(un[1])


def handles(rep, tier, seed, replay):
    """the handle clause: generated gateways (as generated, and with matlab.h's isVirtual branch switched on for virtual
    classes) driven through random wrap / unwrap / release histories; see props/c11.py"""
    from props import c11
    ngw, nhist, steps = (8, 12, 40) if tier == 'quick' else (40, 30, 80)
    jobs = [('c18h/%d/%d' % (seed, i), nhist, steps, i % 4 != 3) for i in range(ngw)]
    if replay:
        import json
        j = json.load(open(replay)).get('job')
        if j:
            jobs = [tuple(j)]
    stale, _ = c11.drive(rep, jobs, 'C18')
    if stale:
        rep.known('C18-handle-after-unload: a MATLAB handle that outlives `clear mex` no longer keeps its object alive '
                  '(_deleteAllObjects released the cell), and deleting that handle frees the cell a second time '
                  '[witness: obj = K0(1); clear mex; delete(obj)]')


def run(rep, tier, seed, replay=None, proof_ok=True):
    rep.coverage['rule'] = ('a driver compiled with g++ against the REAL matlab.h and the mock MEX API evaluates wrap<T> then '
                            'unwrap<T> on: all boundary values of bool/char/unsigned char/int/size_t plus random ones, 2000 '
                            'doubles by bit pattern (NaN payloads, +-0, denormals, infinities), strings over all byte values '
                            'incl. NUL, vectors of length 0-40, matrices of shapes incl. 0xn / mx0; printed array class, '
                            'dimensions and 64-bit cells and the unwrapped value are compared with Runtime/Mx.v; error cases '
                            '(non-scalar, non-double, non-column) must raise')
    src = os.path.join(cxxbuild.CXX, 'c18_driver.cpp')
    exe, err = cxxbuild.compile_driver(src, 'c18_driver')
    if exe is None:
        rep.violation({'kind': 'broken-correspondence', 'what': 'matlab.h does not compile against the mock MEX API',
                       'compiler_output': err}, no_input=True)
        return 0
    r = random.Random('c18/%d' % seed)
    cmds = commands(r, tier)
    errs = ['err-scalar %s %d %d' % (t, m, n) for t in ('bool', 'char', 'uchar', 'int', 'size_t', 'double')
            for m, n in ((2, 1), (1, 2), (0, 0), (3, 3), (0, 1))]
    errs += ['err-vector uint64 2 1', 'err-vector double 2 2', 'err-vector double 1 0', 'err-matrix uint64 2 2',
             'err-matrix char 1 3', 'err-string']
    inp = '\n'.join([cmd_line(c) for c in cmds] + errs) + '\n'
    p = subprocess.run([exe], input=inp, capture_output=True, text=True, timeout=600)
    lines = p.stdout.split('\n')
    model = common.Model()
    shown = 0
    known_nul = False
    try:
        for c, line in zip(cmds, lines):
            t, a = c
            ans = model.ask('mx', [t] + [str(x) for x in a])
            rep.hit('%s/%s' % (t, common.sha(repr(a))[:12]), True)
            if not ans.startswith('ok '):
                raise RuntimeError('mx: %s on %r' % (ans[:100], c))
            head, val = expect_line(c, ans)
            exp = head + ' | ' + val
            if line != exp:
                if shown < 3:
                    shown += 1
                    rep.violation({'kind': 'counterexample', 'what': 'matlab.h conversion differs from Runtime/Mx.v',
                                   'command': cmd_line(c)[:500], 'impl': line[:1500], 'model': exp[:1500]})
                continue
            # the property itself on this value: round trip
            if t == 'string':
                ok = val == 's' + ''.join('%02x' % b for b in a)
                if not ok and 0 in a:
                    rep.bump('known:string-nul')
                    known_nul = True
                    continue
            elif t == 'matrix':
                ok = val == '%d %d%s' % (a[0], a[1], ''.join(' %016x' % x for x in a[2:]))
            elif t == 'vector':
                ok = val == '%d%s' % (len(a), ''.join(' %016x' % x for x in a))
            elif t == 'double':
                ok = val == '%016x' % a[0]
            else:
                ok = val == str(a[0])
            if ok:
                rep.bump('roundtrip_' + t)
            elif shown < 3:
                shown += 1
                rep.violation({'kind': 'counterexample', 'what': 'value does not survive wrap/unwrap', 'command': cmd_line(c)[:500],
                               'impl': line[:1500]})
        for e, line in zip(errs, lines[len(cmds):]):
            rep.hit('err/' + e, True)
            if not line.startswith('ERROR'):
                if shown < 3:
                    shown += 1
                    rep.violation({'kind': 'counterexample', 'what': 'an ill-typed array is converted instead of rejected',
                                   'command': e, 'impl': line})
            else:
                rep.bump('error_cases_raise')
        if known_nul:
            rep.known('C18-string-nul: wrap<string> goes through mxCreateString(value.c_str()): a string with an embedded NUL '
                      'byte is cut at the NUL [witness: the 3-byte string 61 00 62 comes back as 61]')
        handles(rep, tier, seed, replay)
        rep.sample({'command': 'int -2147483648', 'array': '15 1 1 0000000080000000', 'unwrapped': -2147483648})
    finally:
        model.close()
    return 0

"""seedtool.py verify <seed-dir>         : confirm in a scratch worktree that the seeded change passes the
                                           test-suite, fails its demo, and that the demo passes on HEAD
   seedtool.py detect <seed-dir> <ids>   : apply to /repo, run the quick checks of <ids>, revert; print verdicts"""
import glob
import json
import os
import subprocess
import sys

V = os.path.dirname(os.path.dirname(os.path.abspath(__file__)))
REPO = os.environ.get('VERIF_REPO', '/repo')


def sh(cmd, cwd=None, env=None, timeout=3000):
    e = dict(os.environ)
    if env:
        e.update(env)
    p = subprocess.run(cmd, shell=True, cwd=cwd, env=e, capture_output=True, text=True, timeout=timeout)
    out = '\n'.join(l for l in (p.stdout + p.stderr).split('\n') if not l.startswith('WARNING'))
    return p.returncode, out


def demo_cmd(d):
    if os.path.exists(os.path.join(d, 'demo.py')):
        return '/venv/bin/python %s/demo.py' % d
    return 'bash %s/demo.sh' % d


def verify(d):
    d = os.path.abspath(d)
    wt = '/tmp/seedverify_%d' % os.getpid()
    sh('git -C %s ' % REPO + 'worktree add -q --detach %s HEAD' % wt)
    res = {}
    try:
        # the matlab template is untracked in a fresh worktree; the tests create it themselves
        env = {'WRAP_TREE': wt, 'PYTHONPATH': wt}
        rc, out = sh(demo_cmd(d), cwd=wt, env=env)
        res['demo_on_head'] = 'PASS' if rc == 0 else 'FAIL(rc=%d) %s' % (rc, out[-300:])
        rc, out = sh('git apply %s/patch.diff' % d, cwd=wt)
        res['apply'] = rc == 0 or out
        rc, out = sh('/venv/bin/python -m pytest tests -q -p no:cacheprovider -x 2>&1 | tail -3', cwd=wt, env=env)
        res['tests_with_change'] = out.strip().split('\n')[-1]
        rc, out = sh(demo_cmd(d), cwd=wt, env=env)
        res['demo_with_change'] = 'FAIL(rc=%d)' % rc if rc != 0 else 'PASS'
        res['demo_output_tail'] = out.strip()[-400:]
    finally:
        sh('git -C %s ' % REPO + 'worktree remove --force %s' % wt)
    print(json.dumps(res, indent=1))
    return res


def detect(d, ids, tier='quick'):
    d = os.path.abspath(d)
    rc, out = sh('git -C %s ' % REPO + 'status --porcelain')
    if out.strip():
        print('REFUSING: /repo is not clean:\n' + out)
        return None
    verdicts = {}
    try:
        rc, out = sh('git -C %s ' % REPO + 'apply %s/patch.diff' % d)
        if rc != 0:
            print('patch does not apply: ' + out)
            return None
        for pid in ids:
            rc, out = sh('./check %s --tier %s' % (pid, tier), cwd=V)
            v = [l for l in out.split('\n') if l.startswith('VIOLATION')]
            verdicts[pid] = {'exit': rc, 'violations': v[:3]}
            for l in v[:1]:
                path = l.split('replay=')[1].split()[0]
                try:
                    r = json.load(open(path))
                    verdicts[pid]['replay_kind'] = r.get('kind')
                    verdicts[pid]['replay_input'] = (r.get('input') or '')[:300]
                except Exception:
                    pass
    finally:
        sh('git -C %s ' % REPO + 'checkout -- .')
        sh('git -C %s ' % REPO + 'clean -fdq -- gtwrap scripts')
    print(json.dumps(verdicts, indent=1))
    return verdicts


if __name__ == '__main__':
    if sys.argv[1] == 'verify':
        verify(sys.argv[2])
    else:
        detect(sys.argv[2], sys.argv[3:])

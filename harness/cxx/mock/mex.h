/* Mock of the MATLAB MEX C API, sufficient for gtwrap's matlab.h and generated gateways.
   Arrays are heap objects with class id, dimensions and zero-initialised data; allocation is tracked. */
#ifndef VERIF_MOCK_MEX_H
#define VERIF_MOCK_MEX_H
#include <stddef.h>
#include <stdint.h>
#ifdef __cplusplus
#include <memory>
extern "C" {
#endif

typedef size_t mwSize;
typedef int32_t int32_T;
typedef uint16_t mxChar;
typedef enum { mxUNKNOWN_CLASS = 0, mxCELL_CLASS, mxSTRUCT_CLASS, mxLOGICAL_CLASS, mxCHAR_CLASS, mxVOID_CLASS,
               mxDOUBLE_CLASS, mxSINGLE_CLASS, mxINT8_CLASS, mxUINT8_CLASS, mxINT16_CLASS, mxUINT16_CLASS,
               mxINT32_CLASS, mxUINT32_CLASS, mxINT64_CLASS, mxUINT64_CLASS, mxFUNCTION_CLASS, mxOBJECT_CLASS } mxClassID;
typedef enum { mxREAL = 0, mxCOMPLEX } mxComplexity;
typedef struct mxArray_tag mxArray;

mxArray *mxCreateNumericArray(mwSize ndim, const mwSize *dims, mxClassID classid, mxComplexity flag);
mxArray *mxCreateNumericMatrix(mwSize m, mwSize n, mxClassID classid, mxComplexity flag);
mxArray *mxCreateDoubleMatrix(mwSize m, mwSize n, mxComplexity flag);
mxArray *mxCreateDoubleScalar(double value);
mxArray *mxCreateString(const char *str);
mxArray *mxCreateStructMatrix(mwSize m, mwSize n, int nfields, const char **fieldnames);
mxArray *mxDuplicateArray(const mxArray *a);
void mxDestroyArray(mxArray *a);
void *mxGetData(const mxArray *a);
double *mxGetPr(const mxArray *a);
double mxGetScalar(const mxArray *a);
size_t mxGetM(const mxArray *a);
size_t mxGetN(const mxArray *a);
size_t mxGetNumberOfElements(const mxArray *a);
mwSize mxGetNumberOfDimensions(const mxArray *a);
bool mxIsEmpty(const mxArray *a);
bool mxIsNumeric(const mxArray *a);
bool mxIsLogical(const mxArray *a);
mxClassID mxGetClassID(const mxArray *a);
bool mxIsDouble(const mxArray *a);
bool mxIsComplex(const mxArray *a);
bool mxIsChar(const mxArray *a);
char *mxArrayToString(const mxArray *a);
int mxGetString(const mxArray *a, char *buf, mwSize buflen);
void mxFree(void *p);
int mxAddField(mxArray *s, const char *fieldname);
void mxSetFieldByNumber(mxArray *s, mwSize index, int fieldnumber, mxArray *value);
mxArray *mxGetField(const mxArray *s, mwSize index, const char *fieldname);
mxArray *mxGetProperty(const mxArray *obj, mwSize index, const char *propname);

void mexErrMsgIdAndTxt(const char *id, const char *msg, ...);
void mexErrMsgTxt(const char *msg);
int mexPrintf(const char *fmt, ...);
int mexAtExit(void (*fn)(void));
const mxArray *mexGetVariablePtr(const char *workspace, const char *name);
mxArray *mexGetVariable(const char *workspace, const char *name);
int mexPutVariable(const char *workspace, const char *name, const mxArray *value);
int mexCallMATLAB(int nlhs, mxArray *plhs[], int nrhs, mxArray *prhs[], const char *name);

#ifdef __cplusplus
}
#endif
#endif

"""C19 - parsing cost stays polynomial in nesting depth and file size.

Measured in fresh interpreter processes, with gtwrap.interface_parser imported as it is and
ParserElement._parseNoCache wrapped by a counter (installed from the harness, nothing in /repo changes):
  * input families scaled in namespace depth (plain headers and headers with comments), template-argument depth (argument,
    return type, class member, typedef, base class), number of declarations, argument-list length - and mixes;
  * each family member is parsed as the SECOND and THIRD file of a process as well as the first (memoisation must survive);
  * evaluation count per parse, number of distinct (expression, position, flags) keys, CPU time.
Decisions: the distinct keys respect the proved key-space bound 4 * nodes * (n + 1); doubling the size multiplies the
evaluation count by at most 6 (degree <= 2.6: quadratic because of the 128-entry FIFO table, see Props/C19.v) - an
exponential family shows ratios that grow without bound; the largest members parse within the time limit."""
import json
import os
import subprocess
import sys

import common

TRUSTED = ['evaluation counter installed by wrapping pyparsing.ParserElement._parseNoCache in the measuring process',
           'time.process_time of the sandbox (secondary signal only)']

PROBE = r'''
import json, sys, time
sys.setrecursionlimit(50000)   # the counting wrapper adds one Python frame per element: without this the probe itself
                               # hits the interpreter's 1000-frame limit at template depth 48 (the limit is a C01 finding)
import pyparsing as pp
import gtwrap.interface_parser as ip
from collections import Counter
calls = Counter(); total = [0]
orig = pp.ParserElement._parseNoCache
def hooked(self, instring, loc, doActions=True, callPreParse=True):
    total[0] += 1
    calls[(id(self), loc, doActions, callPreParse)] += 1
    return orig(self, instring, loc, doActions, callPreParse)
pp.ParserElement._parseNoCache = hooked
seen = set()
def walk(e):
    if id(e) in seen: return
    seen.add(id(e))
    subs = getattr(e, 'exprs', None)
    if subs is None:
        x = getattr(e, 'expr', None); subs = [x] if x is not None else []
    for s in subs: walk(s)
    for s in e.ignoreExprs: walk(s)
walk(ip.Module.rule)
texts = json.load(sys.stdin)
out = {'nodes': len(seen), 'packrat_before': bool(pp.ParserElement._packratEnabled), 'runs': []}
for t in texts:
    calls.clear(); total[0] = 0
    t0 = time.process_time()
    try:
        ip.Module.parseString(t); ok = True
    except Exception as e:
        ok = type(e).__name__
    dt = time.process_time() - t0
    ids = {k[0] for k in calls}
    out['runs'].append({'n': len(t), 'ok': ok, 'calls': total[0], 'distinct': len(calls), 'elements': len(ids), 'cpu': round(dt, 3),
                        'packrat_after': bool(pp.ParserElement._packratEnabled)})
    print(json.dumps(out['runs'][-1]), file=sys.stderr)
json.dump(out, sys.stdout)
'''


def t_nest(d, leaf='A'):
    s = leaf
    for i in range(d):
        s = 'B%d<%s>' % (i, s)
    return s


FAMILIES = {
    'namespace_depth': lambda d: ''.join('namespace n%d {' % i for i in range(d)) + ' class C { C(); }; ' + '}' * d,
    'namespace_depth_commented_headers': lambda d: ''.join('namespace /* a */ n%d // doc\n// more doc\n{\n' % i for i in range(d))
                                                 + ' class C { C(); }; ' + '}\n' * d,
    'namespace_depth_with_content': lambda d: ''.join('namespace n%d { void f%d(int x); class K%d {}; ' % (i, i, i) for i in range(d)) + '}' * d,
    'template_arg_depth_argument': lambda d: 'void f(%s x);' % t_nest(d),
    'template_arg_depth_return': lambda d: '%s f();' % t_nest(d),
    'template_arg_depth_member': lambda d: 'class K { %s g(const %s& a) const; %s prop; };' % (t_nest(d), t_nest(d), t_nest(d)),
    'template_arg_depth_typedef_base': lambda d: 'typedef %s T; class K : %s {};' % (t_nest(d), t_nest(d)),
    'template_arg_breadth_and_depth': lambda d: 'void f(%s x);' % t_nest(d // 2, 'P<' + ', '.join(t_nest(2, 'X%d' % i) for i in range(d)) + '>'),
    'declarations': lambda d: ''.join('class C%d { C%d(); void f(int a, double b) const; static C%d Make(); };\n' % (i, i, i) for i in range(4 * d)),
    'argument_list': lambda d: 'void f(%s);' % ', '.join('const T%d& a%d = %d' % (i, i, i) for i in range(4 * d)),
    # file / expression length: one default value whose leading qualified name grows (a scanner that backtracks over the
    # splits of that run is exponential in its length, whatever the nesting depth)
    'default_expression_length': lambda d: 'void f(const T& a = %s::Sigma(3, 1.0), int n = %s::kMax);'
                                 % ('::'.join('ns%d' % i for i in range(2 * d)), '::'.join('q%d' % i for i in range(2 * d))),
    'template_and_namespace_depth': lambda d: ''.join('namespace n%d {' % i for i in range(d)) + ' %s f(%s x); ' % (t_nest(d), t_nest(d)) + '}' * d,
}


def measure(texts, limit):
    env = dict(os.environ, PYTHONPATH=common.REPO, PYTHONHASHSEED='0')
    try:
        p = subprocess.run(['/venv/bin/python', '-c', PROBE], input=json.dumps(texts), capture_output=True, text=True, env=env,
                           timeout=limit)
    except subprocess.TimeoutExpired as e:
        done = [json.loads(l) for l in (e.stderr or b'').decode('utf-8', 'replace').split('\n') if l.startswith('{')]
        return {'timeout': True, 'runs': done}
    if p.returncode != 0:
        return {'error': p.stderr[-800:]}
    return json.loads(p.stdout)


def run(rep, tier, seed, replay=None, proof_ok=True):
    rep.coverage['rule'] = __doc__.split('\n\n', 1)[1][:1500]
    rep.assumptions += TRUSTED
    sizes = [3, 6, 12] if tier == 'quick' else [3, 6, 12, 24, 48]
    limit = 90 if tier == 'quick' else 1800
    table = {}
    shown = 0
    for fam, gen in FAMILIES.items():
        if len(rep.violations) >= 3:
            break          # already decided; an exponential family costs its whole time limit
        texts = [gen(d) for d in sizes]
        # each process parses: a small warm-up file, then the family in increasing size (so every member but the first
        # is a second-or-later parse of its process)
        res = measure(['class W { W(); };'] + texts, limit)
        rep.hit(fam, True)
        if 'error' in res:
            rep.violation({'kind': 'harness-error', 'what': 'measurement process failed', 'family': fam, 'stderr': res['error']}, no_input=True)
            continue
        runs = res['runs'][1:]
        if res.get('timeout') or len(runs) < len(sizes):
            d = sizes[len(runs)] if len(runs) < len(sizes) else sizes[-1]
            rep.violation({'kind': 'counterexample', 'what': 'parsing does not finish within %d s (family %s, size %d, %d characters)'
                           % (limit, fam, d, len(gen(d))), 'input': gen(d), 'measured_before': runs})
            continue
        table[fam] = [{'size': d, **r} for d, r in zip(sizes, runs)]
        bad = None
        for d, r in zip(sizes, runs):
            if r['ok'] is not True:
                bad = ('family member rejected (%s): generator artefact' % r['ok'], d)
                break
            if not r['packrat_after'] or not res['packrat_before']:
                bad = ('memoisation is switched off during the run of one process', d)
                break
            if r['distinct'] > 4 * res['nodes'] * (r['n'] + 1):
                bad = ('more distinct evaluation keys (%d) than the key space 4 * %d * (%d + 1)' % (r['distinct'], res['nodes'], r['n']), d)
                break
        if bad is None:
            for (d1, a), (d2, b) in zip(zip(sizes, runs), list(zip(sizes, runs))[1:]):
                ratio = b['calls'] / max(1, a['calls'])
                rep.bump('ratio_checked')
                if ratio > 6.0:
                    bad = ('evaluation count grows by x%.1f when the size doubles (%d -> %d evaluations for size %d -> %d): more than '
                           'any polynomial of degree 2.6' % (ratio, a['calls'], b['calls'], d1, d2), d2)
                    break
            last = runs[-1]
            if bad is None and last['cpu'] > (20 if tier == 'quick' else 120):
                bad = ('%d characters take %.1f s of CPU' % (last['n'], last['cpu']), sizes[-1])
        if bad:
            if shown < 4:
                shown += 1
                rep.violation({'kind': 'counterexample', 'what': bad[0], 'family': fam, 'size': bad[1], 'input': gen(bad[1]),
                               'measurements': table[fam]})
        else:
            rep.bump('families_polynomial')
    rep.coverage['measurements'] = table
    rep.sample({'family': 'namespace_depth', 'input': FAMILIES['namespace_depth'](3)})
    return 0

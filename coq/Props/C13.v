(* C13 - instantiations are independent of each other and of parameter spelling. *)
From Coq Require Import String Ascii List Bool Arith.
From Wrap Require Import Base.Str Base.ListX Syntax.Ast Syntax.Print Inst.Model Inst.Subst Inst.SubstProofs Inst.ClassProofs Inst.ProductProofs Props.C02.
Import ListNotations.
Open Scope string_scope.
Open Scope list_scope.

(* the instantiation for one tuple of arguments does not depend on the lists it was drawn from:
   template<T={A,B}> gives for A exactly what template<T={A}> gives *)
Theorem C13_subset_class : forall q home c ls ls' ci,
  inst_class q home (class_with_lists c ls) ci "" = inst_class q home (class_with_lists c ls') ci "".
Proof. intros. rewrite !inst_class_lists_irrelevant. reflexivity. Qed.
Print Assumptions C13_subset_class.

Theorem C13_subset_function : forall q home f ls ls' fi,
  inst_func q home (func_with_lists f ls) fi "" = inst_func q home (func_with_lists f ls') fi "".
Proof. intros. rewrite !inst_func_lists_irrelevant. reflexivity. Qed.
Print Assumptions C13_subset_function.

(* ... and the list of instantiations is the pointwise image of the product, so permuting or
   repeating requests permutes or repeats results and changes none of them *)
Theorem C13_pointwise : forall q home c ls,
  map (fun ci => IClass (inst_class q home (class_with_lists c ls) ci "")) (cartesian ls)
  = map (fun ci => IClass (inst_class q home c ci "")) (cartesian ls).
Proof. exact class_items_pointwise. Qed.
Print Assumptions C13_pointwise.

(* alpha-renaming.  Full statement (for the printed C++ types): renaming a parameter to an unused
   identifier changes nothing.  Refuted while the scoped rewrite is a substring replacement:
   T::Value with T:=A is A::Value, but after renaming T to al it is A::VAue. *)
Definition plain (ns : list string) (n : string) := TPlain (Typename ns (NStr n) []) false PNone false.
Definition tA := Typename [] (NStr "A") [].
Theorem C13_refuted_alpha : forall q, q_scoped_substring q = true -> q_first_level_only q = true ->
  ty_cpp (inst_type q ["T"] [tA] None None (plain ["T"] "Value")) = "A::Value" /\
  ty_cpp (inst_type q ["al"] [tA] None None (plain ["al"] "Value")) = "A::VAue".
Proof. intros [qa qb qc qd] Hq Hd. cbn in Hq, Hd. subst qb qd. vm_compute. split; reflexivity. Qed.
Print Assumptions C13_refuted_alpha.

(* on the domain of C02 the result is the substitution, which mentions parameters only through
   sigma: two spellings with the same sigma on the occurrences give the same C++ types *)
Theorem C13_alpha_partial : forall q tn1 tn2 insts cpp icls this_cpp t1 t2,
  length tn1 = length insts -> length tn2 = length insts ->
  C02.this_ok cpp icls this_cpp ->
  dom_q q tn1 insts t1 = true -> dom_q q tn2 insts t2 = true ->
  subst_cpp tn1 insts this_cpp t1 = subst_cpp tn2 insts this_cpp t2 ->
  ty_cpp (inst_type q tn1 insts cpp icls t1) = ty_cpp (inst_type q tn2 insts cpp icls t2).
Proof.
  intros q tn1 tn2 insts cpp icls this_cpp t1 t2 L1 L2 Ht D1 D2 E.
  rewrite (inst_type_refines_q q tn1 insts cpp icls this_cpp L1 Ht t1 D1).
  rewrite (inst_type_refines_q q tn2 insts cpp icls this_cpp L2 Ht t2 D2).
  exact E.
Qed.
Print Assumptions C13_alpha_partial.

#!/bin/bash
# MANIFEST.setup_cmd: build the Coq development (full .vo) and the extracted model binary, offline.
set -e
cd "$(dirname "$0")"
export PYTHONPATH=${VERIF_REPO:-/repo}:$(pwd)/harness PYTHONHASHSEED=0
mkdir -p _build/ocaml _build/logs evidence replays coq/gen
if [ -f harness/translate.py ]; then /venv/bin/python harness/translate.py 2>&1 | grep -v '^WARNING' || true; fi
cd coq
coq_makefile -f _CoqProject -o Makefile 2>&1 | grep -v '^WARNING' || true
timeout 3000 make -j16 2>&1 | grep -v '^WARNING' | grep -v 'Closed under the global context' | tail -20
cd ..
/venv/bin/python - <<'PY'
import sys
sys.path.insert(0, 'harness')
import build
ok, out = build.model_binary()
print('model binary:', out if ok else 'FAILED\n' + out)
sys.exit(0 if ok else 1)
PY

(* C05: call-site ids, case labels and routines of the MATLAB wrapper model agree. *)
From Coq Require Import String Ascii List Bool Arith Lia Permutation.
From Wrap Require Import Base.Str Base.ListX Syntax.Ast Syntax.Print Inst.Model Inst.Proj Matlab.Ids.
Import ListNotations.
Open Scope string_scope.
Open Scope list_scope.

Section Proofs.
  (* strong induction on the length *)
  Lemma slots_ind : forall (P : list (option slot) -> Prop),
    P [] ->
    (forall s r, P r -> P (Some s :: r)) ->
    (forall s r, P r -> P (None :: Some s :: r)) ->
    (forall r, match r with Some _ :: _ => False | _ => True end -> P r -> P (None :: r)) ->
    forall l, P l.
  Proof.
    intros P H0 HS HNS HN l.
    assert (H : forall n l, length l <= n -> P l).
    { induction n as [|n IH]; intros l0 Hl.
      - destruct l0; [exact H0 | cbn in Hl; lia].
      - destruct l0 as [|[s|] r]; [exact H0 | apply HS; apply IH; cbn in Hl; lia |].
        destruct r as [|[s|] r'].
        + apply HN; [exact I | exact H0].
        + apply HNS. apply IH. cbn in Hl. lia.
        + apply HN; [exact I | apply IH; cbn in *; lia]. }
    apply (H (length l)). lia.
  Qed.

  Lemma table_ids : forall l i, wf_slots l = true -> map id_of (table_from i l) = seq i (length l).
  Proof.
    induction l as [|s r IH|s r IH|r Hr IH] using slots_ind; intros i Hwf.
    - reflexivity.
    - cbn [table_from map id_of fst length seq]. f_equal. apply IH. exact Hwf.
    - cbn [table_from map id_of fst length seq]. f_equal. f_equal. apply IH. exact Hwf.
    - destruct r as [|[s|] r']; [discriminate | destruct Hr | discriminate].
  Qed.

  Lemma map_names_length : forall l i, length (map_names_from i l) = length l.
  Proof.
    induction l as [|s r IH|s r IH|r Hr IH] using slots_ind; intros i.
    - reflexivity.
    - cbn [map_names_from length]. rewrite IH. reflexivity.
    - cbn [map_names_from length]. rewrite IH. reflexivity.
    - destruct r as [|[s|] r']; [reflexivity | destruct Hr |].
      cbn [map_names_from length] in *. rewrite IH. reflexivity.
  Qed.

  (* the switch: exactly the table's (id, callee) pairs, in id order *)
  Theorem cases_table : forall l i, wf_slots l = true ->
    cases_from i l (map_names_from i l) None = map (fun e => (id_of e, name_of e)) (table_from i l).
  Proof.
    induction l as [|s r IH|s r IH|r Hr IH] using slots_ind; intros i Hwf.
    - reflexivity.
    - cbn [map_names_from cases_from table_from map id_of name_of fst snd]. f_equal. apply IH. exact Hwf.
    - cbn [map_names_from]. cbn [cases_from]. cbn [table_from map id_of name_of fst snd]. f_equal.
      (* second step: the collector entry handled with next_case = the up-cast routine *)
      destruct r as [|o r'].
      + cbn [map_names_from cases_from table_from map]. reflexivity.
      + cbn [wf_slots] in Hwf.
        change (map_names_from (S i) (Some s :: o :: r'))
          with (Some (routine_base s ++ "_" ++ nat_dec i)%string :: map_names_from (S (S i)) (o :: r')).
        cbn [cases_from]. f_equal. apply IH. exact Hwf.
    - destruct r as [|[s|] r']; [discriminate | destruct Hr | discriminate].
  Qed.

  (* the routines: exactly the table's (name, what) pairs, in order *)
  Theorem routines_table : forall l i, wf_slots l = true ->
    routines_from i l (map_names_from i l) false = map (fun e => (name_of e, what_of e)) (table_from i l).
  Proof.
    induction l as [|s r IH|s r IH|r Hr IH] using slots_ind; intros i Hwf.
    - reflexivity.
    - cbn [map_names_from routines_from table_from map name_of what_of fst snd app]. f_equal. apply IH. exact Hwf.
    - cbn [map_names_from]. cbn [routines_from].
      destruct r as [|o r'].
      + cbn [map_names_from routines_from table_from map name_of what_of fst snd app]. reflexivity.
      + cbn [wf_slots] in Hwf.
        change (map_names_from (S i) (Some s :: o :: r'))
          with (Some (routine_base s ++ "_" ++ nat_dec i)%string :: map_names_from (S (S i)) (o :: r')).
        cbn [routines_from table_from map name_of what_of fst snd app]. f_equal. f_equal. apply IH. exact Hwf.
    - destruct r as [|[s|] r']; [discriminate | destruct Hr | discriminate].
  Qed.

  (* the call sites written into the .m files: the table's (id, what) pairs, each exactly once *)
  Theorem call_sites_table : forall l i, wf_slots l = true ->
    Permutation (call_sites_from i l) (map (fun e => (id_of e, what_of e)) (table_from i l)).
  Proof.
    induction l as [|s r IH|s r IH|r Hr IH] using slots_ind; intros i Hwf.
    - constructor.
    - cbn [call_sites_from table_from map id_of what_of fst snd]. constructor. apply IH. exact Hwf.
    - cbn [call_sites_from table_from map id_of what_of fst snd].
      eapply Permutation_trans; [apply perm_swap|]. constructor. constructor. apply IH. exact Hwf.
    - destruct r as [|[s|] r']; [discriminate | destruct Hr | discriminate].
  Qed.
End Proofs.

(* ---- the walk only produces well-formed slot lists ---- *)
Lemma wf_app : forall a b, wf_slots a = true -> wf_slots b = true -> wf_slots (a ++ b) = true.
Proof.
  induction a as [|s r IH|s r IH|r Hr IH] using slots_ind; intros b Ha Hb.
  - exact Hb.
  - cbn [app wf_slots] in *. apply IH; assumption.
  - cbn [app wf_slots] in *. apply IH; assumption.
  - destruct r as [|[s|] r']; [discriminate | destruct Hr | discriminate].
Qed.

Lemma wf_all_some : forall l : list (option slot), (forall x, In x l -> x <> None) -> wf_slots l = true.
Proof.
  induction l as [|[s|] r IH]; intros H; [reflexivity | |].
  - cbn [wf_slots]. apply IH. intros x Hx. apply H. right. exact Hx.
  - exfalso. apply (H None); [left; reflexivity | reflexivity].
Qed.

Lemma wf_map_some : forall (A : Type) (f : A -> slot) (l : list A), wf_slots (map (fun x => Some (f x)) l) = true.
Proof. intros. induction l; [reflexivity | cbn [map wf_slots]; assumption]. Qed.

Lemma wf_mapi_some : forall (A : Type) (f : nat -> A -> slot) (l : list A),
  wf_slots (mapi (fun i x => Some (f i x)) l) = true.
Proof.
  intros A f l. unfold mapi. generalize 0 as k. induction l as [|x r IH]; intros k; [reflexivity|].
  cbn [mapi_aux wf_slots]. apply IH.
Qed.

Lemma wf_flat_map : forall (A : Type) (f : A -> list (option slot)) (l : list A),
  (forall x, wf_slots (f x) = true) -> wf_slots (flat_map f l) = true.
Proof.
  intros A f l H. induction l as [|x r IH]; [reflexivity|]. cbn [flat_map]. apply wf_app; [apply H | exact IH].
Qed.

Lemma wf_concat : forall (l : list (list (option slot))), Forall (fun x => wf_slots x = true) l -> wf_slots (concat l) = true.
Proof.
  intros l H. induction H as [|x r Hx Hr IH]; [reflexivity|]. cbn [concat]. apply wf_app; assumption.
Qed.

Section Walk.
  Variable c : mcfg.
  Variable top : list item.

  Lemma class_slots_wf : forall home k l, class_slots c top home k = Some l -> wf_slots l = true.
  Proof.
    intros home k l H. unfold class_slots in H.
    destruct (sequence _) as [ctors|] eqn:Ec; [|discriminate].
    destruct (grouped im_name im_args _) as [mg|]; [|discriminate].
    destruct (grouped is_name is_args _) as [sg|]; [|discriminate].
    inversion H; subst. clear H.
    assert (Hrest : forall rest, wf_slots rest = true ->
              forall coll : slot, wf_slots (((if ic_virtual k then [None] else []) ++ [Some coll]) ++ rest) = true).
    { intros rest Hr coll. destruct (ic_virtual k); cbn [app wf_slots]; exact Hr. }
    apply Hrest. clear Hrest.
    apply wf_app.
    - (* ctors *)
      apply wf_concat.
      clear - Ec. revert ctors Ec. induction (ic_ctors k) as [|x r IH]; intros ctors Ec.
      + cbn in Ec. inversion Ec. constructor.
      + cbn [map sequence] in Ec.
        destruct (expand_defaults (ik_args x)) as [ovs|]; [|discriminate]. cbn [option_map] in Ec.
        destruct (sequence _) as [rest|] eqn:Er; [|discriminate]. inversion Ec; subst.
        constructor; [apply wf_map_some | apply IH; reflexivity].
    - cbn [app wf_slots].
      apply wf_app.
      + apply wf_flat_map. intros g.
        repeat match goal with
               | |- context [if ?b then _ else _] => destruct b
               end; try reflexivity; apply wf_map_some.
      + apply wf_app.
        * apply wf_flat_map. intros v. reflexivity.
        * apply wf_app.
          -- apply wf_flat_map. intros g.
             repeat match goal with
                    | |- context [if ?b then _ else _] => destruct b
                    end; try reflexivity; apply wf_map_some.
          -- repeat match goal with
                    | |- context [if ?b then _ else _] => destruct b
                    end; reflexivity.
  Qed.

  Lemma function_slots_wf : forall parent home funs l, function_slots parent home funs = Some l -> wf_slots l = true.
  Proof.
    intros parent home funs l H. unfold function_slots in H.
    destruct (grouped if_name if_args funs) as [groups|]; [|discriminate]. inversion H; subst.
    apply wf_flat_map. intros g. apply wf_mapi_some.
  Qed.

  Lemma app_opt_wf : forall a b l, app_opt a b = Some l ->
    (forall x, a = Some x -> wf_slots x = true) -> (forall y, b = Some y -> wf_slots y = true) -> wf_slots l = true.
  Proof.
    intros a b l H Ha Hb. destruct a as [x|]; [|discriminate]. destruct b as [y|]; [|discriminate].
    inversion H; subst. apply wf_app; [apply Ha | apply Hb]; reflexivity.
  Qed.
End Walk.

From Wrap Require Import Pybind.SpecProofs.

Section Module.
  Variable c : mcfg.
  Variable top : list item.

  Lemma item_slots_wf : forall i home l, item_slots c top home i = Some l -> wf_slots l = true.
  Proof.
    induction i as [k|f|d|f|h|e|v|n content IH] using item_ind'; intros home l H; cbn [item_slots] in H;
      try (inversion H; reflexivity).
    - destruct (ignored c k).
      + destruct home; [discriminate | inversion H; reflexivity].
      + apply (class_slots_wf c top home k l H).
    - eapply app_opt_wf; [exact H | | intros y Hy; apply (function_slots_wf _ _ _ _ Hy)].
      intros x Hx. clear H.
      revert x Hx. induction content as [|a r IHr]; intros x Hx.
      + inversion Hx. reflexivity.
      + inversion IH as [|? ? Pa Pr]; subst.
        eapply app_opt_wf; [exact Hx | intros y Hy; apply (Pa _ _ Hy) | intros y Hy; apply (IHr Pr _ Hy)].
  Qed.

  Theorem module_slots_wf : forall content l, module_slots c top content = Some l -> wf_slots l = true.
  Proof.
    intros content l H. unfold module_slots in H.
    eapply app_opt_wf; [exact H | | intros y Hy; apply (function_slots_wf _ _ _ _ Hy)].
    intros x Hx. clear H. revert x Hx.
    induction content as [|a r IHr]; intros x Hx; cbn [fold_right] in Hx.
    - inversion Hx. reflexivity.
    - eapply app_opt_wf; [exact Hx | intros y Hy; apply (item_slots_wf _ _ _ Hy) | intros y Hy; apply (IHr _ Hy)].
  Qed.

  (* the three emitters agree: one table *)
  Theorem dispatch_table : forall content l, module_slots c top content = Some l ->
    let t := table_from 0 l in
    map id_of t = seq 0 (length l) /\
    cases l = map (fun e => (id_of e, name_of e)) t /\
    routines l = map (fun e => (name_of e, what_of e)) t /\
    Permutation (call_sites l) (map (fun e => (id_of e, what_of e)) t).
  Proof.
    intros content l H t. pose proof (module_slots_wf _ _ H) as Hwf.
    repeat split.
    - apply table_ids. exact Hwf.
    - apply cases_table. exact Hwf.
    - apply routines_table. exact Hwf.
    - apply call_sites_table. exact Hwf.
  Qed.
End Module.

#pragma once
#include <gtsam/base/Vector.h>
namespace gtsam {
// distinct type convertible from / to Vector, as Eigen fixed-size vectors are
class Point2 {
 public:
  Point2() : v_(2) {}
  Point2(const Vector &v) : v_(v) {}
  operator Vector() const { return v_; }
  int size() const { return v_.size(); }
  double operator()(int i) const { return v_(i); }
 private:
  Vector v_;
};
}

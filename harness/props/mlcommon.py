"""Shared machinery of the MATLAB-generator properties (C05, C06, C10, C15m, C16m)."""
import glob
import hashlib
import os
import random
import re
import shutil
import tempfile

import common
import dump
import gen_inputs as G
import sexp

import gtwrap.interface_parser as parser
import gtwrap.template_instantiator as inst

TPL_PATH = common.REPO + '/gtwrap/matlab_wrapper/matlab_wrapper.tpl'
TPL_TEXT = "#include <gtwrap/matlab.h>\n#include <map>\n"


def ensure_tpl():
    """the template is git-ignored and configured by CMake; the test-suite writes exactly this content"""
    if not os.path.exists(TPL_PATH):
        with open(TPL_PATH, 'w', encoding='UTF-8') as f:
            f.write(TPL_TEXT)


def scratch_root():
    d = os.path.join(common.BUILD, 'tmp.%d' % os.getpid())
    os.makedirs(d, exist_ok=True)
    return d


def read_tree(root):
    out = {}
    for dp, dn, fn in os.walk(root):
        for f in fn:
            p = os.path.join(dp, f)
            with open(p, 'r', errors='surrogateescape') as fh:
                out[os.path.relpath(p, root)] = fh.read()
    return out


def impl_matlab(texts, module_name='mod', ignore=(), boost=False, top=''):
    """run MatlabWrapper.wrap on the given file contents in a scratch directory.
    returns ('ok', {relpath: content}) | (kind, msg)"""
    ensure_tpl()
    from gtwrap.matlab_wrapper import MatlabWrapper
    d = tempfile.mkdtemp(dir=scratch_root())
    try:
        files = []
        for i, t in enumerate(texts):
            p = os.path.join(d, 'in%d.i' % i)
            with open(p, 'w') as f:
                f.write(t)
            files.append(p)
        out = os.path.join(d, 'out')
        os.makedirs(out)
        try:
            w = MatlabWrapper(module_name=module_name, top_module_namespace=top, ignore_classes=list(ignore),
                              use_boost_serialization=boost)
            w.wrap(files, path=out)
        except Exception as e:
            return (common.classify_exc(e), str(e)[:300], read_tree(out))
        return ('ok', read_tree(out))
    finally:
        shutil.rmtree(d, ignore_errors=True)


def impl_items(text):
    try:
        m = inst.instantiate_namespace(parser.Module.parseString(text))
        return ('ok', dump.items(m))
    except dump.DumpError:
        raise      # the tree no longer has the shape the model's tree type assumes: the tie is broken, never skipped
    except Exception as e:
        return (common.classify_exc(e), str(e)[:200])


# ---------------- extraction from a generated toolbox ----------------
FUNC_RE = re.compile(r'^\s*function\s+(?:(?:\[[^\]]*\]|\w+)\s*=\s*)?([\w.]+)\s*\(', re.M)


def m_call_sites(tree, module_name):
    """[(file, enclosing function, guard arity or None, id, kind-hint)] for every <module>_wrapper(<id> in the .m files"""
    out = []
    call = re.compile(re.escape(module_name) + r'_wrapper\((\d+)')
    for path, text in sorted(tree.items()):
        if not path.endswith('.m'):
            continue
        cur = None
        arity = None
        static_block = False
        for line in text.split('\n'):
            if 'methods(Static = true)' in line:
                static_block = True
            fm = FUNC_RE.match(line)
            if fm:
                cur = fm.group(1)
                arity = None
            gm = re.search(r'(?:nargin|length\(varargin\))\s*==\s*(\d+)', line)
            if gm and 'uint64(5139824614673773682)' not in line:
                arity = int(gm.group(1))
            for cm in call.finditer(line):
                hint = None
                if 'my_ptr = varargin{2}' in line:
                    hint = None
                if re.search(r'my_ptr\s*=\s*' + re.escape(module_name) + r'_wrapper\(\d+, varargin\{2\}\)', line):
                    hint = 'upcast'
                elif re.search(re.escape(module_name) + r'_wrapper\(\d+, my_ptr\)', line):
                    hint = 'collector'
                out.append((path, cur, None if hint else arity, int(cm.group(1)), hint, static_block))
    return out


def cpp_cases(cpp):
    return [(int(a), b) for a, b in re.findall(r'case (\d+):\s*\n\s*(\w+)\(nargout, out, nargin-1, in\+1\);', cpp)]


def cpp_routines(cpp):
    """[(name, body)] of the gateway routines in order"""
    out = []
    for m in re.finditer(r'^void (\w+)\(int nargout, mxArray \*out\[\], int nargin, const mxArray \*in\[\]\)\s*\n?\s*\{', cpp, re.M):
        name = m.group(1)
        if name == 'mexFunction':
            continue
        # body up to the matching brace at column 0
        end = cpp.find('\n}\n', m.end())
        out.append((name, cpp[m.end():end]))
    return out


def wrapper_cpp(tree, module_name):
    return tree.get(module_name + '_wrapper.cpp')


def gen_cases(tier, seed, n_quick, n_thorough, profile=None, tag='ml'):
    out = []
    for f in sorted(glob.glob(common.REPO + '/tests/fixtures/*.i')):
        out.append(('fixture:' + os.path.basename(f), open(f).read()))
    for f in sorted(glob.glob(os.path.join(common.VERIF, 'corpus', 'matlab', '*.i'))):
        out.append(('corpus:' + os.path.basename(f), open(f).read()))
    n = n_quick if tier == 'quick' else n_thorough
    stats = {}
    for k in range(n):
        r = random.Random('%s/%d/%d' % (tag, seed, k))
        prof = profile or G.Profile(matlab_safe=True)
        g = G.Gen(r, prof)
        m = g.module()
        if k % 3 == 0:
            # overloads of one free function that are NOT adjacent in the file (another declaration between them),
            # each with its own signature and defaults: they must still form one overload group / one .m file
            used = set()
            for d in m:
                if d:
                    used.add({'class': lambda: d[3], 'fun': lambda: d[2], 'enum': lambda: d[2], 'typedef': lambda: d[2],
                              'var': lambda: d[2], 'fwd': lambda: d[2][2]}.get(d[0], lambda: None)())
            a = ('fun', None, g.fresh(used, G.METHOD_IDS), g.ret(), g.args())
            b = ('fun', None, g.fresh(used, G.METHOD_IDS), g.ret(), g.args())
            c = ('fun', None, a[2], g.ret(), g.args())
            m = list(m)
            m.insert(r.randrange(len(m) + 1), a)
            m += [b, c]
            g.count('function_overload_not_adjacent')
        if k % 4 == 1:
            # two classes with one name in two namespaces whose LAST component is the same (a::detail::X, b::detail::X)
            nm = g.fresh(set(), G.PLAIN_IDS)
            virt = r.random() < 0.5

            def leaf(outer):
                return ('ns', outer, [('ns', 'detail', [('class', None, virt, nm, None, [('ctor', None, nm, ())])])])
            m = list(m) + [leaf('robot'), leaf('vision')]
            g.count('same_leaf_namespace_same_class')
        out.append(('gen:%d/%d' % (seed, k), G.text(G.tokens(m))))
        for a, b in g.stats.items():
            stats[a] = stats.get(a, 0) + b
    return out, stats

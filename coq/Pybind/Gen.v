(* Faithful model of PybindWrapper.wrap_namespace and friends: instantiated tree -> binding records. *)
From Coq Require Import String Ascii List Bool Arith.
From Wrap Require Import Base.Str Base.ListX Syntax.Ast Syntax.Print Inst.Model Inst.Proj Pybind.Items.
From Wrap Require gen.Tables.
Import ListNotations.
Open Scope string_scope.
Open Scope list_scope.

Definition pyargs_of (l : list arg) : list pyarg := map (fun a => (a_name a, a_default a)) l.
Definition lparams_of (l : list arg) : list lparam := map (fun a => (ty_cpp (a_ty a), a_name a)) l.

(* _gen_module_var: namespaces[len(top):] joined by "_" after "m_" *)
Definition module_var (c : cfg) (namespaces : list string) : string :=
  ("m_" ++ join "_" (skipn (length (top c)) namespaces))%string.

(* _partial_match *)
Fixpoint partial_match (a b : list string) : bool :=
  match a, b with
  | x :: a', y :: b' => andb (String.eqb x y) (partial_match a' b')
  | _, _ => true
  end.

(* _add_namespaces('', namespaces) *)
Definition add_namespaces (name : string) (namespaces : list string) : string :=
  match namespaces with
  | [] => name
  | first :: rest =>
    let l := if String.eqb first "" then rest else namespaces in
    join "::" (l ++ [name])
  end.

Definition escape_keyword (kws : list string) (n : string) : string :=
  if mem_str n kws then (n ++ "_")%string else n.

Definition drop_last2 (s : string) : string := take (String.length s - 2) s.

(* the keywords of Python 3 (keyword.kwlist of 3.7+) *)
Definition python3_keywords : list string :=
  ["False"; "None"; "True"; "and"; "as"; "assert"; "async"; "await"; "break"; "class"; "continue"; "def";
   "del"; "elif"; "else"; "except"; "finally"; "for"; "from"; "global"; "if"; "import"; "in"; "is";
   "lambda"; "nonlocal"; "not"; "or"; "pass"; "raise"; "return"; "try"; "while"; "with"; "yield"].

Section Gen.
  Variable q : pquirks.
  Variable c : cfg.
  (* docstring oracle: (cpp_class, cpp_method, arg names) -> escaped literal; None without XML *)
  Variable doc : option (string -> string -> list string -> string).

  Definition ignored (cpp_class : string) : bool := mem_str cpp_class (ignore c).

  (* the keywords that get a trailing underscore *)
  Definition kws : list string :=
    if q_keywords_table q then Tables.python_keywords else Tables.python_keywords ++ python3_keywords.

  (* _wrap_method for an instance / static method; serializing classes are returned alongside *)
  Definition wrap_method_gen (is_method : bool) (name cpp_method : string) (r : ret) (args : list arg)
             (cpp_class : string) (method_suffix : string) : list member * list string :=
    let py0 := (name ++ method_suffix)%string in
    if orb (String.eqb cpp_method "serialize") (String.eqb cpp_method "serializable") then
      if boost c then ([MSerialize cpp_class], [cpp_class]) else ([], [])
    else
      let py1 := if mem_str cpp_method Tables.ipython_special_methods
                 then ("_repr_" ++ cpp_method ++ "_")%string else py0 in
      let py2 := escape_keyword kws py1 in
      let names := arg_names args in
      let d := match doc with Some f => Some (f cpp_class cpp_method names) | None => None end in
      let is_print := String.eqb name "print" in
      let def := MDef (negb is_method) py2 (if is_method then Some cpp_class else None)
                      (lparams_of args) (negb (ret_is_void r))
                      (if is_method then "self->" else (cpp_class ++ "::")%string)
                      cpp_method names (pyargs_of args) d is_print in
      (if is_print
       then [def; MRepr cpp_class (lparams_of args) name names (pyargs_of args)]
       else [def], []).

  Definition first_is_size_t (args : list arg) : bool :=
    match args with
    | a :: _ => String.eqb (strip (ty_cpp (a_ty a))) "size_t"
    | [] => false
    end.
  Definition second_name (args : list arg) : string :=
    match args with _ :: b :: _ => strip (a_name b) | _ => "<IndexError>" end.

  Definition wrap_with_insert (is_method : bool) (name cpp_method : string) (r : ret) (args : list arg)
             (cpp_class : string) : list member * list string :=
    let extra :=
        if andb (q_values_insert q)
                (andb (String.eqb name "insert")
                      (andb (String.eqb cpp_class "gtsam::Values") (first_is_size_t args)))
        then wrap_method_gen is_method name cpp_method r args cpp_class ("_" ++ second_name args)%string
        else ([], []) in
    let main := wrap_method_gen is_method name cpp_method r args cpp_class "" in
    (fst extra ++ fst main, snd extra ++ snd main).
  Definition wrap_imethod (cpp_class : string) (m : imethod) : list member * list string :=
    wrap_with_insert true (im_name m) (imethod_cpp m) (im_ret m) (im_args m) cpp_class.
  Definition wrap_ismethod (cpp_class : string) (m : ismethod) : list member * list string :=
    wrap_with_insert false (is_name m) (ismethod_cpp m) (is_ret m) (is_args m) cpp_class.

  Definition dunder_body (d : dunder) : string :=
    if String.eqb (du_name d) "len" then "return std::distance(self->begin(), self->end());"
    else if String.eqb (du_name d) "contains" then
      ("return std::find(self->begin(), self->end(), " ++
       match du_args d with a :: _ => a_name a | [] => "<IndexError>" end ++ ") != self->end();")%string
    else if String.eqb (du_name d) "iter" then "return py::make_iterator(self->begin(), self->end());"
    else "<UnboundLocalError>".

  Definition wrap_op (cpp_class : string) (o : oper) : member :=
    if String.eqb (o_sym o) "[]" then MOp OpGetItem cpp_class
    else if String.eqb (o_sym o) "()" then MOp OpCall cpp_class
    else match o_args o with
         | [] => MOp (OpUnary (o_sym o)) cpp_class
         | _ => MOp (OpBinary (o_sym o)) cpp_class
         end.

  Definition concat_pairs {A B} (l : list (list A * list B)) : list A * list B :=
    (flat_map fst l, flat_map snd l).

  Definition class_enum (cpp_class instance : string) (e : enum) : benum :=
    {| be_module := instance; be_cpp := (cpp_class ++ "::" ++ e_name e)%string;
       be_name := e_name e; be_values := e_items e |}.

  (* wrap_instantiated_class followed by wrap_enums *)
  Definition wrap_class (k : iclass) : list bitem * list string :=
    let mv := module_var c ("" :: ic_home k) in
    let cpp := iclass_cpp k in
    let instance := lower (ic_name k) in
    let enums := map (fun e => BClassEnum (class_enum cpp instance e)) (ic_enums k) in
    if ignored cpp then (if q_ignored_enums q then enums else [], [])
    else
      let ms := concat_pairs (map (wrap_imethod cpp) (ic_methods k)) in
      let ss := concat_pairs (map (wrap_ismethod cpp) (ic_statics k)) in
      let members :=
          map (fun k' => MInit (args_cpp (ik_args k')) (pyargs_of (ik_args k'))) (ic_ctors k)
          ++ fst ms ++ fst ss
          ++ map (fun d => MDunder (du_name d) cpp (lparams_of (du_args d)) (dunder_body d)
                                   (pyargs_of (du_args d))) (ic_dunders k)
          ++ map (fun v => MProp (ty_const (v_ty v)) (v_name v) cpp) (ic_props k)
          ++ map (wrap_op cpp) (ic_ops k) in
      (BClass mv cpp (ic_name k) (option_map tn_cpp (ic_base k))
              (match ic_enums k with [] => None | _ => Some instance end) members :: enums,
       snd ms ++ snd ss).

  Definition wrap_function (namespaces : list string) (mv : string) (f : ifunc) : bitem :=
    let nsname := drop_last2 (add_namespaces "" namespaces) in
    BFun mv (escape_keyword (kws ++ ["print"]) (if_name f))
         (lparams_of (if_args f)) (negb (ret_is_void (if_ret f)))
         (nsname ++ "::")%string (ifunc_cpp f) (arg_names (if_args f)) (pyargs_of (if_args f)).

  Definition include_line (h : string) : string :=
    replace_all ">" """" (replace_all "<" """" ("#include <" ++ h ++ ">" ++ String "010"%char "")%string).

  Definition ns_enum (namespaces : list string) (e : enum) : benum :=
    {| be_module := module_var c namespaces;
       be_cpp := tn_cpp (Typename (tl namespaces) (NStr (e_name e)) []);
       be_name := e_name e; be_values := e_items e |}.

  Record out := { o_items : list bitem; o_includes : list string; o_serial : list string }.
  Definition out_nil : out := {| o_items := []; o_includes := []; o_serial := [] |}.
  Definition out_app (a b : out) : out :=
    {| o_items := o_items a ++ o_items b; o_includes := o_includes a ++ o_includes b;
       o_serial := o_serial a ++ o_serial b |}.
  Definition out_items (l : list bitem) : out := {| o_items := l; o_includes := []; o_serial := [] |}.

  (* wrap_namespace: `namespaces` is full_namespaces() of the namespace whose content is walked *)
  Fixpoint wrap_item (namespaces : list string) (inside : bool) (i : item) : out :=
    match i with
    | IInclude h => {| o_items := []; o_includes := [include_line h]; o_serial := [] |}
    | INamespace n content =>
      let ns' := namespaces ++ [n] in
      if negb (partial_match ns' (top c)) then out_nil
      else
        let inside' := negb (Nat.ltb (length ns') (length (top c))) in
        let body := (fix go (l : list item) : out :=
                       match l with
                       | [] => out_nil
                       | x :: r => out_app (wrap_item ns' inside' x) (go r)
                       end) content in
        if inside' then
          let mv := module_var c ns' in
          let sub := if Nat.ltb (length (top c)) (length ns')
                     then [BSub mv (module_var c namespaces) n] else [] in
          let funs := flat_map (fun x => match x with IFun f => [wrap_function ns' mv f] | _ => [] end) content in
          out_app (out_items sub) (out_app body (out_items funs))
        else body
    | IClass k =>
      if inside then let r := wrap_class k in {| o_items := fst r; o_includes := []; o_serial := snd r |}
      else out_nil
    | IDecl d =>
      if inside then
        let cpp := idecl_cpp d in
        if ignored cpp then out_nil
        else out_items [BDecl (module_var c ("" :: id_home d)) cpp (id_name d)]
      else out_nil
    | IVar v =>
      if inside then
        out_items [match v_default v with
                   | Some d => BAttr (module_var c namespaces) (v_name v)
                                     (if q_var_default_ns q then add_namespaces "" namespaces else "") d
                   | None => BAttr (module_var c namespaces) (v_name v) (add_namespaces "" namespaces) (v_name v)
                   end]
      else out_nil
    | IEnum e => if inside then out_items [BEnum (ns_enum namespaces e)] else out_nil
    | IFun _ => out_nil      (* functions are emitted after the namespace's other elements *)
    | IFwd _ => out_nil
    end.

  (* the module: Namespace('') with full_namespaces() = [""] *)
  Definition wrap_module (content : list item) : out :=
    let namespaces := [""] in
    if negb (partial_match namespaces (top c)) then out_nil
    else
      let inside := negb (Nat.ltb (length namespaces) (length (top c))) in
      let body := fold_right (fun x acc => out_app (wrap_item namespaces inside x) acc) out_nil content in
      if inside then
        let mv := module_var c namespaces in
        let funs := flat_map (fun x => match x with IFun f => [wrap_function namespaces mv f] | _ => [] end) content in
        out_app body (out_items funs)
      else body.

  (* first occurrences, in order: `if not cpp_class in self._serializing_classes: append` *)
  Fixpoint dedup (l : list string) (seen : list string) : list string :=
    match l with
    | [] => []
    | x :: r => if mem_str x seen then dedup r seen else x :: dedup r (x :: seen)
    end.
End Gen.

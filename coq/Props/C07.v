(* C07 - input is either fully understood or loudly rejected, never half-used. *)
From Coq Require Import String Ascii List Bool Arith.
From Wrap Require Import Base.Str Syntax.Ast Parse.Peg Parse.PegProofs Parse.Build Parse.Spec.
From Wrap Require gen.Grammar.
Import ListNotations.
Open Scope string_scope.

Theorem C07_grammar_is_spec : Grammar.grammar = spec_grammar.
Proof. vm_compute. reflexivity. Qed.
Print Assumptions C07_grammar_is_spec.

(* C01 - interface files parse to a tree that mirrors the source exactly. *)
From Coq Require Import String Ascii List Bool Arith Lia.
From Wrap Require Import Base.Str Syntax.Ast Inst.Model Parse.Peg Parse.Build Parse.Spec Parse.RoundTrip Parse.RoundTripPair Parse.RoundTripModule Parse.RoundTripDec.
From Wrap Require gen.Grammar.
Import ListNotations.
Open Scope string_scope.

(* Tie obligations, re-checked on every run against the term regenerated from the live pyparsing objects: the grammar
   is the one the theorems are about, the hand-modelled scanners still describe the same sub-expressions, tabs are
   expanded by parseString. *)
Theorem C01_grammar_is_spec : Grammar.grammar = spec_grammar.
Proof. vm_compute. reflexivity. Qed.
Print Assumptions C01_grammar_is_spec.
Theorem C01_default_arg_is_modelled : Grammar.default_arg_fingerprint = default_arg_expected.
Proof. reflexivity. Qed.
Print Assumptions C01_default_arg_is_modelled.
Theorem C01_comment_is_modelled : Grammar.comment_fingerprint = comment_expected.
Proof. reflexivity. Qed.
Print Assumptions C01_comment_is_modelled.
Theorem C01_tabs_expanded : Grammar.tabs_expanded = true.
Proof. reflexivity. Qed.
Print Assumptions C01_tabs_expanded.

(* Printing a type and parsing it back.  For every type of the parse tree - a one-word basic type, or a namespace path
   of identifiers whose first component is no keyword of the dialect; const, `*`, `@`, `&`; template arguments nested
   to ANY depth below the node constructors' own recursion limit - the text with one blank before every token is
   parsed by the grammar's `Type ^ TemplatedType` into a match tree from which Type / TemplatedType.from_parse_result
   rebuild exactly that type, whatever follows (end of text, or a token starting with none of * @ & : <), for every
   fuel from fuel_of t on.  With C12_layout_independent the same holds for every layout of the same skeleton. *)
Theorem C01_type_roundtrip : forall t, wf_ty t -> depth t < depth_fuel -> forall p r f, follow r -> fuel_of t <= f ->
  exists v p', interp spec_grammar f TY {| pk := p; rest := render (ty_toks t) r |} = Match [([], v)] {| pk := p'; rest := r |}
               /\ b_type v = Ok t.
Proof. exact type_roundtrip. Qed.
Print Assumptions C01_type_roundtrip.

(* non-vacuity: const gtsam::Foo<int, std::vector<Bar*>, ns::a::K<double&>>&  *)
Definition tn (ns : list string) (n : string) : typename := Typename ns (NStr n) [].
Definition sample_type : ty :=
  TTempl ["gtsam"] (NStr "Foo")
         [TPlain (tn [] "int") false PNone true;
          TTempl ["std"] (NStr "vector") [TPlain (tn [] "Bar") false PShared false] false PNone;
          TTempl ["ns"; "a"] (NStr "K") [TPlain (tn [] "double") false PRef true] true PRaw]
         true PRef.
Example C01_type_roundtrip_nonvacuous :
  wf_ty sample_type /\ depth sample_type = 2 /\
  string_of (render (ty_toks sample_type) []) =
    " const gtsam :: Foo < int , std :: vector < Bar * > , const ns :: a :: K < double & > @ > &".
Proof.
  repeat split; try (vm_compute; tauto); try discriminate; try reflexivity;
    try (repeat constructor; reflexivity); try (vm_compute; intuition discriminate).
Qed.

(* Argument lists: any number of arguments (none included), each a well-formed type of any depth and an identifier,
   rendered with one blank before every token and "," between arguments, followed by ")": the ArgumentList rule
   consumes exactly the list and Argument / ArgumentList.from_parse_result rebuild exactly the arguments, in order. *)
Theorem C01_arglist_roundtrip : forall args, Forall wf_arg args -> forall p X f, args_fuel args <= f ->
  exists v p', interp spec_grammar f (GRef "ArgumentList") {| pk := p; rest := render (args_toks args) (sp rparen X) |}
               = Match [([], v)] {| pk := p'; rest := sp rparen X |}
               /\ b_args v = Ok (map mk_arg args).
Proof. exact arglist_roundtrip. Qed.
Print Assumptions C01_arglist_roundtrip.

Example C01_arglist_nonvacuous :
  Forall wf_arg [(sample_type, "x"); (TPlain (tn [] "double") false PNone true, "tol_1")] /\
  string_of (render (args_toks [(TPlain (tn ["gtsam"] "Pose3") true PRef false, "p"); (TPlain (tn [] "int") false PNone true, "n")]) [])
  = " const gtsam :: Pose3 & p , int n".
Proof.
  split; [|reflexivity]. destruct C01_type_roundtrip_nonvacuous as [W [D _]].
  constructor; [split; [exact W | split; [cbn [fst]; rewrite D; vm_compute; lia | reflexivity]]|].
  constructor; [|constructor].
  split; [split; [reflexivity | split; [reflexivity | vm_compute; tauto]] | split; [vm_compute; lia | reflexivity]].
Qed.

(* Function declarations `R name ( args ) ;` - single (non-pair) return type, no template, no default values: the
   GlobalFunction rule consumes exactly the declaration, whatever follows, and the constructors rebuild the
   GlobalFunction node with exactly that name, return type and arguments. *)
Theorem C01_function_roundtrip : forall t name args, wf_ty t -> depth t < depth_fuel -> wf_head t ->
  is_ident (chars_of name) = true -> Forall wf_arg args ->
  forall p R f, fn_fuel t args <= f ->
  exists v p', interp spec_grammar f (GRef "GlobalFunction") {| pk := p; rest := render (fn_toks t name args) R |}
               = Match [([], v)] {| pk := p'; rest := R |}
               /\ b_decl depth_fuel v = Ok (DFun {| f_tmpl := None; f_name := name; f_ret := RSingle t; f_args := map mk_arg args |}).
Proof.
  intros t name args Hw Hd Hh Hn Ha p R f Hf.
  destruct (function_roundtrip t name args Hw Hd Hh Hn Ha p R f Hf) as [v [p' [E B]]].
  exists v, p'. split; [exact E | exact (B 199)].
Qed.
Print Assumptions C01_function_roundtrip.

Example C01_function_nonvacuous :
  wf_head sample_type /\
  string_of (render (fn_toks (TPlain (tn [] "void") false PNone true) "f" [(TPlain (tn ["gtsam"] "Pose3") true PRef false, "p")]) [])
  = " void f ( const gtsam :: Pose3 & p ) ;".
Proof.
  split; [|reflexivity]. eexists. eexists. split; [reflexivity|]. repeat split; try discriminate; reflexivity.
Qed.

(* A whole file.  For every list of function declarations of the fragment (return type and argument types of any nesting
   depth below the constructors' depth limit, identifiers as names, no keyword of another declaration kind as the first
   word), the text printed with one blank before every token is parsed by Module.parseString - tab expansion, the
   eight-way longest-match alternation of the module content, the repetition, StringEnd, the node constructors - into
   exactly those declarations, in order: nothing dropped, nothing invented, nothing rejected.  The fuel parse_module
   gives the interpreter is shown to be enough, so the answer is never "unsupported". *)
Theorem C01_module_roundtrip : forall fns, Forall wf_fn fns ->
  parse_module spec_grammar (print_module fns) = Ok (map decl_of fns).
Proof. exact module_roundtrip. Qed.
Print Assumptions C01_module_roundtrip.

Definition sample_module : list fn :=
  [ (TPlain (tn [] "void") false PNone true, "f", [(TPlain (tn ["gtsam"] "Pose3") true PRef false, "p")]);
    (sample_type, "make", [(sample_type, "x"); (TPlain (tn [] "double") false PNone true, "tol_1")]);
    (TPlain (tn [] "Key") false PNone false, "g", []) ]%string.
Example C01_module_nonvacuous :
  Forall wf_fn sample_module /\
  print_module sample_module =
    (" void f ( const gtsam :: Pose3 & p ) ;" ++
     " const gtsam :: Foo < int , std :: vector < Bar * > , const ns :: a :: K < double & > @ > & make" ++
     " ( const gtsam :: Foo < int , std :: vector < Bar * > , const ns :: a :: K < double & > @ > & x , double tol_1 ) ;" ++
     " Key g ( ) ;")%string.
Proof.
  split; [|vm_compute; reflexivity].
  repeat first [ apply Forall_nil | apply Forall_cons
               | match goal with
                 | |- head_ok _ => eexists; eexists; split; [reflexivity|]; split; [split; [discriminate | reflexivity] | vm_compute; intuition discriminate]
                 | |- wf_fn _ => unfold wf_fn
                 | |- wf_arg _ => unfold wf_arg; cbn [fst snd]
                 | |- wf_ty _ => vm_compute
                 | |- _ /\ _ => split
                 end ];
    try reflexivity; try discriminate; try (vm_compute; tauto); try (vm_compute; lia); try (vm_compute; intuition discriminate).
Qed.

(* Nesting.  Declaration trees - functions (also returning `pair < A , B >`: the pair form and the single templated type
   `pair<A,B>` match the same text, the alternation keeps the pair form, which is listed first), variables (`T name ;`), includes (`#include <path>`), enumerations
   (`enum Name { A , B } ;`: the two-word keywords `enum class` / `enum struct` are tried on the same text and fail unless the
   name IS `class` / `struct` - `enum classy` is an enumeration named classy) and forward declarations (`class X ;`, which is
   also a well-formed variable declaration: the alternation keeps the alternative listed first), typedefs of template
   instantiations and classes (`[virtual] class N [: ns::Base] { ... } ;` with constructors, methods, static methods,
   properties and nested enumerations in any number and order: the repetition over the six-way member alternation takes one
   member per round and stops at `}`; the constructor of the class node groups the members by kind) inside namespaces nested to any depth (below the constructors' depth limit
   of 200 levels) - printed with one blank before every token, come back from Module.parseString as exactly that tree:
   the namespace rule is chosen by the alternation (every other alternative fails on `namespace name {`: a function
   needs `(` after the name, a property `=` or `;`), its content is again a run of declarations that stops at the
   closing brace, and the constructors rebuild DNamespace with the content in order. *)
Theorem C01_items_roundtrip : forall items, (forall i, In i items -> idepth i < depth_fuel /\ wf_item i) ->
  parse_module spec_grammar (print_items items) = Ok (map idecl items).
Proof. exact items_roundtrip. Qed.
Print Assumptions C01_items_roundtrip.

(* The same statement read for one class: whatever its members (constructors, methods, static methods, properties, nested
   enumerations, in any number and order) and its base, the printed class parses back to the class record with the members
   grouped by kind, in order within each kind. *)
Theorem C01_class_roundtrip : forall virt name ms, wf_class name ms ->
  parse_module spec_grammar (print_items [IClass virt name ms]) = Ok [class_decl virt name ms].
Proof.
  intros virt name ms H. apply (items_roundtrip [IClass virt name ms]). intros i [E|[]]. subst i. split; [cbn; unfold depth_fuel; lia | exact H].
Qed.
Print Assumptions C01_class_roundtrip.
Theorem C01_derived_class_roundtrip : forall virt name ns base ms, wf_class_b name ns base ms ->
  parse_module spec_grammar (print_items [IClassB virt name ns base ms]) = Ok [class_decl_b virt name ns base ms].
Proof.
  intros virt name ns base ms H. apply (items_roundtrip [IClassB virt name ns base ms]). intros i [E|[]]. subst i. split; [cbn; unfold depth_fuel; lia | exact H].
Qed.
Print Assumptions C01_derived_class_roundtrip.

Definition sample_tree : list item :=
  [ IFn (TPlain (tn [] "void") false PNone true, "f", [(TPlain (tn ["gtsam"] "Pose3") true PRef false, "p")]);
    IInc "gtsam/geometry/Pose3.h"; IFwd false "Later"; IEnum "classy" ["Red"; "Green"; "NONE"];
    ITypedef (TTempl ["std"] (NStr "vector") [TPlain (tn ["gtsam"] "Pose3") false PNone false;
                                              TTempl ["std"] (NStr "map") [TPlain (tn [] "int") false PNone true; TPlain (tn [] "Key") false PNone false] false PNone]
                    false PNone) "PoseList";
    INs "outer" [ INs "inner" [ IFn (sample_type, "make", [(sample_type, "x")]); IVar sample_type "origin" ]; INs "empty" [ IFwd true "Base" ];
                  IFn (TPlain (tn [] "Key") false PNone false, "g", []) ];
    IFn (TPlain (tn [] "double") false PNone true, "h", []);
    IClass true "Pose2" [ MC []; MC [(TPlain (tn [] "double") false PNone true, "x"); (TPlain (tn ["gtsam"] "Rot2") true PRef false, "r")];
                          MM (TPlain (tn [] "double") false PNone true) "norm" [] true;
                          MM (TPlain (tn [] "void") false PNone true) "scale" [(TPlain (tn [] "double") false PNone true, "s")] false;
                          MS (TPlain (tn ["gtsam"] "Pose2") false PNone false) "Identity" [];
                          MS (TPlain (tn [] "double") false PNone true) "Distance" [(TPlain (tn ["gtsam"] "Pose2") true PRef false, "a")];
                          MP (TPlain (tn ["gtsam"] "Rot2") false PNone false) "rot"; ME "Kind" ["Rigid"; "Free"] ];
    IClassB false "Derived" ["gtsam"] "Pose2" [ MC []; MM (TPlain (tn [] "void") false PNone true) "reset" [] false ];
    IFnP (TPlain (tn ["gtsam"] "Pose3") true PRef false) (TPlain (tn [] "bool") false PNone true) "split" [(sample_type, "x")] ]%string.
Example C01_items_nonvacuous :
  (forall i, In i sample_tree -> idepth i < depth_fuel /\ wf_item i) /\
  print_items sample_tree =
    (" void f ( const gtsam :: Pose3 & p ) ; #include <gtsam/geometry/Pose3.h> class Later ;" ++
     " enum classy { Red , Green , NONE } ;" ++
     " typedef std :: vector < gtsam :: Pose3 , std :: map < int , Key > > PoseList ;" ++
     " namespace outer { namespace inner {" ++
     " const gtsam :: Foo < int , std :: vector < Bar * > , const ns :: a :: K < double & > @ > & make" ++
     " ( const gtsam :: Foo < int , std :: vector < Bar * > , const ns :: a :: K < double & > @ > & x ) ;" ++
     " const gtsam :: Foo < int , std :: vector < Bar * > , const ns :: a :: K < double & > @ > & origin ; }" ++
     " namespace empty { virtual class Base ; } Key g ( ) ; } double h ( ) ;" ++
     " virtual class Pose2 { Pose2 ( ) ; Pose2 ( double x , const gtsam :: Rot2 & r ) ; double norm ( ) const ;" ++
     " void scale ( double s ) ; static gtsam :: Pose2 Identity ( ) ; static double Distance ( const gtsam :: Pose2 & a ) ;" ++
     " gtsam :: Rot2 rot ; enum Kind { Rigid , Free } ; } ;" ++
     " class Derived : gtsam :: Pose2 { Derived ( ) ; void reset ( ) ; } ;" ++
     " pair < const gtsam :: Pose3 & , bool > split ( const gtsam :: Foo < int , std :: vector < Bar * > , const ns :: a :: K < double & > @ > & x ) ;")%string /\
  print_decls (map idecl sample_tree) = Some (print_items sample_tree).
Proof.
  split; [|split; vm_compute; reflexivity].
  intros i Hi. split.
  - cbn in Hi. repeat (destruct Hi as [E|Hi]; [subst i; vm_compute; lia|]). destruct Hi.
  - apply (wf_itemb_ok (S (idepth i))); [lia|]. cbn in Hi. repeat (destruct Hi as [E|Hi]; [subst i; vm_compute; reflexivity|]). destruct Hi.
Qed.

(* The domain of the theorem is decidable (wf_fnb, fns_of): print_decls is what the extracted model answers to the
   check's `printdecls` command, and the check feeds every text it answers to the implementation. *)
Theorem C01_printed_decls_parse_back : forall ds text,
  print_decls ds = Some text -> parse_module spec_grammar text = Ok ds.
Proof. exact printed_decls_parse_back. Qed.
Print Assumptions C01_printed_decls_parse_back.

Example C01_printed_decls_nonvacuous : print_decls (map decl_of sample_module) = Some (print_module sample_module).
Proof. vm_compute. reflexivity. Qed.

#pragma once

(* C07 - input is either fully understood or loudly rejected, never half-used. *)
From Coq Require Import String Ascii List Bool Arith.
From Wrap Require Import Base.Str Syntax.Ast Inst.Model Parse.Peg Parse.PegProofs Parse.Build Parse.Spec.
From Wrap Require gen.Grammar.
Import ListNotations.
Open Scope string_scope.

Theorem C07_grammar_is_spec : Grammar.grammar = spec_grammar.
Proof. vm_compute. reflexivity. Qed.
Print Assumptions C07_grammar_is_spec.

(* Whatever the interpreter matches - any grammar, any expression, any state - the text it consumed is an interleaving
   of filler (white space, comments) and of the texts matched by its terminals, in order; the leaves of the match tree
   are exactly the terminal texts not under a Suppress.  No character is stepped over in any other way. *)
Theorem C07_consumed_is_covered : forall g f e st its st', interp g f e st = Match its st' ->
  exists tr : trace, Cov (rest st) (map snd tr) (rest st') /\ kept tr = leaves its.
Proof.
  intros g f e st its st' H. pose proof (interp_traced run_term g run_term_traced f e st) as T.
  unfold interp in H. rewrite H in T. exact T.
Qed.
Print Assumptions C07_consumed_is_covered.

(* Module.parseString accepts only when that covering reaches the end of the text: a truncated, unbalanced or
   otherwise incomplete sequence of declarations leaves a remainder and is rejected (ParseException). *)
Theorem C07_accepted_covers_whole_text : forall fuel text its st',
  parse_text spec_grammar fuel text = Match its st' ->
  exists tr : trace, Cov (expandtabs (chars_of text)) (map snd tr) [] /\ kept tr = leaves its.
Proof. intros fuel text its st'. apply accepted_is_covered. reflexivity. Qed.
Print Assumptions C07_accepted_covers_whole_text.

(* the suppressed terminals of the grammar are fixed punctuation and keywords: what the tree does not keep carries no
   information of the input *)
Example C07_nonvacuous :
  exists its st', parse_text spec_grammar 200 "class A { A(int x = f(1, 2)); }; // end" = Match its st' /\
                  map string_of (leaves its) = ["class"; "A"; "A"; "int"; "x"; "f(1, 2)"].
Proof. eexists. eexists. split; vm_compute; reflexivity. Qed.

(* Exact text of the generated pybind11 source, from binding records. *)
From Coq Require Import String Ascii List Bool Arith.
From Wrap Require Import Base.Str Base.ListX Syntax.Ast Syntax.Print Pybind.Items Pybind.Gen.
Import ListNotations.
Open Scope string_scope.

Definition nl : string := String "010"%char "".
Definition indent8 : string := (nl ++ "        ").

Definition r_pyarg (a : pyarg) : string :=
  "py::arg(""" ++ fst a ++ """)" ++ match snd a with Some d => " = " ++ d | None => "" end.
(* _py_args_names *)
Definition r_pyargs (l : list pyarg) : string :=
  match l with [] => "" | _ => ", " ++ join ", " (map r_pyarg l) end.
(* _method_args_signature *)
Definition r_sig (l : list lparam) : string := join ", " (map (fun p => fst p ++ " " ++ snd p) l).

Definition r_serialize (cpp_class : string) : string :=
  indent8 ++ ".def(""serialize"", [](" ++ cpp_class ++ "* self){ return gtsam::serialize(*self); })"
  ++ indent8 ++ ".def(""deserialize"", [](" ++ cpp_class ++ "* self, string serialized){ gtsam::deserialize(serialized, *self); }, py::arg(""serialized""))"
  ++ indent8 ++ ".def(py::pickle(" ++ indent8 ++ "    [](const " ++ cpp_class
  ++ " &a){ /* __getstate__: Returns a string that encodes the state of the object */ return py::make_tuple(gtsam::serialize(a)); },"
  ++ indent8 ++ "    [](py::tuple t){ /* __setstate__ */ " ++ cpp_class
  ++ " obj; gtsam::deserialize(t[0].cast<std::string>(), obj); return obj; }))".

Definition r_member (prefix suffix : string) (m : member) : string :=
  match m with
  | MInit types pyargs =>
    indent8 ++ ".def(py::init<" ++ join ", " types ++ ">()" ++ r_pyargs pyargs ++ ")"
  | MDef static py_name self params returns caller callee call_args pyargs doc redirect =>
    let call := (if returns then "return" else "") ++ " " ++ caller ++ callee ++ "(" ++ join ", " call_args ++ ");" in
    let txt := prefix ++ "." ++ (if static then "def_static" else "def") ++ "(""" ++ py_name ++ ""","
               ++ "[](" ++ match self with Some cls => cls ++ "* self" | None => "" end
               ++ (match self, call_args with Some _, _ :: _ => ", " | _, _ => "" end)
               ++ r_sig params ++ "){" ++ call ++ "}" ++ r_pyargs pyargs
               ++ match doc with Some d => ", """ ++ d ++ """" | None => "" end
               ++ ")" ++ suffix in
    if redirect then replace_all "self->print" "py::scoped_ostream_redirect output; self->print" txt else txt
  | MRepr cpp_class params method_name call_args pyargs =>
    prefix ++ ".def(""__repr__""," ++ nl
    ++ "                    [](const " ++ cpp_class ++ "& self"
    ++ (match call_args with [] => "" | _ => ", " end) ++ r_sig params ++ "){" ++ nl
    ++ "                        gtsam::RedirectCout redirect;" ++ nl
    ++ "                        self." ++ method_name ++ "(" ++ join ", " call_args ++ ");" ++ nl
    ++ "                        return redirect.str();" ++ nl
    ++ "                    }" ++ r_pyargs pyargs ++ ")" ++ suffix
  | MSerialize cpp_class => r_serialize cpp_class
  | MDunder py_method cpp_class params body pyargs =>
    prefix ++ ".def(""__" ++ py_method ++ "__"",[](" ++ cpp_class ++ "* self"
    ++ (match params with [] => "" | _ => ", " end) ++ r_sig params ++ "){" ++ body ++ "}"
    ++ r_pyargs pyargs ++ ")" ++ suffix
  | MProp readonly name cpp_class =>
    indent8 ++ ".def_" ++ (if readonly then "readonly" else "readwrite") ++ "(""" ++ name ++ """, &"
    ++ cpp_class ++ "::" ++ name ++ ")"
  | MOp OpGetItem cpp_class => indent8 ++ ".def(""__getitem__"", &" ++ cpp_class ++ "::operator[])"
  | MOp OpCall cpp_class => indent8 ++ ".def(""__call__"", &" ++ cpp_class ++ "::operator())"
  | MOp (OpUnary s) _ => indent8 ++ ".def(" ++ s ++ "py::self)"
  | MOp (OpBinary s) _ => indent8 ++ ".def(py::self " ++ s ++ " py::self)"
  end.

Definition r_enum (prefix : string) (e : benum) : string :=
  prefix ++ "py::enum_<" ++ be_cpp e ++ ">(" ++ be_module e ++ ", """ ++ be_name e ++ """, py::arithmetic())"
  ++ String.concat "" (map (fun v => nl ++ prefix ++ "    .value(""" ++ v ++ """, " ++ be_cpp e ++ "::" ++ v ++ ")")
                           (be_values e))
  ++ ";" ++ nl ++ nl.

Definition r_item (i : bitem) : string :=
  match i with
  | BSub var parent name =>
    "    pybind11::module " ++ var ++ " = " ++ parent ++ ".def_submodule(""" ++ name ++ """, """
    ++ name ++ " submodule"");" ++ nl
  | BClass mv cpp py_name parent instance members =>
    let par := match parent with Some p => p ++ ", " | None => "" end in
    let head :=
        match instance with
        | Some inst =>
          nl ++ "    py::class_<" ++ cpp ++ ", " ++ par ++ "std::shared_ptr<" ++ cpp ++ ">> "
          ++ inst ++ "(" ++ mv ++ ", """ ++ py_name ++ """);" ++ nl ++ "    " ++ inst
        | None =>
          nl ++ "    py::class_<" ++ cpp ++ ", " ++ par ++ "std::shared_ptr<" ++ cpp ++ ">>("
          ++ mv ++ ", """ ++ py_name ++ """)"
        end in
    head ++ String.concat "" (map (r_member indent8 "") members) ++ ";" ++ nl
  | BClassEnum e => nl ++ r_enum "    " e
  | BDecl mv cpp py_name =>
    nl ++ "    py::class_<" ++ cpp ++ ", std::shared_ptr<" ++ cpp ++ ">>(" ++ mv ++ ", """ ++ py_name ++ """);"
  | BEnum e => r_enum "    " e
  | BAttr mv name ns value =>
    nl ++ "    " ++ mv ++ ".attr(""" ++ name ++ """) = " ++ ns ++ value ++ ";"
  | BFun mv py_name params returns caller callee call_args pyargs =>
    nl ++ "    " ++ mv ++ ".def(""" ++ py_name ++ """,[](" ++ r_sig params ++ "){"
    ++ (if returns then "return" else "") ++ " " ++ caller ++ callee ++ "(" ++ join ", " call_args ++ ");"
    ++ "}" ++ r_pyargs pyargs ++ ");"
  end.

Definition r_items (l : list bitem) : string := String.concat "" (map r_item l).

(* re.sub("[,:<> ]", "", cpp_class) *)
Fixpoint strip_chars (s : string) : string :=
  match s with
  | EmptyString => EmptyString
  | String c r =>
    if orb (is c ","%char) (orb (is c ":"%char) (orb (is c "<"%char) (orb (is c ">"%char) (is c " "%char))))
    then strip_chars r else String c (strip_chars r)
  end.

Definition r_boost_export (classes : list string) : string :=
  String.concat "" (map (fun cls =>
    if contains "," cls
    then "typedef " ++ cls ++ " " ++ strip_chars cls ++ ";" ++ nl ++ "BOOST_CLASS_EXPORT(" ++ strip_chars cls ++ ")" ++ nl
    else "BOOST_CLASS_EXPORT(" ++ cls ++ ")" ++ nl) classes).

(* str.format with named fields only: {{ }} escapes, {name} fields *)
Fixpoint lookup_field (n : string) (fields : list (string * string)) : string :=
  match fields with
  | [] => "<KeyError>"
  | (k, v) :: r => if String.eqb k n then v else lookup_field n r
  end.
Fixpoint py_format_aux (fuel : nat) (tpl : string) (fields : list (string * string)) : string :=
  match fuel with
  | 0 => EmptyString
  | S f =>
    match tpl with
    | EmptyString => EmptyString
    | String c r =>
      if is c "{"%char then
        match r with
        | String d r' =>
          if is d "{"%char then String "{"%char (py_format_aux f r' fields)
          else
            (* field name up to the closing brace *)
            let fix name (s acc : string) : string * string :=
                match s with
                | EmptyString => (rev_str acc, EmptyString)
                | String e s' => if is e "}"%char then (rev_str acc, s') else name s' (String e acc)
                end in
            let '(n, rest) := name r EmptyString in
            lookup_field n fields ++ py_format_aux f rest fields
        | EmptyString => EmptyString
        end
      else if is c "}"%char then
        match r with
        | String d r' => if is d "}"%char then String "}"%char (py_format_aux f r' fields)
                         else String c (py_format_aux f r fields)
        | EmptyString => String c EmptyString
        end
      else String c (py_format_aux f r fields)
    end
  end.
Definition py_format (tpl : string) (fields : list (string * string)) : string :=
  py_format_aux (S (String.length tpl)) tpl fields.

(* wrap_file: submodules = Some names for the main file, None for a submodule file *)
Definition sub_decl (s : string) : string := "void " ++ s ++ "(py::module_ &);".
Definition sub_init (s : string) : string := s ++ "(m_);".
(* `pre`: what _serializing_classes holds when wrap_file starts ([] for a fresh wrapper) *)
Definition file_fields_from (pre : list string) (q : pquirks) (c : cfg)
           (doc : option (string -> string -> list string -> string))
           (module_name : string) (submodules : option (list string)) (content : list item)
  : list (string * string) :=
  let o := wrap_module q c doc content in
  let includes := String.concat "" (o_includes o)
                  ++ (if boost c then "#include <boost/serialization/export.hpp>" else "") in
  let export := if boost c then r_boost_export (pre ++ dedup (o_serial o) pre)%list else "" in
  let module_def := match submodules with
                    | Some _ => "PYBIND11_MODULE(" ++ module_name ++ ", m_)"
                    | None => "void " ++ module_name ++ "(py::module_ &m_)"
                    end in
  let subs := match submodules with Some l => l | None => [] end in
  [("module_def", module_def); ("module_name", module_name); ("includes", includes);
   ("wrapped_namespace", r_items (o_items o)); ("boost_class_export", export);
   ("submodules", join nl (map sub_decl subs));
   ("submodules_init", join nl (map sub_init subs))].
Definition file_fields := file_fields_from [].

Definition r_file (q : pquirks) (c : cfg) (doc : option (string -> string -> list string -> string))
           (tpl module_name : string) (submodules : option (list string)) (content : list item) : string :=
  py_format tpl (file_fields q c doc module_name submodules content).

(* scripts/pybind_wrap.py: --top_module_namespaces string -> list with the leading "" *)
Definition top_of_arg (s : string) : list string :=
  let l := split_on "::" s in
  match l with
  | first :: _ => if String.eqb first "" then l else "" :: l
  | [] => [""]
  end.

"""C11 - MEX gateway calls reach the right C++ code and never leak or double-free.

For random class forests (inheritance chains, virtual or not, namespaces) the check
  * generates an interface file and an instrumented C++ library for it (call trace, per-class live counters),
  * runs the real MatlabWrapper, takes every id / arity / property name from the generated .m files and the
    isVirtual flag of every object-returning routine from the generated wrapper text,
  * compiles <module>_wrapper.cpp with the REAL matlab.h against the mock MEX API, an allocator that never
    reuses memory (exact double-delete detection) and a MATLAB-session simulator (harness/cxx/c11_sim.h),
  * drives random histories (construct / method / static / free function / property / receive an existing
    object / receive a fresh object / delete / unload) and compares, after EVERY step, collector sizes per
    class, live C++ objects per dynamic class and the double-free flag with Runtime/Gateway.v, and the call
    trace + returned value with what the declared entity must do with the supplied arguments."""
import os
import random
import re
import shutil
import subprocess
import tempfile

import common
import cxxbuild
import sexp
from props import mlcommon as ml

TRUSTED = ['mock MEX API (harness/cxx/mock)', 'MATLAB-session simulator harness/cxx/c11_sim.h: pointer-constructor branch, '
           'superclass constructor call, delete order derived-first, mexCallMATLAB -> classdef constructor, clear mex = registered '
           'mexAtExit functions', 'quarantining operator new/delete (harness/cxx/quarantine.h)', 'g++ 12 / libstdc++ shared_ptr']

MODULE = 'gw'


# ------------------------------------------------------------------ interface + library generation
class Cls:
    def __init__(self, idx, name, ns, parent, virtual):
        self.idx, self.name, self.ns, self.parent, self.virtual = idx, name, ns, parent, virtual
        self.two_ctor = False
        self.makes = []          # indices of classes X (self or descendants) with a static Make_<X> here
        self.peek = None         # root class index for tagof_<name>(const Root& other)
        self.prop = False
        self.ref = False         # `const K& ref_K() const`: a reference return, wrapped as an independent copy

    @property
    def cpp(self):
        return (self.ns + '::' if self.ns else '') + self.name

    @property
    def matlab(self):
        return (self.ns + '.' if self.ns else '') + self.name

    @property
    def flat(self):
        return self.ns + self.name


def forest(r, n):
    cs = []
    for i in range(n):
        parent = None
        if cs and r.random() < 0.6:
            parent = r.choice(cs).idx
        ns = 'ns' if r.random() < 0.3 else ''
        virtual = cs[parent].virtual if parent is not None else r.random() < 0.5
        c = Cls(i, 'K%d' % i, ns, parent, virtual)
        c.two_ctor = r.random() < 0.4
        c.prop = r.random() < 0.5
        c.ref = r.random() < 0.7
        cs.append(c)
    for c in cs:
        desc = [d.idx for d in cs if c.idx in chain(cs, d.idx)]
        c.makes = [x for x in desc if r.random() < 0.7]
        c.peek = chain(cs, c.idx)[-1] if r.random() < 0.6 else None
    return cs


def chain(cs, i):
    out = []
    while i is not None:
        out.append(i)
        i = cs[i].parent
    return out


def interface_text(cs, r):
    lines = ['#include <lib.h>']
    order = list(range(len(cs)))
    r.shuffle(order)          # declaration order in the interface file is free
    for i in order:
        c = cs[i]
        body = ['  %s(int k);' % c.name]
        if c.two_ctor:
            body.append('  %s(int k, int j);' % c.name)
        body.append('  int echo_%s(int x) const;' % c.name)
        body.append('  %s* self_%s();' % (c.cpp, c.name))
        if c.ref:
            body.append('  const %s& ref_%s() const;' % (c.cpp, c.name))
        for x in c.makes:
            body.append('  static %s* Make_%s(int k);' % (c.cpp, cs[x].name))
        if c.peek is not None:
            body.append('  int tagof_%s(const %s& other) const;' % (c.name, cs[c.peek].cpp))
        body.append('  static int sfun_%s(int x);' % c.name)
        body.append('  size_t key_%s(size_t v) const;' % c.name)
        if c.prop:
            body.append('  int pv_%s;' % c.name)
        r.shuffle(body)
        head = '%sclass %s%s {' % ('virtual ' if c.virtual else '', c.name, (' : ' + cs[c.parent].cpp) if c.parent is not None else '')
        text = [head] + body + ['};']
        if c.ns:
            text = ['namespace %s {' % c.ns] + text + ['}']
        lines += text
    lines.append('int free_g(int x, int y);')
    lines.append('namespace ns { int free_f(int x); }')
    # the same function name in a nested namespace and in a top-level namespace named like its innermost component
    lines.append('namespace geo { namespace util { int free_h(int x); } }')
    lines.append('namespace util { int free_h(int x); }')
    return '\n'.join(lines) + '\n'


def library_text(cs):
    """instrumented library: object ids in creation order, trace of every entry, live counters per dynamic class"""
    n = len(cs)
    o = ['#pragma once', '#include <memory>', '#include <string>', '#include <vector>', '',
         'namespace vlib {',
         'inline std::vector<std::string> &trace() { static std::vector<std::string> t; return t; }',
         'inline long *live() { static long l[%d]; return l; }' % n,
         'inline int &next_oid() { static int n = 0; return n; }',
         'inline void log(const std::string &s) { trace().push_back(s); }',
         'inline std::string S(long v) { return std::to_string(v); }',
         '}', '']
    for c in cs:
        if c.ns:
            o.append('namespace %s {' % c.ns)
        if c.parent is None:
            o.append('struct %s : std::enable_shared_from_this<%s> {' % (c.name, c.name))
            o.append('  int oid, tag;')
            init = 'oid(vlib::next_oid()++), tag(k)'
        else:
            o.append('struct %s : ::%s {' % (c.name, cs[c.parent].cpp))
            init = '::%s(k)' % cs[c.parent].cpp
        o.append('  int pv_%s = 0;' % c.name)
        swap = ('vlib::live()[%d]--; ' % c.parent) if c.parent is not None else ''
        unswap = ('vlib::live()[%d]++; ' % c.parent) if c.parent is not None else ''
        o.append('  %s(int k) : %s { %svlib::live()[%d]++; vlib::log("%s::%s k=" + vlib::S(k) + " oid=" + vlib::S(oid)); }'
                 % (c.name, init, swap, c.idx, c.cpp, c.name))
        o.append('  %s(int k, int j) : %s(k + 100 * j) { vlib::log("%s::%s/2 k=" + vlib::S(k) + " j=" + vlib::S(j)); }'
                 % (c.name, c.name, c.cpp, c.name))
        cinit = 'oid(vlib::next_oid()++), tag(o.tag)' if c.parent is None else '::%s(o)' % cs[c.parent].cpp
        o.append('  %s(const %s &o) : %s { %svlib::live()[%d]++; vlib::log("%s::copy from=" + vlib::S(o.oid) + " oid=" + vlib::S(oid)); }'
                 % (c.name, c.name, cinit, swap, c.idx, c.cpp))
        o.append('  const %s &ref_%s() const { vlib::log("%s::ref_%s oid=" + vlib::S(oid)); return *this; }' % (c.name, c.name, c.cpp, c.name))
        o.append('  %s~%s() { vlib::live()[%d]--; %s}' % ('virtual ' if c.virtual else '', c.name, c.idx, unswap))
        o.append('  int echo_%s(int x) const { vlib::log("%s::echo_%s oid=" + vlib::S(oid) + " x=" + vlib::S(x)); return tag * 1000 + x * 10 + %d; }'
                 % (c.name, c.cpp, c.name, c.idx))
        o.append('  std::shared_ptr<%s> self_%s() { vlib::log("%s::self_%s oid=" + vlib::S(oid)); return std::static_pointer_cast<%s>(shared_from_this()); }'
                 % (c.name, c.name, c.cpp, c.name, c.name))
        o.append('  size_t key_%s(size_t v) const { vlib::log("%s::key_%s oid=" + vlib::S(oid) + " v=" + std::to_string(v)); return v ^ 0x5555; }'
                 % (c.name, c.cpp, c.name))
        o.append('  static int sfun_%s(int x) { vlib::log("%s::sfun_%s x=" + vlib::S(x)); return x * 3 + %d; }' % (c.name, c.cpp, c.name, c.idx))
        o.append('  int tagof_%s(const ::%s &other) const { vlib::log("%s::tagof_%s oid=" + vlib::S(oid) + " other=" + vlib::S(other.oid)); return other.tag * 10 + %d; }'
                 % (c.name, cs[chain(cs, c.idx)[-1]].cpp, c.cpp, c.name, c.idx))
        # Make_<X> bodies need X complete: declared here, defined after all classes
        for x in range(n):
            if c.idx in chain(cs, x):
                o.append('  static std::shared_ptr<%s> Make_%s(int k);' % (c.name, cs[x].name))
        o.append('};')
        if c.ns:
            o.append('}')
    for c in cs:
        for x in range(n):
            if c.idx in chain(cs, x):
                o.append('inline std::shared_ptr<%s> %s::Make_%s(int k) { vlib::log("%s::Make_%s k=" + vlib::S(k)); return std::shared_ptr<%s>(new ::%s(k)); }'
                         % (c.cpp, c.cpp, cs[x].name, c.cpp, cs[x].name, c.cpp, cs[x].cpp))
    o.append('inline int free_g(int x, int y) { vlib::log("free_g x=" + vlib::S(x) + " y=" + vlib::S(y)); return x * 7 + y; }')
    o.append('namespace ns { inline int free_f(int x) { vlib::log("ns::free_f x=" + vlib::S(x)); return x * 5 + 1; } }')
    o.append('namespace geo { namespace util { inline int free_h(int x) { vlib::log("geo::util::free_h x=" + vlib::S(x)); return x * 11 + 2; } } }')
    o.append('namespace util { inline int free_h(int x) { vlib::log("util::free_h x=" + vlib::S(x)); return x * 13 + 3; } }')
    return '\n'.join(o) + '\n'


# ------------------------------------------------------------------ reading the generated toolbox
def parse_toolbox(tree, cs):
    """ids, arities and property names exactly as the generated .m files use them"""
    W = re.escape(MODULE) + r'_wrapper'
    tab = {}
    for c in cs:
        path = ('+' + c.ns + '/' if c.ns else '') + c.name + '.m'
        t = tree.get(path)
        if t is None:
            raise LookupError('no classdef file ' + path)
        e = {}
        m = re.search(r'^classdef\s+(\S+)\s*<\s*(\S+)', t, re.M)
        e['parent'] = m.group(2)
        m = re.search(r'properties\s*\n\s*(ptr_\w+)\s*=\s*0', t)
        e['prop'] = m.group(1)
        m = re.search(r'my_ptr = %s\((\d+), varargin\{2\}\);' % W, t)
        e['upcast'] = int(m.group(1)) if m else -1
        m = re.search(r'^\s*(base_ptr = )?%s\((\d+), my_ptr\);' % W, t, re.M)
        e['collector'] = int(m.group(2))
        e['collector_has_base'] = bool(m.group(1))
        e['ctors'] = {}
        for m in re.finditer(r'elseif nargin == (\d+)[^\n]*\n\s*(\[ my_ptr, base_ptr \]|my_ptr) = %s\((\d+)' % W, t):
            e['ctors'][int(m.group(1))] = (int(m.group(3)), m.group(2) != 'my_ptr')
        m = re.search(r'function delete\(obj\)\s*\n\s*%s\((\d+), obj\.(ptr_\w+)\);' % W, t)
        e['decon'] = int(m.group(1))
        assert m.group(2) == e['prop']
        e['methods'], e['statics'], e['get'], e['set'] = {}, {}, {}, {}
        for fm in re.finditer(r'function varargout = (\w+)\(this, varargin\)(.*?)\n    end\n', t, re.S):
            for b in re.finditer(r'length\(varargin\) == (\d+)[^\n]*\n\s*(?:varargout\{1\} = |\[[^\]]*\] = )?%s\((\d+), this, varargin\{:\}\);' % W, fm.group(2)):
                e['methods'][(fm.group(1), int(b.group(1)))] = int(b.group(2))
        for fm in re.finditer(r'function varargout = (\w+)\(varargin\)(.*?)\n    end\n', t, re.S):
            for b in re.finditer(r'length\(varargin\) == (\d+)[^\n]*\n\s*(?:varargout\{1\} = |\[[^\]]*\] = )?%s\((\d+), varargin\{:\}\);' % W, fm.group(2)):
                e['statics'][(fm.group(1), int(b.group(1)))] = int(b.group(2))
        for m in re.finditer(r'function varargout = get\.(\w+)\(this\)\s*\n\s*varargout\{1\} = %s\((\d+), this\);' % W, t):
            e['get'][m.group(1)] = int(m.group(2))
        for m in re.finditer(r'function set\.(\w+)\(this, value\)\s*\n[^\n]*\n\s*%s\((\d+), this, value\);' % W, t):
            e['set'][m.group(1)] = int(m.group(2))
        tab[c.idx] = e
    funs = {}
    for path, name in (('free_g.m', 'free_g'), ('+ns/free_f.m', 'free_f'), ('+geo/+util/free_h.m', 'geo_free_h'),
                       ('+util/free_h.m', 'util_free_h')):
        t = tree.get(path)
        if t is None:
            raise LookupError('no function file ' + path)
        for b in re.finditer(r'length\(varargin\) == (\d+)[^\n]*\n\s*(?:varargout\{1\} = )?%s\((\d+), varargin\{:\}\);' % W, t):
            funs[(name, int(b.group(1)))] = int(b.group(2))
    return tab, funs


def virt_flags(cpp):
    """routine id -> isVirtual argument of its wrap_shared_ptr call"""
    out = {}
    for m in re.finditer(r'^void \w+_(\d+)\(int nargout, mxArray \*out\[\], int nargin, const mxArray \*in\[\]\)\s*\{(.*?)^\}', cpp, re.M | re.S):
        w = re.search(r'wrap_shared_ptr\(.*,\s*(true|false)\);', m.group(2))
        if w:
            out[int(m.group(1))] = w.group(1) == 'true'
    return out


# ------------------------------------------------------------------ histories
class Session:
    """the MATLAB session the history generator mirrors: which proxies exist, what object each designates"""
    def __init__(self, cs, tab, funs, virt, r):
        self.cs, self.tab, self.funs, self.virt, self.r = cs, tab, funs, virt, r
        self.proxies = {}      # m -> (matlab class idx, oid)
        self.stale = {}        # proxies that survived an unload
        self.objs = []         # oid -> {'dyn': idx, 'tag': k, 'pv': {cls: v}}
        self.next_m = 1
        self.lines, self.mops, self.expect, self.lives = [], [], [], []

    def live_vec(self):
        """C++ objects per dynamic class that some (non-stale) MATLAB handle designates"""
        held = {oid for _, oid in self.proxies.values()}
        return [sum(1 for oid in held if self.objs[oid]['dyn'] == c.idx) for c in self.cs]

    def fresh(self):
        m = self.next_m
        self.next_m += 1
        return m

    def ctor_trace(self, dyn, k, oid):
        return ['%s::%s k=%d oid=%d' % (self.cs[i].cpp, self.cs[i].name, k, oid) for i in reversed(chain(self.cs, dyn))]

    def emit(self, line, mop, result, trace):
        self.lines.append(line)
        self.mops.append(mop)
        self.expect.append((result, trace))

    def op_new(self):
        c = self.r.choice(self.cs)
        e = self.tab[c.idx]
        k = self.r.randint(-50, 50)
        m = self.fresh()
        oid = len(self.objs)
        if c.two_ctor and 2 in e['ctors'] and self.r.random() < 0.5:
            j = self.r.randint(0, 9)
            cid = e['ctors'][2][0]
            tag = k + 100 * j
            tr = self.ctor_trace(c.idx, tag, oid) + ['%s::%s/2 k=%d j=%d' % (c.cpp, c.name, k, j)]
            self.emit('new %d %d %d 2 %d %d' % (m, c.idx, cid, k, j), ['new', str(m), c.cpp], '-', tr)
        else:
            cid = e['ctors'][1][0]
            tag = k
            self.emit('new %d %d %d 1 %d' % (m, c.idx, cid, k), ['new', str(m), c.cpp], '-', self.ctor_trace(c.idx, tag, oid))
        self.objs.append({'dyn': c.idx, 'tag': tag, 'pv': {}})
        self.proxies[m] = (c.idx, oid)

    def pick(self):
        return self.r.choice(sorted(self.proxies)) if self.proxies else None

    def level(self, m):
        """a class level of proxy m's MATLAB class (methods of every superclass are callable)"""
        return self.r.choice(chain(self.cs, self.proxies[m][0]))

    def op_echo(self):
        m = self.pick()
        if m is None:
            return
        lv = self.cs[self.level(m)]
        x = self.r.randint(-99, 99)
        oid = self.proxies[m][1]
        mid = self.tab[lv.idx]['methods'][('echo_' + lv.name, 1)]
        self.emit('icall %d %d 1 %d' % (m, mid, x), None, str(self.objs[oid]['tag'] * 1000 + x * 10 + lv.idx),
                  ['%s::echo_%s oid=%d x=%d' % (lv.cpp, lv.name, oid, x)])

    def op_key(self):
        m = self.pick()
        if m is None:
            return
        lv = self.cs[self.level(m)]
        oid = self.proxies[m][1]
        v = self.r.choice([0, 1, 2 ** 53, 2 ** 53 + 1, 2 ** 63, 2 ** 64 - 1, 0x7800000000000001, self.r.getrandbits(64), self.r.getrandbits(20)])
        mid = self.tab[lv.idx]['methods'][('key_' + lv.name, 1)]
        self.emit('ucall %d %d %d' % (m, mid, v), None, str(v ^ 0x5555), ['%s::key_%s oid=%d v=%d' % (lv.cpp, lv.name, oid, v)])

    def op_self(self):
        m = self.pick()
        if m is None:
            return
        lv = self.cs[self.level(m)]
        oid = self.proxies[m][1]
        mid = self.tab[lv.idx]['methods'][('self_' + lv.name, 0)]
        v = self.virt.get(mid, False)
        m2 = self.fresh()
        cls = self.objs[oid]['dyn'] if v else lv.idx
        self.emit('ocall %d %d %d' % (m2, m, mid), ['recv', str(m2), lv.cpp, str(oid), 'T' if v else 'F'], self.cs[cls].matlab,
                  ['%s::self_%s oid=%d' % (lv.cpp, lv.name, oid)])
        self.proxies[m2] = (cls, oid)

    def op_copy(self):
        """a method that returns a class by reference: MATLAB receives a handle on an independent copy (sliced to the
        declared class), owned by the new handle alone"""
        m = self.pick()
        if m is None:
            return
        cand = [i for i in chain(self.cs, self.proxies[m][0]) if self.cs[i].ref]
        if not cand:
            return
        lv = self.cs[self.r.choice(cand)]
        src = self.proxies[m][1]
        mid = self.tab[lv.idx]['methods'][('ref_' + lv.name, 0)]
        v = self.virt.get(mid, False)
        m2 = self.fresh()
        oid = len(self.objs)
        self.emit('ocall %d %d %d' % (m2, m, mid), ['make', str(m2), lv.cpp, lv.cpp, 'T' if v else 'F'], lv.matlab,
                  ['%s::ref_%s oid=%d' % (lv.cpp, lv.name, src)] +
                  ['%s::copy from=%d oid=%d' % (self.cs[i].cpp, src, oid) for i in reversed(chain(self.cs, lv.idx))])
        self.objs.append({'dyn': lv.idx, 'tag': self.objs[src]['tag'], 'pv': {}})
        self.proxies[m2] = (lv.idx, oid)

    def op_make(self):
        c = self.r.choice(self.cs)
        if not c.makes:
            return
        x = self.r.choice(c.makes)
        k = self.r.randint(-50, 50)
        sid = self.tab[c.idx]['statics'][('Make_' + self.cs[x].name, 1)]
        v = self.virt.get(sid, False)
        m2 = self.fresh()
        oid = len(self.objs)
        cls = x if v else c.idx
        self.emit('smake %d %d %d' % (m2, sid, k), ['make', str(m2), c.cpp, self.cs[x].cpp, 'T' if v else 'F'], self.cs[cls].matlab,
                  ['%s::Make_%s k=%d' % (c.cpp, self.cs[x].name, k)] + self.ctor_trace(x, k, oid))
        self.objs.append({'dyn': x, 'tag': k, 'pv': {}})
        self.proxies[m2] = (cls, oid)

    def op_tagof(self):
        m, mo = self.pick(), self.pick()
        if m is None:
            return
        cand = [i for i in chain(self.cs, self.proxies[m][0]) if self.cs[i].peek is not None]
        if not cand:
            return
        lv = self.cs[self.r.choice(cand)]
        if lv.peek not in chain(self.cs, self.proxies[mo][0]):
            return                      # MATLAB's isa() guard would reject it
        oid, oo = self.proxies[m][1], self.proxies[mo][1]
        mid = self.tab[lv.idx]['methods'][('tagof_' + lv.name, 1)]
        self.emit('acall %d %d %d' % (m, mid, mo), None, str(self.objs[oo]['tag'] * 10 + lv.idx),
                  ['%s::tagof_%s oid=%d other=%d' % (lv.cpp, lv.name, oid, oo)])

    def op_prop(self):
        m = self.pick()
        if m is None:
            return
        cand = [i for i in chain(self.cs, self.proxies[m][0]) if self.cs[i].prop]
        if not cand:
            return
        lv = self.cs[self.r.choice(cand)]
        oid = self.proxies[m][1]
        name = 'pv_' + lv.name
        if self.r.random() < 0.5:
            v = self.r.randint(-1000, 1000)
            self.emit('setp %d %d %d' % (m, self.tab[lv.idx]['set'][name], v), None, '-', [])
            self.objs[oid]['pv'][lv.idx] = v
        else:
            self.emit('getp %d %d' % (m, self.tab[lv.idx]['get'][name]), None, str(self.objs[oid]['pv'].get(lv.idx, 0)), [])

    def op_fun(self):
        k = self.r.random()
        x, y = self.r.randint(-99, 99), self.r.randint(-99, 99)
        if k < 0.3:
            self.emit('fcall %d 2 %d %d' % (self.funs[('free_g', 2)], x, y), None, str(x * 7 + y), ['free_g x=%d y=%d' % (x, y)])
        elif k < 0.5:
            self.emit('fcall %d 1 %d' % (self.funs[('free_f', 1)], x), None, str(x * 5 + 1), ['ns::free_f x=%d' % x])
        elif k < 0.6:
            self.emit('fcall %d 1 %d' % (self.funs[('geo_free_h', 1)], x), None, str(x * 11 + 2), ['geo::util::free_h x=%d' % x])
        elif k < 0.65:
            self.emit('fcall %d 1 %d' % (self.funs[('util_free_h', 1)], x), None, str(x * 13 + 3), ['util::free_h x=%d' % x])
        else:
            c = self.r.choice(self.cs)
            sid = self.tab[c.idx]['statics'][('sfun_' + c.name, 1)]
            self.emit('fcall %d 1 %d' % (sid, x), None, str(x * 3 + c.idx), ['%s::sfun_%s x=%d' % (c.cpp, c.name, x)])

    def op_del(self):
        m = self.pick()
        if m is None:
            return
        self.emit('del %d' % m, ['del', str(m)], '-', [])
        del self.proxies[m]

    def op_unload(self):
        self.emit('unload', ['unload'], '-', [])
        self.stale.update(self.proxies)
        self.proxies = {}

    def op_del_stale(self):
        if not self.stale:
            return
        m = self.r.choice(sorted(self.stale))
        self.emit('del %d' % m, ['del', str(m)], '-', [])
        del self.stale[m]


def history(s, n, with_stale):
    def settle():
        while len(s.lives) < len(s.lines):
            s.lives.append(s.live_vec())
    for _ in range(n):
        settle()
        k = s.r.random()
        if k < 0.25 or not s.proxies:
            s.op_new()
        elif k < 0.40:
            s.op_self()
        elif k < 0.46:
            s.op_make()
        elif k < 0.50:
            s.op_copy()
        elif k < 0.58:
            s.op_echo()
        elif k < 0.62:
            s.op_key()
        elif k < 0.68:
            s.op_tagof()
        elif k < 0.75:
            s.op_prop()
        elif k < 0.80:
            s.op_fun()
        elif k < 0.95:
            s.op_del()
        elif k < 0.98 or not with_stale:
            s.op_unload()
        else:
            s.op_del_stale()
    # every session ends with everything deleted or the module unloaded: nothing may remain
    settle()
    if s.r.random() < 0.5:
        while s.proxies:
            s.op_del()
            settle()
    s.op_unload()
    settle()


# ------------------------------------------------------------------ building and running one gateway
MAIN = '''#include "mex_impl.h"
#include "quarantine.h"
#include "out/%(module)s_wrapper.cpp"
static const int NCLS = %(n)d;
static size_t coll_size(int i) { switch (i) { %(cases)s default: return 0; } }
#include "c11_sim.h"
int main(int argc, char **argv) { return sim::run(argc, argv); }
'''


def build_gateway(cs, text, workdir, force_virtual=False):
    """returns (exe, table path, tab, funs, virt) or raises"""
    ml.ensure_tpl()
    from gtwrap.matlab_wrapper import MatlabWrapper
    os.makedirs(os.path.join(workdir, 'out'))
    os.makedirs(os.path.join(workdir, 'inc', 'gtwrap'))
    shutil.copy(common.REPO + '/matlab.h', os.path.join(workdir, 'inc', 'gtwrap', 'matlab.h'))
    with open(os.path.join(workdir, 'in.i'), 'w') as f:
        f.write(text)
    with open(os.path.join(workdir, 'lib.h'), 'w') as f:
        f.write(library_text(cs))
    w = MatlabWrapper(module_name=MODULE, top_module_namespace='', ignore_classes=[], use_boost_serialization=False)
    w.wrap([os.path.join(workdir, 'in.i')], path=os.path.join(workdir, 'out'))
    if force_virtual:
        # what-if variant used by C18: the isVirtual argument of wrap_shared_ptr switched on for classes declared
        # virtual (the generator hard-codes false), so that matlab.h's RTTI branch and the upcastFromVoid routines run
        wp = os.path.join(workdir, 'out', MODULE + '_wrapper.cpp')
        t = open(wp).read()
        for c in cs:
            if c.virtual:
                t = t.replace('"%s", false);' % c.matlab, '"%s", true);' % c.matlab)
        with open(wp, 'w') as f:
            f.write(t)
    tree = ml.read_tree(os.path.join(workdir, 'out'))
    tab, funs = parse_toolbox(tree, cs)
    virt = virt_flags(tree[MODULE + '_wrapper.cpp'])
    cases = ' '.join('case %d: return collector_%s.size();' % (c.idx, c.flat) for c in cs)
    with open(os.path.join(workdir, 'main.cpp'), 'w') as f:
        f.write(MAIN % {'module': MODULE, 'n': len(cs), 'cases': cases})
    exe = os.path.join(workdir, 'driver')
    cmd = ['g++', '-std=c++17', '-O0', '-w', '-I', os.path.join(cxxbuild.CXX, 'mock'), '-I', cxxbuild.CXX, '-I', os.path.join(workdir, 'inc'),
           '-I', workdir, '-I', common.REPO, '-o', exe, os.path.join(workdir, 'main.cpp')]
    p = subprocess.run(cmd, capture_output=True, text=True, timeout=600)
    if p.returncode != 0:
        raise RuntimeError('g++: ' + p.stderr[-2500:])
    table = os.path.join(workdir, 'table.txt')
    names = {c.matlab: c.idx for c in cs}
    with open(table, 'w') as f:
        for c in cs:
            e = tab[c.idx]
            parent = -1 if e['parent'] == 'handle' else names[e['parent']]
            f.write('class %d %s %d %d %d %d %s\n' % (c.idx, c.matlab, parent, e['collector'], e['upcast'], e['decon'], e['prop']))
    return exe, table, tab, funs, virt


def one_gateway(args):
    """worker: (seed string, n histories, steps) -> list of result dicts (no Report access in workers)"""
    key, nhist, steps = args[:3]
    force_virtual = len(args) > 3 and args[3]
    r = random.Random(key)
    cs = forest(r, r.randint(1, 5))
    text = interface_text(cs, r)
    d = tempfile.mkdtemp(dir=ml.scratch_root())
    res = {'key': key, 'job': [key, nhist, steps, bool(force_virtual)], 'interface': text, 'classes': [[c.cpp, [cs[c.parent].cpp] if c.parent is not None else [], 'T' if c.virtual else 'F'] for c in cs],
           'histories': []}
    try:
        try:
            exe, table, tab, funs, virt = build_gateway(cs, text, d, force_virtual)
        except Exception as e:
            res['build_error'] = '%s: %s' % (type(e).__name__, str(e)[-2500:])
            return res
        res['virt_sites'] = sorted(virt.items())
        for h in range(nhist):
            hr = random.Random('%s/h%d' % (key, h))
            s = Session(cs, tab, funs, virt, hr)
            history(s, steps, with_stale=(h % 4 == 3))
            p = subprocess.run([exe, table], input='\n'.join(s.lines) + '\n', capture_output=True, text=True, timeout=120)
            res['histories'].append({'ops': s.lines, 'mops': s.mops, 'expect': s.expect, 'lives': s.lives, 'out': p.stdout.split('\n'), 'rc': p.returncode,
                                     'stderr': p.stderr[-500:]})
        return res
    finally:
        shutil.rmtree(d, ignore_errors=True)


def parse_obs(line):
    f = dict(x.split('=', 1) for x in line.split(' | '))
    return f


def drive(rep, jobs, prop):
    """build and drive the gateways of `jobs`; compare every step; returns (saw delete-after-unload, saw negative int)"""
    import multiprocessing
    with multiprocessing.Pool(min(14, len(jobs))) as pool:
        results = pool.map(one_gateway, jobs)
    model = common.Model()
    shown = 0
    known_stale = False
    known_neg = False
    try:
        for res in results:
            if 'build_error' in res:
                rep.violation({'kind': 'broken-correspondence', 'what': 'the generated gateway does not build against the real matlab.h + '
                               'mock MEX API + instrumented library', 'interface': res['interface'], 'error': res['build_error'],
                               'job': res['job']}, no_input=True)
                continue
            fv = 'forced_virtual_' if res['job'][3] else ''
            rep.bump(fv + 'gateways')
            rep.bump('classes_%d' % len(res['classes']))
            if any(v for _, v in res['virt_sites']):
                rep.bump('gateways_with_isVirtual_true_sites')
            for hist in res['histories']:
                mops = [m for m in hist['mops'] if m is not None]
                ans = model.ask('gateway', [res['classes'], mops])
                if not ans.startswith('ok '):
                    raise RuntimeError('gateway: %s' % ans[:200])
                mobs = sexp.loads(ans[3:])
                ncls = len(res['classes'])
                cur = (['0'] * ncls, ['0'] * ncls, 'F', 'T')
                mi = 0
                in_protocol = True
                rep.hit('%s/%s' % (res['key'], common.sha(repr(hist['ops']))[:10]), True)
                for i, (op, mop, (eres, etrace), elive) in enumerate(zip(hist['ops'], hist['mops'], hist['expect'], hist['lives'])):
                    kind = op.split()[0]
                    rep.bump('op_' + kind)
                    if mop is not None:
                        cur = mobs[mi]
                        mi += 1
                        if cur == 'badop':
                            raise RuntimeError('model rejected op %r' % (mop,))
                        if cur[3] != 'T':
                            in_protocol = False
                    line = hist['out'][i] if i < len(hist['out']) else ''
                    bad = None
                    if not line.startswith('R='):
                        bad = 'the gateway died (rc=%s, %s)' % (hist['rc'], hist['stderr'][-200:])
                    else:
                        o = parse_obs(line)
                        trace = [t for t in o['T'].split(';') if t]
                        if o['E']:
                            bad = 'gateway call raised: ' + o['E'][:200]
                        elif in_protocol and o['L'].split(',') != [str(x) for x in elive]:
                            bad = ('live C++ objects per class %s, but the objects some MATLAB handle designates are %s'
                                   % (o['L'], ','.join(str(x) for x in elive)))
                        elif o['C'].split(',') != cur[0]:
                            bad = 'collector sizes %s, model %s' % (o['C'], ','.join(cur[0]))
                        elif o['L'].split(',') != cur[1]:
                            bad = 'live C++ objects per class %s, model %s' % (o['L'], ','.join(cur[1]))
                        elif (o['D'] != '0') != (cur[2] == 'T'):
                            bad = 'double frees %s, model says %s' % (o['D'], cur[2])
                        elif trace != etrace:
                            bad = 'call trace %r, declared entity/arguments give %r' % (trace, etrace)
                        elif o['R'] != eres:
                            if eres.startswith('-') and eres[1:].isdigit() and o['R'] == str(int(eres) + 2 ** 32):
                                known_neg = True
                                rep.bump('known:negative-int-result')
                            else:
                                bad = 'returned %r, expected %r' % (o['R'], eres)
                    if bad is None and in_protocol and cur[2] == 'T':
                        bad = 'double free inside the protocol (model and gateway agree)'
                    if bad is None and not in_protocol and cur[2] == 'T':
                        known_stale = True
                        rep.bump('known:delete-after-unload')
                    if bad is not None:
                        if shown < 3:
                            shown += 1
                            rep.violation({'kind': 'counterexample', 'what': bad, 'interface': res['interface'], 'step': i, 'job': res['job'],
                                           'history': hist['ops'][:i + 1], 'gateway_line': line[:600],
                                           'model_ops': [m for m in hist['mops'][:i + 1] if m is not None],
                                           'replay': './check %s --replay <this file>' % prop})
                        break
                    if kind == 'unload' and in_protocol:
                        # the property's last clause: nothing remains after an unload
                        if any(x != '0' for x in cur[0]) or any(x != '0' for x in cur[1]):
                            rep.violation({'kind': 'counterexample', 'what': 'objects remain after unloading the module',
                                           'interface': res['interface'], 'history': hist['ops'][:i + 1], 'job': res['job']})
                            break
                        rep.bump('unload_releases_all')
                else:
                    rep.bump('histories_agree')
        if results and results[0].get('histories'):
            rep.sample({'interface': results[0]['interface'][:600], 'history': results[0]['histories'][0]['ops'][:12]})
    finally:
        model.close()
    return known_stale, known_neg


def run(rep, tier, seed, replay=None, proof_ok=True):
    rep.coverage['rule'] = __doc__.split('\n\n', 1)[1][:1500]
    rep.assumptions += TRUSTED
    ngw, nhist, steps = (14, 16, 50) if tier == 'quick' else (60, 40, 80)
    jobs = [('c11/%d/%d' % (seed, i), nhist, steps, False) for i in range(ngw)]
    if replay:
        import json
        jobs = [tuple(json.load(open(replay))['job'])]
    known_stale, known_neg = drive(rep, jobs, 'C11')
    if known_stale:
        rep.known('C11-delete-after-unload: the deconstructor routine runs `delete self` even when the collector no longer holds the '
                  'cell, so deleting a proxy that outlived `clear mex` (_deleteAllObjects) frees its cell a second time '
                  '[witness: obj = K0(1); clear mex; delete(obj)]')
    if known_neg:
        rep.known('C11-negative-int-result: wrap<int> (and wrap<char>) copy the value\'s bytes into a zero-initialised UINT64 '
                  'scalar, so a C++ function returning a negative int hands MATLAB 2^32 + value '
                  '[witness: int f() returning -120 arrives as uint64 4294967176]')
    return 0

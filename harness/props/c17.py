"""C17 - embedded docstrings are the right text, correctly escaped, and change nothing else."""
import os
import random
import re
import shutil
import tempfile
import xml.etree.ElementTree as ET

import common
import sexp
import extract_pybind as E
from props import pybcommon as pc

TRUSTED = ['the XML tree generator and writer of harness/props/c17.py (ElementTree serialisation)',
           'str.strip() is modelled for ASCII whitespace only (generated texts have no other whitespace at their edges)']

WORDS = ['Compute', 'the', 'pose', 'of', "camera's", 'frame', '"quoted"', 'a\\b', 'x<y', 'R&D', 'naïve', 'Größe', '→', '日本',
         'tab\there', '100%', 'it\'s', 'say "hi"', '\\n', 'C:\\dir\\', 'é', '😀', 'α+β', 'end.']
ARGN = ['x', 'y', 'key', 'value', 'tol', 'n']


def rtext(r, n=None):
    n = n if n is not None else r.randint(1, 6)
    return ' '.join(r.choice(WORDS) for _ in range(n))


def node(tag, text='', children=(), attrs=(), tail=''):
    return [tag, [list(a) for a in attrs], text, list(children), tail]


def gen_memberdef(r, name, params, partial):
    """params: list of (name, has_default)"""
    ch = []
    ch.append(node('type', r.choice(['void', 'double', 'Pose3'])))
    ch.append(node('name', name))
    if not (partial and r.random() < 0.15):
        ch.append(node('argsstring', '(...)'))
    for pn, dflt in params:
        pc_ = [node('type', 'double')]
        k = r.random()
        if k < (0.85 if partial else 0.985):
            pc_.append(node('declname', pn))
        elif k < (0.95 if partial else 0.995):
            pc_.append(node('defname', pn))
        if dflt:
            pc_.append(node('defval', '1.0'))
        ch.append(node('param', '', pc_))
    if r.random() < 0.85:
        paras = [node('para', rtext(r), [node('ref', r.choice(WORDS), tail=' ' + r.choice(WORDS))] if r.random() < 0.3 else [])
                 for _ in range(r.randint(0, 2))]
        ch.append(node('briefdescription', '\n', paras))
    if r.random() < 0.8:
        dch = []
        for _ in range(r.randint(0, 2)):
            dch.append(node('para', rtext(r)))
        if params and r.random() < 0.7:
            items = []
            for pn, _ in params:
                namelist = node('parameternamelist', '', [node('parametername', pn if r.random() < 0.95 else '')])
                if partial and r.random() < 0.1:
                    desc = node('parameterdescription', '', [])
                else:
                    desc = node('parameterdescription', '', [node('para', rtext(r) if r.random() < 0.9 else '')])
                items.append(node('parameteritem', '', [namelist, desc]))
            dch.append(node('para', '', [node('parameterlist', '', items, attrs=[('kind', 'param')])]))
        if r.random() < 0.5:
            kind = r.choice(['return', 'return', 'note', 'see'])
            dch.append(node('para', '', [node('simplesect', '', [node('para', rtext(r))], attrs=[('kind', kind)])]))
        ch.append(node('detaileddescription', '\n', dch))
    return node('memberdef', '', ch, attrs=[('kind', 'function')])


def gen_world(r, partial):
    """(index tree or None, {refid: class tree}, queries)"""
    classes = ['C%d' % i for i in range(r.randint(1, 3))]
    qual = {c: r.choice(['', 'gtsam::', 'ns::inner::']) + c for c in classes}
    files = {}
    index_children = []
    queries = []
    for c in classes:
        refid = 'class' + qual[c].replace('::', '_1_1')
        index_children.append(node('compound', '', [node('name', qual[c])], attrs=[('refid', refid), ('kind', 'class')]))
        sect = []
        for m in ['f', 'g', 'print', 'at'][: r.randint(1, 4)]:
            overloads = []
            for _ in range(r.randint(1, 3)):
                n = r.randint(0, 3)
                names = r.sample(ARGN, n)
                k = r.randint(0, n)
                overloads.append([(pn, i >= n - k) for i, pn in enumerate(names)])
                if r.random() < 0.4 and overloads:
                    overloads.append(list(overloads[-1]))      # same parameter names: told apart by order only
            for ov in overloads:
                sect.append(gen_memberdef(r, m, ov, partial))
                full = [pn for pn, _ in ov]
                req = [pn for pn, d in ov if not d]
                for a in ((full, req) if req != full else (full, )):
                    if r.random() < 0.8:
                        queries.append((qual[c], m, a))
            if partial and r.random() < 0.1:
                sect.append(node('enumvalue', '', [node('name', m)]))
        cd = node('compounddef', '', [node('compoundname', qual[c]), node('sectiondef', '', sect, attrs=[('kind', 'public-func')])])
        files[refid] = node('doxygen', '', [cd])
    queries += [(qual[classes[0]], 'nosuch', []), ('No::Class', 'f', ['x'])]
    r.shuffle(queries)
    queries = queries[:14] + (queries[:3] if partial else [])
    index = node('doxygenindex', '', index_children)
    if partial and r.random() < 0.1:
        index = None
    return index, files, queries


def to_et(n):
    tag, attrs, text, children, tail = n
    e = ET.Element(tag, dict((k, v) for k, v in attrs))
    e.text = text if text != '' else None
    e.tail = tail if tail != '' else None
    for c in children:
        e.append(to_et(c))
    return e


ENCODINGS = ['utf-8', 'iso-8859-1', 'utf-16', 'utf-8']


def write_world(d, index, files, unreadable=()):
    """Doxygen trees as files.  The encoding varies per file (declared in the XML declaration, as any XML producer may do;
    characters outside it become character references): the text a reader gets is the same.  Files listed in `unreadable`
    are cut in the middle of a multi-byte character: unreadable XML, which the tool must treat like a missing file."""
    if index is not None:
        ET.ElementTree(to_et(index)).write(os.path.join(d, 'index.xml'), encoding='utf-8')
    for refid, t in files.items():
        enc = ENCODINGS[sum(map(ord, refid)) % len(ENCODINGS)]
        path = os.path.join(d, refid + '.xml')
        ET.ElementTree(to_et(t)).write(path, encoding=enc, xml_declaration=True)
        if refid in unreadable:
            data = ET.tostring(to_et(t), encoding='utf-8', xml_declaration=True)
            cut = data.find('日'.encode('utf-8'))
            cut = cut + 1 if cut >= 0 else max(1, len(data) // 2)
            data = data[:cut] if cut > 0 and (data[cut - 1] & 0x80) else data[:len(data) // 2] + b'\xe6'
            with open(path, 'wb') as f:
                f.write(data)


def impl_queries(d, queries):
    from gtwrap.xml_parser.xml_parser import XMLDocParser
    import contextlib
    import io
    p = XMLDocParser()
    out = []
    with contextlib.redirect_stdout(io.StringIO()):
        for cls, m, a in queries:
            try:
                out.append(['doc', p.extract_docstring(d, cls, m, list(a))])
            except Exception as e:
                out.append(['crash', type(e).__name__])
    return out


def literal_impl(text):
    """the expression of pybind_wrapper.py:282, evaluated through the wrapper itself"""
    from gtwrap.pybind_wrapper import PybindWrapper
    w = PybindWrapper('m', top_module_namespaces=[''], ignore_classes=[], module_template='{wrapped_namespace}',
                      xml_source='dummy')

    class P:
        def extract_docstring(self, *a):
            return text
    w.xml_parser = P()
    out = w.wrap_file('class A { void f(); };', module_name='m')
    m = re.search(r'\{ self->f\(\);\}, "(.*)"\)', out, re.S)
    return m.group(1) if m else None


SPECIAL = ['"', "'", '\\', '\n', '\t', '\r', 'a', 'f', '0', ' ', 'é', 'ü', '€', '😀', '\u00a0', '\u0085', '\x01', '\x7f', '\u2028',
           '\u200b', '\ud7ff', 'x', '%', '{', '}']


def gen_text(r):
    n = r.randint(0, 14)
    return ''.join(r.choice(SPECIAL) if r.random() < 0.75 else chr(r.choice([r.randint(32, 126), r.randint(160, 0x2fff),
                                                                               r.randint(0x1f300, 0x1f6ff)]))
                   for _ in range(n))


def run(rep, tier, seed, replay=None, proof_ok=True):
    rep.coverage['rule'] = ('(a) generated Doxygen XML worlds (1-3 classes, overloaded members with equal / different '
                            'parameter names, optional parameters, declname/defname, brief/detailed/parameterlist/return, '
                            'partial structures) x query sequences incl. repeats: XMLDocParser.extract_docstring vs Xml/Doc.v; '
                            '(b) texts over Unicode (quotes, backslashes, controls, non-ASCII, hex-digit followers) through '
                            'the wrapper\'s literal expression vs Xml/Escape.v, decoded by the verified cpp_decode; '
                            '(c) wrap with and without XML: records equal after removing the literals')
    model = common.Model()
    shown = 0
    root = os.path.join(common.BUILD, 'tmp.%d' % os.getpid())
    os.makedirs(root, exist_ok=True)
    n_worlds = 60 if tier == 'quick' else 2000
    n_texts = 300 if tier == 'quick' else 20000
    known_crash = known_escape = False
    try:
        # ---- (a) selection and formatting ----
        for k in range(n_worlds):
            r = random.Random('c17a/%d/%d' % (seed, k))
            partial = k % 3 == 2
            index, files, queries = gen_world(r, partial)
            d = tempfile.mkdtemp(dir=root)
            unreadable = [rid for rid in files if partial and r.random() < 0.25]
            write_world(d, index, files, unreadable)
            got = impl_queries(d, queries)
            if unreadable:
                rep.bump('class_files_cut_inside_a_character', len(unreadable))
            ans = model.ask('xmldoc', [[] if index is None else [index], [[rid, t] for rid, t in files.items() if rid not in unreadable],
                                       [[c, m, list(a)] for c, m, a in queries]])
            shutil.rmtree(d, ignore_errors=True)
            rep.hit(common.sha(repr((index, files, queries))), True, n=len(queries))
            if not ans.startswith('ok '):
                raise RuntimeError('xmldoc: ' + ans[:200])
            exp = sexp.loads(ans[3:])
            if any(g[0] == 'crash' for g in got):
                rep.bump('worlds_with_crash')
            if [list(map(str, g)) for g in got] != [list(map(str, e)) for e in exp]:
                i = next(j for j in range(len(got)) if list(map(str, got[j])) != list(map(str, exp[j])))
                if shown < 3:
                    shown += 1
                    rep.violation({'kind': 'counterexample', 'what': 'extract_docstring differs from the specification model',
                                   'query': queries[i], 'query_index': i, 'impl': got[i], 'expected': exp[i],
                                   'index': index, 'files': files, 'queries': queries})
            else:
                rep.bump('worlds_agree')
                if any(e[0] == 'crash' for e in exp):
                    known_crash = True
        if known_crash:
            rep.known('C17-xml-partial-crash: schema-valid but partial Doxygen XML (an element named like the method without '
                      '<argsstring>, a parameter item without description paragraph, ...) makes extract_docstring raise '
                      'instead of yielding an empty docstring [witness: an <enumvalue><name>f</name></enumvalue> next to method f]')
        # ---- (b) escaping ----
        for k in range(n_texts):
            r = random.Random('c17b/%d/%d' % (seed, k))
            text = gen_text(r)
            cps = [ord(ch) for ch in text]
            lit = literal_impl(text)
            ans = model.ask('literal', [str(c) for c in cps])
            mlit, mdec, mutf8, mplain = sexp.loads(ans[3:])
            rep.hit('t' + common.sha(text), len(text) > 0)
            if lit is None or [ord(ch) for ch in lit] != [int(x) for x in mlit]:
                if shown < 3:
                    shown += 1
                    rep.violation({'kind': 'counterexample', 'what': 'generated literal differs from the model',
                                   'text_codepoints': cps, 'impl_literal': lit, 'model_literal': [int(x) for x in mlit]})
                continue
            ok = bool(mdec) and mdec[0] == mutf8
            if ok:
                rep.bump('literal_roundtrip')
            elif mplain == 'T':
                if shown < 3:
                    shown += 1
                    rep.violation({'kind': 'counterexample', 'what': 'a plain text does not survive the literal',
                                   'text_codepoints': cps, 'literal': lit})
            else:
                rep.bump('known:non-printable-escape')
                known_escape = True
        if known_escape:
            rep.known('C17-repr-escapes: non-printable characters other than tab/newline/CR are written as Python repr escapes '
                      '(\\xa0, \\x85 followed by hex digits, \\u2028 ...) which a C++ compiler decodes to other bytes or rejects '
                      '[witness: documentation text containing U+00A0 or U+0085 followed by "a"]')
        # ---- (c) nothing else changes ----
        from gtwrap.pybind_wrapper import PybindWrapper
        for k in range(20 if tier == 'quick' else 300):
            r = random.Random('c17c/%d/%d' % (seed, k))
            index, files, queries = gen_world(r, False)
            d = tempfile.mkdtemp(dir=root)
            write_world(d, index, files)
            classes = sorted(set(q[0] for q in queries if q[0] != 'No::Class'))
            decls = []
            for cq in classes:
                ms = sorted(set((q[1], tuple(q[2])) for q in queries if q[0] == cq and q[1] != 'nosuch'))
                body = ' '.join('void %s(%s);' % (m, ', '.join('double ' + a for a in args)) for m, args in ms)
                parts = cq.split('::')
                text_c = 'class %s { %s };' % (parts[-1], body)
                for ns in reversed(parts[:-1]):
                    text_c = 'namespace %s { %s }' % (ns, text_c)
                decls.append(text_c)
            text = ' '.join(decls)
            import contextlib
            import io
            try:
                w1 = PybindWrapper('m', top_module_namespaces=[''], ignore_classes=[], module_template=pc.TPL, xml_source=d)
                with contextlib.redirect_stdout(io.StringIO()):
                    with_doc = w1.wrap_file(text, module_name='m')
                w0 = PybindWrapper('m', top_module_namespaces=[''], ignore_classes=[], module_template=pc.TPL)
                without = w0.wrap_file(text, module_name='m')
            except Exception as e:
                rep.bump('c_skipped_' + type(e).__name__)
                shutil.rmtree(d, ignore_errors=True)
                continue
            shutil.rmtree(d, ignore_errors=True)
            r1 = [tuple(x[:6]) + (None, ) if x[0] in ('def', 'def_static') else x for x in E.records(with_doc)]
            r0 = E.records(without)
            rep.hit('c' + common.sha(text + repr(files)), True)
            if [tuple(map(str, x)) for x in r1] != [tuple(map(str, x)) for x in r0]:
                if shown < 3:
                    shown += 1
                    rep.violation({'kind': 'counterexample', 'what': 'code with XML differs from code without XML beyond the literals',
                                   'input': text, 'with': with_doc[:3000], 'without': without[:3000]})
            else:
                rep.bump('only_literals_ok')
                ndocs = sum(1 for x in E.records(with_doc) if x[0] in ('def', 'def_static') and x[6])
                rep.bump('docstrings_emitted', ndocs)
        rep.sample({'text': 'a"b\\c', 'literal': literal_impl('a"b\\c')})
    finally:
        model.close()
        shutil.rmtree(root, ignore_errors=True)
    return 0

(* C07: what an accepted input consists of.  For every grammar: when the interpreter of Parse/Peg.v matches, the text
   it consumed is exactly an interleaving of filler (white space, comments) and of the texts matched by terminals, in
   order - nothing is skipped in any other way - and the leaves kept in the match tree are those terminal texts that
   are not under a Suppress. *)
From Coq Require Import String Ascii List Bool Arith Lia.
From Wrap Require Import Base.Str Parse.Peg.
Import ListNotations.
Open Scope list_scope.

(* Cov s l r: s = filler t1 filler t2 ... filler r with l = [t1; t2; ...] *)
Inductive Cov : chars -> list chars -> chars -> Prop :=
| Cov_done : forall s, Cov s [] s
| Cov_fill : forall s l r, Cov (skip_filler s) l r -> Cov s l r
| Cov_ign : forall s l r, Cov (skip_ignorables (length s) s) l r -> Cov s l r
| Cov_tok : forall t s l r, Cov s l r -> Cov (t ++ s) (t :: l) r.

Lemma Cov_app : forall a l1 b, Cov a l1 b -> forall l2 c, Cov b l2 c -> Cov a (l1 ++ l2) c.
Proof.
  intros a l1 b H. induction H; intros l2 c H2; cbn [app].
  - exact H2.
  - apply Cov_fill. apply IHCov. exact H2.
  - apply Cov_ign. apply IHCov. exact H2.
  - apply Cov_tok. apply IHCov. exact H2.
Qed.

(* leaves of a match tree, in order *)
Fixpoint leaves_v (v : value) : list chars :=
  match v with
  | VStr s => [chars_of s]
  | VNode _ its => (fix go (l : list item) : list chars := match l with [] => [] | it :: r => leaves_v (snd it) ++ go r end) its
  end.
Definition leaves (its : list item) : list chars := flat_map (fun it => leaves_v (snd it)) its.
Lemma leaves_node : forall tag its, leaves_v (VNode tag its) = leaves its.
Proof. intros tag its. cbn [leaves_v]. induction its as [|it r IH]; [reflexivity|]. cbn [leaves flat_map]. rewrite IH. reflexivity. Qed.
Lemma leaves_app : forall a b, leaves (a ++ b) = leaves a ++ leaves b.
Proof. intros a b. unfold leaves. apply flat_map_app. Qed.
Lemma leaves_names : forall n its, leaves (map (add_name n) its) = leaves its.
Proof. intros n its. unfold leaves. induction its as [|it r IH]; [reflexivity|]. cbn [map flat_map]. rewrite IH. reflexivity. Qed.

(* a trace: the terminal texts in order, each flagged kept (true) or suppressed (false) *)
Definition trace := list (bool * chars).
Definition kept (tr : trace) : list chars := map snd (filter fst tr).
Definition hide (tr : trace) : trace := map (fun p => (false, snd p)) tr.
Lemma kept_app : forall a b, kept (a ++ b) = kept a ++ kept b.
Proof. intros a b. unfold kept. rewrite filter_app, map_app. reflexivity. Qed.
Lemma kept_hide : forall tr, kept (hide tr) = [].
Proof. induction tr as [|p r IH]; [reflexivity|]. exact IH. Qed.
Lemma texts_hide : forall tr, map snd (hide tr) = map snd tr.
Proof. induction tr as [|p r IH]; [reflexivity|]. unfold hide in *. cbn [map snd]. f_equal. exact IH. Qed.

(* ---- every scanner returns a suffix of what it was given ---- *)
Definition suffix (a b : chars) : Prop := exists u, b = u ++ a.
Lemma suffix_refl : forall a, suffix a a. Proof. intros a. exists []. reflexivity. Qed.
Lemma suffix_trans : forall a b c, suffix a b -> suffix b c -> suffix a c.
Proof. intros a b c [u Hu] [v Hv]. exists (v ++ u). subst. rewrite app_assoc. reflexivity. Qed.
Lemma suffix_cons : forall a b c, suffix a b -> suffix a (c :: b).
Proof. intros a b c [u Hu]. exists (c :: u). subst. reflexivity. Qed.
Lemma suffix_opt_cons : forall a b c, suffix a b -> suffix a (c :: b). Proof. exact suffix_cons. Qed.

Lemma span_suffix : forall f s, suffix (span f s) s.
Proof. intros f s. induction s as [|c r IH]; [apply suffix_refl|]. cbn [span]. destruct (f c); [apply suffix_cons; exact IH | apply suffix_refl]. Qed.
Lemma skip_ws_suffix : forall s, suffix (skip_ws s) s.
Proof. induction s as [|c r IH]; [apply suffix_refl|]. cbn [skip_ws]. destruct (is_white c); [apply suffix_cons; exact IH | apply suffix_refl]. Qed.

Lemma line_comment_suffix : forall n s, length s <= n -> suffix (line_comment s) s.
Proof.
  induction n as [|n IH]; intros s H.
  - destruct s; [apply suffix_refl | cbn in H; lia].
  - destruct s as [|c r]; [apply suffix_refl|]. cbn [line_comment]. destruct (Nat.eqb (code c) 10); [apply suffix_refl|].
    destruct r as [|d r']; [exists [c]; reflexivity|]. cbn [length] in H.
    destruct (andb (Nat.eqb (code c) 92) (Nat.eqb (code d) 10)).
    + apply suffix_cons, suffix_cons. apply IH. lia.
    + apply suffix_cons. apply IH. cbn [length]. lia.
Qed.
Lemma block_comment_suffix : forall n s r, length s <= n -> block_comment s = Some r -> suffix r s.
Proof.
  induction n as [|n IH]; intros s r H E.
  - destruct s; [discriminate | cbn in H; lia].
  - destruct s as [|c t]; [discriminate|]. cbn [block_comment] in E. destruct t as [|d t']; [discriminate|].
    destruct (andb (Nat.eqb (code c) 42) (Nat.eqb (code d) 47)).
    + inversion E; subst. apply suffix_cons, suffix_cons, suffix_refl.
    + apply suffix_cons. apply (IH (d :: t')); [cbn [length] in *; lia | exact E].
Qed.
Lemma comment_suffix : forall s r, comment s = Some r -> suffix r s.
Proof.
  intros s r H. unfold comment in H. destruct s as [|a [|b t]]; try discriminate.
  destruct (Nat.eqb (code a) 47); [|discriminate]. destruct (Nat.eqb (code b) 42).
  - apply suffix_cons, suffix_cons. apply (block_comment_suffix (length t) t r (le_n _) H).
  - destruct (Nat.eqb (code b) 47); [|discriminate]. inversion H; subst. apply suffix_cons, suffix_cons.
    apply (line_comment_suffix (length t)). apply le_n.
Qed.
Lemma skip_ign_suffix : forall f s, suffix (skip_ignorables f s) s.
Proof.
  induction f as [|f IH]; intros s; cbn [skip_ignorables]; [apply suffix_refl|].
  destruct (comment (skip_ws s)) as [r|] eqn:E; [|apply suffix_refl].
  eapply suffix_trans; [apply IH|]. eapply suffix_trans; [apply comment_suffix; exact E | apply skip_ws_suffix].
Qed.
Lemma skip_filler_suffix : forall s, suffix (skip_filler s) s.
Proof. intros s. unfold skip_filler. eapply suffix_trans; [apply skip_ws_suffix | apply skip_ign_suffix]. Qed.

Lemma quoted_suffix : forall q s r, quoted q s = Some r -> suffix r s.
Proof.
  intros q s r H. unfold quoted in H. destruct s as [|c t]; [discriminate|]. destruct (ceq c q); [|discriminate].
  match type of H with match span ?f t with _ => _ end = _ => pose proof (span_suffix f t) as S; destruct (span f t) as [|e r'] end; [discriminate|].
  destruct (ceq e q); [|discriminate]. inversion H; subst. apply suffix_cons. eapply suffix_trans; [|exact S]. apply suffix_cons, suffix_refl.
Qed.
Lemma iq_body_suffix : forall f q s, suffix (iq_body f q s) s.
Proof.
  induction f as [|f IH]; intros q s; cbn [iq_body]; [apply suffix_refl|].
  destruct s as [|c r]; [apply suffix_refl|].
  destruct (ceq c q).
  - destruct r as [|d r']; [apply suffix_refl|]. destruct (ceq d q); [apply suffix_cons, suffix_cons, IH | apply suffix_refl].
  - destruct (Nat.eqb (code c) 92).
    + destruct r as [|d r']; [apply suffix_refl|]. destruct (Nat.eqb (code d) 120).
      * destruct r' as [|h r'']; [apply suffix_refl|]. destruct (is_hex h); [|apply suffix_refl].
        apply suffix_cons, suffix_cons. eapply suffix_trans; [apply IH | apply span_suffix].
      * apply suffix_cons, suffix_cons, IH.
    + destruct (orb (Nat.eqb (code c) 10) (Nat.eqb (code c) 13)); [apply suffix_refl | apply suffix_cons, IH].
Qed.
Lemma iquoted_suffix : forall q s r, iquoted q s = Some r -> suffix r s.
Proof.
  intros q s r H. unfold iquoted in H. destruct s as [|c t]; [discriminate|]. destruct (ceq c q); [|discriminate].
  pose proof (iq_body_suffix (length t) q t) as S. destruct (iq_body (length t) q t) as [|e r']; [discriminate|].
  destruct (ceq e q); [|discriminate]. inversion H; subst. apply suffix_cons. eapply suffix_trans; [|exact S]. apply suffix_cons, suffix_refl.
Qed.
Lemma iquoted_any_suffix : forall s r, iquoted_any s = Some r -> suffix r s.
Proof.
  intros s r H. unfold iquoted_any in H. destruct (iquoted """"%char s) eqn:E.
  - inversion H; subst. apply (iquoted_suffix _ _ _ E).
  - apply (iquoted_suffix _ _ _ H).
Qed.
Lemma content_suffix : forall f o c s, suffix (content f o c s) s.
Proof.
  induction f as [|f IH]; intros o c s; cbn [content]; [apply suffix_refl|].
  destruct s as [|x r]; [apply suffix_refl|]. destruct (orb (is_white x) (orb (ceq x o) (ceq x c))); [apply suffix_refl|].
  destruct (iquoted_any (x :: r)); [apply suffix_refl | apply suffix_cons, IH].
Qed.
Lemma nested_body_suffix : forall (rec : chars -> option chars) o c, (forall s r, rec s = Some r -> suffix r s) ->
  forall k t r, nested_body rec o c k t = Some r -> suffix r t.
Proof.
  intros rec o c Hrec. induction k as [|k IHk]; intros t r H; [discriminate|]. cbn [nested_body] in H.
  destruct (iquoted_any (skip_ws t)) as [t2|] eqn:E1.
  - eapply suffix_trans; [apply (IHk t2 r H)|]. eapply suffix_trans; [apply (iquoted_any_suffix _ _ E1) | apply skip_ws_suffix].
  - destruct (rec (skip_ws t)) as [t2|] eqn:E2.
    + eapply suffix_trans; [apply (IHk t2 r H)|]. eapply suffix_trans; [apply (Hrec _ _ E2) | apply skip_ws_suffix].
    + destruct (Nat.ltb (length (content (length (skip_ws t)) o c (skip_ws t))) (length (skip_ws t))).
      * eapply suffix_trans; [apply (IHk _ r H)|]. eapply suffix_trans; [apply content_suffix | apply skip_ws_suffix].
      * pose proof (skip_ws_suffix t) as Sw. destruct (skip_ws t) as [|y t3]; [discriminate|]. destruct (ceq y c); [|discriminate].
        inversion H; subst. eapply suffix_trans; [|exact Sw]. apply suffix_cons, suffix_refl.
Qed.
Lemma nested_suffix : forall f o c s r, nested f o c s = Some r -> suffix r s.
Proof.
  induction f as [|f IH]; intros o c s r H; [discriminate|]. cbn [nested] in H.
  destruct s as [|x t]; [discriminate|]. destruct (ceq x o); [|discriminate].
  apply suffix_cons. apply (nested_body_suffix (nested f o c) o c (fun s0 r0 => IH o c s0 r0) _ _ _ H).
Qed.
Lemma shorter_suffix : forall a b s, (forall r, a = Some r -> suffix r s) -> (forall r, b = Some r -> suffix r s) ->
  forall r, shorter a b = Some r -> suffix r s.
Proof.
  intros a b s Ha Hb r H. unfold shorter in H. destruct a as [x|]; destruct b as [y|]; try discriminate.
  - destruct (Nat.ltb (length y) (length x)); [apply Hb | apply Ha]; exact H.
  - apply Ha. exact H.
  - apply Hb. exact H.
Qed.
Lemma fold_shorter_suffix : forall l init s, (forall r, init = Some r -> suffix r s) ->
  Forall (fun a => forall r, a = Some r -> suffix r s) l -> forall r, fold_left shorter l init = Some r -> suffix r s.
Proof.
  induction l as [|a l IH]; intros init s Hi Hl r H; cbn [fold_left] in H; [apply Hi; exact H|].
  inversion Hl; subst. apply (IH (shorter init a) s); try assumption. apply shorter_suffix; assumption.
Qed.
Lemma piece_suffix : forall s r, piece s = Some r -> suffix r s.
Proof.
  intros s r H. unfold piece in H. eapply suffix_trans; [|apply skip_ws_suffix].
  set (t := skip_ws s) in *.
  apply (fold_shorter_suffix _ _ t) in H; [exact H | intros x Hx; apply (quoted_suffix _ _ _ Hx)|].
  repeat constructor; intros x Hx; try (apply (nested_suffix _ _ _ _ _ Hx)); try (apply (quoted_suffix _ _ _ Hx)).
  destruct (Nat.ltb (length (span is_wordchar t)) (length t)); [|discriminate]. inversion Hx; subst. apply span_suffix.
Qed.
Lemma pieces_suffix : forall f s, suffix (pieces f s) s.
Proof.
  induction f as [|f IH]; intros s; cbn [pieces]; [apply suffix_refl|].
  destruct (piece (skip_ignorables (length s) s)) as [r|] eqn:E; [|apply suffix_refl].
  eapply suffix_trans; [apply IH|]. eapply suffix_trans; [apply (piece_suffix _ _ E) | apply skip_ign_suffix].
Qed.

Definition Traced (st : pst) (o : outcome) : Prop :=
  match o with
  | Match its st' => exists tr : trace, Cov (rest st) (map snd tr) (rest st') /\ kept tr = leaves its
  | _ => True
  end.

Lemma chars_string : forall l, chars_of (string_of l) = l.
Proof. induction l as [|c r IH]; [reflexivity|]. cbn. rewrite IH. reflexivity. Qed.

Lemma prefix_split : forall p s r, prefix p s = Some r -> s = p ++ r.
Proof.
  induction p as [|a p IH]; intros s r H; [cbn in H; inversion H; reflexivity|].
  destruct s as [|b s]; [discriminate|]. cbn [prefix] in H. destruct (ceq a b) eqn:E; [|discriminate].
  apply Ascii.eqb_eq in E. subst b. cbn [app]. f_equal. apply IH. exact H.
Qed.

Lemma span_split : forall f s, s = firstn (length s - length (span f s)) s ++ span f s.
Proof.
  intros f s. induction s as [|c r IH]; [reflexivity|]. cbn [span]. destruct (f c).
  - assert (L : length (span f r) <= length r).
    { clear IH. induction r as [|d r IH]; [cbn; lia|]. cbn [span]. destruct (f d); cbn [length]; lia. }
    cbn [length]. replace (S (length r) - length (span f r)) with (S (length r - length (span f r))) by lia.
    cbn [firstn app]. f_equal. exact IH.
  - rewrite Nat.sub_diag. reflexivity.
Qed.

Lemma pre_cov : forall st l r, Cov (rest (pre st)) l r -> Cov (rest st) l r.
Proof.
  intros st l r H. unfold pre, moved in H. destruct (Nat.ltb (length (skip_filler (rest st))) (length (rest st))) eqn:E; cbn [rest] in H.
  - apply Cov_fill. exact H.
  - exact H.
Qed.
Lemma pre_term_cov : forall t st l r, Cov (rest (pre_term t st)) l r -> Cov (rest st) l r.
Proof.
  intros t st l r H. destruct t; cbn [pre_term] in H; try (apply pre_cov; exact H).
  unfold moved in H. destruct (Nat.ltb _ _); cbn [rest] in H; [apply Cov_ign; exact H | exact H].
Qed.

Lemma one_token : forall (t r : chars), Cov (t ++ r) [t] r.
Proof. intros. apply Cov_tok. apply Cov_done. Qed.

Lemma run_term_traced : forall t st, Traced st (run_term t st).
Proof.
  intros t st. unfold run_term. destruct t as [l|k|i b|cs| |].
  - destruct (prefix (chars_of l) (rest (pre_term (TLit l) st))) as [r|] eqn:E; [|exact I].
    apply prefix_split in E. exists [(true, chars_of l)]. split; [|reflexivity].
    apply (pre_term_cov (TLit l)). cbn [map snd rest]. rewrite E. apply Cov_tok. apply Cov_done.
  - destruct (prefix (chars_of k) (rest (pre_term (TKw k) st))) as [r|] eqn:E; [|exact I].
    destruct (andb _ _); [|exact I].
    apply prefix_split in E. exists [(true, chars_of k)]. split; [|reflexivity].
    apply (pre_term_cov (TKw k)). cbn [map snd rest]. rewrite E. apply Cov_tok. apply Cov_done.
  - destruct (rest (pre_term (TWord i b) st)) as [|c r] eqn:E; [exact I|]. destruct (cmem c (chars_of i)); [|exact I].
    set (f := fun x => cmem x (chars_of b)). set (s := c :: r).
    exists [(true, firstn (length s - length (span f r)) s)]. split.
    + apply (pre_term_cov (TWord i b)). rewrite E. cbn [map snd rest after]. fold s.
      assert (X : s = firstn (length s - length (span f r)) s ++ span f r).
      { unfold s. pose proof (span_split f r) as Y.
        assert (L : length (span f r) <= length r).
        { clear. induction r as [|d r IH]; [cbn; lia|]. cbn [span]. destruct (f d); cbn [length]; lia. }
        cbn [length]. replace (S (length r) - length (span f r)) with (S (length r - length (span f r))) by lia.
        cbn [firstn app]. f_equal. exact Y. }
      rewrite X at 1. apply Cov_tok. apply Cov_done.
    + cbn [kept filter fst map snd leaves flat_map leaves_v app]. rewrite chars_string. reflexivity.
  - set (s := rest (pre_term (TNotIn cs) st)). set (f := fun x => negb (cmem x (chars_of cs))).
    destruct (Nat.ltb (length (span f s)) (length s)); [|exact I].
    exists [(true, firstn (length s - length (span f s)) s)]. split.
    + apply (pre_term_cov (TNotIn cs)). fold s. cbn [map snd rest after]. rewrite (span_split f s) at 1. apply Cov_tok. apply Cov_done.
    + cbn [kept filter fst map snd leaves flat_map leaves_v app]. rewrite chars_string. reflexivity.
  - set (s := rest (pre_term TDefault st)). destruct (default_arg s) as [[text r]|] eqn:E; [|exact I].
    unfold default_arg in E. destruct (piece (skip_filler s)) as [r0|] eqn:P; [|discriminate]. inversion E; subst text r. clear E.
    set (s1 := skip_filler s) in *. set (e := pieces (length r0) r0) in *.
    exists [(true, firstn (length s1 - length e) s1)]. split.
    + apply (pre_term_cov TDefault). fold s. cbn [map snd rest after]. apply Cov_fill. fold s1.
      (* e is a suffix of s1 *)
      assert (Suf : exists u, s1 = u ++ e).
      { unfold e. eapply suffix_trans; [apply pieces_suffix | apply (piece_suffix _ _ P)]. }
      destruct Suf as [u Hu]. assert (X : firstn (length s1 - length e) s1 = u).
      { rewrite Hu. rewrite app_length. replace (length u + length e - length e) with (length u) by lia.
        rewrite firstn_app, Nat.sub_diag, firstn_all. cbn. apply app_nil_r. }
      rewrite X. rewrite Hu at 1. apply Cov_tok. apply Cov_done.
    + cbn [kept filter fst map snd leaves flat_map leaves_v app]. rewrite chars_string. reflexivity.
  - destruct (rest (pre_term TEnd st)) eqn:E; [|exact I]. exists []. split; [|reflexivity].
    apply (pre_term_cov TEnd). rewrite E. apply Cov_done.
Qed.

(* ---------- combinators and the interpreter ---------- *)
Lemma traced_intro : forall st its st' tr, Cov (rest st) (map snd tr) (rest st') -> kept tr = leaves its -> Traced st (Match its st').
Proof. intros. exists tr. split; assumption. Qed.

Section Tr.
  Variable rec : gexpr -> pst -> outcome.
  Hypothesis Hrec : forall e st, Traced st (rec e st).

  Lemma seq_traced : forall l acc st0 st tr0, Cov (rest st0) (map snd tr0) (rest st) -> kept tr0 = leaves acc ->
    Traced st0 (seq rec l acc st).
  Proof.
    induction l as [|x r IH]; intros acc st0 st tr0 Hc Hk; cbn [seq].
    - exists tr0. split; assumption.
    - pose proof (Hrec x st) as H. destruct (rec x st) as [| |its st1]; try exact I.
      destruct H as [tr [C K]]. apply (IH (acc ++ its) st0 st1 (tr0 ++ tr)).
      + rewrite map_app. eapply Cov_app; eassumption.
      + rewrite kept_app, leaves_app, Hk, K. reflexivity.
  Qed.

  Lemma alt_longest_traced : forall l st best, Traced st best -> Traced st (alt_longest rec st l best).
  Proof.
    induction l as [|x r IH]; intros st best Hb; cbn [alt_longest]; [exact Hb|].
    pose proof (Hrec x st) as H. destruct (rec x st) as [| |its st1]; [apply IH; exact Hb | exact I |].
    destruct best as [| |i0 s0]; try (apply IH; exact H).
    destruct (Nat.ltb (length (rest st1)) (length (rest s0))); apply IH; assumption.
  Qed.

  Lemma alt_first_traced : forall l st, Traced st (alt_first rec st l).
  Proof.
    induction l as [|x r IH]; intros st; cbn [alt_first]; [exact I|].
    pose proof (Hrec x st) as H. destruct (rec x st) as [| |its st1]; [apply IH | exact I | exact H].
  Qed.

  Lemma star_traced : forall k x acc st0 st tr0, Cov (rest st0) (map snd tr0) (rest st) -> kept tr0 = leaves acc ->
    Traced st0 (star rec k x acc st).
  Proof.
    induction k as [|k IH]; intros x acc st0 st tr0 Hc Hk; cbn [star]; [exact I|].
    pose proof (Hrec x st) as H. destruct (rec x st) as [| |its st1]; [exists tr0; split; assumption | exact I |].
    destruct H as [tr [C K]]. apply (IH x (acc ++ its) st0 st1 (tr0 ++ tr)).
    - rewrite map_app. eapply Cov_app; eassumption.
    - rewrite kept_app, leaves_app, Hk, K. reflexivity.
  Qed.
End Tr.

Theorem interp_traced : forall rt g, (forall t st, Traced st (rt t st)) ->
  forall f e st, Traced st (interp_with rt g f e st).
Proof.
  intros rt g Hrt. induction f as [|f IH]; intros e st; cbn [interp_with]; [exact I|].
  destruct e as [t|l|l|l|x|x|x|n x|r].
  - apply Hrt.
  - apply (seq_traced _ IH l [] st st []); [apply Cov_done | reflexivity].
  - apply (alt_longest_traced _ IH). exact I.
  - apply (alt_first_traced _ IH).
  - pose proof (IH x st) as H. destruct (interp_with rt g f x st); try exact H.
    exists []. split; [apply Cov_done | reflexivity].
  - apply (star_traced _ IH f x [] st st []); [apply Cov_done | reflexivity].
  - pose proof (IH x st) as H. destruct (interp_with rt g f x st) as [| |its st1]; try exact H.
    destruct H as [tr [C K]]. exists (hide tr). split; [rewrite texts_hide; exact C | rewrite kept_hide; reflexivity].
  - pose proof (IH x st) as H. destruct (interp_with rt g f x st) as [| |its st1]; try exact H.
    destruct H as [tr [C K]]. exists tr. split; [exact C | rewrite leaves_names; exact K].
  - destruct (lookup g r) as [body|]; [|exact I].
    pose proof (IH body st) as H. destruct (interp_with rt g f body st) as [| |its st1]; try exact H.
    destruct H as [tr [C K]]. exists tr. split; [exact C|]. unfold leaves. cbn [flat_map snd]. rewrite leaves_node, app_nil_r. exact K.
Qed.

Lemma seq_last : forall rec l x acc st its st', seq rec (l ++ [x]) acc st = Match its st' ->
  exists st1 i2, rec x st1 = Match i2 st'.
Proof.
  intros rec. induction l as [|y l IH]; intros x acc st its st' H; cbn [app seq] in H.
  - destruct (rec x st) as [| |i2 s2] eqn:E; try discriminate. inversion H; subst. exists st, i2. exact E.
  - destruct (rec y st) as [| |i1 s1]; try discriminate. apply (IH x _ s1 its st' H).
Qed.

(* Module.parseString: an accepted text is covered to its very end *)
Theorem accepted_is_covered : forall g fuel text its st',
  lookup g "Module" = Some (GAnd [GRef "ModuleContent"; GTerm TEnd]) ->
  parse_text g fuel text = Match its st' ->
  exists tr : trace, Cov (expandtabs (chars_of text)) (map snd tr) [] /\ kept tr = leaves its.
Proof.
  intros g fuel text its st' Hm H. unfold parse_text in H.
  pose proof (interp_traced run_term g run_term_traced fuel (GRef "Module") {| pk := false; rest := expandtabs (chars_of text) |}) as T.
  unfold interp in H. rewrite H in T. destruct T as [tr [C K]]. cbn [rest] in C.
  assert (E : rest st' = []).
  { destruct fuel as [|f]; [discriminate|]. cbn [interp_with] in H. rewrite Hm in H.
    destruct (interp_with run_term g f (GAnd [GRef "ModuleContent"; GTerm TEnd]) {| pk := false; rest := expandtabs (chars_of text) |}) as [| |i1 s1] eqn:E1; try discriminate.
    inversion H; subst. destruct f as [|f]; [discriminate|]. cbn [interp_with] in E1.
    change [GRef "ModuleContent"; GTerm TEnd] with ([GRef "ModuleContent"] ++ [GTerm TEnd]) in E1.
    apply seq_last in E1. destruct E1 as [s2 [i2 E2]]. destruct f as [|f]; [discriminate|]. cbn [interp_with] in E2.
    unfold run_term in E2. cbn [pre_term] in E2. destruct (rest (pre s2)) eqn:E3; [|discriminate]. inversion E2; subst. exact E3. }
  rewrite E in C. exists tr. split; assumption.
Qed.

"""C01 - interface files parse to a tree that mirrors the source exactly.

Three comparisons per input:
  (a) the property itself: the generator knows the declaration tree it rendered (kinds, names, nesting, types to any
      depth, template lists, default text, bases, flags); the implementation's parse tree must equal it;
  (b) the tie of the model: Parse/Peg.v interpreting the grammar term REGENERATED from the live pyparsing objects,
      with Parse/Build.v for the parse actions, must return the same tree as Module.parseString;
  (c) the model against the generator's tree (what the theorems are about)."""
import glob
import os
import random

import common
import gen_inputs as G
import sexp
from props import parsecommon as pc

TRUSTED = ['pyparsing matching rules as interpreted by Parse/Peg.v (And/Or/MatchFirst/Opt/ZeroOrMore, filler skipping, Keyword '
           'look-around, DEFAULT_ARG scanner) - tied by correspondence', 'harness/translate_grammar.py (fail-closed walker)']

WITNESSES = [
    ('C01-typedef-qualifiers-dropped', 'typedef Foo<const A&> B;',
     lambda d: d == [['typedef', ['tn', [], 'Foo', [['tn', [], 'A', []]]], 'B']],
     'the parse tree of a typedef holds only the Typename of its target: const / * / @ / & on the target or on its template '
     'arguments are not mirrored'),
    ('C01-operator-eq-as-variable', 'class A { bool operator==(const A& o) const; };',
     lambda d: d[0][10] == [] and [v[2] for v in d[0][9]] == ['operator'],
     'operator== is parsed as a property named `operator` with default text "=(const A& o) const": Variable and Operator '
     'match the same length and Variable is listed first in the alternation'),
    ('C01-tab-in-default-expanded', 'void f(string s = "a\tb");',
     lambda d: d[0][4][0][3] != ['"a\tb"'] and '\t' not in d[0][4][0][3][0],
     'parseString expands tabs before matching, so a default value containing a tab is not copied verbatim'),
]


def profile(tier, k):
    p = G.Profile()
    if k % 4 == 1:
        p.max_type_depth, p.max_ns_depth = 6, 5
    if k % 4 == 2:
        p.max_decls, p.max_members, p.max_args = 10, 10, 6
    if tier == 'thorough' and k % 4 == 3:
        p.max_type_depth, p.max_ns_depth, p.max_decls, p.max_tparams, p.max_tvalues = 8, 6, 12, 3, 5
    p.p_keyword_name = 0.15
    p.layout_defaults = True
    p.fwd_of_defined = True
    p.p_default = 0.4
    return p


def functions_of(decls):
    out = []
    for d in decls:
        if d[0] == 'fun':
            out.append(d)
        elif d[0] == 'ns':
            out += functions_of(d[2])
    return out


def theorem_domain(rep, model, modules):
    """C01_module_roundtrip / printed_decls_parse_back say: for every declaration list the model accepts as in the domain
    (decidable test Parse/RoundTripDec.v: wf_fnb), parse_module maps the printed text back to exactly that list.  Here the
    IMPLEMENTATION is run on those printed texts: the functions of every generated module that fall in the domain are
    printed by the model (one file per module) and Module.parseString must return exactly them."""
    shown = 0

    def prune(decls, depth=0):
        """the sub-tree made of the functions the model accepts and of the namespaces around them"""
        out = []
        for d in decls:
            if d[0] == 'fun':
                a = model.ask('printdecls', [d])
                if a.startswith('ok '):
                    out.append(d)
                    rep.bump('theorem_domain_functions_inside' + ('_pair_return' if d[3][0] == 'r2' else ''))
                elif a == 'outside':
                    rep.bump('theorem_domain_functions_outside')
                else:
                    raise RuntimeError('printdecls: ' + a[:200])
            elif d[0] == 'typedef':
                a = model.ask('printdecls', [d])
                if a.startswith('ok '):
                    out.append(d)
                    rep.bump('theorem_domain_typedefs_inside')
                else:
                    rep.bump('theorem_domain_typedefs_outside')
            elif d[0] == 'enum':
                a = model.ask('printdecls', [d])
                if a.startswith('ok '):
                    out.append(d)
                    rep.bump('theorem_domain_enums_inside')
                else:
                    rep.bump('theorem_domain_enums_outside')
            elif d[0] == 'include':
                a = model.ask('printdecls', [d])
                if a.startswith('ok '):
                    out.append(d)
                    rep.bump('theorem_domain_includes_inside')
                else:
                    rep.bump('theorem_domain_includes_outside')
            elif d[0] == 'fwd':
                a = model.ask('printdecls', [d])
                if a.startswith('ok '):
                    out.append(d)
                    rep.bump('theorem_domain_forward_declarations_inside')
                else:
                    rep.bump('theorem_domain_forward_declarations_outside')
            elif d[0] == 'var':
                a = model.ask('printdecls', [d])
                if a.startswith('ok '):
                    out.append(d)
                    rep.bump('theorem_domain_variables_inside')
                else:
                    rep.bump('theorem_domain_variables_outside')
            elif d[0] == 'class':
                # the class without template, templated base, operators and dunder methods, and with the constructors, methods,
                # static methods, properties and nested enums the model accepts one by one
                empty = ['class', [], d[2], d[3], [], [], [], [], [], [], [], []]
                if not model.ask('printdecls', [empty]).startswith('ok '):
                    rep.bump('theorem_domain_classes_outside')
                    continue
                # the base class stays when it is a plain (non-templated) name the model accepts
                if d[4]:
                    based = list(empty)
                    based[4] = d[4]
                    if model.ask('printdecls', [based]).startswith('ok '):
                        empty = based
                        rep.bump('theorem_domain_class_bases_inside')
                    else:
                        rep.bump('theorem_domain_class_bases_outside')
                kept = list(empty)
                for slot, what in ((5, 'constructors'), (6, 'methods'), (7, 'static_methods'), (9, 'properties'), (11, 'enums')):
                    for m in d[slot]:
                        one = list(empty)
                        one[slot] = [m]
                        if model.ask('printdecls', [one]).startswith('ok '):
                            kept[slot] = kept[slot] + [m]
                            rep.bump('theorem_domain_class_%s_inside' % what)
                        else:
                            rep.bump('theorem_domain_class_%s_outside' % what)
                out.append(kept)
                rep.bump('theorem_domain_classes_inside')
                rep.coverage['theorem_domain_max_members'] = max(rep.coverage.get('theorem_domain_max_members', 0),
                                                                 len(kept[5]) + len(kept[6]) + len(kept[7]) + len(kept[9]) + len(kept[11]))
            elif d[0] == 'ns':
                out.append(['ns', d[1], prune(d[2], depth + 1)])
                rep.bump('theorem_domain_namespaces')
                rep.coverage['theorem_domain_max_nesting'] = max(rep.coverage.get('theorem_domain_max_nesting', 0), depth + 1)
        return out

    for decls in modules:
        inside = prune(decls)
        if not inside:
            continue
        a = model.ask('printdecls', inside)
        if not a.startswith('ok '):
            rep.violation({'kind': 'broken-correspondence', 'what': 'the domain of the round-trip theorem is not closed under '
                           'concatenation in the extracted model: ' + a[:100], 'input': sexp.dumps(inside)}, no_input=True)
            continue
        text = sexp.loads(a[3:])
        rep.bump('theorem_domain_files')
        rep.coverage['theorem_domain_max_file_chars'] = max(rep.coverage.get('theorem_domain_max_file_chars', 0), len(text))
        i = pc.impl_parse(text)
        m = pc.model_parse(model, text)
        if m[0] != 'ok' or pc.canon(m[1]) != pc.canon(inside):
            rep.violation({'kind': 'broken-correspondence', 'what': 'the extracted model contradicts printed_decls_parse_back',
                           'input': text}, no_input=True)
        elif i[0] != 'ok' or pc.canon(i[1]) != pc.canon(inside):
            if shown < 3:
                shown += 1
                rep.violation({'kind': 'counterexample', 'what': 'a file printed from function declarations of the round-trip '
                               'fragment does not parse back to them (the theorem holds of the model: the implementation departs '
                               'from the modelled grammar semantics here)', 'input': text, 'expected': inside,
                               'implementation': i[1] if i[0] == 'ok' else list(i)})
        else:
            rep.bump('theorem_domain_files_parse_back')


def run(rep, tier, seed, replay=None, proof_ok=True):
    rep.coverage['rule'] = __doc__.split('\n\n', 1)[1][:1200]
    rep.assumptions += TRUSTED
    cases = []
    for f in sorted(glob.glob(common.REPO + '/tests/fixtures/*.i')):
        cases.append(('fixture:' + os.path.basename(f), open(f).read(), None))
    for f in sorted(glob.glob(os.path.join(common.VERIF, 'corpus', 'parse', '*.i'))):
        cases.append(('corpus:' + os.path.basename(f), open(f).read(), None))
    n = 260 if tier == 'quick' else 5000
    stats = {}
    gen_modules = []
    for k in range(n):
        r = random.Random('c01/%d/%d' % (seed, k))
        g = G.Gen(r, profile(tier, k))
        m = g.module()
        style = G.STYLES[k % len(G.STYLES)]
        cases.append(('gen:%d/%d:%s' % (seed, k, style), G.text(G.tokens(m), r, style), G.abs_module(m)))
        gen_modules.append(G.abs_module(m))
        for a, b in g.stats.items():
            stats[a] = stats.get(a, 0) + b
    if replay:
        import json
        rp = json.load(open(replay))
        cases = [('replay', rp['input'], rp.get('expected'))]
    rep.coverage['input_distribution'] = stats
    impl = pc.impl_parse_many([c[1] for c in cases])
    model = common.Model()
    shown = 0
    try:
        for (name, text, expected), i in zip(cases, impl):
            rep.hit(common.sha(text)[:16], i[0] == 'ok')
            rep.bump('impl_' + i[0])
            rep.bump('style_' + name.rsplit(':', 1)[-1] if name.startswith('gen') else 'fixture_or_corpus')
            bad = None
            if expected is not None:
                if i[0] != 'ok':
                    bad = 'a well-formed file is rejected: %s %s' % (i[0], i[1])
                elif pc.canon(i[1]) != pc.canon(expected):
                    bad = 'the parse tree differs from the declarations of the source'
                else:
                    rep.bump('mirror_exact')
            if bad:
                if shown < 3:
                    shown += 1
                    rep.violation({'kind': 'counterexample', 'what': bad, 'input': text, 'expected': expected,
                                   'implementation': i[1] if i[0] == 'ok' else list(i)})
                continue
            m = pc.model_parse(model, text)
            v = pc.verdict(i, m)
            if v == 'unsupported':
                rep.bump('model_unsupported')
            elif v != 'agree':
                rep.bump('model_disagrees')
                if shown < 3:
                    shown += 1
                    rep.violation({'kind': 'broken-correspondence', 'what': 'Parse/Peg.v + Build.v on the regenerated grammar: ' + v,
                                   'input': text, 'implementation': list(i)[:2], 'model': list(m)[:2]}, no_input=True)
            else:
                rep.bump('model_agrees')
        if not replay:
            # a second stream aimed at the fragment: files of 1..12 plain functions with deep types and long argument lists
            for k in range(60 if tier == 'quick' else 1500):
                r = random.Random('c01fn/%d/%d' % (seed, k))
                g = G.Gen(r, G.Profile(p_template=0.0, p_default=0.0, p_keyword_name=0.05, max_args=1 + k % 7,
                                       max_type_depth=1 + k % 8, special_types=(k % 3 == 0)))
                used = set()
                fl = [G.a_decl(g.function(used)) if r.random() < 0.65 else
                      ['var', G.a_ty(g.any_type(1 + k % 8)), 'v%d_%d' % (k, j), []] if r.random() < 0.6 else
                      ['fwd', r.random() < 0.4, ['tn', [], 'F%d_%d' % (k, j), []], []] if r.random() < 0.7 else
                      ['include', r.choice(['gtsam/geometry/Pose3.h', 'vector', 'a b.h', 'x/y/z.hpp', 'v%d.h' % j])] if r.random() < 0.5 else
                      ['typedef', G.a_tn(G.ty_typename(g.templated_type(1 + k % 5))), 'TD%d_%d' % (k, j)] if r.random() < 0.4 else
                      ['enum', r.choice(['Kind', 'classy', 'structure', 'Mode%d' % j, 'enumerate']),
                       r.sample(['A', 'B', 'Red', 'None', 'pass', 'x', 'NONE', 'class_'], r.randint(1, 5))]
                      for j in range(1 + r.randrange(12))]
                # wrap runs of them into namespaces nested up to 12 deep
                for lvl in range(k % 13):
                    cut = r.randrange(len(fl) + 1)
                    fl = fl[:cut // 2] + [['ns', 'n%d_%d' % (k, lvl), fl[cut // 2:cut]]] + fl[cut:]
                gen_modules.append(fl)
            # the single model process answers one query per declaration: 1200 modules keep the thorough tier within minutes
            theorem_domain(rep, model, gen_modules[:1200])
        # recorded defects: still present?
        for fid, text, pred, what in WITNESSES:
            i = pc.impl_parse(text)
            if i[0] == 'ok' and pred(i[1]):
                m = pc.model_parse(model, text)
                if pc.verdict(i, m) != 'agree':
                    rep.violation({'kind': 'broken-correspondence', 'what': 'model does not reproduce the recorded defect ' + fid,
                                   'input': text}, no_input=True)
                rep.known('%s: %s [witness: %s]' % (fid, what, text.replace('\t', '\\t')))
        # recorded defect: recursion depth
        deep = 'void f(%s x);' % ''.join('B%d<' % i for i in range(70)) + 'A' + '>' * 70
        deep = 'void f(' + ''.join('B%d<' % i for i in range(70)) + 'A' + '>' * 70 + ' x);'
        di = pc.impl_parse(deep)
        if di[0] == 'crash:RecursionError':
            rep.known('C01-recursion-limit: template arguments nested deeper than 54 levels (namespaces deeper than 62) are not '
                      'parsed at all: pyparsing recurses past Python\'s default 1000-frame limit and the run dies with '
                      'RecursionError [witness: void f(B69<...<B0<A>>...> x); with 70 levels]')
        elif di[0] != 'ok':
            rep.violation({'kind': 'counterexample', 'what': 'a 70-level template type is rejected with %s' % di[0], 'input': deep})
        rep.sample({'input': cases[-1][1][:400], 'tree': sexp.dumps(cases[-1][2])[:400] if cases[-1][2] else None})
    finally:
        model.close()
    return 0

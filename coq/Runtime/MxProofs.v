From Coq Require Import List Bool ZArith Lia.
From Wrap Require Import Runtime.Mx.
Import ListNotations.
Open Scope Z_scope.

Ltac Zify.zify_post_hook ::= Z.to_euclidean_division_equations.

Theorem rt_bool : forall b, unwrap_bool (wrap_bool b) = MOk b.
Proof. destruct b; reflexivity. Qed.

Lemma signed8 : forall c, -128 <= c <= 127 -> signed 8 (c mod two8) = c.
Proof.
  intros c H. unfold signed, two8. change (2 ^ 8) with 256. change (2 ^ (8 - 1)) with 128.
  rewrite Z.mod_mod by lia. destruct (Z.ltb_spec (c mod 256) 128); lia.
Qed.
Theorem rt_char : forall c, -128 <= c <= 127 -> unwrap_char (wrap_char c) = MOk c.
Proof. intros c H. unfold unwrap_char, unwrap_with, wrap_char. cbn. rewrite (signed8 c H). reflexivity. Qed.

Theorem rt_uchar : forall c, 0 <= c <= 255 -> unwrap_uchar (wrap_uchar c) = MOk c.
Proof.
  intros c H. unfold unwrap_uchar, unwrap_with, wrap_uchar. cbn. f_equal. unfold two8. rewrite Z.mod_mod by lia. apply Z.mod_small. lia.
Qed.

Lemma signed32 : forall i, -2147483648 <= i <= 2147483647 -> signed 32 (i mod two32) = i.
Proof.
  intros i H. unfold signed, two32. change (2 ^ 32) with 4294967296. change (2 ^ (32 - 1)) with 2147483648.
  rewrite Z.mod_mod by lia. destruct (Z.ltb_spec (i mod 4294967296) 2147483648); lia.
Qed.
Theorem rt_int : forall i, -2147483648 <= i <= 2147483647 -> unwrap_int (wrap_int i) = MOk i.
Proof. intros i H. unfold unwrap_int, unwrap_with, wrap_int. cbn. rewrite (signed32 i H). reflexivity. Qed.

Theorem rt_size_t : forall n, 0 <= n < two64 -> unwrap_size_t (wrap_size_t n) = MOk n.
Proof.
  intros n H. unfold unwrap_size_t, unwrap_with, wrap_size_t. cbn. f_equal. unfold two64 in *.
  rewrite Z.mod_mod by lia. apply Z.mod_small. lia.
Qed.

Theorem rt_double : forall bits, unwrap_double (wrap_double bits) = MOk bits.
Proof. reflexivity. Qed.

(* strings without NUL survive, whatever their length; with a NUL they are cut there *)
Lemma c_str_id : forall s, forallb (fun c => negb (c =? 0)) s = true -> c_str s = s.
Proof.
  induction s as [|c r IH]; intros H; [reflexivity|]. cbn [forallb] in H. apply andb_true_iff in H.
  destruct H as [Hc Hr]. apply negb_true_iff in Hc. cbn [c_str]. rewrite Hc, (IH Hr). reflexivity.
Qed.
Theorem rt_string : forall s, forallb (fun c => negb (c =? 0)) s = true -> unwrap_string (wrap_string s) = MOk s.
Proof. intros s H. unfold unwrap_string, wrap_string. cbn. rewrite (c_str_id s H). reflexivity. Qed.
Example string_nul_cut : unwrap_string (wrap_string [97; 0; 98]) = MOk [97].
Proof. reflexivity. Qed.

Theorem rt_vector : forall v, unwrap_vector (wrap_vector v) = MOk v.
Proof. intros v. unfold unwrap_vector, wrap_vector. cbn. rewrite firstn_all. reflexivity. Qed.

(* matrices keep their shape and every element its position, for all shapes incl. empty ones *)
Lemma col_length : forall A m j, length (col A m j) = m.
Proof. intros. unfold col. rewrite map_length, seq_length. reflexivity. Qed.

Lemma nth_cols : forall A m n i j, (i < m)%nat -> (j < n)%nat ->
  nth (j * m + i) (flat_map (col A m) (seq 0 n)) 0 = A i j.
Proof.
  intros A m n. 
  assert (H : forall k s i j, (i < m)%nat -> (j < k)%nat ->
            nth (j * m + i) (flat_map (col A m) (seq s k)) 0 = A i (s + j)%nat).
  { induction k as [|k IH]; intros s i j Hi Hj; [lia|].
    cbn [seq flat_map]. destruct j as [|j].
    - rewrite app_nth1 by (rewrite col_length; lia). cbn [Nat.mul Nat.add].
      unfold col. rewrite (nth_indep _ 0 (A 0%nat s)) by (rewrite map_length, seq_length; lia).
      rewrite (map_nth (fun i0 => A i0 s) (seq 0 m) 0%nat). rewrite seq_nth by lia. rewrite Nat.add_0_r. reflexivity.
    - rewrite app_nth2 by (rewrite col_length; lia). rewrite col_length.
      replace (S j * m + i - m)%nat with (j * m + i)%nat by lia.
      rewrite (IH (S s) i j Hi) by lia. f_equal. lia. }
  intros i j Hi Hj. rewrite (H n 0%nat i j Hi Hj). reflexivity.
Qed.

Theorem rt_matrix : forall m n A,
  match unwrap_matrix (wrap_matrix m n A) with
  | MOk (m', n', B) => m' = m /\ n' = n /\ forall i j, (i < m)%nat -> (j < n)%nat -> B i j = A i j
  | MErr _ => False
  end.
Proof.
  intros m n A. unfold unwrap_matrix, wrap_matrix. cbn. repeat split. intros i j Hi Hj. apply nth_cols; assumption.
Qed.

(* errors instead of values *)
Theorem err_not_scalar : forall A (cast : Z -> A) a, is_scalar a = false -> unwrap_with cast a = MErr 1.
Proof. intros A cast a H. unfold unwrap_with. rewrite H. reflexivity. Qed.
Theorem err_vector : forall a, (mx_class a <> CDouble \/ mx_n a <> 1%nat) -> unwrap_vector a = MErr 4.
Proof.
  intros a [H|H]; unfold unwrap_vector.
  - destruct (mx_class a); try reflexivity. contradiction.
  - destruct (mx_class a); try reflexivity. destruct (Nat.eqb_spec (mx_n a) 1); [contradiction | reflexivity].
Qed.
Theorem err_matrix : forall a, mx_class a <> CDouble -> unwrap_matrix a = MErr 5.
Proof. intros a H. unfold unwrap_matrix. destruct (mx_class a); try reflexivity. contradiction. Qed.

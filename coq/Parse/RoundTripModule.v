(* C01 at the level of Module.parseString: a whole file of function declarations, printed one blank before every
   token, is parsed by parse_module (Parse/Build.v) into exactly the declarations it was printed from.
   The new ingredients over Parse/RoundTrip.v: the eight-way alternation of the module content (Or = longest match,
   the first listed among equals) picks GlobalFunction because every other alternative fails on the text of a
   function; the repetition consumes one declaration per round and stops at the end of the text; StringEnd. *)
From Coq Require Import String Ascii List Bool Arith Lia.
From Wrap Require Import Base.Str Base.ListX Syntax.Ast Syntax.Print Inst.Model Parse.Peg Parse.PegProofs Parse.Build Parse.Spec
     Parse.Layout Parse.RoundTrip.
Import ListNotations.
Open Scope list_scope.

Notation g := spec_grammar.

(* words that start another kind of declaration *)
Definition decl_keywords : list chars :=
  map chars_of ["virtual"; "class"; "typedef"; "enum"; "namespace"; "template"; "pair"]%string.

Ltac noblank := vm_compute; intuition discriminate.
(* unfold a rule reference to its body in the grammar *)
Ltac rule name :=
  let b := eval cbv -[alpha_ alnum_ digits] in (lookup g name) in
  match b with Some ?body => rewrite (i_ref _ _ name body eq_refl) end.

Section Alternatives.
  Variables (p : bool) (h r : chars).
  Hypothesis Hw : word h.
  Hypothesis B : boundary r.
  Hypothesis Hk : ~ In h decl_keywords.

  Lemma kw_fails : forall f (k : string), ~ In " "%char (chars_of k) -> (In (chars_of k) decl_keywords \/ ~ word (chars_of k)) ->
    interp g (S f) (GTerm (TKw k)) {| pk := p; rest := sp h r |} = Fail.
  Proof.
    intros f k Hb Hin. apply (kw_word_fail f p k h r Hw B (safe_nospace _ _ Hb)).
    intros E. destruct Hin as [Hin|Hnw]; [apply Hk; rewrite <- E; exact Hin | apply Hnw; rewrite E; exact Hw].
  Qed.

  Lemma fwd_fails : forall f, interp g (9 + f) (GRef "ForwardDeclaration") {| pk := p; rest := sp h r |} = Fail.
  Proof.
    intros f. cbn [Nat.add]. rule "ForwardDeclaration"%string.
    rewrite i_and, seq_cons, i_and, seq_cons, i_and, seq_cons, i_and, seq_cons, i_opt, i_name.
    rewrite (kw_fails _ "virtual") by (try noblank; left; vm_compute; tauto).
    rewrite seq_cons. rewrite (kw_fails _ "class") by (try noblank; left; vm_compute; tauto). reflexivity.
  Qed.

  Lemma hash_not_word : ~ word (chars_of "#include").
  Proof. intros [_ H]. vm_compute in H. discriminate. Qed.

  Lemma include_fails : forall f, interp g (6 + f) (GRef "Include") {| pk := p; rest := sp h r |} = Fail.
  Proof.
    intros f. cbn [Nat.add]. rule "Include"%string.
    rewrite i_and, seq_cons, i_and, seq_cons, i_and, seq_cons.
    rewrite (kw_fails _ "#include") by (try noblank; right; exact hash_not_word). reflexivity.
  Qed.

  Lemma class_fails : forall f, interp g (18 + f) (GRef "Class") {| pk := p; rest := sp h r |} = Fail.
  Proof.
    intros f. cbn [Nat.add]. rule "Class"%string.
    rewrite i_and, seq_cons, i_and, seq_cons, i_and, seq_cons, i_and, seq_cons, i_and, seq_cons, i_and, seq_cons, i_and, seq_cons,
            i_and, seq_cons.
    assert (Ht : h <> ktemplate) by (intros E; apply Hk; rewrite E; vm_compute; tauto).
    pose proof (template_opt_none (2 + f) p h r Hw B Ht) as T. unfold TEMPLATE_OPT in T. cbn [Nat.add] in T. rewrite T. clear T.
    rewrite seq_cons, i_opt, i_name.
    rewrite (kw_fails _ "virtual") by (try noblank; left; vm_compute; tauto).
    cbn [app]. rewrite ?seq_nil. cbn [app]. rewrite ?seq_cons.
    rewrite (kw_fails _ "class") by (try noblank; left; vm_compute; tauto). reflexivity.
  Qed.

  Lemma typedef_fails : forall f, interp g (6 + f) (GRef "TypedefTemplateInstantiation") {| pk := p; rest := sp h r |} = Fail.
  Proof.
    intros f. cbn [Nat.add]. rule "TypedefTemplateInstantiation"%string.
    rewrite i_and, seq_cons, i_and, seq_cons, i_and, seq_cons.
    rewrite (kw_fails _ "typedef") by (try noblank; left; vm_compute; tauto). reflexivity.
  Qed.

  Lemma safe_enum : forall w : string, safe (chars_of ("enum " ++ w)) h.
  Proof.
    intros w k' E. apply Hk. assert (X : chars_of "enum" = h).
    { apply (first_blank (chars_of "enum") h (chars_of w) k').
      - noblank.
      - apply word_no_blank. exact (proj2 Hw).
      - rewrite <- E. clear. cbn. reflexivity. }
    rewrite <- X. vm_compute. tauto.
  Qed.

  Lemma enum_fails : forall f, interp g (10 + f) (GRef "Enum") {| pk := p; rest := sp h r |} = Fail.
  Proof.
    intros f. cbn [Nat.add]. rule "Enum"%string.
    rewrite i_and, seq_cons, i_and, seq_cons, i_and, seq_cons, i_and, seq_cons, i_and, seq_cons, i_or.
    cbn [alt_longest]. rewrite i_or. cbn [alt_longest].
    rewrite (kw_fails _ "enum") by (try noblank; left; vm_compute; tauto).
    assert (D : forall w : string, chars_of ("enum " ++ w) <> h).
    { intros w E. apply (word_no_blank h (proj2 Hw)). rewrite <- E. cbn. right. right. right. right. left. reflexivity. }
    rewrite (kw_word_fail _ p "enum class" h r Hw B (safe_enum "class") (D "class")).
    rewrite (kw_word_fail _ p "enum struct" h r Hw B (safe_enum "struct") (D "struct")). reflexivity.
  Qed.

  Lemma namespace_fails : forall f, interp g (7 + f) (GRef "Namespace") {| pk := p; rest := sp h r |} = Fail.
  Proof.
    intros f. cbn [Nat.add]. rule "Namespace"%string.
    rewrite i_and, seq_cons, i_and, seq_cons, i_and, seq_cons, i_and, seq_cons.
    rewrite (kw_fails _ "namespace") by (try noblank; left; vm_compute; tauto). reflexivity.
  Qed.
End Alternatives.

(* ---- a property declaration `T name ;` is not a prefix of a function declaration `T name ( ...` ---- *)
Lemma variable_fails : forall F0 toks v n X, parses F0 toks v -> is_ident n = true ->
  forall f p, F0 <= f -> interp g (8 + f) (GRef "Variable") {| pk := p; rest := render toks (sp n (sp lparen X)) |} = Fail.
Proof.
  intros F0 toks v n X Hp Hn f p Hf. cbn [Nat.add]. rule "Variable"%string.
  rewrite i_and, seq_cons, i_and, seq_cons, i_and, seq_cons, i_name.
  destruct (Hp (3 + f) p (sp n (sp lparen X)) (follow_ident n _ Hn) ltac:(lia)) as [p1 E1]. cbn [Nat.add] in E1. unfold TY in E1.
  rewrite E1. cbn [map add_name fst snd app]. rewrite ?seq_cons, i_name.
  assert (Bl : boundary (sp lparen X)) by (right; eexists; reflexivity).
  destruct (IDENT_ok (1 + f) p1 n (sp lparen X) Hn Bl) as [p2 E2]. cbn [Nat.add] in E2. unfold IDENT in E2. rewrite E2.
  cbn [map add_name fst snd app]. rewrite ?seq_nil. cbn [app]. rewrite ?seq_cons, i_name, i_opt, i_and, ?seq_cons, i_sup.
  rewrite (lit1_other _ p2 "="%char "("%char [] X eq_refl eq_refl). cbn [map app]. rewrite ?seq_nil. cbn [app].
  rewrite ?seq_cons, i_sup. rewrite (lit1_other _ p2 ";"%char "("%char [] X eq_refl eq_refl). reflexivity.
Qed.

(* ---- the alternation of the module content ---- *)
Definition OR1 : gexpr := GOr [GRef "ForwardDeclaration"; GRef "Include"].
Definition OR2 : gexpr := GOr [OR1; GRef "Class"].
Definition OR3 : gexpr := GOr [OR2; GRef "TypedefTemplateInstantiation"].
Definition OR4 : gexpr := GOr [OR3; GRef "GlobalFunction"].
Definition OR5 : gexpr := GOr [OR4; GRef "Enum"].
Definition OR6 : gexpr := GOr [OR5; GRef "Variable"].
Definition OR7 : gexpr := GOr [OR6; GRef "Namespace"].
Lemma decls_or7 : DECLS = GStar OR7. Proof. reflexivity. Qed.

Lemma or2_r : forall f a b st, interp g f a st = Fail -> interp g (S f) (GOr [a; b]) st = interp g f b st.
Proof. intros f a b st H. rewrite i_or. cbn [alt_longest]. rewrite H. destruct (interp g f b st); reflexivity. Qed.
Lemma or2_l : forall f a b st its st', interp g f a st = Match its st' -> interp g f b st = Fail ->
  interp g (S f) (GOr [a; b]) st = Match its st'.
Proof. intros f a b st its st' Ha Hb. rewrite i_or. cbn [alt_longest]. rewrite Ha, Hb. reflexivity. Qed.

(* a function of the fragment: return type, name, arguments *)
Definition fn : Type := ty * string * list (ty * string).
Definition toks_of (x : fn) : list chars := match x with (t, name, args) => fn_toks t name args end.
Definition fuel_fn (x : fn) : nat := match x with (t, _, args) => fn_fuel t args end.
Definition decl_of (x : fn) : decl :=
  match x with (t, name, args) => DFun {| f_tmpl := None; f_name := name; f_ret := RSingle t; f_args := map mk_arg args |} end.
Definition head_ok (t : ty) : Prop := exists h rest, ty_toks t = h :: rest /\ word h /\ ~ In h decl_keywords.
Definition wf_fn (x : fn) : Prop :=
  match x with (t, name, args) =>
    wf_ty t /\ depth t < depth_fuel /\ head_ok t /\ is_ident (chars_of name) = true /\ Forall wf_arg args end.

Lemma head_ok_wf_head : forall t, head_ok t -> wf_head t.
Proof.
  intros t [h [rest' [E [Hw Hk]]]]. exists h, rest'. split; [exact E|]. split; [exact Hw|].
  split; intros X; apply Hk; rewrite X; vm_compute; tauto.
Qed.

Lemma content_step : forall x, wf_fn x -> forall p R f, fuel_fn x + 25 <= f ->
  exists v p', interp g f OR7 {| pk := p; rest := render (toks_of x) R |} = Match [([], v)] {| pk := p'; rest := R |}
               /\ b_decl depth_fuel v = Ok (decl_of x).
Proof.
  intros [[t name] args] [Hw [Hd [Hh [Hn Ha]]]] p R f Hf. cbn [toks_of fuel_fn decl_of] in *.
  assert (X : exists y, f = Sn 7 (18 + y) /\ fn_fuel t args <= y) by (exists (f - 25); cbn [Sn]; lia).
  destruct X as [y [Ef Hy]]. subst f. cbn [Sn].
  destruct (function_roundtrip t name args Hw Hd (head_ok_wf_head t Hh) Hn Ha p R (Sn 3 (18 + y)) ltac:(cbn [Sn]; lia))
    as [v [p' [E B]]]. cbn [Sn] in E.
  exists v, p'. split; [|exact B].
  destruct Hh as [h [rest' [Eh [Hwh Hk]]]].
  set (st := {| pk := p; rest := render (fn_toks t name args) R |}) in *.
  assert (Est : st = {| pk := p; rest := sp h (render (rest' ++ [chars_of name] ++ [lparen] ++ args_toks args ++ [rparen] ++ [semi]) R) |}).
  { unfold st, fn_toks. rewrite Eh. reflexivity. }
  assert (Bd : boundary (render (rest' ++ [chars_of name] ++ [lparen] ++ args_toks args ++ [rparen] ++ [semi]) R)).
  { rewrite render_app. apply render_boundary. right. eexists. reflexivity. }
  unfold OR7. apply or2_l.
  2:{ rewrite Est. apply (namespace_fails p h _ Hwh Bd Hk (Sn 6 (11 + y))). }
  unfold OR6. apply or2_l.
  2:{ unfold st, fn_toks. rewrite render_app.
      change (render ([chars_of name] ++ [lparen] ++ args_toks args ++ [rparen] ++ [semi]) R)
        with (sp (chars_of name) (sp lparen (render (args_toks args ++ [rparen] ++ [semi]) R))).
      assert (HP : parses (fuel_of t) (ty_toks t) (ty_value t)) by (apply (ty_parses (S (depth t))); [apply Nat.lt_succ_diag_r | exact Hw]).
      apply (variable_fails (fuel_of t) (ty_toks t) (ty_value t) (chars_of name) _ HP Hn (Sn 5 (10 + y)) p).
      unfold fn_fuel in Hy. cbn [Sn]. lia. }
  unfold OR5. apply or2_l.
  2:{ rewrite Est. apply (enum_fails p h _ Hwh Bd Hk (Sn 4 (8 + y))). }
  unfold OR4. rewrite or2_r; [exact E|].
  unfold OR3. rewrite or2_r; [rewrite Est; apply (typedef_fails p h _ Hwh Bd Hk (14 + y))|].
  unfold OR2. rewrite or2_r; [rewrite Est; apply (class_fails p h _ Hwh Bd Hk (1 + y))|].
  unfold OR1. rewrite or2_r; [rewrite Est; apply (include_fails p h _ Hwh Bd Hk (12 + y))|].
  rewrite Est. apply (fwd_fails p h _ Hwh Bd Hk (9 + y)).
Qed.

(* ---- the repetition: one declaration per round, stopping at the end of the text ---- *)
Lemma end_fails : forall p f, 30 <= f -> interp g f OR7 {| pk := p; rest := [] |} = Fail.
Proof.
  intros p f Hf. assert (E : interp g 30 OR7 {| pk := p; rest := [] |} = Fail) by (destruct p; vm_compute; reflexivity).
  unfold interp in *. rewrite (fuel_mono run_term g 30 OR7 _ ltac:(rewrite E; discriminate) f Hf). exact E.
Qed.

Definition module_toks (fns : list fn) : list chars := flat_map toks_of fns.
Definition items_of (vs : list value) : list item := map (fun v => ([], v)) vs.

Lemma star_fns : forall fns, Forall wf_fn fns -> forall F, 30 <= F -> (forall x, In x fns -> fuel_fn x + 25 <= F) ->
  forall k acc p, length fns < k ->
  exists vs p', star (interp g F) k OR7 acc {| pk := p; rest := render (module_toks fns) [] |}
                = Match (acc ++ items_of vs) {| pk := p'; rest := [] |}
                /\ mapM (b_decl depth_fuel) vs = Ok (map decl_of fns).
Proof.
  induction fns as [|x fns IH]; intros Hwf F HF Hfuel k acc p Hk.
  - destruct k as [|k]; [cbn in Hk; lia|]. exists [], p. cbn [module_toks flat_map render fold_right items_of map mapM].
    rewrite star_S, (end_fails p F HF), app_nil_r. split; reflexivity.
  - destruct k as [|k]; [cbn in Hk; lia|]. inversion Hwf as [|? ? Hx Hrest]; subst.
    cbn [module_toks flat_map]. rewrite render_app. fold (module_toks fns).
    destruct (content_step x Hx p (render (module_toks fns) []) F (Hfuel x (or_introl eq_refl))) as [v [p1 [E B]]].
    rewrite star_S, E.
    destruct (IH Hrest F HF (fun y Hy => Hfuel y (or_intror Hy)) k (acc ++ [([], v)]) p1 ltac:(cbn [length] in Hk; lia))
      as [vs [p2 [E2 B2]]].
    exists (v :: vs), p2. rewrite E2. split.
    + rewrite <- app_assoc. reflexivity.
    + cbn [mapM map]. rewrite B. cbn [bind]. rewrite B2. reflexivity.
Qed.

(* ---- Module = ModuleContent StringEnd ---- *)
Lemma module_parses : forall fns, Forall wf_fn fns -> forall F, 30 <= F -> (forall x, In x fns -> fuel_fn x + 25 <= F) ->
  length fns < F ->
  exists vs p', interp g (5 + F) (GRef "Module") {| pk := false; rest := render (module_toks fns) [] |}
                = Match [([], VNode "Module" [([], VNode "ModuleContent" (items_of vs))])] {| pk := p'; rest := [] |}
                /\ mapM (b_decl depth_fuel) vs = Ok (map decl_of fns).
Proof.
  intros fns Hwf F HF Hfuel Hlen. cbn [Nat.add]. rule "Module"%string. rewrite i_and, seq_cons. rule "ModuleContent"%string.
  rewrite i_star.
  destruct (star_fns fns Hwf (S F) ltac:(lia) (fun x Hx => Nat.le_trans _ _ _ (Hfuel x Hx) (Nat.le_succ_diag_r F)) (S F) [] false ltac:(lia))
    as [vs [p' [E B]]].
  exists vs, p'. split; [|exact B]. change (GOr [GOr [GOr [GOr [GOr [GOr [GOr [GRef "ForwardDeclaration"; GRef "Include"]; GRef "Class"];
    GRef "TypedefTemplateInstantiation"]; GRef "GlobalFunction"]; GRef "Enum"]; GRef "Variable"]; GRef "Namespace"]) with OR7.
  rewrite E. cbn [app]. rewrite seq_cons, i_term. cbn [run_term]. destruct p'; reflexivity.
Qed.

(* ---- the printed text contains no tab: parseString's expandtabs leaves it alone ---- *)
Definition notab (c : ascii) : Prop := code c <> 9.
Definition tok_ok (t : chars) : Prop := Forall notab t.

Lemma expandtabs_notab : forall l col, Forall notab l -> expandtabs_from col l = l.
Proof.
  induction l as [|c l IH]; intros col H; [reflexivity|]. inversion H as [|? ? Hc Hl]; subst. cbn [expandtabs_from].
  destruct (Nat.eqb (code c) 9) eqn:E; [apply Nat.eqb_eq in E; contradiction|].
  destruct (orb _ _); [f_equal; apply IH; exact Hl|]. destruct (andb _ _); f_equal; apply IH; exact Hl.
Qed.

Lemma alnum_notab : forall c, in_str alnum_ c = true -> notab c.
Proof.
  intros c H. unfold in_str, cmem in H. apply existsb_exists in H. destruct H as [z [Hz E]].
  apply ceq_eq in E. subst z.
  assert (A : forallb (fun c => negb (Nat.eqb (code c) 9)) (chars_of alnum_) = true) by (vm_compute; reflexivity).
  rewrite forallb_forall in A. specialize (A c Hz). unfold notab. intros X. rewrite X in A. discriminate.
Qed.
Lemma word_tok : forall n, forallb (in_str alnum_) n = true -> tok_ok n.
Proof. intros n H. apply Forall_forall. intros c Hc. rewrite forallb_forall in H. apply alnum_notab, H, Hc. Qed.
Lemma ident_tok : forall n, is_ident n = true -> tok_ok n.
Proof. intros n H. apply word_tok. exact (proj2 (ident_word n H)). Qed.

Lemma render_notab : forall toks r, Forall tok_ok toks -> Forall notab r -> Forall notab (render toks r).
Proof.
  induction toks as [|t toks IH]; intros r Ht Hr; [exact Hr|]. inversion Ht as [|? ? H1 H2]; subst.
  change (render (t :: toks) r) with (sp t (render toks r)). unfold sp. constructor; [vm_compute; discriminate|].
  apply Forall_app. split; [exact H1|]. apply IH; assumption.
Qed.
Lemma render_length : forall toks r, length toks + length r <= length (render toks r).
Proof.
  induction toks as [|t toks IH]; intros r; [cbn; lia|]. change (render (t :: toks) r) with (sp t (render toks r)).
  unfold sp. cbn [length]. rewrite app_length. specialize (IH r). lia.
Qed.

Lemma lit_tok : forall s : string, Forall notab (chars_of s) -> tok_ok (chars_of s). Proof. intros s H. exact H. Qed.
Ltac tok_lit := repeat constructor; vm_compute; discriminate.

Lemma const_tok : forall c, Forall tok_ok (const_toks c). Proof. intros [|]; cbn; tok_lit. Qed.
Lemma marker_tok : forall k, Forall tok_ok (marker k). Proof. intros [| | |]; cbn; tok_lit. Qed.
Lemma path_tok : forall names, Forall (fun n => is_ident n = true) names ->
  Forall tok_ok (path_toks names) /\ length names <= length (path_toks names).
Proof.
  induction names as [|n names IH]; intros H; [split; [constructor | cbn; lia]|]. inversion H as [|? ? H1 H2]; subst.
  destruct names as [|m names]; [split; [repeat constructor; apply ident_tok; exact H1 | cbn; lia]|].
  change (path_toks (n :: m :: names)) with (n :: colons :: path_toks (m :: names)). destruct (IH H2) as [I1 I2]. split.
  - constructor; [apply ident_tok; exact H1|]. constructor; [tok_lit | exact I1].
  - cbn [length] in *. lia.
Qed.
Lemma more_toks_cons : forall t pss, more_toks (t :: pss) = comma_tok :: t ++ more_toks pss. Proof. reflexivity. Qed.
Lemma more_args_cons : forall t l, more_args (t :: l) = comma_tok :: t ++ more_args l. Proof. reflexivity. Qed.
Lemma more_tok : forall pss, Forall (Forall tok_ok) pss -> Forall tok_ok (more_toks pss).
Proof.
  induction pss as [|t pss IH]; intros H; [constructor|]. inversion H as [|? ? H1 H2]; subst. rewrite more_toks_cons.
  constructor; [tok_lit|]. apply Forall_app. split; [exact H1 | apply IH; exact H2].
Qed.

Lemma sum_bound : forall ps, (forall x, In x ps -> fuel_of x <= 13 * length (ty_toks x)) ->
  length ps + fold_right (fun x acc => fuel_of x + acc) 0 ps <= 13 * length (more_toks (map ty_toks ps)).
Proof.
  induction ps as [|x ps IH]; intros H; [cbn; lia|]. cbn [map fold_right]. rewrite more_toks_cons. cbn [length]. rewrite app_length.
  specialize (IH (fun y Hy => H y (or_intror Hy))). specialize (H x (or_introl eq_refl)). lia.
Qed.

(* every token of a well-formed type is tab-free, and the fuel the round trip asks for is linear in the token count *)
Lemma ty_facts : forall n t, depth t < n -> wf_ty t -> Forall tok_ok (ty_toks t) /\ fuel_of t <= 13 * length (ty_toks t).
Proof.
  induction n as [|n IH]; intros t Hd Hw; [lia|].
  destruct t as [[ns [nm|o] insts] c k basic | ns [nm|o] ps c k]; cbn [wf_ty] in Hw; try contradiction.
  - destruct Hw as [Hi Hb]. subst insts. cbn [ty_toks fuel_of].
    assert (Hp : Forall (fun x => is_ident x = true) (names_of ns nm)).
    { destruct basic; [|exact (proj1 Hb)]. destruct Hb as [E Hin]. subst ns. cbn. constructor; [|constructor].
      exact (proj1 (basic_ident nm Hin)). }
    destruct (path_tok _ Hp) as [P1 P2]. split.
    + apply Forall_app. split; [apply const_tok|]. apply Forall_app. split; [exact P1 | apply marker_tok].
    + rewrite !app_length. unfold names_of in *. rewrite map_length, app_length in P2. cbn [length] in P2. lia.
  - destruct Hw as [[Hp Hres] [Hne Hall]]. apply wf_all in Hall. cbn [ty_toks fuel_of]. unfold tt_toks.
    destruct (path_tok _ Hp) as [P1 P2]. unfold names_of in *. rewrite map_length, app_length in P2. cbn [length] in P2.
    assert (Hsub : forall x, In x ps -> Forall tok_ok (ty_toks x) /\ fuel_of x <= 13 * length (ty_toks x)).
    { intros x Hx. apply IH; [|rewrite Forall_forall in Hall; apply Hall; exact Hx].
      cbn [depth] in Hd. pose proof (max_ge ps x Hx). lia. }
    destruct ps as [|t1 ps]; [contradiction|]. cbn [map]. rewrite sep_toks_cons.
    destruct (Hsub t1 (or_introl eq_refl)) as [T1 T2].
    pose proof (sum_bound ps (fun x Hx => proj2 (Hsub x (or_intror Hx)))) as SB. split.
    + apply Forall_app. split; [apply const_tok|]. apply Forall_app. split; [exact P1|].
      apply Forall_app. split; [tok_lit|]. apply Forall_app. split.
      * apply Forall_app. split; [exact T1|]. apply more_tok. apply Forall_forall. intros l Hl. apply in_map_iff in Hl.
        destruct Hl as [x [E Hx]]. subst l. exact (proj1 (Hsub x (or_intror Hx))).
      * apply Forall_app. split; [tok_lit | apply marker_tok].
    + cbn [fold_right length]. rewrite !app_length. cbn [length]. lia.
Qed.

Lemma args_facts : forall args, Forall wf_arg args ->
  Forall tok_ok (args_toks args) /\ args_fuel args <= 20 + 13 * length (args_toks args).
Proof.
  intros args H. unfold args_toks, args_fuel.
  assert (M : Forall tok_ok (more_args (map one_arg_toks args)) /\
              length args + fold_right (fun a acc => 5 + fuel_of (fst a) + acc) 0 args <= 13 * length (more_args (map one_arg_toks args))).
  { induction H as [|a args [Hw [Hd Hn]] Hrest IH]; [split; [constructor | cbn; lia]|]. destruct IH as [I1 I2].
    destruct (ty_facts _ _ Hd Hw) as [T1 T2]. cbn [map fold_right]. rewrite more_args_cons. cbn [length]. split.
    - constructor; [tok_lit|]. apply Forall_app. split; [|exact I1]. unfold one_arg_toks. apply Forall_app. split; [exact T1|].
      repeat constructor. apply ident_tok. exact Hn.
    - rewrite app_length. unfold one_arg_toks at 1. rewrite app_length. cbn [length]. lia. }
  destruct args as [|a args]; [split; [constructor | cbn; lia]|].
  inversion H as [|? ? [Hw [Hd Hn]] Hrest]; subst. destruct (ty_facts _ _ Hd Hw) as [T1 T2].
  assert (M2 : Forall tok_ok (more_args (map one_arg_toks args)) /\
              length args + fold_right (fun a acc => 5 + fuel_of (fst a) + acc) 0 args <= 13 * length (more_args (map one_arg_toks args))).
  { clear - Hrest. induction Hrest as [|a args [Hw [Hd Hn]] Hrest IH]; [split; [constructor | cbn; lia]|]. destruct IH as [I1 I2].
    destruct (ty_facts _ _ Hd Hw) as [T1 T2]. cbn [map fold_right]. rewrite more_args_cons. cbn [length]. split.
    - constructor; [tok_lit|]. apply Forall_app. split; [|exact I1]. unfold one_arg_toks. apply Forall_app. split; [exact T1|].
      repeat constructor. apply ident_tok. exact Hn.
    - rewrite app_length. unfold one_arg_toks at 1. rewrite app_length. cbn [length]. lia. }
  destruct M2 as [I1 I2]. cbn [map sep_args fold_right length]. split.
  - apply Forall_app. split; [|exact I1]. unfold one_arg_toks. apply Forall_app. split; [exact T1|]. repeat constructor. apply ident_tok. exact Hn.
  - rewrite app_length. unfold one_arg_toks at 1. rewrite app_length. cbn [length]. lia.
Qed.

Lemma fn_facts : forall x, wf_fn x -> Forall tok_ok (toks_of x) /\ fuel_fn x <= 50 + 13 * length (toks_of x) /\ 1 <= length (toks_of x).
Proof.
  intros [[t name] args] [Hw [Hd [_ [Hn Ha]]]]. cbn [toks_of fuel_fn]. unfold fn_toks, fn_fuel.
  destruct (ty_facts _ _ Hd Hw) as [T1 T2]. destruct (args_facts args Ha) as [A1 A2]. split; [|split].
  - apply Forall_app. split; [exact T1|]. apply Forall_app. split; [repeat constructor; apply ident_tok; exact Hn|].
    apply Forall_app. split; [tok_lit|]. apply Forall_app. split; [exact A1|]. apply Forall_app. split; tok_lit.
  - rewrite !app_length. cbn [length]. lia.
  - rewrite !app_length. cbn [length]. lia.
Qed.

Lemma module_facts : forall fns, Forall wf_fn fns ->
  Forall tok_ok (module_toks fns) /\ length fns <= length (module_toks fns) /\
  (forall x, In x fns -> fuel_fn x <= 50 + 13 * length (module_toks fns)).
Proof.
  induction fns as [|x fns IH]; intros H; [split; [constructor | split; [cbn; lia | intros x []]]|].
  inversion H as [|? ? Hx Hrest]; subst. destruct (IH Hrest) as [I1 [I2 I3]]. destruct (fn_facts x Hx) as [F1 [F2 F3]].
  cbn [module_toks flat_map]. fold (module_toks fns). split; [|split].
  - apply Forall_app. split; assumption.
  - rewrite app_length. cbn [length]. lia.
  - intros y [E|Hy]; rewrite app_length; [subst y; lia | specialize (I3 y Hy); lia].
Qed.

Lemma string_of_length : forall l, String.length (string_of l) = length l.
Proof. induction l as [|c l IH]; [reflexivity|]. cbn. rewrite IH. reflexivity. Qed.
Lemma snd_items : forall vs, map snd (items_of vs) = vs.
Proof. induction vs as [|v vs IH]; [reflexivity|]. unfold items_of in *. cbn [map snd]. f_equal. exact IH. Qed.

(* the text of a file of function declarations *)
Definition print_module (fns : list fn) : string := string_of (render (module_toks fns) []).

Theorem module_roundtrip : forall fns, Forall wf_fn fns -> parse_module g (print_module fns) = Ok (map decl_of fns).
Proof.
  intros fns H. destruct (module_facts fns H) as [M1 [M2 M3]].
  pose proof (render_length (module_toks fns) []) as RL. cbn [length] in RL.
  unfold parse_module, parse_text, print_module. rewrite chars_string. unfold expandtabs.
  rewrite expandtabs_notab by (apply render_notab; [exact M1 | constructor]).
  set (L := length (render (module_toks fns) [])) in *.
  assert (EF : text_fuel (string_of (render (module_toks fns) [])) = 5 + (16 * L + 95)).
  { unfold text_fuel. rewrite string_of_length. fold L. lia. }
  rewrite EF.
  destruct (module_parses fns H (16 * L + 95) ltac:(lia) (fun x Hx => ltac:(specialize (M3 x Hx); lia)) ltac:(lia)) as [vs [p' [E B]]].
  rewrite E. cbv beta iota. unfold b_module. rewrite snd_items. exact B.
Qed.

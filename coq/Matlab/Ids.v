(* Faithful model of the MATLAB wrapper's id allocation (wrapper.py:_update_wrapper_id and the walk
   that calls it), of the call sites written into the .m files, and of the re-walks that emit the
   `case` labels (mex_function) and the routines (generate_wrapper).  Definitions only. *)
From Coq Require Import String Ascii List Bool Arith.
From Wrap Require Import Base.Str Base.ListX Syntax.Ast Syntax.Print Inst.Model Inst.Proj.
From Wrap Require gen.Tables.
Import ListNotations.
Open Scope string_scope.
Open Scope list_scope.

Inductive role := RCollector | RUpcast | RCtor | RDtor | RMethod | RStatic | RGetter | RSetter
                | RSerialize | RDeserialize | RFunction.

(* enum context of a routine (CheckMixin.is_enum): enums of the class and of the class's namespace *)
Record ectx := { ec_class_enums : list string; ec_ns_enums : list string;
                 ec_class_path : list string (* namespaces()[1:] ++ [name] *);
                 ec_ns_path : list string (* parent.full_namespaces()[1:] *) }.
(* what the routine generator reads besides the argument lists *)
Record xinfo := {
  x_cpp : string;             (* C++ name of the class (to_cpp) *)
  x_base : option string;     (* printed parent class *)
  x_e : option ectx;
  x_ret : option ret;         (* return type of the callable *)
  x_callee : string;          (* spelling of the callee in the C++ call *)
  x_name : string;            (* name printed in checkArguments *)
  x_minst : bool;             (* the method has its own template instantiations *)
  x_prop : option var;        (* the property, for getters / setters *)
  x_first : bool;             (* first overload of its group (functions: `if` vs `elseif`) *)
}.
Definition x_nil : xinfo :=
  {| x_cpp := ""; x_base := None; x_e := None; x_ret := None; x_callee := ""; x_name := ""; x_minst := false; x_prop := None; x_first := false |}.

(* what a gateway id denotes *)
Record slot := {
  s_ns : string;          (* namespace_name: the namespace names joined without separator *)
  s_cls : string;         (* instantiated class name; for functions the function name *)
  s_role : role;
  s_member : string;      (* member name used in the routine name *)
  s_mfun : string;        (* the MATLAB function that contains the call site *)
  s_args : list arg;      (* the explicit arguments of this overload (after default expansion) *)
  s_backup : list arg;    (* the full declared argument list *)
  s_file : string;        (* the .m file that contains the call site *)
  s_x : xinfo;
}.

Record mcfg := { m_module : string; m_ignore : list string; m_boost : bool }.

(* wrapper.py:150 _expand_default_arguments: trailing defaults peeled one by one; a default before a
   non-default argument is an AssertionError (None) *)
Definition strip_defaults (l : list arg) : list arg :=
  map (fun a => {| a_ty := a_ty a; a_name := a_name a; a_default := None |}) l.
Definition has_default (a : arg) : bool := match a_default a with Some _ => true | None => false end.

(* number of trailing arguments with a default *)
Fixpoint trailing_defaults_rev (rl : list arg) : nat :=
  match rl with
  | a :: r => if has_default a then S (trailing_defaults_rev r) else 0
  | [] => 0
  end.
Definition trailing_defaults (l : list arg) : nat := trailing_defaults_rev (rev l).

(* the overloads n, n-1, ..., n-k (explicit argument lists, defaults cleared) *)
Fixpoint peel (k : nat) (l : list arg) : list (list arg) :=
  match k with
  | 0 => [strip_defaults l]
  | S k' => strip_defaults l :: peel k' (removelast l)
  end.
Definition expand_defaults (l : list arg) : option (list (list arg)) :=
  let k := trailing_defaults l in
  if existsb has_default (firstn (length l - k) l) then None
  else Some (peel k l).

(* stable insertion sort by name (Python sorted(key=name)) *)
Fixpoint insert_by {A} (key : A -> string) (x : A) (l : list A) : list A :=
  match l with
  | [] => [x]
  | y :: r => if String.ltb (key x) (key y) then x :: l else y :: insert_by key x r
  end.
Definition sort_by {A} (key : A -> string) (l : list A) : list A :=
  fold_left (fun acc x => insert_by key x acc) l [].

(* _group_methods: groups in order of first appearance *)
Fixpoint add_group {A} (name : string) (xs : list A) (groups : list (string * list A)) : list (string * list A) :=
  match groups with
  | [] => [(name, xs)]
  | (n, ys) :: r => if String.eqb n name then (n, ys ++ xs) :: r else (n, ys) :: add_group name xs r
  end.

Section Walk.
  Variable c : mcfg.
  Variable top_items : list item.

  Definition wrapper_name : string := (m_module c ++ "_wrapper")%string.

  (* the +pkg path of a namespace path *)
  Definition pkg_path (home : list string) : string :=
    String.concat "/" (map (fun x => ("+" ++ x)%string) home).
  Definition in_pkg (home : list string) (file : string) : string :=
    match home with [] => file | _ => (pkg_path home ++ "/" ++ file)%string end.

  Definition clean_class_name (k : iclass) : string :=
    match ic_ctors k with x :: _ => ik_name x | [] => ic_name k end.

  (* the name the ignore list is compared with in wrap_instantiated_class (wrapper.py:1036) *)
  Definition ignore_name (k : iclass) : string :=
    (join "::" (ic_home k) ++ "::" ++ ic_name k)%string.
  Definition ignored (k : iclass) : bool := mem_str (ignore_name k) (m_ignore c).

  Definition mkx (ns cls : string) (r : role) (member mfun : string) (args backup : list arg) (file : string)
             (x : xinfo) : slot :=
    {| s_ns := ns; s_cls := cls; s_role := r; s_member := member; s_mfun := mfun; s_args := args; s_backup := backup;
       s_file := file; s_x := x |}.

  (* enums declared directly in the namespace at path `home` of the instantiated tree *)
  Fixpoint enums_at (content : list item) (home : list string) : list string :=
    match home with
    | [] => flat_map (fun i => match i with IEnum e => [e_name e] | _ => [] end) content
    | n :: rest =>
      flat_map (fun i => match i with
                         | INamespace n' c' => if String.eqb n n' then enums_at c' rest else []
                         | _ => []
                         end) content
    end.

  (* all overloads of a list of callables, grouped by name in order of first appearance *)
  Definition grouped {A} (name : A -> string) (args : A -> list arg) (l : list A)
    : option (list (string * list (A * list arg))) :=
    fold_left (fun acc x =>
                 match acc, expand_defaults (args x) with
                 | Some g, Some ovs => Some (add_group (name x) (map (fun o => (x, o)) ovs) g)
                 | _, _ => None
                 end) l (Some []).

  (* one class: the ids it allocates, in order (None = the reserved up-cast id of a virtual class) *)
  Definition class_slots (home : list string) (k : iclass) : option (list (option slot)) :=
    let nsname := String.concat "" home in
    let file := in_pkg home (clean_class_name k ++ ".m")%string in
    let cls := ic_name k in
    let e := Some {| ec_class_enums := map e_name (ic_enums k); ec_ns_enums := enums_at top_items (ic_home k);
                     ec_class_path := ic_home k ++ [ic_name k]; ec_ns_path := ic_home k |} in
    let cx := {| x_cpp := iclass_cpp k; x_base := option_map tn_cpp (ic_base k); x_e := e; x_ret := None;
                 x_callee := ""; x_name := ""; x_minst := false; x_prop := None; x_first := false |} in
    let mk := fun ns cls r member mfun args backup file => mkx ns cls r member mfun args backup file cx in
    let head := (if ic_virtual k then [None] else [])
                ++ [Some (mk nsname cls RCollector "collectorInsertAndMakeBase" cls [] [] file)] in
    match sequence (map (fun x => option_map (map (fun o => Some (mk nsname cls RCtor "constructor" cls o (ik_args x) file)))
                                             (expand_defaults (ik_args x))) (ic_ctors k)),
          grouped im_name im_args (sort_by im_name (ic_methods k)),
          grouped is_name is_args (sort_by is_name (ic_statics k)) with
    | Some ctors, Some mgroups, Some sgroups =>
      let dtor := [Some (mk nsname cls RDtor "deconstructor" "delete" [] [] file)] in
      let methods :=
          flat_map (fun g =>
                      let name := fst g in
                      if andb (mem_str name Tables.matlab_whitelist) (negb (String.eqb name "serialize")) then []
                      else if mem_str name Tables.matlab_ignore_methods then []
                      else if String.eqb name "serialize" then
                             if m_boost c then [Some (mk nsname cls RSerialize "string_serialize" "string_serialize" [] [] file)] else []
                           else map (fun mo =>
                                       let m := fst mo in
                                       Some (mkx nsname cls RMethod (im_orig m) name (snd mo) (im_args m) file
                                                 {| x_cpp := iclass_cpp k; x_base := option_map tn_cpp (ic_base k); x_e := e;
                                                    x_ret := Some (im_ret m); x_callee := imethod_cpp m; x_name := im_name m;
                                                    x_minst := match im_insts m with [] => false | _ => true end;
                                                    x_prop := None; x_first := false |}))
                                    (snd g)) mgroups in
      let serialize_seen := andb (m_boost c) (existsb (fun g => String.eqb (fst g) "serialize") mgroups) in
      let props := flat_map (fun v =>
                               let px := {| x_cpp := iclass_cpp k; x_base := option_map tn_cpp (ic_base k); x_e := e;
                                            x_ret := None; x_callee := ""; x_name := v_name v; x_minst := false;
                                            x_prop := Some v; x_first := false |} in
                               [Some (mkx nsname cls RGetter (v_name v) ("get." ++ v_name v)%string [] [] file px);
                                Some (mkx nsname cls RSetter (v_name v) ("set." ++ v_name v)%string [] [] file px)]) (ic_props k) in
      let statics :=
          flat_map (fun g =>
                      if mem_str (fst g) Tables.matlab_ignore_methods then []
                      else map (fun mo =>
                                  let m := fst mo in
                                  Some (mkx nsname cls RStatic (is_name m) (fst g) (snd mo) (is_args m) file
                                            {| x_cpp := iclass_cpp k; x_base := option_map tn_cpp (ic_base k); x_e := e;
                                               x_ret := Some (is_ret m);
                                               x_callee := (iclass_cpp k ++ "::" ++ is_orig m)%string;
                                               x_name := (iclass_cpp k ++ "." ++ is_name m)%string;
                                               x_minst := false; x_prop := None; x_first := false |}))
                               (snd g)) sgroups in
      let deser := if serialize_seen then [Some (mk nsname cls RDeserialize "string_deserialize" "string_deserialize" [] [] file)] else [] in
      Some (head ++ concat ctors ++ dtor ++ methods ++ props ++ statics ++ deser)
    | _, _, _ => None
    end.

  Definition function_slots (parent_name : string) (home : list string) (funs : list ifunc)
    : option (list (option slot)) :=
    match grouped if_name if_args funs with
    | Some groups =>
      Some (flat_map (fun g => mapi (fun idx fo =>
                                      let f := fst fo in
                                      Some (mkx parent_name (if_name f) RFunction (if_name f) (fst g)
                                                (snd fo) (if_args f) (in_pkg home (fst g ++ ".m")%string)
                                                {| x_cpp := ""; x_base := None; x_e := None; x_ret := Some (if_ret f);
                                                   x_callee := (String.concat "" (map (fun x => (x ++ "::")%string) (if_home f))
                                                                ++ if_name f)%string;
                                                   x_name := if_name f; x_minst := false; x_prop := None;
                                                   x_first := Nat.eqb idx 0 |}))
                                   (snd g)) groups)
    | None => None
    end.

  Definition app_opt {A} (a b : option (list A)) : option (list A) :=
    match a, b with Some x, Some y => Some (x ++ y) | _, _ => None end.

  (* wrap_namespace: content in order (nested namespaces when met), then this namespace's functions *)
  Fixpoint item_slots (home : list string) (i : item) : option (list (option slot)) :=
    match i with
    | IClass k =>
      if ignored k then (match home with [] => None (* wrapper.py:1203 subscripts None: TypeError *) | _ => Some [] end)
      else class_slots home k
    | INamespace n content =>
      let home' := home ++ [n] in
      let body := (fix go (l : list item) : option (list (option slot)) :=
                     match l with [] => Some [] | x :: r => app_opt (item_slots home' x) (go r) end) content in
      app_opt body
              (function_slots n home' (flat_map (fun x => match x with IFun f => [f] | _ => [] end) content))
    | _ => Some []
    end.

  Definition module_slots (content : list item) : option (list (option slot)) :=
    app_opt (fold_right (fun x acc => app_opt (item_slots [] x) acc) (Some []) content)
            (function_slots "" [] (flat_map (fun x => match x with IFun f => [f] | _ => [] end) content)).

  (* ---- what is written where ---- *)
  Definition role_suffix (s : slot) : string :=
    match s_role s with
    | RGetter => ("get_" ++ s_member s)%string
    | RSetter => ("set_" ++ s_member s)%string
    | _ => s_member s
    end.
  (* routine name without the trailing _<id> (wrapper.py:122-127, property names at 771/786) *)
  Definition routine_base (s : slot) : string :=
    match s_role s with
    | RFunction => s_cls s
    | _ => (s_ns s ++ s_cls s ++ "_" ++ role_suffix s)%string
    end.

  (* index -> entries: call sites as (printed id, file, slot description) *)
  Inductive what := WSlot (s : slot) | WUpcast (cls cpp : string).

  Fixpoint call_sites_from (i : nat) (l : list (option slot)) : list (nat * what) :=
    match l with
    | [] => []
    | None :: Some s :: r =>
      (* virtual class: the reserved id i is printed as i+1 for the up-cast call, the collector
         (allocated at i+1) is printed as i *)
      (S i, WUpcast (s_cls s) (x_cpp (s_x s))) :: (i, WSlot s) :: call_sites_from (S (S i)) r
    | None :: r => call_sites_from (S i) r
    | Some s :: r => (i, WSlot s) :: call_sites_from (S i) r
    end.
  Definition call_sites (l : list (option slot)) := call_sites_from 0 l.

  (* the name recorded in wrapper_map: base ++ "_" ++ (id + id_diff) *)
  Fixpoint map_names_from (i : nat) (l : list (option slot)) : list (option string) :=
    match l with
    | [] => []
    | None :: Some s :: r =>
      None :: Some (routine_base s ++ "_" ++ nat_dec i)%string :: map_names_from (S (S i)) r
    | None :: r => None :: map_names_from (S i) r
    | Some s :: r => Some (routine_base s ++ "_" ++ nat_dec i)%string :: map_names_from (S i) r
    end.

  (* mex_function (wrapper.py:1635): case labels and their callees *)
  Fixpoint cases_from (i : nat) (l : list (option slot)) (names : list (option string)) (next_case : option string)
    : list (nat * string) :=
    match l, names with
    | None :: ((Some s :: _) as r), _ :: ((Some nm :: _) as rn) =>
      (i, match next_case with Some x => x | None => nm end)
        :: cases_from (S i) r rn (Some (s_cls s ++ "_upcastFromVoid_" ++ nat_dec (S i))%string)
    | None :: r, _ :: rn => cases_from (S i) r rn None   (* `continue`: no case, next_case unchanged... *)
    | Some _ :: r, Some nm :: rn =>
      (i, match next_case with Some x => x | None => nm end) :: cases_from (S i) r rn None
    | _, _ => []
    end.
  Definition cases (l : list (option slot)) : list (nat * string) := cases_from 0 l (map_names_from 0 l) None.

  (* generate_wrapper (wrapper.py:1777): routine definitions, in order *)
  Fixpoint routines_from (i : nat) (l : list (option slot)) (names : list (option string)) (queued : bool)
    : list (string * what) :=
    match l, names with
    | None :: ((Some _ :: _) as r), _ :: rn => routines_from (S i) r rn true
    | None :: r, _ :: rn => routines_from (S i) r rn false
    | Some s :: r, Some nm :: rn =>
      (nm, WSlot s)
        :: (if queued then [((s_cls s ++ "_upcastFromVoid_" ++ nat_dec i)%string, WUpcast (s_cls s) (x_cpp (s_x s)))] else [])
        ++ routines_from (S i) r rn false
    | _, _ => []
    end.
  Definition routines (l : list (option slot)) : list (string * what) :=
    routines_from 0 l (map_names_from 0 l) false.
End Walk.

(* the dispatch table the three emitters are supposed to share: id, routine name, what it is for *)
Fixpoint table_from (i : nat) (l : list (option slot)) : list (nat * string * what) :=
  match l with
  | [] => []
  | None :: Some s :: r =>
    (i, (routine_base s ++ "_" ++ nat_dec i)%string, WSlot s)
      :: (S i, (s_cls s ++ "_upcastFromVoid_" ++ nat_dec (S i))%string, WUpcast (s_cls s) (x_cpp (s_x s)))
      :: table_from (S (S i)) r
  | None :: r => table_from (S i) r
  | Some s :: r => (i, (routine_base s ++ "_" ++ nat_dec i)%string, WSlot s) :: table_from (S i) r
  end.

(* a reserved id is always followed by the collector it was reserved for *)
Fixpoint wf_slots (l : list (option slot)) : bool :=
  match l with
  | [] => true
  | None :: Some _ :: r => wf_slots r
  | None :: _ => false
  | Some _ :: r => wf_slots r
  end.

Definition id_of (e : nat * string * what) : nat := fst (fst e).
Definition name_of (e : nat * string * what) : string := snd (fst e).
Definition what_of (e : nat * string * what) : what := snd e.


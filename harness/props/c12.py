"""C12 - layout and comments never change the result.

Every generated module is rendered several times from the same token list - single blanks, no blanks where none is
needed, random line breaks and tabs, CR LF, and arbitrary mixes of blanks, /* */ and // comments whose bodies contain
braces, semicolons, quotes, keywords and comment openers - between every two adjacent tokens (default values and
include paths are single tokens).  Compared across the renderings of one module:
  * the implementation's parse tree (and, against the generator, the intended tree),
  * the bytes of the generated pybind file and of every generated MATLAB file,
  * the model's parse (Parse/Peg.v on the regenerated grammar) - the tie of the layout theorem."""
import multiprocessing as mp
import random

import common
import sexp
import gen_inputs as G
from props import parsecommon as pc
from props import pybcommon as pyb
from props import mlcommon as ml

TRUSTED = ['the layout generator harness/gen_inputs.py:text (which gaps may be empty, what a comment may contain)']

WITNESSES = [
    ('C12-two-word-keyword', 'void f(unsigned char x);', 'void f(unsigned  char x);',
     'the keywords `unsigned char`, `enum class` and `enum struct` are matched as one string with exactly one blank: a second '
     'blank, a line break or a comment between the two words makes the file unparsable'),
    ('C12-comment-glued-to-default', 'void f(int x = 3 /* c */);', 'void f(int x = 3/* c */);',
     'a comment that follows a default value without a blank is swallowed into the default text (the word scanner of DEFAULT_ARG '
     'accepts `/` and `*`), so the generated wrappers differ'),
    ('C12-include-blanks', '#include <a.h>', '#include <a.h >',
     'blanks between `<`, the path and `>` of an #include become part of the path (CharsNotIn does not skip white space)'),
]


def renderings(toks, r, tier):
    styles = ['plain', 'min', 'lines', 'crlf', 'comments', 'comments'] + (['comments', 'lines'] if tier == 'thorough' else [])
    return [(s, G.text(toks, random.Random(r.getrandbits(32)), s)) for s in styles]


def wrappers(text):
    """bytes of everything both generators emit for one text (None when a generator rejects it)"""
    out = {}
    p = pyb.impl_wrap(text, ([''], [], False), 'mod', None)
    out['pybind'] = p[1] if p[0] == 'ok' else 'REJECT:' + p[0]
    m = ml.impl_matlab([text], module_name='mod')
    out['matlab'] = sorted(m[1].items()) if m[0] == 'ok' else 'REJECT:' + m[0]
    return out


def job(args):
    seed, k, tier = args
    r = random.Random('c12/%d/%d' % (seed, k))
    p = G.Profile()
    p.layout_defaults = True
    p.fwd_of_defined = (k % 2 == 1)
    p.matlab_safe = (k % 2 == 0)
    if k % 3 == 0:
        p.max_type_depth, p.max_ns_depth = 5, 4
    g = G.Gen(r, p)
    m = g.module()
    toks = G.tokens(m)
    rs = renderings(toks, r, tier)
    parses = [pc.impl_parse(t) for _, t in rs]
    outs = None
    if k % 4 == 0 and all(x[0] == 'ok' for x in parses):
        outs = [wrappers(t) for _, t in rs[:4]]
    return {'k': k, 'expected': G.abs_module(m), 'renderings': rs, 'parses': parses, 'outs': outs}


def run(rep, tier, seed, replay=None, proof_ok=True):
    rep.coverage['rule'] = __doc__.split('\n\n', 1)[1][:1500]
    rep.assumptions += TRUSTED
    ml.ensure_tpl()
    n = 70 if tier == 'quick' else 1500
    with mp.get_context('fork').Pool(14) as pool:
        results = pool.map(job, [(seed, k, tier) for k in range(n)], chunksize=1)
    model = common.Model()
    shown = 0
    try:
        for res in results:
            base_style, base_text = res['renderings'][0]
            base = res['parses'][0]
            rep.hit('%d/%d' % (seed, res['k']), base[0] == 'ok')
            for (style, text), p in zip(res['renderings'], res['parses']):
                rep.bump('rendering_' + style)
                bad = None
                if p[0] != 'ok':
                    bad = 'a re-layout of a well-formed file is rejected (%s %s)' % (p[0], p[1])
                elif pc.canon(p[1]) != pc.canon(res['expected']):
                    bad = 'the parse tree of this layout differs from the declarations of the source'
                elif base[0] == 'ok' and pc.canon(p[1]) != pc.canon(base[1]):
                    bad = 'two layouts of one token list parse differently'
                if bad:
                    if shown < 3:
                        shown += 1
                        rep.violation({'kind': 'counterexample', 'what': bad, 'layout_a': base_text, 'layout_b': text, 'input': text})
                    continue
                rep.bump('layouts_same_tree')
                m = pc.model_parse(model, text)
                v = pc.verdict(p, m)
                if v == 'unsupported':
                    rep.bump('model_unsupported')
                elif v != 'agree':
                    if shown < 3:
                        shown += 1
                        rep.violation({'kind': 'broken-correspondence', 'what': 'Parse/Peg.v on the regenerated grammar: ' + v, 'input': text},
                                      no_input=True)
                else:
                    rep.bump('model_agrees')
            # how the renderings of this module relate under the layout theorems (evidence, not a verdict):
            # same skeleton = first step applies directly; same solid characters = related by opening / closing gaps
            try:
                lay = []
                for style, text in res['renderings']:
                    a = model.ask('layout', text)
                    lay.append(sexp.loads(a[3:]) if a.startswith('ok ') else None)
                if all(x is not None for x in lay):
                    base_sk, base_ok = lay[0]
                    for sk, ok in lay[1:]:
                        rep.bump('pairs_total')
                        if base_ok == 'T':
                            rep.bump('pairs_strict_parse_answers')
                            if sk == base_sk:
                                rep.bump('pairs_same_skeleton_theorem_applies')
                            elif sk.replace(' ', '') == base_sk.replace(' ', ''):
                                rep.bump('pairs_same_solid_characters_gap_steps_needed')
            except Exception:
                rep.bump('layout_domain_query_failed')
            if res['outs']:
                for (style, text), o in zip(res['renderings'][1:4], res['outs'][1:]):
                    for gen in ('pybind', 'matlab'):
                        if o[gen] != res['outs'][0][gen]:
                            if shown < 3:
                                shown += 1
                                rep.violation({'kind': 'counterexample', 'what': 'generated %s output differs between two layouts' % gen,
                                               'layout_a': base_text, 'layout_b': text, 'input': text})
                        else:
                            rep.bump('wrappers_identical_' + gen)
        # recorded defects: does the pair of layouts still disagree?
        for fid, a, b, what in WITNESSES:
            pa, pb = pc.impl_parse(a), pc.impl_parse(b)
            if pa[0] == 'ok' and (pb[0] != 'ok' or pc.canon(pa[1]) != pc.canon(pb[1])):
                ma, mb = pc.model_parse(model, a), pc.model_parse(model, b)
                if pc.verdict(pa, ma) != 'agree' or pc.verdict(pb, mb) != 'agree':
                    rep.violation({'kind': 'broken-correspondence', 'what': 'model does not reproduce the recorded defect ' + fid,
                                   'input': b}, no_input=True)
                rep.known('%s: %s [witness: %r vs %r]' % (fid, what, a, b))
        rep.sample({'layout': results[0]['renderings'][4][1][:500]})
    finally:
        model.close()
    return 0

(* Generic facts about the interpreter of Parse/Peg.v (any grammar). *)
From Coq Require Import String Ascii List Bool Arith Lia.
From Wrap Require Import Base.Str Parse.Peg.
Import ListNotations.
Open Scope list_scope.

(* a grammar whose Module rule ends in StringEnd accepts only when the whole input has been consumed *)
Lemma run_term_end : forall st its st', run_term TEnd st = Match its st' -> rest st' = [].
Proof.
  intros st its st' H. unfold run_term in H. cbn [pre_term] in H.
  destruct (rest (pre st)) eqn:E; [|discriminate]. inversion H; subst. exact E.
Qed.

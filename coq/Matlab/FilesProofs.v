(* C10: the file set of the toolbox. *)
From Coq Require Import String Ascii List Bool Arith Lia Permutation.
From Wrap Require Import Base.Str Base.ListX Syntax.Ast Syntax.Print Inst.Model Inst.Proj Matlab.Ids Matlab.Files
     Pybind.SpecProofs.
Import ListNotations.
Open Scope string_scope.
Open Scope list_scope.

(* what the statement asks for: one classdef per non-ignored class instantiation, one enumeration
   classdef per enum (class-scoped enums in a package named after the class, below the namespace's
   package path), one function file per free function name, each in the +package path of its
   namespace, and exactly one MEX source *)
Section Expected.
  Variable c : mcfg.

  Fixpoint expected_item (home : list string) (i : item) : list (string * fkind) :=
    match i with
    | IClass k =>
      if ignored c k then []
      else (in_pkg home (clean_class_name k ++ ".m")%string, FClassdef)
             :: map (fun e => (in_pkg (home ++ [ic_name k]) (e_name e ++ ".m")%string, FEnum)) (ic_enums k)
    | IEnum e => [(in_pkg home (e_name e ++ ".m")%string, FEnum)]
    | INamespace n content =>
      let home' := home ++ [n] in
      (fix go (l : list item) : list (string * fkind) :=
         match l with [] => [] | x :: r => expected_item home' x ++ go r end) content
      ++ map (fun g => (in_pkg home' (g ++ ".m")%string, FFunction))
             (nodup string_dec (flat_map (fun x => match x with IFun f => [if_name f] | _ => [] end) content))
    | _ => []
    end.
  Definition expected_files (content : list item) : list (string * fkind) :=
    flat_map (expected_item []) content
    ++ map (fun g => ((g ++ ".m")%string, FFunction))
           (nodup string_dec (flat_map (fun x => match x with IFun f => [if_name f] | _ => [] end) content))
    ++ [((m_module c ++ "_wrapper.cpp")%string, FMex)].

  (* class enums only in classes at namespace depth <= 1, or the path quirk repaired *)
  Fixpoint dom_files (q : mquirks) (home : list string) (i : item) : bool :=
    match i with
    | IClass k => orb (negb (q_enum_path q))
                      (orb (Nat.leb (length home) 1) (match ic_enums k with [] => true | _ => false end))
    | INamespace n content => forallb (dom_files q (home ++ [n])) content
    | _ => true
    end.

  Lemma enum_dir_ok : forall q home cls e,
    orb (negb (q_enum_path q)) (Nat.leb (length home) 1) = true ->
    (class_enum_dir q home cls ++ "/" ++ e ++ ".m")%string = in_pkg (home ++ [cls]) (e ++ ".m")%string.
  Proof.
    intros q home cls e H. unfold class_enum_dir, in_pkg.
    destruct (q_enum_path q) eqn:Q.
    - cbn [negb orb] in H. destruct home as [|a [|b r]]; [reflexivity | | discriminate].
      cbn [app String.concat pkg_path map]. unfold pkg_path. cbn [map String.concat].
      rewrite !Wrap.Base.StrLemmas.append_assoc. reflexivity.
    - destruct (home ++ [cls]) eqn:E; [destruct home; discriminate|]. reflexivity.
  Qed.

  Theorem item_files_expected : forall q i home, dom_files q home i = true ->
    item_files q c home i = expected_item home i.
  Proof.
    induction i as [k|f|d|f|h|e|v|n content IH] using item_ind'; intros home H; cbn [item_files expected_item]; try reflexivity.
    - destruct (ignored c k); [reflexivity|]. f_equal. cbn [dom_files] in H.
      destruct (ic_enums k) as [|e0 es] eqn:Ee; [reflexivity|].
      rewrite orb_false_r in H. apply map_ext. intros e. f_equal. apply enum_dir_ok. exact H.
    - f_equal. cbn [dom_files] in H.
      induction content as [|x r IHr]; [reflexivity|].
      inversion IH as [|? ? Px Pr]; subst. cbn [forallb] in H. apply andb_true_iff in H. destruct H as [Hx Hr].
      rewrite (Px _ Hx). f_equal. apply IHr; assumption.
  Qed.

  Theorem module_files_expected : forall q content, forallb (dom_files q []) content = true ->
    module_files q c content = expected_files content.
  Proof.
    intros q content H. unfold module_files, expected_files. f_equal.
    induction content as [|x r IH]; [reflexivity|].
    cbn [forallb] in H. apply andb_true_iff in H. destruct H as [Hx Hr].
    cbn [flat_map]. rewrite (item_files_expected q x [] Hx). f_equal. apply IH. exact Hr.
  Qed.
End Expected.

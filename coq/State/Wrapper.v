(* C14: a PybindWrapper object as a state machine over wrap_file calls.  The only attribute that
   survives a call is _serializing_classes (pybind_wrapper.py:40, 103-104, 720-721). *)
From Coq Require Import String Ascii List Bool Arith.
From Wrap Require Import Base.Str Base.ListX Syntax.Ast Syntax.Print Inst.Model Pybind.Items Pybind.Gen Pybind.Render.
Import ListNotations.
Open Scope string_scope.
Open Scope list_scope.

Definition wstate := list string.       (* _serializing_classes *)
Definition init : wstate := [].

(* one call: what it is asked to wrap, and how it ends *)
Inductive call :=
| Wrap (c : cfg) (tpl name : string) (subs : option (list string)) (content : list item)
                                   (* parse, instantiation and generation succeed *)
| FailEarly                        (* parse / validation error: raised before anything is registered *)
| FailLate (registered : list string).  (* the generator dies after registering these classes *)

Section Machine.
  Variable q : pquirks.

  Definition output_of (st : wstate) (k : call) : option string :=
    match k with
    | Wrap c tpl name subs content => Some (py_format tpl (file_fields_from st q c None name subs content))
    | _ => None
    end.
  Definition next (st : wstate) (k : call) : wstate :=
    match k with
    | Wrap _ _ _ _ _ => []                       (* reset on the success path only *)
    | FailEarly => st
    | FailLate reg => st ++ dedup reg st
    end.
  Definition run (h : list call) : wstate := fold_left next h init.

  Definition benign (k : call) : bool := match k with FailLate (_ :: _) => false | _ => true end.
End Machine.

(* Faithful executable model of gtwrap.template_instantiator.  Definitions only. *)
From Coq Require Import String Ascii List Bool Arith.
From Wrap Require Import Base.Str Base.ListX Syntax.Ast Syntax.Print.
Import ListNotations.
Open Scope string_scope.
Open Scope list_scope.

Inductive res (A : Type) : Type :=
| Ok (a : A)
| Err (msg : string)          (* the implementation raises ValueError / AssertionError *)
| Unsupported (msg : string). (* outside the modelled fragment *)
Arguments Ok {A} a.
Arguments Err {A} msg.
Arguments Unsupported {A} msg.

Definition rbind {A B} (r : res A) (f : A -> res B) : res B :=
  match r with Ok a => f a | Err m => Err m | Unsupported m => Unsupported m end.
Fixpoint rsequence {A} (l : list (res A)) : res (list A) :=
  match l with
  | [] => Ok []
  | r :: rest => rbind r (fun x => rbind (rsequence rest) (fun xs => Ok (x :: xs)))
  end.

(* Quirks of the unchanged tree; each is a deviation from a property and can be switched
   off to obtain the specified behaviour (DESIGN section 7). *)
Record quirks := {
  q_cap_all : bool;          (* instantiate_name upper-cases every occurrence of the first letter *)
  q_scoped_substring : bool; (* scoped rewrite uses str.replace on the whole printed name *)
  q_typedef_stale : bool;    (* typedef targets are looked up in the partially rewritten tree *)
  q_first_level_only : bool; (* instantiate_type as written: string tests on the printed name, only the
                                first template-argument level rewritten; off = structural substitution *)
}.
Definition impl_quirks : quirks := {| q_cap_all := true; q_scoped_substring := true; q_typedef_stale := true; q_first_level_only := true |}.

Definition dummy_tn : typename := Typename [] (NStr "<IndexError>") [].
Definition nth_inst (k : nat) (insts : list typename) : typename := nth k insts dummy_tn.

(* helpers.py:17 is_scoped_template *)
Fixpoint scoped_template_aux (tnames : list string) (idx : nat) (str_arg : string) : option (string * nat) :=
  match tnames with
  | [] => None
  | t :: rest =>
    if andb (contains "::" str_arg) (mem_str t (split_on "::" str_arg))
    then Some (t, idx) else scoped_template_aux rest (S idx) str_arg
  end.
Definition scoped_template (tnames : list string) (str_arg : string) := scoped_template_aux tnames 0 str_arg.

(* first-level rewrite (helpers.py:59-64): a template argument whose name is a parameter gets
   the instantiation *object* as its name *)
Definition rewrite_param (tnames : list string) (insts : list typename) (p : ty) : ty :=
  match p with
  | TPlain (Typename pns (NStr n) pin) c q b =>
    match index_of n tnames with
    | Some k => TPlain (Typename pns (NObj (nth_inst k insts)) pin) c q b
    | None => p
    end
  | TTempl pns (NStr n) pps c q =>
    match index_of n tnames with
    | Some k => TTempl pns (NObj (nth_inst k insts)) pps c q
    | None => p
    end
  | _ => p
  end.

Fixpoint replace_first (x y : string) (l : list string) : list string :=
  match l with
  | [] => []
  | a :: r => if String.eqb a x then y :: r else a :: replace_first x y r
  end.

Definition set_ns_if_this (newns : list string) (p : ty) : ty :=
  match p with
  | TPlain (Typename pns n pin) c q b =>
    if mem_str "This" pns then TPlain (Typename newns n pin) c q b else p
  | TTempl pns n pps c q =>
    if mem_str "This" pns then TTempl newns n pps c q else p
  end.

Definition ty_basic (t : ty) : bool := match t with TPlain _ _ _ b => b | _ => false end.

(* helpers.py:31 instantiate_type.
   cpp  : the cpp_typename argument ('' is None)
   icls : Some t when instantiated_class is given (static-method return types), t being the
          structured Typename built at helpers.py:108-113 *)
Definition inst_type_impl (q : quirks) (tnames : list string) (insts : list typename)
           (cpp : option typename) (icls : option typename) (t : ty) : ty :=
  let t1 := match t with
            | TTempl ns n ps c p => TTempl ns n (map (rewrite_param tnames insts) ps) c p
            | _ => t
            end in
  let c := ty_const t1 in
  let p := ty_ptr t1 in
  let b := ty_basic t1 in
  let str_arg := tn_cpp (ty_typename t1) in
  match scoped_template tnames str_arg with
  | Some (tmpl, idx) =>
    match nth_inst idx insts with
    | Typename ins_ns ins_n ins_insts =>
      let new_name :=
          if q_scoped_substring q
          then replace_all tmpl (nm_str ins_n) str_arg
          else join "::" (map (fun s => if String.eqb s tmpl then nm_str ins_n else s)
                              (split_on "::" str_arg)) in
      match t1 with
      | TTempl _ _ _ _ _ =>
        (* helpers.py:89 reads ctype.is_basic, which a TemplatedType lacks: AttributeError *)
        TPlain (Typename [] (NStr "<AttributeError>") []) c p b
      | _ => TPlain (Typename ins_ns (NStr new_name) ins_insts) c p b
      end
    end
  | None =>
    match index_of str_arg tnames with
    | Some idx => TPlain (nth_inst idx insts) c p b
    | None =>
      if String.eqb str_arg "This" then
        let this_tn := match icls with
                       | Some x => x
                       | None => match cpp with Some x => x | None => Typename [] (NStr "") [] end
                       end in
        TPlain this_tn c p b
      else if contains "This" str_arg then
        let cpp_tn := match cpp with Some x => x | None => Typename [] (NStr "") [] end in
        let cname := tn_sname cpp_tn in
        match t1 with
        | TPlain (Typename ns n ins) c' p' b' =>
          if mem_str "This" ns
          then TPlain (Typename (replace_first "This" cname ns) n ins) c' p' b'
          else t1
        | TTempl ns n ps c' p' =>
          if mem_str "This" ns
          then TTempl (replace_first "This" cname ns) n ps c' p'
          else TTempl ns n (map (set_ns_if_this (tn_ns cpp_tn ++ [cname])) ps) c' p'
        end
      else t1
    end
  end.

(* Specified behaviour, executable: structural capture-free substitution at every depth.  A
   parameter or This as whole name is replaced by the concrete type; as leading path component
   (T::X, This::X) by its C++ spelling; the occurrence keeps its own qualifiers. *)
Section SubstTy.
  Variable tnames : list string.
  Variable insts : list typename.
  Variable this_tn : typename.

  Definition sigma_tn (n : string) : option typename :=
    match index_of n tnames with
    | Some k => nth_error insts k
    | None => if String.eqb n "This" then Some this_tn else None
    end.
  Fixpoint subst_ty (t : ty) : ty :=
    match t with
    | TPlain (Typename ns (NStr n) []) c p b =>
      match ns ++ [n] with
      | h :: rest =>
        match sigma_tn h, rest with
        | Some x, [] => TPlain x c p b
        | Some x, _ => TPlain (Typename [] (NStr (join "::" (tn_cpp x :: rest))) []) c p b
        | None, _ => t
        end
      | [] => t
      end
    | TPlain _ _ _ _ => t
    | TTempl ns (NStr n) ps c p =>
      let ps' := map subst_ty ps in
      match ns ++ [n] with
      | h :: rest =>
        match sigma_tn h with
        | Some x => TTempl [] (NStr (join "::" (tn_cpp x :: rest))) ps' c p
        | None => TTempl ns (NStr n) ps' c p
        end
      | [] => TTempl ns (NStr n) ps' c p
      end
    | TTempl ns n ps c p => TTempl ns n (map subst_ty ps) c p
    end.
End SubstTy.

Definition inst_type (q : quirks) (tnames : list string) (insts : list typename)
           (cpp : option typename) (icls : option typename) (t : ty) : ty :=
  if q_first_level_only q then inst_type_impl q tnames insts cpp icls t
  else subst_ty tnames insts
                (match icls with
                 | Some x => x
                 | None => match cpp with Some x => x | None => Typename [] (NStr "") [] end
                 end) t.

Definition inst_arg q tnames insts cpp (a : arg) : arg :=
  {| a_ty := inst_type q tnames insts cpp None (a_ty a); a_name := a_name a; a_default := a_default a |}.
Definition inst_args q tnames insts cpp (l : list arg) : list arg := map (inst_arg q tnames insts cpp) l.
Definition inst_ret q tnames insts cpp icls (r : ret) : ret :=
  match r with
  | RSingle t => RSingle (inst_type q tnames insts cpp icls t)
  | RPair a b => RPair (inst_type q tnames insts cpp icls a) (inst_type q tnames insts cpp icls b)
  end.

(* helpers.py:196 instantiate_name *)
Definition inst_name (q : quirks) (orig : string) (insts : list typename) : string :=
  (orig ++ String.concat "" (map (fun i => (if q_cap_all q then cap_all else cap_first) (tn_iname i)) insts))%string.

Definition tmpl_names (t : option template) : list string :=
  match t with Some x => t_names x | None => [] end.
(* the member-level products: one empty instantiation when there is no template *)
Definition tmpl_products (t : option template) : list (list typename) :=
  match t with Some x => cartesian (t_insts x) | None => [[]] end.
Definition has_tmpl (t : option template) : bool := match t with Some _ => true | None => false end.

Section ClassInst.
  Variable q : quirks.
  Variable home : list string.
  Variable c : class.
  Variable cinsts : list typename.
  Variable new_name : string.   (* "" when absent *)

  Definition cls_tnames : list string := tmpl_names (c_tmpl c).
  Definition cls_name : string :=
    if String.eqb new_name "" then inst_name q (c_name c) cinsts else new_name.
  (* classes.py:217 cpp_typename *)
  Definition cls_cpp_name : string :=
    if has_tmpl (c_tmpl c)
    then (c_name c ++ "<" ++ join ", " (map tn_cpp cinsts) ++ ">")%string
    else c_name c.
  Definition cls_cpp : typename := Typename home (NStr cls_cpp_name) [].
  (* helpers.py:108 the structured Typename used for `This` in static return types *)
  Definition cls_this : typename := Typename home (NStr (c_name c)) cinsts.

  Definition inst_ctor (k : ctor) : list ictor :=
    let tn := cls_tnames ++ tmpl_names (k_tmpl k) in
    map (fun mi => {| ik_orig := cls_name; ik_templated := has_tmpl (k_tmpl k); ik_insts := mi;
                      ik_name := cls_name;
                      ik_args := inst_args q tn (cinsts ++ mi) (Some cls_cpp) (k_args k) |})
        (tmpl_products (k_tmpl k)).
  Definition inst_method (m : method) : list imethod :=
    let tn := cls_tnames ++ tmpl_names (m_tmpl m) in
    map (fun mi => {| im_orig := m_name m; im_templated := has_tmpl (m_tmpl m); im_insts := mi;
                      im_name := inst_name q (m_name m) mi;
                      im_ret := inst_ret q tn (cinsts ++ mi) (Some cls_cpp) None (m_ret m);
                      im_args := inst_args q tn (cinsts ++ mi) (Some cls_cpp) (m_args m);
                      im_const := m_const m |})
        (tmpl_products (m_tmpl m)).
  Definition inst_smethod (m : smethod) : list ismethod :=
    let tn := cls_tnames ++ tmpl_names (s_tmpl m) in
    map (fun mi => {| is_orig := s_name m; is_templated := has_tmpl (s_tmpl m); is_insts := mi;
                      is_name := inst_name q (s_name m) mi;
                      is_ret := inst_ret q tn (cinsts ++ mi) (Some cls_cpp) (Some cls_this) (s_ret m);
                      is_args := inst_args q tn (cinsts ++ mi) (Some cls_cpp) (s_args m) |})
        (tmpl_products (s_tmpl m)).
  Definition inst_oper (o : oper) : oper :=
    {| o_sym := o_sym o;
       o_ret := inst_ret q cls_tnames cinsts (Some cls_cpp) None (o_ret o);
       o_args := inst_args q cls_tnames cinsts (Some cls_cpp) (o_args o);
       o_const := o_const o |}.
  Definition inst_prop (v : var) : var :=
    {| v_ty := inst_type q cls_tnames cinsts (Some cls_cpp) None (v_ty v);
       v_name := v_name v; v_default := v_default v |}.
  (* classes.py:91 instantiate_parent_class; cpp_typename is Typename(self.namespaces()) *)
  Definition inst_base : option typename :=
    match c_base c with
    | Some (BTempl t) =>
      let cpp := Typename (removelast home) (NStr (last home "")) [] in
      Some (ty_typename (inst_type q cls_tnames cinsts (Some cpp) None t))
    | Some (BName tn) => Some tn
    | None => None
    end.

  Definition inst_class : iclass :=
    {| ic_home := home; ic_orig := c_name c; ic_templated := has_tmpl (c_tmpl c);
       ic_insts := cinsts; ic_name := cls_name; ic_virtual := c_virtual c;
       ic_base := inst_base;
       ic_ctors := flat_map inst_ctor (c_ctors c);
       ic_methods := flat_map inst_method (c_methods c);
       ic_statics := flat_map inst_smethod (c_statics c);
       ic_dunders := c_dunders c;
       ic_props := map inst_prop (c_props c);
       ic_ops := map inst_oper (c_ops c);
       ic_enums := c_enums c |}.
End ClassInst.

(* function.py InstantiatedGlobalFunction *)
Definition inst_func (q : quirks) (home : list string) (f : func) (insts : list typename)
           (new_name : string) : ifunc :=
  match f_tmpl f with
  | None => {| if_home := home; if_orig := f_name f; if_templated := false; if_insts := insts;
               if_name := f_name f; if_ret := f_ret f; if_args := f_args f |}
  | Some t =>
    {| if_home := home; if_orig := f_name f; if_templated := true; if_insts := insts;
       if_name := if String.eqb new_name "" then inst_name q (f_name f) insts else new_name;
       if_ret := inst_ret q (t_names t) insts None None (f_ret f);
       if_args := inst_args q (t_names t) insts None (f_args f) |}
  end.

(* ---- typedef resolution: Namespace.find_class_or_function on the partially rewritten tree ---- *)
Inductive found :=
| FClass (home : list string) (c : class)
| FFun (home : list string) (f : func)
| FFwd (home : list string) (f : fwd)
| FOther.  (* an already-instantiated element of a completed namespace *)

Fixpoint is_prefix_nat (p l : list nat) : bool :=
  match p, l with
  | [], _ => true
  | a :: p', b :: l' => andb (Nat.eqb a b) (is_prefix_nat p' l')
  | _ :: _, [] => false
  end.
Fixpoint lex_lt (a b : list nat) : bool :=
  match a, b with
  | [], [] => false
  | [], _ :: _ => true
  | _ :: _, [] => false
  | x :: a', y :: b' => if Nat.ltb x y then true else if Nat.eqb x y then lex_lt a' b' else false
  end.
(* namespace at index path p has finished (content replaced) while the one at cur is processed *)
Definition completed (p cur : list nat) : bool := andb (negb (is_prefix_nat p cur)) (lex_lt p cur).

(* namespace.py:17 find_sub_namespace: all namespaces reached by the name path, with index paths *)
Fixpoint find_ns (names : list string) (path : list nat) (content : list decl)
  : list (list nat * list decl) :=
  match names with
  | [] => [(path, content)]
  | n :: rest =>
    flat_map (fun kd => match snd kd with
                        | DNamespace n' c' =>
                          if String.eqb n n' then find_ns rest (path ++ [fst kd]) c' else []
                        | _ => []
                        end)
             (combine (seq 0 (length content)) content)
  end.

Definition fwd_name (f : fwd) : string := tn_sname (fw_tn f).

(* candidates named `name` in an unfinished namespace (original content) *)
Definition cands_orig (home : list string) (name : string) (content : list decl) : list found :=
  flat_map (fun d => match d with
                     | DClass c => if String.eqb (c_name c) name then [FClass home c] else []
                     | DFun f => if String.eqb (f_name f) name then [FFun home f] else []
                     | DFwd f => if String.eqb (fwd_name f) name then [FFwd home f] else []
                     | _ => []
                     end) content.
(* candidates in a finished namespace: instantiated classes / functions carry their
   instantiated names; only plain forward declarations are still usable *)
Definition cands_done (q : quirks) (home : list string) (name : string) (content : list decl) : list found :=
  flat_map (fun d => match d with
                     | DClass c =>
                       let names := match c_tmpl c with
                                    | None => [c_name c]
                                    | Some t => map (inst_name q (c_name c)) (cartesian (t_insts t))
                                    end in
                       map (fun _ => FOther) (filter (String.eqb name) names)
                     | DFun f =>
                       let names := match f_tmpl f with
                                    | None => [f_name f]
                                    | Some t => map (inst_name q (f_name f)) (cartesian (t_insts t))
                                    end in
                       map (fun _ => FOther) (filter (String.eqb name) names)
                     | DFwd f => if String.eqb (fwd_name f) name then [FFwd home f] else []
                     | DTypedef _ n => if String.eqb n name then [FOther] else []
                     | _ => []
                     end) content.

Definition lookup (q : quirks) (top : list decl) (cur : list nat) (tn : typename) : list found :=
  flat_map (fun pc => if andb (q_typedef_stale q) (completed (fst pc) cur)
                      then cands_done q (tn_ns tn) (tn_sname tn) (snd pc)
                      else cands_orig (tn_ns tn) (tn_sname tn) (snd pc))
           (find_ns (tn_ns tn) [] top).

Definition inst_typedef (q : quirks) (top : list decl) (cur : list nat) (tn : typename) (new_name : string)
  : res item :=
  match lookup q top cur tn with
  | [] => Err "Cannot find class in module"
  | [FClass home c] =>
    if andb (has_tmpl (c_tmpl c)) (negb (Nat.eqb (length (tmpl_names (c_tmpl c))) (length (tn_insts tn))))
    then Err "Typenames and instantiations mismatch"
    else Ok (IClass (inst_class q home c (tn_insts tn) new_name))
  | [FFun home f] => Ok (IFun (inst_func q home f (tn_insts tn) new_name))
  | [FFwd home f] =>
    Ok (IDecl {| id_home := home; id_orig := fwd_name f; id_insts := tn_insts tn;
                 id_name := if String.eqb new_name "" then inst_name q (fwd_name f) (tn_insts tn) else new_name |})
  | [FOther] => Unsupported "typedef of an already instantiated element"
  | _ => Err "Found more than one class in module"
  end.

(* namespace.py:11 instantiate_namespace *)
Section Namespace.
  Variable q : quirks.
  Variable top : list decl.

  Definition merge2 (a b : res (list item * list item)) : res (list item * list item) :=
    rbind a (fun x => rbind b (fun y => Ok (fst x ++ fst y, snd x ++ snd y))).

  (* one element at index k of the namespace at index path `path`:
     (instantiated content, typedef content) contributed by it *)
  Fixpoint inst_decl (path : list nat) (home : list string) (k : nat) (d : decl)
    : res (list item * list item) :=
    match d with
    | DClass c =>
      Ok (map (fun ci => IClass (inst_class q home c ci "")) (tmpl_products (c_tmpl c)), [])
    | DFun f =>
      Ok (map (fun fi => IFun (inst_func q home f fi "")) (tmpl_products (f_tmpl f)), [])
    | DTypedef tn n =>
      rbind (inst_typedef q top path tn n) (fun i => Ok ([], [i]))
    | DNamespace n c =>
      let fix go (k' : nat) (l : list decl) : res (list item * list item) :=
          match l with
          | [] => Ok ([], [])
          | d' :: r => merge2 (inst_decl (path ++ [k]) (home ++ [n]) k' d') (go (S k') r)
          end in
      rbind (go 0 c) (fun r => Ok ([INamespace n (fst r ++ snd r)], []))
    | DFwd f => Ok ([IFwd f], [])
    | DInclude h => Ok ([IInclude h], [])
    | DEnum e => Ok ([IEnum e], [])
    | DVar v => Ok ([IVar v], [])
    end.

  Fixpoint inst_content (path : list nat) (home : list string) (k : nat) (content : list decl)
    : res (list item * list item) :=
    match content with
    | [] => Ok ([], [])
    | d :: rest => merge2 (inst_decl path home k d) (inst_content path home (S k) rest)
    end.
End Namespace.

Definition instantiate (q : quirks) (m : list decl) : res (list item) :=
  rbind (inst_content q m [] [] 0 m) (fun r => Ok (fst r ++ snd r)).

(* C++ name of an instantiated class: classes.py:217-234 *)
Definition iclass_cpp (c : iclass) : string :=
  (ns_prefix (ic_home c) ++
   (if ic_templated c then ic_orig c ++ "<" ++ join ", " (map tn_cpp (ic_insts c)) ++ ">" else ic_orig c))%string.


"""writes MANIFEST.json from the table below (kept in one place so it stays valid)"""
import json
import os

V = os.path.dirname(os.path.dirname(os.path.abspath(__file__)))
BASE = ("Trusted: Coq 8.16.1 kernel + vm_compute; extraction (ExtrOcamlBasic, ExtrOcamlNativeString, no own "
        "directives) + OCaml; harness glue (dump.py, generators); Python string semantics and pyparsing are modelled. ")
CHECKS = {
    'C02': ('proof', 'Theorems over Inst/Model.v (Props/C02.v): instantiate_type refines capture-free substitution on '
            'dom_ty for every quirk setting (C02_partial), qualifiers/names/defaults untouched unconditionally; the full '
            'statement is refuted by witnesses (depth, substring, This as argument) which are recorded findings. Tie: '
            'stage-wise correspondence of the whole instantiated tree and of every to_cpp() spelling on generated inputs.',
            'partial: dom_ty includes three computed guards on printed spellings; the tie is differential testing.',
            'Coq proof (refinement to substitution) + model/implementation correspondence', '6 C02'),
    'C08': ('proof', 'Theorems (Props/C08.v): itertools-order Cartesian product characterised for all list counts/lengths '
            '(membership, count, no duplicates, i-th tuple = mixed-radix digits), nothing for an empty list, scope '
            'structure at every depth (own declarations then one instantiation per typedef with its name), naming, C++ name. '
            'Naming full statement refuted (capitalises every occurrence) - recorded finding. Tie: correspondence of trees '
            'and of names/order/to_cpp on generated inputs.',
            'typedef lookups through already rewritten namespaces are modelled for forward declarations only (else Unsupported).',
            'Coq proof (product order, scope invariant) + model/implementation correspondence', '6 C08'),
    'C13': ('proof', 'Theorems (Props/C13.v): an instantiation is a function of its own argument tuple only (lists are '
            'never read), pointwise image of the product; alpha-invariance on the C02 domain via the substitution spec; '
            'refuted in general by the substring rewrite (recorded). Tie: metamorphic experiments on the implementation '
            '(subset, permutation, repetition on fresh parses, alpha-renaming) judged against the model, plus the '
            'C02/C08 tree correspondence which exposes state shared between instantiations.',
            'the pure model cannot exhibit aliasing; a missing copy is caught by the correspondence, not by a theorem.',
            'Coq proof (independence lemmas) + metamorphic correspondence', '6 C13'),
}


def main():
    props = [json.loads(l) for l in open(os.path.join(V, 'properties.jsonl'))]
    checks = []
    na = []
    for p in props:
        pid = p['id']
        if pid in CHECKS:
            lvl, text, note, tech, ref = CHECKS[pid]
            checks.append({
                'property_id': pid,
                'quick_cmd': './check %s --tier quick' % pid,
                'thorough_cmd': './check %s --tier thorough' % pid,
                'evidence_file': 'evidence/%s.json' % pid,
                'replay_cmd_template': './check %s --replay {path}' % pid,
                'engine': 'coq-model',
                'level_claimed': {'category': lvl, 'text': text, 'design_ref': 'DESIGN.md section ' + ref},
                'level_note': BASE + note,
                'technique': tech,
            })
        else:
            na.append({'property_id': pid, 'reason': 'model not built yet in this session (planned, DESIGN.md section 11); not claimed until its check exists'})
    man = {
        'version': 1,
        'setup_cmd': './setup.sh',
        'hooks': {'guard': 'GTWRAP_VERIF', 'enable': 'none needed: checks import /repo as is; counters are installed by wrapping pyparsing from the harness process',
                  'baseline_off_cmd': 'cd /repo && /venv/bin/python -m pytest -ra -q -p no:cacheprovider --timeout=900 --continue-on-collection-errors',
                  'source_commits': [], 'add_only': True},
        'engines': [{'name': 'coq-model', 'path': 'coq/', 'serves_properties': sorted(CHECKS),
                     'kind_free_text': 'Coq 8.16 development: executable Gallina model + theorems; extracted to OCaml for the correspondence'}],
        'checks': checks,
        'not_applicable': na,
        'notes': 'see DESIGN.md; known findings in known_findings.json',
    }
    with open(os.path.join(V, 'MANIFEST.json'), 'w') as f:
        json.dump(man, f, indent=1)


if __name__ == '__main__':
    main()

From Coq Require Import String Ascii List Bool Arith Lia.
From Wrap Require Import Base.Str.
Import ListNotations.
Open Scope string_scope.

Lemma append_assoc : forall a b c : string, (a ++ b) ++ c = a ++ (b ++ c).
Proof. induction a as [|x a IH]; intros; cbn; [reflexivity | rewrite IH; reflexivity]. Qed.

Lemma append_empty_r : forall s : string, s ++ "" = s.
Proof. induction s; cbn; congruence. Qed.

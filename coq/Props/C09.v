(* C09 - generated pybind11 code is well-formed C++ (the four syntactic conditions of the statement). *)
From Coq Require Import String Ascii List Bool Arith.
From Wrap Require Import Base.Str Base.ListX Syntax.Ast Syntax.Print Inst.Model Inst.Proj
     Pybind.Items Pybind.Gen Pybind.Render Pybind.Balance Pybind.Sem.
Import ListNotations.
Open Scope string_scope.
Open Scope list_scope.

(* no unbalanced or truncated construct: every statement of the wrapped namespace leaves the
   quote-aware bracket scanner in the state it found it, for any number and nesting of records,
   provided the user-supplied pieces (names, type spellings, default texts, docstring literals) are
   themselves balanced (wf_item: decidable, evaluated by the check on the records of each input) *)
Theorem C09_balanced : forall l, forallb wf_item l = true -> neutral (r_items l).
Proof. exact r_items_neutral. Qed.
Print Assumptions C09_balanced.

Theorem C09_member_balanced : forall m, wf_member m = true -> neutral (r_member indent8 "" m).
Proof. exact r_member_neutral. Qed.
Print Assumptions C09_member_balanced.

(* no argument-count mismatch between a wrapper lambda and its keyword-argument list *)
Theorem C09_counts : forall q c doc is_method name cpp_method r args cpp,
  special_name cpp_method = false ->
  match fst (wrap_method_gen q c doc is_method name cpp_method r args cpp "") with
  | MDef _ _ _ params _ _ _ call_args pyargs _ _ :: _ =>
    length params = length args /\ length call_args = length args /\ length pyargs = length args
  | _ => False
  end.
Proof.
  intros q c doc is_method name cpp_method r args cpp Hs. unfold wrap_method_gen.
  unfold special_name in Hs. rewrite Hs.
  destruct (String.eqb name "print"); cbn [fst];
    unfold lparams_of, arg_names, pyargs_of; rewrite !map_length; repeat split; reflexivity.
Qed.
Print Assumptions C09_counts.

(* a namespaced variable WITH an initialiser is emitted as `ns::<initialiser text>`:
   the statement's "no name qualified with the wrong namespace" fails (recorded finding) *)
Theorem C09_refuted_var_default :
  r_item (BAttr "m_ns" "k" (add_namespaces "" [""; "ns"]) "-9.81") =
  (nl ++ "    m_ns.attr(""k"") = ns::-9.81;")%string.
Proof. reflexivity. Qed.

Example C09_nonvacuous :
  wf_item (BFun "m_" "f" [("const gtsam::Pose3&", "p"); ("double", "tol")] true "gtsam::" "f<double>" ["p"; "tol"]
                [("p", None); ("tol", Some "Foo(1, {2, 3})[0]")]) = true
  /\ wf_item (BAttr "m_" "name" "" """a(b""") = true.
Proof. vm_compute. split; reflexivity. Qed.

(* The interface-file parser as data and as a function: a deep embedding of the pyparsing expression tree that
   gtwrap.interface_parser builds (the term itself is regenerated from the live objects, gen/Grammar.v), and an
   interpreter with pyparsing's matching rules: filler (white space and C/C++ comments) skipped before every
   terminal, And / Or (longest, first on ties) / MatchFirst / Optional / ZeroOrMore / Suppress / results names,
   rules with a parse action become tagged nodes.  Definitions only. *)
From Coq Require Import String Ascii List Bool Arith.
From Wrap Require Import Base.Str.
Import ListNotations.
Open Scope list_scope.

Definition chars := list ascii.
Fixpoint chars_of (s : string) : chars := match s with EmptyString => [] | String c r => c :: chars_of r end.
Fixpoint string_of (l : chars) : string := match l with [] => EmptyString | c :: r => String c (string_of r) end.

Definition ceq (a b : ascii) : bool := Ascii.eqb a b.
Definition cmem (c : ascii) (l : chars) : bool := existsb (ceq c) l.
Definition code (c : ascii) : nat := nat_of_ascii c.

Definition is_white (c : ascii) : bool :=
  let n := code c in orb (orb (Nat.eqb n 32) (Nat.eqb n 9)) (orb (Nat.eqb n 10) (Nat.eqb n 13)).
Definition is_alpha (c : ascii) : bool :=
  let n := code c in orb (andb (Nat.leb 65 n) (Nat.leb n 90)) (andb (Nat.leb 97 n) (Nat.leb n 122)).
Definition is_digit (c : ascii) : bool := let n := code c in andb (Nat.leb 48 n) (Nat.leb n 57).
Definition is_hex (c : ascii) : bool :=
  let n := code c in orb (is_digit c) (orb (andb (Nat.leb 65 n) (Nat.leb n 70)) (andb (Nat.leb 97 n) (Nat.leb n 102))).
(* Keyword.DEFAULT_KEYWORD_CHARS = alphanums + "_$" *)
Definition is_kwchar (c : ascii) : bool := orb (orb (is_alpha c) (is_digit c)) (orb (Nat.eqb (code c) 95) (Nat.eqb (code c) 36)).
(* pyparsing.printables: the ASCII characters 33..126 *)
Definition is_printable (c : ascii) : bool := let n := code c in andb (Nat.leb 33 n) (Nat.leb n 126).

Fixpoint prefix (p s : chars) : option chars :=
  match p, s with
  | [], _ => Some s
  | a :: p', b :: s' => if ceq a b then prefix p' s' else None
  | _ :: _, [] => None
  end.

(* ---------- str.expandtabs() as parseString applies it to the whole input (tab stops every 8 columns,
   the column restarts after \n and \r) ---------- *)
Fixpoint expandtabs_from (col : nat) (s : chars) : chars :=
  match s with
  | [] => []
  | c :: r =>
    if Nat.eqb (code c) 9 then
      let k := 8 - Nat.modulo col 8 in repeat " "%char k ++ expandtabs_from (col + k) r
    else if orb (Nat.eqb (code c) 10) (Nat.eqb (code c) 13) then c :: expandtabs_from 0 r
    else if andb (Nat.leb 128 (code c)) (Nat.leb (code c) 191) then c :: expandtabs_from col r   (* UTF-8 continuation byte: same column *)
    else c :: expandtabs_from (S col) r
  end.
Definition expandtabs (s : chars) : chars := expandtabs_from 0 s.

(* ---------- filler ---------- *)
Fixpoint skip_ws (s : chars) : chars :=
  match s with c :: r => if is_white c then skip_ws r else s | [] => [] end.

(* //(?:\\\n|[^\n])*  : the text after the two slashes *)
Fixpoint line_comment (s : chars) : chars :=
  match s with
  | [] => []
  | c :: r =>
    if Nat.eqb (code c) 10 then s
    else match r with
         | d :: r' => if andb (Nat.eqb (code c) 92) (Nat.eqb (code d) 10) then line_comment r' else line_comment r
         | [] => []
         end
  end.
(* /\*(?:[^*]|\*(?!/))*\*/ : the text after the opening two characters; None when never closed *)
Fixpoint block_comment (s : chars) : option chars :=
  match s with
  | [] => None
  | c :: r =>
    match r with
    | d :: r' => if andb (Nat.eqb (code c) 42) (Nat.eqb (code d) 47) then Some r' else block_comment r
    | [] => None
    end
  end.
Definition comment (s : chars) : option chars :=
  match s with
  | a :: b :: r =>
    if Nat.eqb (code a) 47 then
      if Nat.eqb (code b) 42 then block_comment r
      else if Nat.eqb (code b) 47 then Some (line_comment r)
      else None
    else None
  | _ => None
  end.
(* _skipIgnorables: (white space, then a comment)*; the position is unchanged when no comment follows *)
Fixpoint skip_ignorables (fuel : nat) (s : chars) : chars :=
  match fuel with
  | O => s
  | S f => match comment (skip_ws s) with Some r => skip_ignorables f r | None => s end
  end.
Definition skip_filler (s : chars) : chars := skip_ws (skip_ignorables (length s) s).

(* last character of the skipped region, for Keyword's look-behind *)
Fixpoint last_or (d : ascii) (l : chars) : ascii := match l with [] => d | c :: r => last_or c r end.

(* ---------- DEFAULT_ARG = originalTextFor(OneOrMore(quoted ^ quoted ^ word ^ nested x4)) ---------- *)
Definition excluded_in_word (c : ascii) : bool := cmem c (chars_of "(){}[]<>,;").
Definition is_wordchar (c : ascii) : bool := andb (is_printable c) (negb (excluded_in_word c)).
Fixpoint span (f : ascii -> bool) (s : chars) : chars := match s with c :: r => if f c then span f r else s | [] => [] end.

(* QuotedString(q): q (?:[^q\n\r])* q *)
Definition quoted (q : ascii) (s : chars) : option chars :=
  match s with
  | c :: r =>
    if ceq c q then
      match span (fun x => negb (orb (ceq x q) (orb (Nat.eqb (code x) 10) (Nat.eqb (code x) 13)))) r with
      | e :: r' => if ceq e q then Some r' else None
      | [] => None
      end
    else None
  | [] => None
  end.

(* pyparsing.quotedString, one quote kind: q (?:[^q\n\r\\]|qq|\\(?:[^x]|x[0-9a-fA-F]+))* then a literal q *)
Fixpoint iq_body (fuel : nat) (q : ascii) (s : chars) : chars :=
  match fuel with
  | O => s
  | S f =>
    match s with
    | [] => []
    | c :: r =>
      if ceq c q then match r with d :: r' => if ceq d q then iq_body f q r' else s | [] => s end
      else if Nat.eqb (code c) 92 then
        match r with
        | d :: r' =>
          if Nat.eqb (code d) 120 then
            match r' with
            | h :: _ => if is_hex h then iq_body f q (span is_hex r') else s
            | [] => s
            end
          else iq_body f q r'
        | [] => s
        end
      else if orb (Nat.eqb (code c) 10) (Nat.eqb (code c) 13) then s
      else iq_body f q r
    end
  end.
Definition iquoted (q : ascii) (s : chars) : option chars :=
  match s with
  | c :: r => if ceq c q then match iq_body (length r) q r with e :: r' => if ceq e q then Some r' else None | [] => None end
              else None
  | [] => None
  end.
Definition iquoted_any (s : chars) : option chars :=
  match iquoted """"%char s with Some r => Some r | None => iquoted "'"%char s end.

(* content of nestedExpr: a run of characters that are not white, not this opener/closer, and where no
   quotedString starts *)
Fixpoint content (fuel : nat) (o c : ascii) (s : chars) : chars :=
  match fuel with
  | O => s
  | S f =>
    match s with
    | [] => []
    | x :: r =>
      if orb (is_white x) (orb (ceq x o) (ceq x c)) then s
      else match iquoted_any s with Some _ => s | None => content f o c r end
    end
  end.

(* nestedExpr(o, c): o (quotedString | nested | content)* c with white space skipped before each element *)
Fixpoint nested_body (rec : chars -> option chars) (o c : ascii) (k : nat) (t : chars) : option chars :=
  match k with
  | O => None
  | S k' =>
    let t' := skip_ws t in
    match iquoted_any t' with
    | Some t2 => nested_body rec o c k' t2
    | None =>
      match rec t' with
      | Some t2 => nested_body rec o c k' t2
      | None =>
        let t2 := content (length t') o c t' in
        if Nat.ltb (length t2) (length t') then nested_body rec o c k' t2
        else match t' with y :: t3 => if ceq y c then Some t3 else None | [] => None end
      end
    end
  end.
Fixpoint nested (fuel : nat) (o c : ascii) (s : chars) : option chars :=
  match fuel with
  | O => None
  | S f =>
    match s with
    | x :: r => if ceq x o then nested_body (nested f o c) o c (S (length r)) r else None
    | [] => None
    end
  end.

Definition shorter (a b : option chars) : option chars :=
  match a, b with
  | Some x, Some y => if Nat.ltb (length y) (length x) then b else a
  | Some _, None => a
  | None, _ => b
  end.
(* one element of the OneOrMore: the longest alternative, the first listed on ties *)
Definition piece (s0 : chars) : option chars :=
  let s := skip_ws s0 in
  let n := length s in
  let w := let r := span is_wordchar s in if Nat.ltb (length r) n then Some r else None in
  fold_left shorter
            [quoted "'"%char s; w; nested n "("%char ")"%char s; nested n "["%char "]"%char s;
             nested n "{"%char "}"%char s; nested n "<"%char ">"%char s]
            (quoted """"%char s).
Fixpoint pieces (fuel : nat) (s : chars) : chars :=
  match fuel with
  | O => s
  | S f => match piece (skip_ignorables (length s) s) with Some r => pieces f r | None => s end
  end.
(* (text, rest): text is the source slice from the first piece to the end of the last one *)
Definition default_arg (s0 : chars) : option (chars * chars) :=
  let s := skip_filler s0 in
  match piece s with
  | Some r => let e := pieces (length r) r in Some (firstn (length s - length e) s, e)
  | None => None
  end.

(* ---------- grammar terms ---------- *)
Inductive term :=
| TLit (s : string)                  (* Literal *)
| TKw (s : string)                   (* Keyword *)
| TWord (init body : string)         (* Word(init, body) *)
| TNotIn (cs : string)               (* CharsNotIn(cs): one or more *)
| TDefault                           (* tokens.DEFAULT_ARG *)
| TEnd.                              (* StringEnd *)

Inductive gexpr :=
| GTerm (t : term)
| GAnd (l : list gexpr)
| GOr (l : list gexpr)
| GFirst (l : list gexpr)
| GOpt (e : gexpr)
| GStar (e : gexpr)
| GSup (e : gexpr)
| GName (n : string) (e : gexpr)
| GRef (r : string).
Definition grammar := list (string * gexpr).

Inductive value := VStr (s : string) | VNode (tag : string) (items : list (list string * value)).
Definition item := (list string * value)%type.

(* parser state: whether the character before the position is a keyword character (Keyword's look-behind) and the
   remaining input.  After skipped filler that character is a blank, the '/' closing a comment or - after a //
   comment - the input has ended: never a keyword character followed by more input. *)
Record pst := { pk : bool; rest : chars }.
Definition last_kw (d : bool) (l : chars) : bool := fold_left (fun _ c => is_kwchar c) l d.
Definition moved (st : pst) (r : chars) : pst :=
  if Nat.ltb (length r) (length (rest st)) then {| pk := false; rest := r |} else st.
Definition pre (st : pst) : pst := moved st (skip_filler (rest st)).
(* the state after consuming the prefix of s that precedes its suffix r *)
Definition after (st : pst) (s r : chars) : pst :=
  {| pk := last_kw (pk st) (firstn (length s - length r) s); rest := r |}.

Inductive outcome := Fail | NoFuel | Match (items : list item) (st : pst).

(* CharsNotIn does not skip white space (skipWhitespace = False), only the ignorable comments *)
Definition pre_term (t : term) (st : pst) : pst :=
  match t with
  | TNotIn _ => moved st (skip_ignorables (length (rest st)) (rest st))
  | _ => pre st
  end.

Definition run_term (t : term) (st0 : pst) : outcome :=
  let st := pre_term t st0 in
  let s := rest st in
  match t with
  | TLit l => match prefix (chars_of l) s with
              | Some r => Match [([], VStr l)] {| pk := last_kw (pk st) (chars_of l); rest := r |}
              | None => Fail end
  | TKw k =>
    match prefix (chars_of k) s with
    | Some r =>
      if andb (negb (pk st)) (match r with c :: _ => negb (is_kwchar c) | [] => true end)
      then Match [([], VStr k)] {| pk := last_kw (pk st) (chars_of k); rest := r |} else Fail
    | None => Fail
    end
  | TWord init body =>
    match s with
    | c :: r => if cmem c (chars_of init)
                then let r' := span (fun x => cmem x (chars_of body)) r in
                     Match [([], VStr (string_of (firstn (length s - length r') s)))] (after st s r')
                else Fail
    | [] => Fail
    end
  | TNotIn cs =>
    let r := span (fun x => negb (cmem x (chars_of cs))) s in
    if Nat.ltb (length r) (length s) then Match [([], VStr (string_of (firstn (length s - length r) s)))] (after st s r) else Fail
  | TDefault =>
    match default_arg s with
    | Some (text, r) => Match [([], VStr (string_of text))] (after st s r)
    | None => Fail
    end
  | TEnd => match s with [] => Match [] st | _ => Fail end
  end.

Definition lookup (g : grammar) (r : string) : option gexpr :=
  match find (fun p => String.eqb (fst p) r) g with Some p => Some (snd p) | None => None end.

Definition add_name (n : string) (it : item) : item := (n :: fst it, snd it).

(* the combinators, over the interpretation `rec` of sub-expressions *)
Section Combinators.
  Variable rec : gexpr -> pst -> outcome.

  Fixpoint seq (l : list gexpr) (acc : list item) (st : pst) : outcome :=
    match l with
    | [] => Match acc st
    | x :: r => match rec x st with
                | Match its st' => seq r (acc ++ its) st'
                | Fail => Fail
                | NoFuel => NoFuel
                end
    end.

  (* Or: every alternative is tried; the longest match wins, the first listed among equals *)
  Fixpoint alt_longest (st : pst) (l : list gexpr) (best : outcome) : outcome :=
    match l with
    | [] => best
    | x :: r =>
      match rec x st with
      | NoFuel => NoFuel
      | Fail => alt_longest st r best
      | Match its st' =>
        match best with
        | Match _ stb => if Nat.ltb (length (rest st')) (length (rest stb)) then alt_longest st r (Match its st')
                         else alt_longest st r best
        | _ => alt_longest st r (Match its st')
        end
      end
    end.

  (* MatchFirst *)
  Fixpoint alt_first (st : pst) (l : list gexpr) : outcome :=
    match l with
    | [] => Fail
    | x :: r => match rec x st with Fail => alt_first st r | o => o end
    end.

  (* ZeroOrMore; k bounds the number of iterations *)
  Fixpoint star (k : nat) (x : gexpr) (acc : list item) (st : pst) : outcome :=
    match k with
    | O => NoFuel
    | S k' => match rec x st with
              | Match its st' => star k' x (acc ++ its) st'
              | Fail => Match acc st
              | NoFuel => NoFuel
              end
    end.
End Combinators.

Section Interp.
  Variable rt : term -> pst -> outcome.     (* how a terminal is matched *)
  Variable g : grammar.

  Fixpoint interp_with (fuel : nat) (e : gexpr) (st : pst) : outcome :=
    match fuel with
    | O => NoFuel
    | S f =>
      match e with
      | GTerm t => rt t st
      | GAnd l => seq (interp_with f) l [] st
      | GOr l => alt_longest (interp_with f) st l Fail
      | GFirst l => alt_first (interp_with f) st l
      | GOpt x => match interp_with f x st with Fail => Match [] st | o => o end
      | GStar x => star (interp_with f) f x [] st
      | GSup x => match interp_with f x st with Match _ st' => Match [] st' | o => o end
      | GName n x => match interp_with f x st with Match its st' => Match (map (add_name n) its) st' | o => o end
      | GRef r =>
        match lookup g r with
        | Some body => match interp_with f body st with Match its st' => Match [([], VNode r its)] st' | o => o end
        | None => Fail
        end
      end
    end.
End Interp.
Definition interp (g : grammar) := interp_with run_term g.

(* Module.parseString: tabs expanded, the Module rule applied at the start *)
Definition parse_text (g : grammar) (fuel : nat) (text : string) : outcome :=
  interp g fuel (GRef "Module") {| pk := false; rest := expandtabs (chars_of text) |}.

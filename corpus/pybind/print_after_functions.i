// methods and functions named `print` before and after the free functions of a namespace have been wrapped
// (kept from seeded change C03-m1: a keyword list that grows while wrapping)
class Early {
  Early();
  void print() const;
  double value() const;
};

namespace inner {
class Thing {
  Thing();
};
double helper(double x);
}

class Late {
  Late();
  void print() const;
  double value() const;
};

void print(const Late& l);

"""C16 - multiple interface files and the command-line scripts compose consistently.

(a) pybind main file with N additional files: declarations and calls of the initialisers, in order;
(b) wrap_submodule(file) == the initialiser definition wrapping exactly what the text alone yields;
(c) both scripts, run as subprocesses over the option lattice, produce what the API produces;
(d) MATLAB: wrapping a list of files == wrapping their concatenation with a separating newline."""
import hashlib
import multiprocessing as mp
import os
import random
import shutil
import subprocess
import sys
import tempfile

import common
import gen_inputs as G
import sexp
from props import pybcommon as pc

TRUSTED = ['subprocess runs of scripts/pybind_wrap.py and scripts/matlab_wrap.py in scratch directories under _build']


def scratch():
    d = os.path.join(common.BUILD, 'tmp.%d' % os.getpid())
    os.makedirs(d, exist_ok=True)
    return tempfile.mkdtemp(dir=d)


STEM_POOL = ['zeta', 'alpha', 'part10', 'part9', 'Mid', 'beta2', 'b', 'a_last', 'Zed', 'core']


def stems_for(texts):
    """file names of the additional files: distinct, and (whenever there are two or more) NOT in sorted order, so that the
    order of initialiser declarations and calls can only come from the order of the sources"""
    rr = random.Random(common.sha(repr(texts)))
    names = rr.sample(STEM_POOL, len(texts) - 1)
    if len(names) >= 2 and names == sorted(names):
        names.reverse()
    return ['main'] + names


def run_script(script, args, cwd):
    env = dict(os.environ, PYTHONPATH=common.REPO, PYTHONHASHSEED='0')
    p = subprocess.run(['/venv/bin/python', os.path.join(common.REPO, 'scripts', script)] + args, cwd=cwd, env=env,
                       capture_output=True, text=True, timeout=120)
    return p.returncode, p.stderr[-400:]


def tree_digest(root):
    out = {}
    for dp, dn, fn in os.walk(root):
        for f in fn:
            p = os.path.join(dp, f)
            out[os.path.relpath(p, root)] = hashlib.sha256(open(p, 'rb').read()).hexdigest()
    return out


def _pyb_job(job):
    k, seed = job
    r = random.Random('c16/%d/%d' % (seed, k))
    g = G.Gen(r, G.Profile(max_decls=5))
    mods = [g.module() for _ in range(r.randint(1, 3))]
    # most real projects live in a namespace: wrap the content in a namespace chain of depth 0-3
    depth = r.choice([0, 1, 1, 2, 3])
    chain = [r.choice(['gtsam', 'ns1', 'geo', 'outer']) + ('' if i == 0 else str(i)) for i in range(depth)]

    def nest(m, names):
        for n in reversed(names):
            m = [('ns', n, m)]
        return m
    mods = [nest(m, chain) for m in mods]
    texts = [G.text(G.tokens(m)) for m in mods]
    stems = stems_for(texts)
    it0 = pc.impl_items(texts[0])
    if it0[0] != 'ok':
        return ('skip', it0[0])
    # option lattice point k: top namespace depth x spelling x --ignore x serialization
    tops = [['']] + [[''] + chain[:i] for i in range(1, depth + 1)]
    top = tops[k % len(tops)]
    boost = (k // 2) % 2 == 0
    names = pc._cpp_names_impl(it0[1])
    ign = [None, [], ['no::Such'], [r.choice(names)] if names else []][(k // 3) % 4]
    lead = (k % 2 == 1)
    d = scratch()
    res = {'k': k, 'top': top, 'boost': boost, 'ignore': ign, 'texts': texts}
    try:
        for s, t in zip(stems, texts):
            with open(os.path.join(d, s + '.i'), 'w') as f:
                f.write(t)
        tpl = os.path.join(d, 'tpl.example')
        with open(tpl, 'w') as f:
            f.write(pc.TPL)
        # ---- API ----
        api_ign = ign if ign is not None else []
        api_main = pc.impl_wrap(texts[0], (top, api_ign, boost), 'mymod', stems[1:])
        api_subs = [pc.impl_wrap(t, (top, api_ign, boost), s, None) for s, t in zip(stems[1:], texts[1:])]
        res['api_main'] = api_main
        res['api_subs'] = api_subs
        # ---- scripts ----
        topstr = '::'.join(top[1:])
        if topstr and lead:
            topstr = '::' + topstr      # the other documented spelling of the same namespace
        common_args = ['--module_name', 'mymod', '--template', tpl, '--top_module_namespaces', topstr]
        if boost:
            common_args.append('--use-boost-serialization')
        if ign is not None:
            common_args += ['--ignore'] + ign
        out_main = os.path.join(d, 'out_main.cpp')
        rc, err = run_script('pybind_wrap.py', ['--src', ';'.join(os.path.join(d, s + '.i') for s in stems),
                                                '--out', out_main] + common_args, d)
        res['script_main'] = (rc, open(out_main).read() if os.path.exists(out_main) else None, err)
        res['script_subs'] = []
        for s in stems[1:]:
            sub_cwd = os.path.join(d, 'cwd_' + s)
            os.makedirs(sub_cwd)
            rc, err = run_script('pybind_wrap.py', ['--src', os.path.join(d, s + '.i'), '--out', 'unused',
                                                    '--is_submodule'] + common_args, sub_cwd)
            outp = os.path.join(sub_cwd, s + '.cpp')
            listing = sorted(os.listdir(sub_cwd))
            res['script_subs'].append((rc, open(outp).read() if os.path.exists(outp) else None, err, listing))
        # the same additional file wrapped AGAIN in the same working directory under other options: the file written must be
        # what the API yields for THOSE options (an output left over from the first run is in the way)
        res['script_subs_again'] = []
        for s, t in list(zip(stems[1:], texts[1:]))[:1]:
            sub_cwd = os.path.join(d, 'cwd_' + s)
            args2 = ['--module_name', 'mymod', '--template', tpl, '--top_module_namespaces', topstr]
            if not boost:
                args2.append('--use-boost-serialization')
            args2 += ['--ignore', 'no::Such']
            rc, err = run_script('pybind_wrap.py', ['--src', os.path.join(d, s + '.i'), '--out', 'unused', '--is_submodule'] + args2, sub_cwd)
            outp = os.path.join(sub_cwd, s + '.cpp')
            api2 = pc.impl_wrap(t, (top, ['no::Such'], not boost), s, None)
            res['script_subs_again'].append((s, rc, open(outp).read() if os.path.exists(outp) else None, err, api2))
        res['items'] = [it0[1]] + [pc.impl_items(t) for t in texts[1:]]
    finally:
        shutil.rmtree(d, ignore_errors=True)
    return ('ok', res)


def run(rep, tier, seed, replay=None, proof_ok=True):
    rep.coverage['rule'] = ('generated lists of 1-3 interface files x (top namespace depth, --ignore absent / empty / '
                            'non-empty, serialization); pybind API main+submodule outputs vs both script modes run as '
                            'subprocesses; structure of the main file (initialiser declarations/calls in order) and of '
                            'each submodule file vs the model; non-trivial = run with >= 1 additional file')
    q = pc.detect_pquirks()
    n = 36 if tier == 'quick' else 600
    with mp.get_context('fork').Pool(12) as pool:
        results = pool.map(_pyb_job, [(k, seed) for k in range(n)], chunksize=1)
    model = common.Model()
    shown = 0
    try:
        for r in results:
            if r[0] != 'ok':
                rep.bump('skip_' + r[1])
                continue
            r = r[1]
            texts = r['texts']
            stems = stems_for(texts)
            rep.hit(common.sha(repr(texts) + repr(r['top']) + repr(r['ignore'])), len(texts) > 1)
            cfg = [r['top'], r['ignore'] if r['ignore'] is not None else [], r['boost']]
            # (a) API main file vs model, and its structure
            am = r['api_main']
            if am[0] == 'ok':
                # the C16 view of the model: initialiser declarations, calls, module definition
                ans = model.ask('pybind', [q, cfg, pc.TPL, 'mymod', [stems[1:]], r['items'][0]])
                if ans.startswith('ok '):
                    mt = sexp.loads(ans[3:])
                    v = lambda t: ([l for l in t.split('\n') if l.startswith('void ') and l.endswith('(py::module_ &);')],
                                   [l.strip() for l in t.split('\n') if l.strip().endswith('(m_);')],
                                   [l for l in t.split('\n') if l.startswith('PYBIND11_MODULE(')])
                    if v(mt) != v(am[1]):
                        shown += report(rep, shown, 'main file plumbing differs from the model', r, repr(v(am[1])), repr(v(mt)))
                decls = [l for l in am[1].split('\n') if l.startswith('void ') and l.endswith('(py::module_ &);')]
                calls = [l.strip() for l in am[1].split('\n') if l.strip().endswith('(m_);')]
                if decls != ['void %s(py::module_ &);' % s for s in stems[1:]] or \
                        calls != ['%s(m_);' % s for s in stems[1:]]:
                    shown += report(rep, shown, 'initialiser declarations / calls are not one per file in order',
                                    r, am[1][:3000], None)
            # (b) each additional file through the API vs the model
            for s, t, a, it in zip(stems[1:], texts[1:], r['api_subs'], r['items'][1:]):
                if a[0] == 'ok' and it[0] == 'ok':
                    # containing exactly what wrapping its text alone yields (implementation vs implementation)
                    alone = pc.impl_wrap(t, (r['top'], cfg[1], r['boost']), 'other_name', ['x'])
                    import extract_pybind as E
                    content = lambda txt: (E.records(txt),
                                           [l for l in txt.split('\n') if l.startswith('#include') or
                                            l.startswith('BOOST_CLASS_EXPORT') or l.startswith('typedef ')])
                    if alone[0] == 'ok' and content(alone[1]) != content(a[1]):
                        shown += report(rep, shown, 'submodule content differs from wrapping the text alone', r,
                                        repr(content(a[1]))[:3000], repr(content(alone[1]))[:3000])
                    if ('void %s(py::module_ &m_)' % s) not in a[1]:
                        shown += report(rep, shown, 'submodule file does not define its initialiser', r, a[1][:2000], None)
            # (c) scripts vs API
            if r['ignore'] is None:
                # scripts pass ignore_classes=None: recorded finding when the input has a class / declaration
                rc, out, err = r['script_main']
                if rc != 0 and 'TypeError' in err:
                    rep.bump('known:script-ignore-none')
                    rep.known('C16-script-ignore-none: both scripts pass ignore_classes=None when --ignore is absent and '
                              'die with TypeError on the first class [witness: any input with a class, no --ignore]')
                elif rc == 0 and am[0] == 'ok' and out != am[1]:
                    shown += report(rep, shown, 'script (no --ignore) differs from API', r, out[:2000], am[1][:2000])
                continue
            rc, out, err = r['script_main']
            if (rc == 0) != (am[0] == 'ok') or (rc == 0 and out != am[1]):
                shown += report(rep, shown, 'pybind_wrap.py main mode differs from the API', r,
                                (out or err)[:3000], str(am[1])[:3000])
            else:
                rep.bump('script_main_equal')
            for s, a, (rc, out, err, listing) in zip(stems[1:], r['api_subs'], r['script_subs']):
                if (rc == 0) != (a[0] == 'ok') or (rc == 0 and out != a[1]):
                    shown += report(rep, shown, 'pybind_wrap.py --is_submodule differs from the API', r,
                                    (out or err)[:3000], str(a[1])[:3000])
                elif rc == 0 and listing != [s + '.cpp']:
                    shown += report(rep, shown, 'submodule run wrote other files: %s' % listing, r, None, None)
                else:
                    rep.bump('script_sub_equal')
            for s, rc, out, err, a in r.get('script_subs_again', []):
                if (rc == 0) != (a[0] == 'ok') or (rc == 0 and out != a[1]):
                    shown += report(rep, shown, 'second --is_submodule run in the same directory, other options: output differs from the API', r,
                                    (out or err)[:3000], str(a[1])[:3000])
                else:
                    rep.bump('script_sub_rerun_equal')
            rep.sample({'files': len(texts), 'top': r['top'], 'ignore': r['ignore'], 'boost': r['boost']}, cap=4)
    finally:
        model.close()
    matlab_half(rep, tier, seed)
    shutil.rmtree(os.path.join(common.BUILD, 'tmp.%d' % os.getpid()), ignore_errors=True)
    return 0


ENDINGS = ['', '\n', '\n\n', ' ', '\r\n', ' // trailing comment', ' // trailing comment\n', ' /* block */', '\t', ' // a; b {']


def _ml_job(job):
    """MATLAB: a list of files vs one file holding their declarations in sequence; API vs scripts/matlab_wrap.py"""
    from props import mlcommon as ml
    k, seed = job
    r = random.Random('c16m/%d/%d' % (seed, k))
    nfiles = r.randint(2, 4)
    parts = []
    for i in range(nfiles):
        g = G.Gen(r, G.Profile(max_decls=3, matlab_safe=True))
        m = g.module()
        # distinct names across files: one namespace per file
        parts.append(G.text(G.tokens([('ns', 'part%d' % i, m)])))
    files = [t + r.choice(ENDINGS) for t in parts]
    single = '\n'.join(parts) + '\n'
    a = ml.impl_matlab(files, module_name='mod')
    b = ml.impl_matlab([single], module_name='mod')
    # the script on the same list
    d = scratch()
    try:
        paths = []
        for i, t in enumerate(files):
            p = os.path.join(d, 'f%d.i' % i)
            with open(p, 'w', newline='') as f:
                f.write(t)
            paths.append(p)
        out = os.path.join(d, 'out')
        os.makedirs(out)
        rc, err = run_script('matlab_wrap.py', ['--src', ';'.join(paths), '--out', out, '--module_name', 'mod',
                                                '--top_module_namespaces', '', '--ignore', 'no::Such'], d)
        tree = ml.read_tree(out) if rc == 0 else None
    finally:
        shutil.rmtree(d, ignore_errors=True)
    return {'files': files, 'single': single, 'list': a, 'one': b, 'script': (rc, tree, err)}


def matlab_half(rep, tier, seed):
    from props import mlcommon as ml
    ml.ensure_tpl()
    n = 40 if tier == 'quick' else 800
    with mp.get_context('fork').Pool(12) as pool:
        results = pool.map(_ml_job, [(k, seed) for k in range(n)], chunksize=1)
    shown = 0
    for res in results:
        a, b = res['list'], res['one']
        rep.hit('ml/' + common.sha(repr(res['files'])), a[0] == 'ok' and b[0] == 'ok')
        what = None
        if a[0] != b[0]:
            what = 'MATLAB: the file list is %s, the single file is %s' % (a[0], b[0])
        elif a[0] == 'ok' and a[1] != b[1]:
            diff = sorted(f for f in set(a[1]) | set(b[1]) if a[1].get(f) != b[1].get(f))
            what = 'MATLAB: wrapping the file list differs from wrapping one file with the same declarations (%s)' % diff[:5]
        elif a[0] == 'ok':
            rep.bump('ml_list_equals_single')
        else:
            rep.bump('ml_both_' + a[0])
        if what is None and a[0] == 'ok':
            rc, tree, err = res['script']
            if rc != 0 or tree != a[1]:
                what = 'scripts/matlab_wrap.py differs from MatlabWrapper.wrap on the same file list (rc=%s %s)' % (rc, err[-200:])
            else:
                rep.bump('ml_script_equals_api')
        if what and shown < 3:
            shown += 1
            rep.violation({'kind': 'counterexample', 'what': what, 'inputs': res['files'], 'single_file': res['single']})


def report(rep, shown, what, r, a, b):
    if shown >= 3:
        return 0
    rep.violation({'kind': 'counterexample', 'what': what, 'inputs': r['texts'],
                   'options': {'top': r['top'], 'ignore': r['ignore'], 'boost': r['boost']},
                   'observed': a, 'expected': b})
    return 1

"""C05 - MATLAB call-site ids and the MEX dispatch table always agree."""
import multiprocessing as mp
import random
import re

import common
import sexp
from props import mlcommon as ml

TRUSTED = ['regex extraction of call sites / case labels / routine definitions from the generated toolbox '
           '(harness/props/mlcommon.py)']


def direct_check(tree, module):
    """the property itself, on the generated toolbox (independent of the model) -> list of failures"""
    bad = []
    cpp = ml.wrapper_cpp(tree, module)
    if cpp is None:
        return ['no-wrapper-cpp']
    sites = ml.m_call_sites(tree, module)
    cases = ml.cpp_cases(cpp)
    routines = ml.cpp_routines(cpp)
    ids = sorted(s[3] for s in sites)
    n = len(cases)
    if [c[0] for c in cases] != list(range(n)):
        bad.append('cases-not-contiguous')
    if ids != list(range(n)):
        # an id used twice is legal only if ... never: each id has exactly one call site
        bad.append('call-site ids %s vs %d cases' % (summ(ids), n))
    names = [r[0] for r in routines]
    if len(names) != len(set(names)):
        bad.append('routine defined twice')
    targets = [c[1] for c in cases]
    for t in targets:
        if names.count(t) != 1:
            bad.append('case target %s defined %d times' % (t, names.count(t)))
    for nm in names:
        if targets.count(nm) != 1:
            bad.append('routine %s reached by %d cases' % (nm, targets.count(nm)))
    case_of = dict(cases)
    body_of = dict(routines)
    for path, fun, arity, i, hint, static in sites:
        tgt = case_of.get(i)
        if tgt is None:
            continue
        if not tgt.endswith('_%d' % i):
            bad.append('id %d dispatches to %s (id suffix differs)' % (i, tgt))
        cls = path.split('/')[-1][:-2]
        ns = ''.join(p[1:] for p in path.split('/')[:-1] if p.startswith('+'))
        base = tgt[:-(len(str(i)) + 1)]
        if hint == 'upcast':
            ok = base.endswith('_upcastFromVoid')
        elif hint == 'collector':
            ok = base.endswith('_collectorInsertAndMakeBase')
        elif fun == 'delete':
            ok = base.endswith('_deconstructor')
        elif fun and fun.startswith('get.'):
            ok = base.endswith('_get_' + fun[4:])
            b = body_of.get(tgt, '')
            if 'out[0]' not in b or re.search(r'obj->%s\s*=[^=]' % re.escape(fun[4:]), b) or b.count('checkArguments(') != 1:
                bad.append('the routine behind get.%s (id %d, %s) does not have the role of a getter' % (fun[4:], i, tgt))
        elif fun and fun.startswith('set.'):
            ok = base.endswith('_set_' + fun[4:])
            b = body_of.get(tgt, '')
            if 'out[0]' in b or not re.search(r'obj->%s\s*=[^=]' % re.escape(fun[4:]), b) or b.count('checkArguments(') != 1:
                bad.append('the routine behind set.%s (id %d, %s) does not have the role of a setter' % (fun[4:], i, tgt))
        elif fun == 'string_serialize':
            ok = base.endswith('_string_serialize')
        elif fun == 'string_deserialize':
            ok = base.endswith('_string_deserialize')
        elif fun is not None and path.endswith('/' + fun + '.m') or path == (fun or '') + '.m':
            # either a class constructor (class file) or a free function file
            ok = base.endswith('_constructor') or base == fun
        else:
            # method / static method: routine is ns+Class+_+<original name>, a prefix of the MATLAB name
            m = re.match(r'(.*)_(\w+?)$', base)
            ok = bool(fun) and any(base.endswith('_' + fun[:k]) for k in range(1, len(fun) + 1))
        if not ok:
            bad.append('id %d (%s in %s) dispatches to %s' % (i, fun, path, tgt))
        # arity agreement between the MATLAB guard and the routine's checkArguments
        if arity is not None and tgt in body_of:
            cm = re.search(r'checkArguments\("[^"]*",nargout,nargin(?:-1)?,(\d+)\)', body_of[tgt])
            if cm and int(cm.group(1)) != arity:
                bad.append('id %d: MATLAB guard arity %d, routine expects %s' % (i, arity, cm.group(1)))
    return bad


def summ(ids):
    return str(ids[:12]) + ('...' if len(ids) > 12 else '')


def model_view(ans):
    """(call sites, cases, routine names) from the model's answer"""
    x = sexp.loads(ans[3:])
    sites = sorted((int(i), w[5] if w[0] != 'upcast' else None, w[0]) for i, w in x[0])
    return x


def _job(job):
    name, text, seed = job
    r = random.Random('c05/%s/%s' % (seed, name))
    boost = r.random() < 0.5
    if name.startswith('replay'):
        boost = name.endswith('+boost')
    it = ml.impl_items(text)
    res = ml.impl_matlab([text], 'mod', [], boost)
    return name, text, boost, it, res


def compare(tree, ans, module):
    """implementation toolbox vs model answer -> list of differences (empty = agree)"""
    diffs = []
    x = sexp.loads(ans[3:])
    msites, mcases, mroutines = x
    cpp = ml.wrapper_cpp(tree, module)
    cases = ml.cpp_cases(cpp)
    routines = [r[0] for r in ml.cpp_routines(cpp)]
    if [(str(a), b) for a, b in cases] != [(a, b) for a, b in mcases]:
        diffs.append(('cases', cases[:40], mcases[:40]))
    if routines != [r[0] for r in mroutines]:
        diffs.append(('routines', routines[:40], [r[0] for r in mroutines][:40]))
    sites = ml.m_call_sites(tree, module)
    got = sorted((s[3], s[0], s[1] or '', -1 if s[2] is None else s[2]) for s in sites)
    exp = []
    for i, w in msites:
        if w[0] == 'upcast':
            # file / function of the class constructor: same as the collector's site (next entry)
            exp.append((int(i), None, None, -1))
        else:
            role, ns, cls, member, arity, file, mfun = w
            ar = int(arity) if role in ('ctor', 'method', 'static', 'function') else -1
            exp.append((int(i), file, mfun, ar))
    # fill the up-cast sites from their collector
    byid = {e[0]: e for e in exp}
    exp2 = []
    for e in exp:
        if e[1] is None:
            coll = byid.get(e[0] - 1)
            e = (e[0], coll[1], coll[2], -1)
        exp2.append(e)
    exp2 = sorted(exp2)
    # guard arity of serialize/deserialize/getter/setter call sites is printed by templates: ignore arity there
    norm = lambda l: [(a, b, c, d) for a, b, c, d in l]
    g2 = []
    for (i, f, fn, ar) in got:
        e = next((e for e in exp2 if e[0] == i), None)
        if e is not None and e[3] == -1:
            ar = -1
        g2.append((i, f, fn, ar))
    if g2 != exp2:
        diffs.append(('call-sites', [x for x in g2 if x not in exp2][:20], [x for x in exp2 if x not in g2][:20]))
    return diffs


def run(rep, tier, seed, replay=None, proof_ok=True):
    rep.coverage['rule'] = ('fixtures + corpus + generated modules (any number/order of classes, virtual or not, base '
                            'classes, ctor overloads, defaulted arguments, methods, statics, properties, functions, '
                            'namespaces) x serialization on/off; the real toolbox is generated into a scratch directory; '
                            'compared: every <module>_wrapper(<id> call site with file/function/arity, every case label '
                            'with callee, every routine definition, vs Matlab/Ids.v; plus the property checked directly '
                            'on the toolbox; non-trivial = toolbox with >= 3 ids')
    cases, stats = ml.gen_cases(tier, seed, 150, 4000)
    if replay:
        import json as _json
        _t = _json.load(open(replay))['input']
        cases, stats = [('replay', _t), ('replay+boost', _t)], {}
    rep.coverage['input_distribution'] = stats
    with mp.get_context('fork').Pool(14) as pool:
        results = pool.map(_job, [(n, t, seed) for n, t in cases], chunksize=2)
    model = common.Model()
    shown = 0
    try:
        for name, text, boost, it, res in results:
            if it[0] != 'ok':
                rep.bump('impl_inst_' + it[0])
                continue
            ans = model.ask('mlids', [['mod', [], boost], it[1]])
            if res[0] != 'ok':
                rep.bump('impl_' + res[0])
                if res[0] == 'ValidationError' and ans.startswith('err'):
                    rep.bump('both_reject')
                elif res[0].startswith('Crash'):
                    rep.bump('impl_crash_skipped')
                elif shown < 3:
                    shown += 1
                    rep.violation({'kind': 'broken-correspondence', 'what': 'implementation rejects, model accepts',
                                   'input': text, 'impl': res[1], 'model': ans[:500]}, no_input=True)
                continue
            tree = res[1]
            nids = len(ml.cpp_cases(ml.wrapper_cpp(tree, 'mod') or ''))
            rep.hit(common.sha(text + str(boost)), nids >= 3)
            bad = direct_check(tree, 'mod')
            if bad and shown < 3:
                shown += 1
                rep.violation({'kind': 'counterexample', 'what': 'ids / dispatch table disagree in the generated toolbox',
                               'input': text, 'boost': boost, 'failures': bad[:10]})
                continue
            if not ans.startswith('ok '):
                if shown < 3:
                    shown += 1
                    rep.violation({'kind': 'broken-correspondence', 'what': 'model rejects, implementation accepts',
                                   'input': text, 'model': ans[:300]}, no_input=True)
                continue
            diffs = compare(tree, ans, 'mod')
            if diffs:
                rep.bump('model_differs')
                if shown < 3:
                    shown += 1
                    rep.violation({'kind': 'broken-correspondence',
                                   'what': 'toolbox ids differ from Matlab/Ids.v (the property holds on this toolbox)',
                                   'input': text, 'boost': boost, 'diffs': repr(diffs)[:3000]}, no_input=True)
            else:
                rep.bump('agree')
                rep.sample({'input': text[:300], 'ids': nids, 'boost': boost}, cap=3)
    finally:
        model.close()
        import shutil
        shutil.rmtree(ml.scratch_root(), ignore_errors=True)
    return 0

(* C11 - MEX gateway calls reach the right C++ code and never leak or double-free.
   Routing (call id -> routine of the very same member) is the dispatch-table theorem of Matlab/Ids.v;
   ownership is the invariant of Runtime/Gateway.v over every history of Construct / Receive / Delete /
   Unload a MATLAB session can issue.  That a routine, once reached, passes the supplied values and
   returns the callee's result is compiled-C++ behaviour: the check observes it (call trace of an
   instrumented library under the real matlab.h), it is not a theorem. *)
From Coq Require Import String Ascii List Bool Arith Permutation.
From Wrap Require Import Base.Str Base.ListX Syntax.Ast Syntax.Print Inst.Model Matlab.Ids Matlab.IdsProofs
     Runtime.Gateway Runtime.GatewayProofs.
Import ListNotations.
Open Scope string_scope.
Open Scope list_scope.

(* the id a generated .m file passes selects the routine generated for the same class member *)
Theorem C11_routing : forall c top content l, module_slots c top content = Some l ->
  let t := table_from 0 l in
  map id_of t = seq 0 (length l) /\
  cases l = map (fun e => (id_of e, name_of e)) t /\
  routines l = map (fun e => (name_of e, what_of e)) t /\
  Permutation (call_sites l) (map (fun e => (id_of e, what_of e)) t).
Proof. exact dispatch_table. Qed.
Print Assumptions C11_routing.

(* ownership invariant of every reachable state, any classes, any inheritance chains, any history in
   which the session deletes only proxies it holds (the generated .m files cannot do otherwise while the
   module stays loaded): cell addresses distinct, every live cell in its collector, every live cell held
   by one proxy, the proxies' cells pairwise disjoint and live, nothing freed twice or still live *)
Theorem C11_invariant : forall classes h, protocol classes ginit h = true -> Inv (run classes h).
Proof. exact inv_run. Qed.
Print Assumptions C11_invariant.

Theorem C11_no_double_free : forall classes h, protocol classes ginit h = true ->
  double_free (run classes h) = false.
Proof. exact no_double_free. Qed.
Print Assumptions C11_no_double_free.

(* exactly one owner per live cell *)
Theorem C11_one_owner : forall classes h a, protocol classes ginit h = true -> In a (addrs (run classes h)) ->
  exists m l, In (m, l) (g_mobjs (run classes h)) /\ In a l /\
    forall m' l', In (m', l') (g_mobjs (run classes h)) -> In a l' -> m' = m.
Proof. exact live_cell_owned. Qed.
Print Assumptions C11_one_owner.

(* deletion releases the proxy's own cells and nothing else *)
Theorem C11_delete_frame : forall classes h m m' l', protocol classes ginit h = true ->
  In m (map fst (g_mobjs (run classes h))) -> m' <> m ->
  In (m', l') (g_mobjs (run classes h)) ->
  In (m', l') (g_mobjs (step classes (run classes h) (Delete m))) /\
  forall a, In a l' -> In a (addrs (step classes (run classes h) (Delete m))).
Proof. exact delete_frames_others. Qed.
Print Assumptions C11_delete_frame.

(* unloading releases everything that remains *)
Theorem C11_unload_releases_all : forall classes h, protocol classes ginit h = true ->
  g_cells (step classes (run classes h) Unload) = [] /\
  forall o, alive (step classes (run classes h) Unload) o = false.
Proof. exact unload_releases_all. Qed.
Print Assumptions C11_unload_releases_all.

(* Full statement (every history MATLAB can issue, including deleting a proxy that outlived a `clear mex`)
   refuted: the deconstructor routine runs `delete self` whether or not the collector still had the cell. *)
Definition C11_full : Prop := forall classes h, double_free (run classes h) = false.
Theorem C11_refuted_delete_after_unload : ~ C11_full.
Proof. intros H. specialize (H refute_classes refute_history). rewrite delete_after_unload_double_free in H. discriminate H. Qed.
Print Assumptions C11_refuted_delete_after_unload.

Example C11_nonvacuous :
  let cl := [{| ci_name := "B"; ci_base := None; ci_virtual := true |};
             {| ci_name := "D"; ci_base := Some "B"; ci_virtual := true |}] in
  let h := [Construct 1 "D"; Receive 2 "B" 0 true; Delete 1; Construct 3 "B"; Unload] in
  protocol cl ginit h = true /\
  map c_class (g_cells (run cl [Construct 1 "D"; Receive 2 "B" 0 true])) = ["D"; "B"; "D"; "B"] /\
  alive (run cl [Construct 1 "D"; Receive 2 "B" 0 true; Delete 1]) 0 = true.
Proof. vm_compute. auto. Qed.

(* C03 - the generated Python module exposes exactly the declared API. *)
From Coq Require Import String Ascii List Bool Arith Permutation.
From Wrap Require Import Base.Str Base.ListX Syntax.Ast Syntax.Print Inst.Model Inst.Proj
     Pybind.Items Pybind.Gen Pybind.Spec Pybind.SpecProofs.
From Wrap Require gen.Tables.
Import ListNotations.
Open Scope string_scope.
Open Scope list_scope.

(* every class, ctor overload, method overload, static, property, operator, dunder, enum, enumerator,
   function overload, variable inside the top namespace and not ignored is bound exactly once (the
   key lists are permutations of each other: nothing missing, nothing extra, multiplicities equal),
   under its declared name and in the submodule of its namespace path; for every quirk setting,
   every top namespace depth, ignore list and serialization flag *)
Theorem C03_exact : forall q c doc content,
  partial_match [""] (top c) = true -> forallb (dom_item q c) content = true ->
  Permutation (keys (o_items (wrap_module q c doc content))) (declared c (kws q) content).
Proof. exact wrap_module_declared. Qed.
Print Assumptions C03_exact.

(* inside any namespace at any depth (the statement the recursion instantiates) *)
Theorem C03_namespace : forall q c doc i ns inside,
  inv c ns inside -> dom_item q c i = true ->
  Permutation (keys (o_items (wrap_item q c doc ns inside i)) ++ fun_keys q c ns inside i)
              (declared_item c (kws q) ns i).
Proof. exact wrap_item_declared. Qed.
Print Assumptions C03_namespace.

(* nothing ignored is exposed as a class or forward-declared instantiation, unconditionally *)
Theorem C03_nothing_ignored : forall q c doc i ns inside,
  Forall (not_ignored_item c) (o_items (wrap_item q c doc ns inside i)).
Proof. exact wrap_item_not_ignored. Qed.
Print Assumptions C03_nothing_ignored.

(* nothing outside the top namespace is declared (so, by C03_exact, nothing outside is bound) *)
Theorem C03_nothing_outside : forall q c i ns,
  (forall more, under_top c (ns ++ more) = false) -> declared_item c (kws q) ns i = [].
Proof. exact declared_outside. Qed.
Print Assumptions C03_nothing_outside.

(* Full statement about the enums of an ignored class; refuted while the quirk is on *)
Definition C03_ignored_enums_full (q : pquirks) : Prop :=
  forall c doc k, mem_str (iclass_cpp k) (ignore c) = true -> fst (wrap_class q c doc k) = [].
Definition kE : iclass :=
  {| ic_home := []; ic_orig := "A"; ic_templated := false; ic_insts := []; ic_name := "A"; ic_virtual := false;
     ic_base := None; ic_ctors := []; ic_methods := []; ic_statics := []; ic_dunders := []; ic_props := [];
     ic_ops := []; ic_enums := [{| e_name := "K"; e_items := ["X"] |}] |}.
Theorem C03_refuted_ignored_enums : forall q, q_ignored_enums q = true -> ~ C03_ignored_enums_full q.
Proof.
  intros q Hq H. specialize (H {| top := [""]; ignore := ["A"]; boost := false |} None kE eq_refl).
  unfold wrap_class in H. rewrite Hq in H. vm_compute in H. discriminate H.
Qed.
Print Assumptions C03_refuted_ignored_enums.
Theorem C03_ignored_enums_when_repaired : forall q, q_ignored_enums q = false -> C03_ignored_enums_full q.
Proof.
  intros q Hq c doc k Hi. unfold wrap_class, ignored. rewrite Hi, Hq. reflexivity.
Qed.
Print Assumptions C03_ignored_enums_when_repaired.

(* keyword escaping: the generator escapes exactly the names in its table; the property needs the
   table to cover Python's keywords.  `keywords_complete` is evaluated on the regenerated table by
   the check (false today: async, await) *)
Theorem C03_keyword_escape : forall q name cpp_method,
  mem_str cpp_method Tables.ipython_special_methods = false ->
  mem_str name (kws q) = true ->
  py_method_name (kws q) name cpp_method = (name ++ "_")%string.
Proof.
  intros q name cpp_method Hi Hk. unfold py_method_name. rewrite Hi, Hk. reflexivity.
Qed.
Print Assumptions C03_keyword_escape.

(* once the table quirk is repaired every Python 3 keyword is escaped, whatever the table holds *)
Theorem C03_keywords_when_repaired : forall q k, q_keywords_table q = false ->
  In k python3_keywords -> mem_str k (kws q) = true.
Proof.
  intros q k Hq Hk. unfold kws. rewrite Hq.
  assert (H : forall l1 l2 x, In x l2 -> mem_str x (l1 ++ l2) = true).
  { induction l1 as [|y l1 IH]; intros l2 x Hx; cbn [app mem_str].
    - induction l2 as [|z l2 IH2]; [destruct Hx|]. cbn [mem_str]. destruct Hx as [Hx|Hx].
      + subst. rewrite String.eqb_refl. reflexivity.
      + destruct (String.eqb x z); [reflexivity | apply IH2; exact Hx].
    - destruct (String.eqb x y); [reflexivity | apply IH; exact Hx]. }
  apply H. exact Hk.
Qed.
Print Assumptions C03_keywords_when_repaired.

Example C03_nonvacuous :
  let c := {| top := [""; "gtsam"]; ignore := []; boost := false |} in
  partial_match [""] (top c) = true /\ forallb (dom_item impl_pquirks c) [INamespace "gtsam" [IClass kE]] = true.
Proof. vm_compute. split; reflexivity. Qed.

(* The layout theorem at the level of Module.parseString (Parse/Build.v: parse_module). *)
From Coq Require Import String Ascii List Bool Arith Lia.
From Wrap Require Import Base.Str Syntax.Ast Inst.Model Parse.Peg Parse.Build Parse.Layout.
Import ListNotations.
Open Scope string_scope.

Definition text_state (text : string) : pst := {| pk := false; rest := expandtabs (chars_of text) |}.
Definition text_fuel (text : string) : nat := String.length text + 60.
(* the parse in which two-word keywords across filler, DEFAULT_ARG and the #include path abort *)
Definition strict_parse (g : grammar) (text : string) : outcome := strict g (text_fuel text) (GRef "Module") (text_state text).

Theorem parse_module_layout : forall g text text' k,
  skeleton text = Some k -> skeleton text' = Some k ->
  strict_parse g text <> NoFuel ->
  parse_module g text' <> Unsupported "fuel" ->
  parse_module g text = parse_module g text'.
Proof.
  intros g text text' k Hk Hk' Hq Hf.
  unfold skeleton in *. apply skel_f_sound in Hk. apply skel_f_sound in Hk'.
  unfold parse_module, parse_text in *. fold (text_state text) in *. fold (text_state text') in *.
  fold (text_fuel text) in *. fold (text_fuel text') in *.
  assert (Hf' : interp g (text_fuel text') (GRef "Module") (text_state text') <> NoFuel).
  { intros E. rewrite E in Hf. apply Hf. reflexivity. }
  pose proof (layout_independent g (GRef "Module") _ _ k (text_fuel text) (text_fuel text') Hk Hk' Hq Hf') as L.
  unfold text_state in *.
  destruct (interp g (text_fuel text) (GRef "Module") {| pk := false; rest := expandtabs (chars_of text) |}) as [| |i a];
    destruct (interp g (text_fuel text') (GRef "Module") {| pk := false; rest := expandtabs (chars_of text') |}) as [| |i' a'];
    cbn [same_answer] in L; try contradiction; try reflexivity.
  subst i'. reflexivity.
Qed.

// Implementation of the mock MEX API (header-only, included once by a driver).
#pragma once
#include "mex.h"
#include <cstdarg>
#include <cstdio>
#include <cstring>
#include <functional>
#include <map>
#include <set>
#include <stdexcept>
#include <string>
#include <vector>

struct mxArray_tag {
  mxClassID cls;
  size_t m, n;
  std::vector<unsigned char> data;            // numeric payload, zero-initialised
  std::string chars;                          // char arrays
  std::vector<std::string> fields;            // struct arrays (1x1)
  std::vector<mxArray *> values;
  std::map<std::string, mxArray *> props;     // MATLAB objects: property name -> value
  std::string matlab_class;                   // MATLAB objects: class name
};

struct MexError : std::runtime_error { using std::runtime_error::runtime_error; };

namespace mock {
inline std::set<mxArray *> &live() { static std::set<mxArray *> s; return s; }
inline std::map<std::string, mxArray *> &globals() { static std::map<std::string, mxArray *> g; return g; }
inline std::vector<void (*)(void)> &at_exit() { static std::vector<void (*)(void)> v; return v; }
// hook for mexCallMATLAB: the protocol simulator installs the MATLAB side here
inline std::function<int(int, mxArray **, int, mxArray **, const char *)> &call_matlab() {
  static std::function<int(int, mxArray **, int, mxArray **, const char *)> f; return f; }
inline size_t elsize(mxClassID c) {
  switch (c) { case mxDOUBLE_CLASS: case mxINT64_CLASS: case mxUINT64_CLASS: return 8;
    case mxSINGLE_CLASS: case mxINT32_CLASS: case mxUINT32_CLASS: return 4;
    case mxINT16_CLASS: case mxUINT16_CLASS: return 2; default: return 1; } }
inline mxArray *make(mxClassID c, size_t m, size_t n) {
  mxArray *a = new mxArray_tag(); a->cls = c; a->m = m; a->n = n; a->data.assign(m * n * elsize(c) + 8, 0);
  live().insert(a); return a; }
}  // namespace mock

extern "C" {
mxArray *mxCreateNumericArray(mwSize ndim, const mwSize *dims, mxClassID classid, mxComplexity) {
  size_t m = ndim >= 1 ? dims[0] : 1, n = 1; for (mwSize i = 1; i < ndim; i++) n *= dims[i];
  return mock::make(classid, m, n); }
mxArray *mxCreateNumericMatrix(mwSize m, mwSize n, mxClassID classid, mxComplexity) { return mock::make(classid, m, n); }
mxArray *mxCreateDoubleMatrix(mwSize m, mwSize n, mxComplexity) { return mock::make(mxDOUBLE_CLASS, m, n); }
mxArray *mxCreateDoubleScalar(double value) { mxArray *a = mock::make(mxDOUBLE_CLASS, 1, 1); memcpy(a->data.data(), &value, 8); return a; }
mxArray *mxCreateString(const char *str) { mxArray *a = mock::make(mxCHAR_CLASS, 1, strlen(str)); a->chars = str; a->m = a->chars.empty() ? 0 : 1; return a; }
mxArray *mxCreateStructMatrix(mwSize m, mwSize n, int, const char **) { return mock::make(mxSTRUCT_CLASS, m, n); }
mxArray *mxDuplicateArray(const mxArray *a) { mxArray *b = new mxArray_tag(*a); mock::live().insert(b); return b; }
void mxDestroyArray(mxArray *a) { if (a && mock::live().erase(a)) delete a; }
void *mxGetData(const mxArray *a) { return (void *)a->data.data(); }
double *mxGetPr(const mxArray *a) { return (double *)a->data.data(); }
double mxGetScalar(const mxArray *a) {
  switch (a->cls) {
    case mxDOUBLE_CLASS: { double d; memcpy(&d, a->data.data(), 8); return d; }
    case mxINT64_CLASS: { int64_t v; memcpy(&v, a->data.data(), 8); return (double)v; }
    case mxUINT64_CLASS: { uint64_t v; memcpy(&v, a->data.data(), 8); return (double)v; }
    case mxINT32_CLASS: { int32_t v; memcpy(&v, a->data.data(), 4); return (double)v; }
    case mxUINT32_CLASS: { uint32_t v; memcpy(&v, a->data.data(), 4); return (double)v; }
    case mxLOGICAL_CLASS: case mxUINT8_CLASS: return (double)a->data[0];
    case mxINT8_CLASS: return (double)(signed char)a->data[0];
    case mxCHAR_CLASS: return a->chars.empty() ? 0.0 : (double)(unsigned char)a->chars[0];
    default: return 0.0; } }
size_t mxGetM(const mxArray *a) { return a->m; }
size_t mxGetN(const mxArray *a) { return a->n; }
size_t mxGetNumberOfElements(const mxArray *a) { return a->m * a->n; }
mwSize mxGetNumberOfDimensions(const mxArray *) { return 2; }
bool mxIsEmpty(const mxArray *a) { return a->m * a->n == 0; }
bool mxIsNumeric(const mxArray *a) { return a->cls != mxCHAR_CLASS && a->cls != mxLOGICAL_CLASS && a->cls != mxSTRUCT_CLASS; }
bool mxIsLogical(const mxArray *a) { return a->cls == mxLOGICAL_CLASS; }
mxClassID mxGetClassID(const mxArray *a) { return a->cls; }
bool mxIsDouble(const mxArray *a) { return a->cls == mxDOUBLE_CLASS; }
bool mxIsComplex(const mxArray *) { return false; }
bool mxIsChar(const mxArray *a) { return a->cls == mxCHAR_CLASS; }
char *mxArrayToString(const mxArray *a) { if (a->cls != mxCHAR_CLASS) return NULL; char *p = (char *)malloc(a->chars.size() + 1); memcpy(p, a->chars.c_str(), a->chars.size() + 1); return p; }
int mxGetString(const mxArray *a, char *buf, mwSize buflen) { if (a->cls != mxCHAR_CLASS || a->chars.size() + 1 > buflen) return 1; memcpy(buf, a->chars.c_str(), a->chars.size() + 1); return 0; }
void mxFree(void *p) { free(p); }
int mxAddField(mxArray *s, const char *f) { s->fields.push_back(f); s->values.push_back(nullptr); return (int)s->fields.size() - 1; }
void mxSetFieldByNumber(mxArray *s, mwSize, int k, mxArray *v) { s->values[k] = mxDuplicateArray(v); }
mxArray *mxGetField(const mxArray *s, mwSize, const char *f) { for (size_t i = 0; i < s->fields.size(); i++) if (s->fields[i] == f) return s->values[i]; return nullptr; }
mxArray *mxGetProperty(const mxArray *obj, mwSize, const char *p) { auto it = obj->props.find(p); if (it == obj->props.end()) throw MexError(std::string("no property ") + p); return it->second; }
void mexErrMsgIdAndTxt(const char *id, const char *msg, ...) { throw MexError(std::string(id) + ": " + msg); }
void mexErrMsgTxt(const char *msg) { throw MexError(msg); }
int mexPrintf(const char *, ...) { return 0; }
int mexAtExit(void (*fn)(void)) { for (auto f : mock::at_exit()) if (f == fn) return 0; mock::at_exit().push_back(fn); return 0; }
const mxArray *mexGetVariablePtr(const char *, const char *name) { auto it = mock::globals().find(name); return it == mock::globals().end() ? nullptr : it->second; }
mxArray *mexGetVariable(const char *, const char *name) { auto it = mock::globals().find(name); return it == mock::globals().end() ? nullptr : mxDuplicateArray(it->second); }
int mexPutVariable(const char *, const char *name, const mxArray *v) { mock::globals()[name] = mxDuplicateArray(v); return 0; }
int mexCallMATLAB(int nlhs, mxArray *plhs[], int nrhs, mxArray *prhs[], const char *name) {
  if (!mock::call_matlab()) throw MexError(std::string("mexCallMATLAB without MATLAB side: ") + name);
  return mock::call_matlab()(nlhs, plhs, nrhs, prhs, name); }
}

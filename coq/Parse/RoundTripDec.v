(* The domain of the module round trip (Parse/RoundTripModule.v) is decidable: a boolean test on declaration lists,
   proved to imply the hypotheses of module_roundtrip.  The extracted model answers, for a list of declarations, either
   the printed text - which by the theorem parse_module maps back to exactly that list - or "outside the fragment";
   the check feeds the printed texts to the implementation (harness/props/c01.py: theorem_domain). *)
From Coq Require Import String Ascii List Bool Arith Lia.
From Wrap Require Import Base.Str Base.ListX Syntax.Ast Syntax.Print Inst.Model Parse.Peg Parse.PegProofs Parse.Build Parse.Spec
     Parse.Layout Parse.RoundTrip Parse.RoundTripPair Parse.RoundTripModule.
Import ListNotations.
Open Scope list_scope.

Definition chars_dec : forall a b : chars, {a = b} + {a <> b} := list_eq_dec ascii_dec.
Definition str_dec : forall a b : string, {a = b} + {a <> b} := string_dec.
Definition memc (h : chars) (l : list chars) : bool := if in_dec chars_dec h l then true else false.
Definition mems (s : string) (l : list string) : bool := if in_dec str_dec s l then true else false.
Definition nilb {A} (l : list A) : bool := match l with [] => true | _ => false end.

Definition path_okb (ns : list string) (n : string) : bool :=
  forallb is_ident (names_of ns n) && negb (memc (hd [] (names_of ns n)) reserved).

Fixpoint wf_tyb (t : ty) : bool :=
  match t with
  | TPlain (Typename ns (NStr n) insts) _ _ basic =>
    nilb insts && (if basic then nilb ns && mems n basics1 else path_okb ns n)
  | TTempl ns (NStr n) ps _ _ => path_okb ns n && negb (nilb ps) && forallb wf_tyb ps
  | _ => false
  end.

Definition head_okb (t : ty) : bool :=
  match ty_toks t with
  | h :: _ => negb (nilb h) && forallb (in_str alnum_) h && negb (memc h decl_keywords)
  | [] => false
  end.

Definition wf_argb (a : ty * string) : bool :=
  wf_tyb (fst a) && Nat.ltb (depth (fst a)) depth_fuel && is_ident (chars_of (snd a)).

Definition wf_fnb (x : fn) : bool :=
  match x with (t, name, args) =>
    wf_tyb t && Nat.ltb (depth t) depth_fuel && head_okb t && is_ident (chars_of name) && forallb wf_argb args end.

Lemma nilb_nil : forall A (l : list A), nilb l = true -> l = []. Proof. intros A [|x l] H; [reflexivity | discriminate]. Qed.

Lemma path_okb_ok : forall ns n, path_okb ns n = true -> path_ok ns n.
Proof.
  intros ns n H. unfold path_okb in H. apply andb_true_iff in H. destruct H as [H1 H2]. split.
  - apply Forall_forall. intros x Hx. rewrite forallb_forall in H1. apply H1. exact Hx.
  - unfold memc in H2. destruct (in_dec chars_dec (hd [] (names_of ns n)) reserved) as [i|ni]; [discriminate | exact ni].
Qed.

Lemma wf_tyb_ok : forall k t, depth t < k -> wf_tyb t = true -> wf_ty t.
Proof.
  induction k as [|k IH]; intros t Hd H; [lia|].
  destruct t as [[ns [nm|o] insts] c p basic | ns [nm|o] ps c p]; cbn [wf_tyb] in H; try discriminate.
  - apply andb_true_iff in H. destruct H as [H1 H2]. cbn [wf_ty]. split; [apply nilb_nil; exact H1|].
    destruct basic.
    + apply andb_true_iff in H2. destruct H2 as [H2 H3]. split; [apply nilb_nil; exact H2|].
      unfold mems in H3. destruct (in_dec str_dec nm basics1) as [i|ni]; [exact i | discriminate].
    + apply path_okb_ok. exact H2.
  - apply andb_true_iff in H. destruct H as [H H3]. apply andb_true_iff in H. destruct H as [H1 H2]. cbn [wf_ty].
    split; [apply path_okb_ok; exact H1|]. split; [intros E; subst ps; discriminate|].
    assert (Hsub : forall x, In x ps -> wf_ty x).
    { intros x Hx. apply IH; [|rewrite forallb_forall in H3; apply H3; exact Hx]. cbn [depth] in Hd. pose proof (max_ge ps x Hx). lia. }
    clear - Hsub. induction ps as [|x r IHr]; [exact I|]. split; [apply Hsub; left; reflexivity|].
    apply IHr. intros y Hy. apply Hsub. right. exact Hy.
Qed.

Lemma head_okb_ok : forall t, head_okb t = true -> head_ok t.
Proof.
  intros t H. unfold head_okb in H. destruct (ty_toks t) as [|h rest'] eqn:E; [discriminate|].
  apply andb_true_iff in H. destruct H as [H H3]. apply andb_true_iff in H. destruct H as [H1 H2].
  exists h, rest'. split; [exact E|]. split.
  - split; [intros X; subst h; discriminate | exact H2].
  - unfold memc in H3. destruct (in_dec chars_dec h decl_keywords) as [i|ni]; [discriminate | exact ni].
Qed.

Lemma wf_argb_ok : forall a, wf_argb a = true -> wf_arg a.
Proof.
  intros a H. unfold wf_argb in H. apply andb_true_iff in H. destruct H as [H H3]. apply andb_true_iff in H. destruct H as [H1 H2].
  apply Nat.ltb_lt in H2. split; [apply (wf_tyb_ok _ _ H2 H1)|]. split; assumption.
Qed.

Lemma wf_fnb_ok : forall x, wf_fnb x = true -> wf_fn x.
Proof.
  intros [[t name] args] H. cbn [wf_fnb] in H.
  apply andb_true_iff in H. destruct H as [H H5]. apply andb_true_iff in H. destruct H as [H H4].
  apply andb_true_iff in H. destruct H as [H H3]. apply andb_true_iff in H. destruct H as [H1 H2]. apply Nat.ltb_lt in H2.
  cbn [wf_fn]. split; [apply (wf_tyb_ok _ _ H2 H1)|]. split; [exact H2|]. split; [apply head_okb_ok; exact H3|]. split; [exact H4|].
  apply Forall_forall. intros a Ha. apply wf_argb_ok. rewrite forallb_forall in H5. apply H5. exact Ha.
Qed.

(* declarations of the parse tree that are functions of the fragment *)
Definition noneb {A} (o : option A) : bool := match o with None => true | Some _ => false end.
Definition fn_of_decl (d : decl) : option fn :=
  match d with
  | DFun {| f_tmpl := None; f_name := n; f_ret := RSingle t; f_args := a |} =>
    if forallb (fun x => noneb (a_default x)) a then Some (t, n, map (fun x => (a_ty x, a_name x)) a) else None
  | _ => None
  end.

Lemma decl_of_fn : forall d x, fn_of_decl d = Some x -> decl_of x = d.
Proof.
  intros d x H. destruct d as [c|[tm n r a]| | | | | |]; try discriminate. cbn [fn_of_decl] in H.
  destruct tm as [tm|]; [discriminate|]. destruct r as [t|t1 t2]; [|discriminate].
  destruct (forallb (fun x => noneb (a_default x)) a) eqn:F; [|discriminate]. inversion H; subst x. cbn [decl_of]. f_equal. f_equal.
  clear H. induction a as [|[ta na da] a IH]; [reflexivity|]. cbn [forallb] in F. apply andb_true_iff in F. destruct F as [F1 F2].
  cbn [a_default] in F1. destruct da; [discriminate|]. cbn [map]. rewrite (IH F2). reflexivity.
Qed.

Lemma args_back : forall a, forallb (fun x => noneb (a_default x)) a = true -> map mk_arg (map (fun x => (a_ty x, a_name x)) a) = a.
Proof.
  induction a as [|[ta na da] a IH]; intros F; [reflexivity|]. cbn [forallb] in F. apply andb_true_iff in F. destruct F as [F1 F2].
  cbn [a_default] in F1. destruct da; [discriminate|]. cbn [map]. rewrite (IH F2). reflexivity.
Qed.

(* the type a Typename denotes when it is written as a type without qualifiers *)
Definition basic_of (ns : list string) (nm : nm) : bool :=
  nilb ns && match nm with NStr n => mems n basics1 | _ => false end.
Fixpoint ty_of_tn (t : typename) : ty :=
  match t with
  | Typename ns nm insts =>
    match insts with
    | [] => TPlain t false PNone (basic_of ns nm)
    | _ => TTempl ns nm (map ty_of_tn insts) false PNone
    end
  end.
Fixpoint tn_depth (t : typename) : nat :=
  match t with Typename _ _ insts => S (fold_right (fun x acc => Nat.max (tn_depth x) acc) 0 insts) end.
Lemma tn_depth_ge : forall (l : list typename) x, In x l -> tn_depth x <= fold_right (fun y acc => Nat.max (tn_depth y) acc) 0 l.
Proof. induction l as [|y r IH]; intros x H; [destruct H|]. cbn [fold_right]. destruct H as [E|H]; [subst; lia | specialize (IH x H); lia]. Qed.
Lemma ty_of_tn_typename : forall k t, tn_depth t < k -> ty_typename (ty_of_tn t) = t.
Proof.
  induction k as [|k IH]; intros t Hd; [lia|]. destruct t as [ns nm insts]. cbn [ty_of_tn]. destruct insts as [|i insts]; [reflexivity|].
  cbn [ty_typename]. f_equal. rewrite map_map. cbn [tn_depth] in Hd.
  assert (Hs : forall x, In x (i :: insts) -> ty_typename (ty_of_tn x) = x).
  { intros x Hx. apply IH. pose proof (tn_depth_ge (i :: insts) x Hx). lia. }
  clear - Hs. induction (i :: insts) as [|x r IHr]; [reflexivity|]. cbn [map]. rewrite (Hs x (or_introl eq_refl)). f_equal.
  apply IHr. intros y Hy. apply Hs. right. exact Hy.
Qed.
Definition templ_topb (t : ty) : bool := match t with TTempl _ _ _ false PNone => true | _ => false end.
Lemma templ_topb_ok : forall t, templ_topb t = true -> templ_top t.
Proof. intros [tn c k b|ns nm ps c k] H; cbn in *; [discriminate|]. destruct c; [discriminate|]. destruct k; try discriminate. exact I. Qed.

(* classes of the fragment: constructors, methods and properties, grouped in that order *)
Fixpoint omap {A B} (f : A -> option B) (l : list A) : option (list B) :=
  match l with
  | [] => Some []
  | x :: r => match f x, omap f r with Some a, Some b => Some (a :: b) | _, _ => None end
  end.
Lemma omap_map : forall A B C (f : A -> option B) (g : B -> C) (h : A -> C), (forall x y, f x = Some y -> g y = h x) ->
  forall l r, omap f l = Some r -> map g r = map h l.
Proof.
  intros A B C f g h Hf. induction l as [|x l IH]; intros r H; cbn [omap] in H; [inversion H; reflexivity|].
  destruct (f x) as [a|] eqn:Ea; [|discriminate]. destruct (omap f l) as [b|] eqn:Eb; [|discriminate].
  inversion H; subst r. cbn [map]. rewrite (Hf x a Ea), (IH b eq_refl). reflexivity.
Qed.

Definition plain_args (a : list arg) : list (ty * string) := map (fun x => (a_ty x, a_name x)) a.
Definition mem_of_ctor (cn : string) (k : ctor) : option mem :=
  match k with
  | {| k_tmpl := None; k_name := n; k_args := a |} =>
    if String.eqb n cn && forallb (fun x => noneb (a_default x)) a then Some (MC (plain_args a)) else None
  | _ => None
  end.
Definition mem_of_method (m : method) : option mem :=
  match m with
  | {| m_tmpl := None; m_name := n; m_ret := RSingle t; m_args := a; m_const := c |} =>
    if forallb (fun x => noneb (a_default x)) a then Some (MM t n (plain_args a) c) else None
  | _ => None
  end.
Definition mem_of_prop (v : var) : option mem :=
  match v with
  | {| v_ty := t; v_name := n; v_default := None |} => Some (MP t n)
  | _ => None
  end.

Lemma mem_of_ctor_ok : forall cn k m, mem_of_ctor cn k = Some m -> mem_member cn m = MCtor k.
Proof.
  intros cn [[tm|] n a] m H; cbn [mem_of_ctor] in H; [discriminate|].
  destruct (String.eqb n cn) eqn:En; [|discriminate]. cbn [andb] in H.
  destruct (forallb (fun x => noneb (a_default x)) a) eqn:F; [|discriminate]. inversion H; subst m.
  apply String.eqb_eq in En. subst cn. cbn [mem_member]. unfold ctor_member, plain_args. rewrite (args_back a F). reflexivity.
Qed.
Lemma mem_of_method_ok : forall cn x m, mem_of_method x = Some m -> mem_member cn m = MMethod x.
Proof.
  intros cn [[tm|] n [t|t1 t2] a c] m H; cbn [mem_of_method] in H; try discriminate.
  destruct (forallb (fun x => noneb (a_default x)) a) eqn:F; [|discriminate]. inversion H; subst m.
  cbn [mem_member]. unfold method_member, plain_args. rewrite (args_back a F). reflexivity.
Qed.
Definition mem_of_static (m : smethod) : option mem :=
  match m with
  | {| s_tmpl := None; s_name := n; s_ret := RSingle t; s_args := a |} =>
    if forallb (fun x => noneb (a_default x)) a then Some (MS t n (plain_args a)) else None
  | _ => None
  end.
Lemma mem_of_static_ok : forall cn x m, mem_of_static x = Some m -> mem_member cn m = MStatic x.
Proof.
  intros cn [[tm|] n [t|t1 t2] a] m H; cbn [mem_of_static] in H; try discriminate.
  destruct (forallb (fun x => noneb (a_default x)) a) eqn:F; [|discriminate]. inversion H; subst m.
  cbn [mem_member]. unfold static_member, plain_args. rewrite (args_back a F). reflexivity.
Qed.
Definition mem_of_enum (e : enum) : mem := ME (e_name e) (e_items e).
Lemma mem_of_enum_ok : forall cn l, map (mem_member cn) (map mem_of_enum l) = map MEnum l.
Proof. intros cn l. rewrite map_map. apply map_ext. intros [n its]. reflexivity. Qed.
Lemma mem_of_prop_ok : forall cn x m, mem_of_prop x = Some m -> mem_member cn m = MVar x.
Proof. intros cn [t n [d|]] m H; cbn [mem_of_prop] in H; [discriminate|]. inversion H; subst m. reflexivity. Qed.

Lemma fm_same : forall A B (C : A -> B) (f : B -> list A) l, (forall x, f (C x) = [x]) -> flat_map f (map C l) = l.
Proof. intros A B C f l H. induction l as [|x l IH]; [reflexivity|]. cbn [map flat_map]. rewrite H, IH. reflexivity. Qed.
Lemma fm_none : forall A A' B (C : A -> B) (f : B -> list A') l, (forall x, f (C x) = []) -> flat_map f (map C l) = [].
Proof. intros A A' B C f l H. induction l as [|x l IH]; [reflexivity|]. cbn [map flat_map]. rewrite H, IH. reflexivity. Qed.

Lemma class_of_grouped : forall v n ks ms ss ps es,
  class_of_members v n (map MCtor ks ++ map MMethod ms ++ map MStatic ss ++ map MVar ps ++ map MEnum es)
  = {| c_tmpl := None; c_virtual := v; c_name := n; c_base := None; c_ctors := ks; c_methods := ms; c_statics := ss;
       c_dunders := []; c_props := ps; c_ops := []; c_enums := es |}.
Proof.
  intros v n ks ms ss ps es. unfold class_of_members. rewrite !flat_map_app.
  f_equal; repeat first [rewrite fm_same by (intros; reflexivity) | rewrite fm_none by (intros; reflexivity)];
    rewrite ?app_nil_r; reflexivity.
Qed.

Definition item_of_class (c : class) : option item :=
  match c with
  | {| c_tmpl := None; c_virtual := v; c_name := n; c_base := ba; c_ctors := ks; c_methods := ms; c_statics := ss;
       c_dunders := []; c_props := ps; c_ops := []; c_enums := es |} =>
    match omap (mem_of_ctor n) ks, omap mem_of_method ms, omap mem_of_static ss, omap mem_of_prop ps with
    | Some a, Some b, Some s, Some c =>
      match ba with
      | None => Some (IClass v n (a ++ b ++ s ++ c ++ map mem_of_enum es))
      | Some (BName (Typename ns (NStr bn) [])) => Some (IClassB v n ns bn (a ++ b ++ s ++ c ++ map mem_of_enum es))
      | _ => None
      end
    | _, _, _, _ => None
    end
  | _ => None
  end.
Lemma item_of_class_ok : forall c i, item_of_class c = Some i -> idecl i = DClass c.
Proof.
  intros [tm v n ba ks ms ss ds ps os es] i H. cbn [item_of_class] in H.
  destruct tm; [discriminate|]. destruct ds; [|discriminate].
  destruct os; [|discriminate].
  destruct (omap (mem_of_ctor n) ks) as [a|] eqn:Ea; [|discriminate].
  destruct (omap mem_of_method ms) as [b|] eqn:Eb; [|discriminate].
  destruct (omap mem_of_static ss) as [s|] eqn:Es; [|discriminate].
  destruct (omap mem_of_prop ps) as [c|] eqn:Ec; [|discriminate].
  assert (EM : map (mem_member n) (a ++ b ++ s ++ c ++ map mem_of_enum es)
               = map MCtor ks ++ map MMethod ms ++ map MStatic ss ++ map MVar ps ++ map MEnum es).
  { rewrite !map_app.
    rewrite (omap_map _ _ _ (mem_of_ctor n) (mem_member n) MCtor (mem_of_ctor_ok n) ks a Ea).
    rewrite (omap_map _ _ _ mem_of_method (mem_member n) MMethod (mem_of_method_ok n) ms b Eb).
    rewrite (omap_map _ _ _ mem_of_static (mem_member n) MStatic (mem_of_static_ok n) ss s Es).
    rewrite (omap_map _ _ _ mem_of_prop (mem_member n) MVar (mem_of_prop_ok n) ps c Ec), mem_of_enum_ok. reflexivity. }
  destruct ba as [[t|[bns [bn|o] insts]]|].
  - discriminate.
  - destruct insts; [|discriminate]. inversion H; subst i. cbn [idecl]. unfold class_decl_b. rewrite EM, class_of_grouped. reflexivity.
  - discriminate.
  - inversion H; subst i. cbn [idecl]. unfold class_decl. rewrite EM, class_of_grouped. reflexivity.
Qed.

(* declaration trees of the fragment: functions, and namespaces of such *)
Fixpoint item_of_decl (d : decl) : option item :=
  match d with
  | DNamespace n ds =>
    match (fix go (l : list decl) : option (list item) :=
             match l with
             | [] => Some []
             | x :: r => match item_of_decl x, go r with Some a, Some b => Some (a :: b) | _, _ => None end
             end) ds with
    | Some b => Some (INs n b)
    | None => None
    end
  | DVar {| v_ty := t; v_name := n; v_default := None |} => Some (IVar t n)
  | DFwd {| fw_virtual := v; fw_tn := Typename [] (NStr n) []; fw_parent := None |} => Some (IFwd v n)
  | DInclude h => Some (IInc h)
  | DEnum {| e_name := n; e_items := l |} => Some (IEnum n l)
  | DTypedef tn n => Some (ITypedef (ty_of_tn tn) n)
  | DClass c => item_of_class c
  | DFun {| f_tmpl := None; f_name := n; f_ret := RPair a b; f_args := l |} =>
    if forallb (fun x => noneb (a_default x)) l then Some (IFnP a b n (map (fun x => (a_ty x, a_name x)) l)) else None
  | _ => match fn_of_decl d with Some x => Some (IFn x) | None => None end
  end.
Fixpoint items_of_decls (l : list decl) : option (list item) :=
  match l with
  | [] => Some []
  | x :: r => match item_of_decl x, items_of_decls r with Some a, Some b => Some (a :: b) | _, _ => None end
  end.

Lemma items_of_decls_go : forall ds,
  (fix go (l : list decl) : option (list item) :=
     match l with
     | [] => Some []
     | x :: r => match item_of_decl x, go r with Some a, Some b => Some (a :: b) | _, _ => None end
     end) ds = items_of_decls ds.
Proof. induction ds as [|d ds IH]; [reflexivity|]. cbn [items_of_decls]. rewrite <- IH. reflexivity. Qed.

Lemma item_of_ns : forall n ds, item_of_decl (DNamespace n ds) = match items_of_decls ds with Some b => Some (INs n b) | None => None end.
Proof. intros n ds. cbn [item_of_decl]. rewrite items_of_decls_go. reflexivity. Qed.

Lemma idecl_item : forall k i, idepth i < k -> forall d, item_of_decl d = Some i -> idecl i = d.
Proof.
  induction k as [|k IH]; intros i Hd d H; [lia|].
  destruct d as [c|f|tg nn|fw|inc|e|v|n ds].
  - cbn [item_of_decl] in H. apply item_of_class_ok. exact H.
  - destruct f as [tm fnm r a]. destruct tm as [tm|]; destruct r as [t|t1 t2]; cbn [item_of_decl fn_of_decl] in H; try discriminate.
    + destruct (forallb (fun x => noneb (a_default x)) a) eqn:F; [|discriminate]. inversion H; subst i. cbn [idecl decl_of]. f_equal. f_equal.
      apply args_back. exact F.
    + destruct (forallb (fun x => noneb (a_default x)) a) eqn:F; [|discriminate]. inversion H; subst i. cbn [idecl]. unfold pfn_decl. f_equal. f_equal.
      apply args_back. exact F.
  - cbn [item_of_decl] in H. inversion H; subst i. cbn [idecl]. rewrite (ty_of_tn_typename (S (tn_depth tg)) tg (Nat.lt_succ_diag_r _)). reflexivity.
  - destruct fw as [v [ns [n|o] insts] [pa|]]; cbn [item_of_decl fn_of_decl] in H; try discriminate;
      destruct ns; try discriminate; destruct insts; try discriminate. inversion H; subst i. reflexivity.
  - cbn [item_of_decl] in H. inversion H; subst i. reflexivity.
  - destruct e as [en el]. cbn [item_of_decl] in H. inversion H; subst i. reflexivity.
  - destruct v as [t n [dflt|]]; cbn [item_of_decl fn_of_decl] in H; [discriminate|]. inversion H; subst i. reflexivity.
  - rewrite item_of_ns in H. destruct (items_of_decls ds) as [b|] eqn:E; [|discriminate]. inversion H; subst i. cbn [idecl]. f_equal.
    cbn [idepth] in Hd.
    assert (Hb : forall j, In j b -> idepth j < k) by (intros j Hj; pose proof (idepth_ge b j Hj); lia).
    clear H Hd. revert b E Hb. induction ds as [|d ds IHd]; intros b E Hb; cbn [items_of_decls] in E.
    + inversion E. reflexivity.
    + destruct (item_of_decl d) as [a|] eqn:Ea; [|discriminate]. destruct (items_of_decls ds) as [b'|] eqn:Eb; [|discriminate].
      inversion E; subst b. cbn [map]. rewrite (IH a (Hb a (or_introl eq_refl)) d Ea).
      rewrite (IHd b' eq_refl (fun j Hj => Hb j (or_intror Hj))). reflexivity.
Qed.

Lemma idecls_items : forall ds items, items_of_decls ds = Some items -> map idecl items = ds.
Proof.
  induction ds as [|d ds IH]; intros items H; cbn [items_of_decls] in H; [inversion H; reflexivity|].
  destruct (item_of_decl d) as [a|] eqn:Ea; [|discriminate]. destruct (items_of_decls ds) as [b|] eqn:Eb; [|discriminate].
  inversion H; subst items. cbn [map]. rewrite (idecl_item (S (idepth a)) a (Nat.lt_succ_diag_r _) d Ea), (IH b eq_refl). reflexivity.
Qed.

Definition path_okb_c (path : chars) : bool :=
  match path with c :: _ => solid c | [] => false end && forallb not_gt path && forallb (fun x => negb (Nat.eqb (code x) 9)) path.
Lemma path_okb_c_ok : forall path, path_okb_c path = true -> path_ok_c path.
Proof.
  intros path H. unfold path_okb_c in H. apply andb_true_iff in H. destruct H as [H H3]. apply andb_true_iff in H. destruct H as [H1 H2].
  split; [destruct path; [discriminate | exact H1]|]. split; [exact H2|].
  apply Forall_forall. intros x Hx. rewrite forallb_forall in H3. specialize (H3 x Hx). apply negb_true_iff in H3.
  intros E. rewrite E in H3. discriminate.
Qed.

Definition plainb (t : ty) : bool := match t with TPlain _ _ _ _ => true | _ => false end.
Lemma plainb_ok : forall t, plainb t = true -> plain t. Proof. intros [| ] H; [exact I | discriminate]. Qed.

Definition name_okb (h : chars) : bool :=
  match h with c :: _ => negb (ceq "_"%char c) | [] => false end && negb (memc h [ktemplate; kstatic; kenum; kpair]).
Lemma name_okb_ok : forall h, name_okb h = true -> name_ok h.
Proof.
  intros h H. unfold name_okb in H. apply andb_true_iff in H. destruct H as [H1 H2]. unfold name_ok. split.
  - destruct h as [|c h]; [discriminate|]. cbn [no_us]. apply negb_true_iff in H1. exact H1.
  - unfold memc in H2. destruct (in_dec chars_dec h [ktemplate; kstatic; kenum; kpair]) as [i|ni]; [discriminate|].
    repeat split; intros E; apply ni; subst h; cbn; tauto.
Qed.
Definition head_memb (t : ty) : bool :=
  match ty_toks t with
  | h :: _ => negb (nilb h) && forallb (in_str alnum_) h && name_okb h
  | [] => false
  end.
Lemma head_memb_ok : forall t, head_memb t = true -> head_mem t.
Proof.
  intros t H. unfold head_memb in H. destruct (ty_toks t) as [|h rest'] eqn:E; [discriminate|].
  apply andb_true_iff in H. destruct H as [H H3]. apply andb_true_iff in H. destruct H as [H1 H2].
  exists h, rest'. split; [exact E|]. split; [split; [intros X; subst h; discriminate | exact H2] | apply name_okb_ok; exact H3].
Qed.
Definition wf_enumb (n : string) (l : list string) : bool :=
  is_ident (chars_of n) && negb (memc (chars_of n) [chars_of "class"; chars_of "struct"]) && negb (nilb l)
  && forallb (fun y => is_ident (chars_of y)) l.
Lemma wf_enumb_ok : forall en el, wf_enumb en el = true -> wf_enum en el.
Proof.
  intros en el H. unfold wf_enumb in H.
  apply andb_true_iff in H. destruct H as [H H4]. apply andb_true_iff in H. destruct H as [H H3].
  apply andb_true_iff in H. destruct H as [H1 H2]. unfold wf_enum. split; [exact H1|].
  unfold memc in H2. destruct (in_dec chars_dec (chars_of en) [chars_of "class"; chars_of "struct"]) as [i|ni]; [discriminate|].
  split; [intros E; apply ni; left; symmetry; exact E|]. split; [intros E; apply ni; right; left; symmetry; exact E|].
  split; [intros E; subst el; discriminate|]. apply Forall_forall. intros y Hy. rewrite forallb_forall in H4. apply H4. exact Hy.
Qed.
Definition not_operatorb (n : chars) : bool := noneb (prefix koperator n).
Definition head_statb (t : ty) : bool :=
  match ty_toks t with
  | h :: _ => negb (nilb h) && forallb (in_str alnum_) h && negb (memc h [kpair]) && not_operatorb h
  | [] => false
  end.
Lemma head_statb_ok : forall t, head_statb t = true -> head_stat t.
Proof.
  intros t H. unfold head_statb in H. destruct (ty_toks t) as [|h rest'] eqn:E; [discriminate|].
  apply andb_true_iff in H. destruct H as [H H4]. apply andb_true_iff in H. destruct H as [H H3]. apply andb_true_iff in H. destruct H as [H1 H2].
  exists h, rest'. split; [exact E|]. split; [split; [intros X; subst h; discriminate | exact H2]|]. split.
  - unfold memc in H3. destruct (in_dec chars_dec h [kpair]) as [i|ni]; [discriminate|]. intros X. apply ni. left. symmetry. exact X.
  - unfold not_operatorb, not_operator in *. destruct (prefix koperator h); [discriminate | reflexivity].
Qed.
Definition wf_memb (m : mem) : bool :=
  match m with
  | MC args => forallb wf_argb args
  | MM t n args _ => wf_tyb t && Nat.ltb (depth t) depth_fuel && head_memb t && is_ident (chars_of n) && not_operatorb (chars_of n)
                     && forallb wf_argb args
  | MP t n => wf_tyb t && Nat.ltb (depth t) depth_fuel && head_memb t && is_ident (chars_of n) && not_operatorb (chars_of n)
  | ME n l => wf_enumb n l && not_operatorb (chars_of n)
  | MS t n args => wf_tyb t && Nat.ltb (depth t) depth_fuel && head_statb t && is_ident (chars_of n) && forallb wf_argb args
  end.
Lemma wf_argsb_ok : forall args, forallb wf_argb args = true -> Forall wf_arg args.
Proof. intros args H. apply Forall_forall. intros a Ha. apply wf_argb_ok. rewrite forallb_forall in H. apply H. exact Ha. Qed.
Lemma wf_memb_ok : forall m, wf_memb m = true -> wf_mem m.
Proof.
  intros [args | t n args cst | t n | en el | t n args] H; cbn [wf_memb wf_mem] in *.
  - apply wf_argsb_ok. exact H.
  - apply andb_true_iff in H. destruct H as [H H6]. apply andb_true_iff in H. destruct H as [H H5]. apply andb_true_iff in H. destruct H as [H H4].
    apply andb_true_iff in H. destruct H as [H H3]. apply andb_true_iff in H. destruct H as [H1 H2]. apply Nat.ltb_lt in H2.
    split; [apply (wf_tyb_ok _ _ H2 H1)|]. split; [exact H2|]. split; [apply head_memb_ok; exact H3|]. split; [exact H4|].
    split; [|apply wf_argsb_ok; exact H6]. unfold not_operatorb, not_operator in *. destruct (prefix koperator (chars_of n)); [discriminate | reflexivity].
  - apply andb_true_iff in H. destruct H as [H H5]. apply andb_true_iff in H. destruct H as [H H4].
    apply andb_true_iff in H. destruct H as [H H3]. apply andb_true_iff in H. destruct H as [H1 H2]. apply Nat.ltb_lt in H2.
    split; [apply (wf_tyb_ok _ _ H2 H1)|]. split; [exact H2|]. split; [apply head_memb_ok; exact H3|]. split; [exact H4|].
    unfold not_operatorb, not_operator in *. destruct (prefix koperator (chars_of n)); [discriminate | reflexivity].
  - apply andb_true_iff in H. destruct H as [H1 H2]. split; [apply wf_enumb_ok; exact H1|].
    unfold not_operatorb, not_operator in *. destruct (prefix koperator (chars_of en)); [discriminate | reflexivity].
  - apply andb_true_iff in H. destruct H as [H H5]. apply andb_true_iff in H. destruct H as [H H4].
    apply andb_true_iff in H. destruct H as [H H3]. apply andb_true_iff in H. destruct H as [H1 H2]. apply Nat.ltb_lt in H2.
    split; [apply (wf_tyb_ok _ _ H2 H1)|]. split; [exact H2|]. split; [apply head_statb_ok; exact H3|]. split; [exact H4|].
    apply wf_argsb_ok. exact H5.
Qed.
Definition wf_classb (n : string) (ms : list mem) : bool :=
  is_ident (chars_of n) && name_okb (chars_of n) && negb (memc (chars_of n) reserved) && forallb wf_memb ms.
Lemma wf_classb_ok : forall n ms, wf_classb n ms = true -> wf_class n ms.
Proof.
  intros n ms H. unfold wf_classb in H. apply andb_true_iff in H. destruct H as [H H4]. apply andb_true_iff in H. destruct H as [H H3].
  apply andb_true_iff in H. destruct H as [H1 H2]. split; [exact H1|]. split; [apply name_okb_ok; exact H2|]. split.
  - unfold memc in H3. destruct (in_dec chars_dec (chars_of n) reserved) as [i|ni]; [discriminate | exact ni].
  - apply Forall_forall. intros m Hm. apply wf_memb_ok. rewrite forallb_forall in H4. apply H4. exact Hm.
Qed.

Fixpoint wf_itemb (i : item) : bool :=
  match i with
  | IFn x => wf_fnb x
  | IVar t n => wf_tyb t && Nat.ltb (depth t) depth_fuel && head_okb t && is_ident (chars_of n)
  | IFwd _ n => is_ident (chars_of n)
  | IInc h => path_okb_c (chars_of h)
  | ITypedef t n => wf_tyb t && Nat.ltb (depth t) depth_fuel && templ_topb t && is_ident (chars_of n)
  | IFnP a b n l => wf_tyb a && wf_tyb b && plainb a && plainb b && is_ident (chars_of n) && forallb wf_argb l
  | IEnum n l => wf_enumb n l
  | IClass _ n ms => wf_classb n ms
  | IClassB _ n ns bn ms => wf_classb n ms && forallb is_ident (names_of ns bn) && negb (memc (hd [] (names_of ns bn)) [kconst])
  | INs n b => is_ident (chars_of n) && forallb wf_itemb b
  end.
Lemma wf_itemb_ok : forall k i, idepth i < k -> wf_itemb i = true -> wf_item i.
Proof.
  induction k as [|k IH]; intros i Hd H; [lia|]. destruct i as [x|t n|vt n|hd|en el|tt tnm|pa pb pn pl|cv cn cms|bv bcn bns bbn bms|n b]; cbn [wf_itemb wf_item] in *.
  - apply wf_fnb_ok. exact H.
  - apply andb_true_iff in H. destruct H as [H H4]. apply andb_true_iff in H. destruct H as [H H3].
    apply andb_true_iff in H. destruct H as [H1 H2]. apply Nat.ltb_lt in H2.
    split; [apply (wf_tyb_ok _ _ H2 H1)|]. split; [exact H2|]. split; [apply head_okb_ok; exact H3 | exact H4].
  - exact H.
  - apply path_okb_c_ok. exact H.
  - apply wf_enumb_ok. exact H.
  - apply andb_true_iff in H. destruct H as [H H4]. apply andb_true_iff in H. destruct H as [H H3].
    apply andb_true_iff in H. destruct H as [H1 H2]. apply Nat.ltb_lt in H2.
    split; [apply (wf_tyb_ok _ _ H2 H1)|]. split; [exact H2|]. split; [apply templ_topb_ok; exact H3 | exact H4].
  - apply andb_true_iff in H. destruct H as [H H6]. apply andb_true_iff in H. destruct H as [H H5].
    apply andb_true_iff in H. destruct H as [H H4]. apply andb_true_iff in H. destruct H as [H H3].
    apply andb_true_iff in H. destruct H as [H1 H2].
    pose proof (plainb_ok pa H3) as P1. pose proof (plainb_ok pb H4) as P2.
    split; [apply (wf_tyb_ok 1 pa); [rewrite (plain_depth pa P1); lia | exact H1]|].
    split; [apply (wf_tyb_ok 1 pb); [rewrite (plain_depth pb P2); lia | exact H2]|].
    split; [exact P1|]. split; [exact P2|]. split; [exact H5|].
    apply Forall_forall. intros a Ha. apply wf_argb_ok. rewrite forallb_forall in H6. apply H6. exact Ha.
  - apply wf_classb_ok. exact H.
  - apply andb_true_iff in H. destruct H as [H H3]. apply andb_true_iff in H. destruct H as [H1 H2]. split; [apply wf_classb_ok; exact H1|]. split.
    + apply Forall_forall. intros x Hx. rewrite forallb_forall in H2. apply H2. exact Hx.
    + unfold memc in H3. destruct (in_dec chars_dec (hd [] (names_of bns bbn)) [kconst]) as [i|ni]; [discriminate|]. intros E. apply ni. left. symmetry. exact E.
  - apply andb_true_iff in H. destruct H as [H1 H2]. split; [exact H1|]. cbn [idepth] in Hd.
    assert (Hb : forall j, In j b -> wf_item j).
    { intros j Hj. apply IH; [pose proof (idepth_ge b j Hj); lia | rewrite forallb_forall in H2; apply H2; exact Hj]. }
    clear - Hb. induction b as [|x r IHr]; [exact I|]. split; [apply Hb; left; reflexivity|]. apply IHr. intros j Hj. apply Hb. right. exact Hj.
Qed.

(* the model's answer for a declaration list: its text when the list is in the domain of the theorem *)
Definition in_domain (i : item) : bool := Nat.ltb (idepth i) depth_fuel && wf_itemb i.
Definition print_decls (ds : list decl) : option string :=
  match items_of_decls ds with
  | Some items => if forallb in_domain items then Some (print_items items) else None
  | None => None
  end.

Theorem printed_decls_parse_back : forall ds text, print_decls ds = Some text -> parse_module spec_grammar text = Ok ds.
Proof.
  intros ds text H. unfold print_decls in H. destruct (items_of_decls ds) as [items|] eqn:E; [|discriminate].
  destruct (forallb in_domain items) eqn:W; [|discriminate]. inversion H; subst text.
  rewrite <- (idecls_items ds items E). apply items_roundtrip. intros i Hi. rewrite forallb_forall in W. specialize (W i Hi).
  unfold in_domain in W. apply andb_true_iff in W. destruct W as [W1 W2]. apply Nat.ltb_lt in W1.
  split; [exact W1 | apply (wf_itemb_ok _ i W1 W2)].
Qed.

(* Specification for C02: capture-free simultaneous substitution, on the level of the C++
   spelling of types.  Definitions only. *)
From Coq Require Import String Ascii List Bool Arith.
From Wrap Require Import Base.Str Base.ListX Syntax.Ast Syntax.Print Inst.Model.
Import ListNotations.
Open Scope string_scope.
Open Scope list_scope.

Section Subst.
  Variable tnames : list string.       (* template parameters, class level then member level *)
  Variable insts : list typename.      (* their concrete types *)
  Variable this_cpp : string.          (* C++ spelling of the instantiated class *)

  Definition sigma (n : string) : option typename :=
    match index_of n tnames with Some k => nth_error insts k | None => None end.

  (* a leading path component that is a parameter (T or T::X) or This is replaced *)
  Definition subst_head (comp : string) : string :=
    match sigma comp with
    | Some tn => tn_cpp tn
    | None => if String.eqb comp "This" then this_cpp else comp
    end.
  Definition subst_path (comps : list string) : string :=
    match comps with
    | [] => ""
    | c :: r => join "::" (subst_head c :: r)
    end.

  Definition tn_args_cpp (l : list typename) : string :=
    match l with [] => "" | _ => ("<" ++ join ", " (map tn_cpp l) ++ ">")%string end.

  (* the substituted type, spelled in C++: recursion into template arguments at any depth;
     the occurrence keeps its own const / pointer / reference markers *)
  Fixpoint subst_cpp (t : ty) : string :=
    match t with
    | TPlain (Typename ns n ins) c p _ =>
      (const_pre c ++ wrap_ptr p (subst_path (ns ++ [nm_str n]) ++ tn_args_cpp ins))%string
    | TTempl ns n ps c p =>
      (const_pre c ++ wrap_ptr p (subst_path (ns ++ [nm_str n]) ++ "<" ++ join ", " (map subst_cpp ps) ++ ">"))%string
    end.

  Definition subst_ret_cpp (r : ret) : string :=
    match r with
    | RSingle t => subst_cpp t
    | RPair a b => ("std::pair<" ++ subst_cpp a ++ "," ++ subst_cpp b ++ ">")%string
    end.

  (* ---------------- domain of the partial theorem ---------------- *)
  Definition is_param (n : string) : bool := mem_str n tnames.
  Definition plain_comp (c : string) : bool := negb (orb (is_param c) (String.eqb c "This")).

  (* no path component anywhere is a parameter or This; only parser-shaped nodes *)
  Fixpoint free_of (t : ty) : bool :=
    match t with
    | TPlain (Typename ns (NStr n) []) _ _ _ => forallb plain_comp (ns ++ [n])
    | TTempl ns (NStr n) ps _ _ => andb (forallb plain_comp (ns ++ [n])) (forallb free_of ps)
    | _ => false
    end.
  Definition whole_param (t : ty) : bool :=
    match t with
    | TPlain (Typename [] (NStr n) []) _ _ _ => is_param n
    | _ => false
    end.

  (* computed guards on a printed spelling: it is not taken for a scoped use of a parameter, is
     not itself a parameter, and does not contain the letters "This" *)
  Definition guards (s : string) : bool :=
    andb (match scoped_template tnames s with None => true | Some _ => false end)
         (andb (match index_of s tnames with None => true | Some _ => false end)
               (negb (contains "This" s))).

  Definition first_level (t : ty) : ty :=
    match t with
    | TTempl ns n ps c p => TTempl ns n (map (rewrite_param tnames insts) ps) c p
    | _ => t
    end.

  Definition dom_ty (t : ty) : bool :=
    match t with
    | TPlain (Typename [] (NStr n) []) _ _ _ =>
      if is_param n then negb (contains "::" n)
      else if String.eqb n "This"
           then match scoped_template tnames n with None => true | Some _ => false end
           else guards n
    | TPlain (Typename ns (NStr n) []) _ _ _ =>
      andb (free_of t) (guards (tn_cpp (Typename ns (NStr n) [])))
    | TTempl ns (NStr n) ps _ _ =>
      andb (forallb plain_comp (ns ++ [n]))
           (andb (forallb (fun p => orb (whole_param p) (free_of p)) ps)
                 (guards (tn_cpp (ty_typename (first_level t)))))
    | _ => false
    end.

  Definition dom_ret (r : ret) : bool :=
    match r with RSingle t => dom_ty t | RPair a b => andb (dom_ty a) (dom_ty b) end.
End Subst.

#include <iostream>  // the real gtsam headers pull this in (Eigen); generated gateways use std::cout
#pragma once

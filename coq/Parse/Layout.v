(* C12: layout independence of the interpreter of Parse/Peg.v, for every grammar whose terminals are layout-robust
   (literals and keywords without blanks and with '/' only in first position, words over characters other than
   blanks and '/', StringEnd).  Two texts with the same skeleton - the same non-filler characters in the same order,
   with filler runs (white space and comments, any content, any length >= 1) at the same places - are parsed alike. *)
From Coq Require Import String Ascii List Bool Arith Lia.
From Wrap Require Import Base.Str Parse.Peg.
Import ListNotations.
Open Scope list_scope.

(* ---------- filler ---------- *)
Definition filler_start (s : chars) : bool :=
  match s with
  | c :: _ => orb (is_white c) (match comment s with Some _ => true | None => false end)
  | [] => false
  end.

Lemma skip_ws_len : forall s, length (skip_ws s) <= length s.
Proof. induction s as [|c r IH]; cbn [skip_ws]; [lia|]. destruct (is_white c); cbn [length]; lia. Qed.

Lemma skip_ws_nonwhite : forall s, match skip_ws s with c :: _ => is_white c = false | [] => True end.
Proof.
  induction s as [|c r IH]; cbn [skip_ws]; [exact I|]. destruct (is_white c) eqn:E; [exact IH | exact E].
Qed.

Lemma skip_ws_id : forall c r, is_white c = false -> skip_ws (c :: r) = c :: r.
Proof. intros c r H. cbn [skip_ws]. rewrite H. reflexivity. Qed.

Lemma line_comment_len : forall s, length (line_comment s) <= length s.
Proof.
  intros s. remember (length s) as n eqn:Hn. revert s Hn.
  induction n as [n IH] using lt_wf_ind. intros s Hn. destruct s as [|c r]; [cbn; lia|].
  cbn [line_comment]. destruct (Nat.eqb (code c) 10); [lia|]. destruct r as [|d r']; [cbn; lia|].
  destruct (andb (Nat.eqb (code c) 92) (Nat.eqb (code d) 10)).
  - cbn [length] in *. specialize (IH (length r')). assert (length r' < n) by lia. specialize (IH H r' eq_refl). lia.
  - cbn [length] in *. specialize (IH (length (d :: r'))). cbn [length] in IH.
    assert (S (length r') < n) by lia. specialize (IH H (d :: r') eq_refl). cbn [length] in IH. lia.
Qed.

Lemma block_comment_len : forall s r, block_comment s = Some r -> length r < length s.
Proof.
  intros s. remember (length s) as n eqn:Hn. revert s Hn.
  induction n as [n IH] using lt_wf_ind. intros s Hn r H. destruct s as [|c t]; [discriminate|].
  cbn [block_comment] in H. destruct t as [|d t']; [discriminate|].
  destruct (andb (Nat.eqb (code c) 42) (Nat.eqb (code d) 47)).
  - inversion H; subst. cbn [length]. lia.
  - cbn [length] in *. assert (L : S (length t') < n) by lia.
    specialize (IH (S (length t')) L (d :: t') eq_refl r H). lia.
Qed.

Lemma comment_len : forall s r, comment s = Some r -> length r < length s.
Proof.
  intros s r H. unfold comment in H. destruct s as [|a [|b t]]; try discriminate.
  destruct (Nat.eqb (code a) 47); [|discriminate]. destruct (Nat.eqb (code b) 42).
  - apply block_comment_len in H. cbn [length]. lia.
  - destruct (Nat.eqb (code b) 47); [|discriminate]. inversion H; subst.
    pose proof (line_comment_len t). cbn [length]. lia.
Qed.

Lemma comment_slash : forall c r x, comment (c :: r) = Some x -> code c = 47.
Proof.
  intros c r x H. unfold comment in H. destruct r as [|b t]; [discriminate|].
  destruct (Nat.eqb (code c) 47) eqn:E; [apply Nat.eqb_eq in E; exact E | discriminate].
Qed.

Lemma skip_ign_len : forall f s, length (skip_ignorables f s) <= length s.
Proof.
  induction f as [|f IH]; intros s; cbn [skip_ignorables]; [lia|].
  destruct (comment (skip_ws s)) as [r|] eqn:E; [|lia].
  apply comment_len in E. pose proof (skip_ws_len s). specialize (IH r). lia.
Qed.

Lemma skip_ign_done : forall f s, length s <= f -> comment (skip_ws (skip_ignorables f s)) = None.
Proof.
  induction f as [|f IH]; intros s H.
  - destruct s; [reflexivity | cbn in H; lia].
  - cbn [skip_ignorables]. destruct (comment (skip_ws s)) as [r|] eqn:E; [|exact E].
    apply IH. apply comment_len in E. pose proof (skip_ws_len s). lia.
Qed.

Lemma skip_filler_len : forall s, length (skip_filler s) <= length s.
Proof. intros s. unfold skip_filler. pose proof (skip_ws_len (skip_ignorables (length s) s)). pose proof (skip_ign_len (length s) s). lia. Qed.

(* F2 *)
Lemma skip_filler_done : forall s, filler_start (skip_filler s) = false.
Proof.
  intros s. unfold skip_filler. pose proof (skip_ign_done (length s) s (le_n _)) as D.
  pose proof (skip_ws_nonwhite (skip_ignorables (length s) s)) as W.
  destruct (skip_ws (skip_ignorables (length s) s)) as [|c r] eqn:E; [reflexivity|].
  unfold filler_start. rewrite W, D. reflexivity.
Qed.

Lemma filler_start_false : forall c r, filler_start (c :: r) = false -> is_white c = false /\ comment (c :: r) = None.
Proof.
  intros c r H. unfold filler_start in H. apply orb_false_iff in H. destruct H as [H1 H2]. split; [exact H1|].
  destruct (comment (c :: r)); [discriminate | reflexivity].
Qed.

(* F1 *)
Lemma skip_filler_id : forall s, filler_start s = false -> skip_filler s = s.
Proof.
  intros s H. destruct s as [|c r]; [reflexivity|]. apply filler_start_false in H. destruct H as [W C].
  unfold skip_filler. cbn [length skip_ignorables]. rewrite (skip_ws_id c r W), C. apply skip_ws_id. exact W.
Qed.

(* F3 *)
Lemma skip_filler_shorter : forall s, filler_start s = true -> length (skip_filler s) < length s.
Proof.
  intros s H. destruct s as [|c r]; [discriminate|]. unfold skip_filler. cbn [length skip_ignorables].
  destruct (comment (skip_ws (c :: r))) as [x|] eqn:E.
  - apply comment_len in E. pose proof (skip_ws_len (c :: r)). pose proof (skip_ign_len (length r) x).
    pose proof (skip_ws_len (skip_ignorables (length r) x)). cbn [length] in *. lia.
  - unfold filler_start in H. destruct (is_white c) eqn:W.
    + cbn [skip_ws]. rewrite W. pose proof (skip_ws_len r). cbn [length]. lia.
    + rewrite (skip_ws_id c r W) in E. rewrite E in H. discriminate.
Qed.

Lemma white_not_kw : forall c, is_white c = true -> is_kwchar c = false.
Proof.
  intros c H. unfold is_white in H. unfold is_kwchar, is_alpha, is_digit.
  repeat match goal with H : orb _ _ = true |- _ => apply orb_true_iff in H; destruct H as [H|H] end;
    apply Nat.eqb_eq in H; rewrite H; reflexivity.
Qed.

Lemma filler_first_not_kw : forall c r, filler_start (c :: r) = true -> is_kwchar c = false.
Proof.
  intros c r H. unfold filler_start in H. apply orb_true_iff in H. destruct H as [H|H]; [apply white_not_kw; exact H|].
  destruct (comment (c :: r)) as [x|] eqn:E; [|discriminate]. apply comment_slash in E.
  unfold is_kwchar, is_alpha, is_digit. rewrite E. reflexivity.
Qed.

(* a character that never starts filler, whatever follows *)
Definition solid (c : ascii) : bool := andb (negb (is_white c)) (negb (Nat.eqb (code c) 47)).
Lemma solid_no_filler : forall c r, solid c = true -> filler_start (c :: r) = false.
Proof.
  intros c r H. unfold solid in H. apply andb_true_iff in H. destruct H as [W S].
  apply negb_true_iff in W. apply negb_true_iff in S. unfold filler_start. rewrite W. cbn [orb].
  destruct (comment (c :: r)) as [x|] eqn:E; [|reflexivity]. apply comment_slash in E. apply Nat.eqb_neq in S. contradiction.
Qed.
Lemma filler_not_solid : forall c r, filler_start (c :: r) = true -> solid c = false.
Proof.
  intros c r H. destruct (solid c) eqn:E; [|reflexivity]. rewrite (solid_no_filler c r E) in H. discriminate.
Qed.

(* ---------- skeleton ---------- *)
Inductive Skel : chars -> list (option ascii) -> Prop :=
| Skel_nil : Skel [] []
| Skel_char : forall c r k, filler_start (c :: r) = false -> Skel r k -> Skel (c :: r) (Some c :: k)
| Skel_fill : forall s k, filler_start s = true -> Skel (skip_filler s) k -> Skel s (None :: k).

Lemma Skel_fun : forall s k1, Skel s k1 -> forall k2, Skel s k2 -> k1 = k2.
Proof.
  intros s k1 H. induction H as [|c r k F H IH|s k F H IH]; intros k2 H2.
  - inversion H2; subst; [reflexivity | discriminate].
  - inversion H2; subst; [f_equal; apply IH; assumption | congruence].
  - inversion H2; subst; [discriminate | congruence | f_equal; apply IH; assumption].
Qed.

(* ---------- positions reached by consuming solid characters and whole filler runs ---------- *)
Inductive reach : chars -> chars -> Prop :=
| reach_refl : forall s, reach s s
| reach_char : forall c r t, filler_start (c :: r) = false -> reach r t -> reach (c :: r) t
| reach_fill : forall s t, filler_start s = true -> reach (skip_filler s) t -> reach s t.

Lemma reach_trans : forall a b c, reach a b -> reach b c -> reach a c.
Proof. intros a b c H. induction H; intros H2; [exact H2 | apply reach_char; auto | apply reach_fill; auto]. Qed.

Lemma reach_strict : forall a b, reach a b -> a = b \/ length b < length a.
Proof.
  intros a b H. induction H as [s|c r t F H IH|s t F H IH]; [left; reflexivity | right | right].
  - destruct IH as [E|L]; [subst; cbn; lia | cbn [length]; lia].
  - pose proof (skip_filler_shorter s F). destruct IH as [E|L]; [subst; lia | lia].
Qed.

Lemma reach_linear : forall s a, reach s a -> forall b, reach s b -> reach a b \/ reach b a.
Proof.
  intros s a H. induction H as [s|c r t F H IH|s t F H IH]; intros b Hb.
  - left. exact Hb.
  - inversion Hb; subst.
    + right. apply reach_char; assumption.
    + apply IH. assumption.
    + congruence.
  - inversion Hb; subst.
    + right. apply reach_fill; assumption.
    + congruence.
    + apply IH. assumption.
Qed.

Lemma reach_skel : forall a b, reach a b -> forall ka, Skel a ka ->
  exists kb, Skel b kb /\ ((a = b /\ ka = kb) \/ (length b < length a /\ length kb < length ka)).
Proof.
  intros a b H. induction H as [s|c r t F H IH|s t F H IH]; intros ka Hk.
  - exists ka. split; [exact Hk | left; split; reflexivity].
  - inversion Hk; subst; [|congruence].
    match goal with H : Skel r _ |- _ => destruct (IH _ H) as [kb [Hb D]] end.
    exists kb. split; [exact Hb|]. right. destruct D as [[E1 E2]|[L1 L2]]; subst; cbn [length]; lia.
  - inversion Hk; subst; [discriminate | congruence |].
    match goal with H : Skel (skip_filler s) _ |- _ => destruct (IH _ H) as [kb [Hb D]] end.
    exists kb. split; [exact Hb|]. right. pose proof (skip_filler_shorter s F).
    destruct D as [[E1 E2]|[L1 L2]]; subst; cbn [length]; lia.
Qed.

(* the comparison made by Or: the same verdict on the remaining lengths and on the remaining skeletons *)
Lemma reach_compare : forall s a b ka kb, reach s a -> reach s b -> Skel a ka -> Skel b kb ->
  Nat.ltb (length a) (length b) = Nat.ltb (length ka) (length kb).
Proof.
  intros s a b ka kb Ha Hb Ka Kb.
  destruct (reach_linear s a Ha b Hb) as [R|R].
  - destruct (reach_skel _ _ R ka Ka) as [kb' [Kb' D]]. rewrite (Skel_fun _ _ Kb _ Kb') in *.
    destruct D as [[E1 E2]|[L1 L2]].
    + subst. rewrite !Nat.ltb_irrefl. reflexivity.
    + assert (Nat.ltb (length a) (length b) = false) by (apply Nat.ltb_ge; lia).
      assert (Nat.ltb (length ka) (length kb') = false) by (apply Nat.ltb_ge; lia). congruence.
  - destruct (reach_skel _ _ R kb Kb) as [ka' [Ka' D]]. rewrite (Skel_fun _ _ Ka _ Ka') in *.
    destruct D as [[E1 E2]|[L1 L2]].
    + subst. rewrite !Nat.ltb_irrefl. reflexivity.
    + assert (Nat.ltb (length a) (length b) = true) by (apply Nat.ltb_lt; lia).
      assert (Nat.ltb (length ka') (length kb) = true) by (apply Nat.ltb_lt; lia). congruence.
Qed.

(* ---------- robust terminals ---------- *)
Definition robust_lit (l : chars) : bool :=
  match l with
  | c :: r => andb (negb (is_white c)) (forallb solid r)
  | [] => false
  end.
Definition robust_term (t : term) : bool :=
  match t with
  | TLit l | TKw l => robust_lit (chars_of l)
  | TWord i b => andb (forallb solid (chars_of i)) (forallb solid (chars_of b))
  | TEnd => true
  | TNotIn _ | TDefault => false
  end.
Fixpoint robust_expr (e : gexpr) : bool :=
  match e with
  | GTerm t => robust_term t
  | GAnd l | GOr l | GFirst l => (fix all (l : list gexpr) : bool := match l with [] => true | x :: r => andb (robust_expr x) (all r) end) l
  | GOpt x | GStar x | GSup x | GName _ x => robust_expr x
  | GRef _ => true
  end.
Definition robust_grammar (g : grammar) : bool := forallb (fun p => robust_expr (snd p)) g.

(* the simulation relation: same look-behind flag, same skeleton of what remains *)
Definition R (a b : pst) : Prop := pk a = pk b /\ exists k, Skel (rest a) k /\ Skel (rest b) k.

Lemma R_sym : forall a b, R a b -> R b a.
Proof. intros a b [P [k [H1 H2]]]. split; [symmetry; exact P | exists k; split; assumption]. Qed.

Lemma pre_R : forall a b, R a b ->
  R (pre a) (pre b) /\ filler_start (rest (pre a)) = false /\ filler_start (rest (pre b)) = false /\
  reach (rest a) (rest (pre a)) /\ reach (rest b) (rest (pre b)).
Proof.
  intros [pa ra] [pb rb] [P [k [Ha Hb]]]. cbn [pk rest] in *. unfold pre, moved. cbn [pk rest].
  destruct k as [|[c|] k].
  - inversion Ha; subst. inversion Hb; subst. cbn.
    repeat split; try apply reach_refl. exists []. split; constructor.
  - inversion Ha as [|? ra' ? Fa Ka|]; subst. inversion Hb as [|? rb' ? Fb Kb|]; subst.
    rewrite (skip_filler_id _ Fa), (skip_filler_id _ Fb). rewrite !Nat.ltb_irrefl. cbn [pk rest].
    repeat split; try assumption; try apply reach_refl.
    exists (Some c :: k). split; constructor; assumption.
  - inversion Ha as [| |sa ? Fa Ka]; subst. inversion Hb as [| |sb ? Fb Kb]; subst.
    pose proof (skip_filler_shorter _ Fa) as La. pose proof (skip_filler_shorter _ Fb) as Lb.
    apply Nat.ltb_lt in La. apply Nat.ltb_lt in Lb. rewrite La, Lb. cbn [rest pk].
    repeat split; try apply skip_filler_done.
    + exists k. split; assumption.
    + apply reach_fill; [exact Fa | apply reach_refl].
    + apply reach_fill; [exact Fb | apply reach_refl].
Qed.

(* ---------- terminals ---------- *)
Lemma ceq_eq : forall a b, ceq a b = true -> a = b.
Proof. intros a b H. apply Ascii.eqb_eq. exact H. Qed.

Lemma prefix_skel : forall l s r k, prefix l s = Some r -> Skel s k ->
  match l with c :: l' => filler_start s = false /\ forallb solid l' = true | [] => True end ->
  exists k', k = map Some l ++ k' /\ Skel r k' /\ reach s r.
Proof.
  induction l as [|a l IH]; intros s r k Hp Hk Hc.
  - cbn in Hp. inversion Hp; subst. exists k. repeat split; [exact Hk | apply reach_refl].
  - destruct s as [|b s2]; [discriminate|]. cbn [prefix] in Hp. destruct (ceq a b) eqn:E; [|discriminate].
    apply ceq_eq in E. subst b. destruct Hc as [F S]. inversion Hk; subst; [|congruence].
    match goal with H : Skel s2 _ |- _ => rename H into Hk2 end.
    assert (C : match l with c :: l' => filler_start s2 = false /\ forallb solid l' = true | [] => True end).
    { destruct l as [|c l']; [exact I|]. cbn [forallb] in S. apply andb_true_iff in S. destruct S as [S1 S2].
      destruct s2 as [|c' s3]; [discriminate|]. cbn [prefix] in Hp. destruct (ceq c c') eqn:E2; [|discriminate].
      apply ceq_eq in E2. subst c'. split; [apply solid_no_filler; exact S1 | exact S2]. }
    destruct (IH s2 r _ Hp Hk2 C) as [k' [E [Hr Rr]]].
    exists k'. subst. repeat split; [exact Hr | apply reach_char; assumption].
Qed.

Lemma skel_prefix : forall l s k', Skel s (map Some l ++ k') -> exists r, prefix l s = Some r /\ Skel r k'.
Proof.
  induction l as [|a l IH]; intros s k' H.
  - exists s. split; [reflexivity | exact H].
  - cbn [map app] in H. inversion H; subst. cbn [prefix]. unfold ceq. rewrite Ascii.eqb_refl. apply IH. assumption.
Qed.

Lemma lit_sim : forall l sa sb k, robust_lit l = true -> filler_start sa = false -> filler_start sb = false ->
  Skel sa k -> Skel sb k ->
  match prefix l sa, prefix l sb with
  | Some ra, Some rb => (exists k', Skel ra k' /\ Skel rb k') /\ reach sa ra /\ reach sb rb
  | None, None => True
  | _, _ => False
  end.
Proof.
  intros l sa sb k Hl Fa Fb Ka Kb.
  assert (C : forall s, filler_start s = false ->
              match l with c :: l' => filler_start s = false /\ forallb solid l' = true | [] => True end).
  { intros s F. destruct l as [|c l']; [exact I|]. cbn [robust_lit] in Hl. apply andb_true_iff in Hl. tauto. }
  destruct (prefix l sa) as [ra|] eqn:Ea.
  - destruct (prefix_skel l sa ra k Ea Ka (C sa Fa)) as [k' [E [Hr Rr]]]. subst k.
    destruct (skel_prefix l sb k' Kb) as [rb [Eb Hb]]. rewrite Eb.
    destruct (prefix_skel l sb rb _ Eb Kb (C sb Fb)) as [k'' [_ [_ Rb]]].
    repeat split; [exists k'; split; assumption | exact Rr | exact Rb].
  - destruct (prefix l sb) as [rb|] eqn:Eb; [|exact I].
    destruct (prefix_skel l sb rb k Eb Kb (C sb Fb)) as [k' [E [Hr Rr]]]. subst k.
    destruct (skel_prefix l sa k' Ka) as [ra [Ea' _]]. congruence.
Qed.

Lemma lookahead_same : forall ra rb k, Skel ra k -> Skel rb k ->
  match ra with c :: _ => negb (is_kwchar c) | [] => true end = match rb with c :: _ => negb (is_kwchar c) | [] => true end.
Proof.
  intros ra rb k Ha Hb. destruct k as [|[c|] k].
  - inversion Ha; inversion Hb; subst. reflexivity.
  - inversion Ha; subst; inversion Hb; subst. reflexivity.
  - inversion Ha as [| |sa ? Fa]; subst. inversion Hb as [| |sb ? Fb]; subst.
    destruct ra as [|ca ra]; [discriminate|]. destruct rb as [|cb rb]; [discriminate|].
    rewrite (filler_first_not_kw _ _ Fa), (filler_first_not_kw _ _ Fb). reflexivity.
Qed.

Fixpoint takes (f : ascii -> bool) (k : list (option ascii)) : chars :=
  match k with Some c :: r => if f c then c :: takes f r else [] | _ => [] end.
Fixpoint drops (f : ascii -> bool) (k : list (option ascii)) : list (option ascii) :=
  match k with Some c :: r => if f c then drops f r else k | _ => k end.

Lemma span_skel : forall f, (forall c, f c = true -> solid c = true) -> forall r k, Skel r k ->
  r = takes f k ++ span f r /\ Skel (span f r) (drops f k) /\ reach r (span f r).
Proof.
  intros f Hf r k H. induction H as [|c r k F H IH|s k F H IH].
  - repeat split; [constructor | apply reach_refl].
  - cbn [span takes drops]. destruct (f c) eqn:E.
    + destruct IH as [E1 [E2 E3]]. repeat split; [cbn [app]; f_equal; exact E1 | exact E2 | apply reach_char; assumption].
    + repeat split; [constructor; assumption | apply reach_refl].
  - destruct s as [|c s']; [discriminate|]. cbn [span takes drops].
    destruct (f c) eqn:E; [apply Hf in E; rewrite (filler_not_solid _ _ F) in E; discriminate|].
    repeat split; [apply Skel_fill; assumption | apply reach_refl].
Qed.

Lemma firstn_cut : forall (A : Type) (u v : list A), firstn (length (u ++ v) - length v) (u ++ v) = u.
Proof.
  intros A u v. rewrite app_length. replace (length u + length v - length v) with (length u) by lia.
  rewrite firstn_app, Nat.sub_diag, firstn_all. cbn. apply app_nil_r.
Qed.

Definition sim (s s' : chars) (o o' : outcome) : Prop :=
  match o, o' with
  | Fail, Fail => True
  | NoFuel, NoFuel => True
  | Match i a, Match i' a' => i = i' /\ R a a' /\ reach s (rest a) /\ reach s' (rest a')
  | _, _ => False
  end.

Lemma forallb_solid_mem : forall l c, forallb solid l = true -> cmem c l = true -> solid c = true.
Proof.
  intros l c H M. unfold cmem in M. apply existsb_exists in M. destruct M as [x [Hx E]]. apply ceq_eq in E. subst x.
  rewrite forallb_forall in H. apply H. exact Hx.
Qed.

Lemma run_term_sim : forall t a b, robust_term t = true -> R a b ->
  sim (rest a) (rest b) (run_term t a) (run_term t b).
Proof.
  intros t a b Ht Hab. destruct (pre_R a b Hab) as [[P [k [Ka Kb]]] [Fa [Fb [Ra Rb]]]].
  unfold run_term. destruct t as [l|l|i bd|cs| |]; cbn [robust_term] in Ht; try discriminate; cbn [pre_term];
    destruct (pre a) as [pa sa]; destruct (pre b) as [pb sb]; cbn [pk rest] in *; subst pb.
  - (* Literal *)
    pose proof (lit_sim (chars_of l) _ _ k Ht Fa Fb Ka Kb) as L.
    destruct (prefix (chars_of l) sa) as [ra|]; destruct (prefix (chars_of l) sb) as [rb|]; try contradiction; [|exact I].
    destruct L as [[k' [H1 H2]] [R1 R2]]. cbn [sim]. split; [reflexivity|]. split.
    + split; [reflexivity | exists k'; split; assumption].
    + split; [eapply reach_trans; eassumption | eapply reach_trans; eassumption].
  - (* Keyword *)
    pose proof (lit_sim (chars_of l) _ _ k Ht Fa Fb Ka Kb) as L.
    destruct (prefix (chars_of l) sa) as [ra|]; destruct (prefix (chars_of l) sb) as [rb|]; try contradiction; [|exact I].
    destruct L as [[k' [H1 H2]] [R1 R2]]. rewrite (lookahead_same ra rb k' H1 H2).
    destruct (andb (negb pa) match rb with c :: _ => negb (is_kwchar c) | [] => true end); [|exact I].
    cbn [sim]. split; [reflexivity|]. split.
    + split; [reflexivity | exists k'; split; assumption].
    + split; [eapply reach_trans; eassumption | eapply reach_trans; eassumption].
  - (* Word *)
    apply andb_true_iff in Ht. destruct Ht as [Hi Hb].
    set (f := fun x => cmem x (chars_of bd)).
    assert (Hf : forall c, f c = true -> solid c = true) by (intros c Hc; apply (forallb_solid_mem _ _ Hb Hc)).
    destruct k as [|[c|] k].
    + inversion Ka; inversion Kb; subst. exact I.
    + inversion Ka as [|? ra ? Fa' Ka'|]; inversion Kb as [|? rb ? Fb' Kb'|]; subst.
      destruct (cmem c (chars_of i)); [|exact I].
      destruct (span_skel f Hf ra k Ka') as [Ea [Sa Rra]]. destruct (span_skel f Hf rb k Kb') as [Eb [Sb Rrb]].
      fold f. cbn [sim]. unfold after. cbn [pk rest].
      assert (Ta : firstn (length (c :: ra) - length (span f ra)) (c :: ra) = c :: takes f k).
      { rewrite Ea at 1 3. change (c :: takes f k ++ span f ra) with ((c :: takes f k) ++ span f ra). apply firstn_cut. }
      assert (Tb : firstn (length (c :: rb) - length (span f rb)) (c :: rb) = c :: takes f k).
      { rewrite Eb at 1 3. change (c :: takes f k ++ span f rb) with ((c :: takes f k) ++ span f rb). apply firstn_cut. }
      rewrite Ta, Tb. split; [reflexivity|]. split.
      * split; [reflexivity | exists (drops f k); split; assumption].
      * split.
        -- eapply reach_trans; [exact Ra|]. apply reach_char; assumption.
        -- eapply reach_trans; [exact Rb|]. apply reach_char; assumption.
    + inversion Ka; subst; congruence.
  - (* StringEnd *)
    destruct k as [|[c|] k].
    + inversion Ka; inversion Kb; subst. cbn [sim].
      split; [reflexivity|]. split; [split; [reflexivity | exists []; split; constructor] | split; assumption].
    + inversion Ka; inversion Kb; subst. exact I.
    + inversion Ka; subst; congruence.
Qed.

(* ---------- combinators and the interpreter ---------- *)
Lemma sim_intro : forall s s' i a a', R a a' -> reach s (rest a) -> reach s' (rest a') -> sim s s' (Match i a) (Match i a').
Proof. intros. cbn [sim]. split; [reflexivity|]. split; [assumption|]. split; assumption. Qed.

Section Sim.
  Variable rec : gexpr -> pst -> outcome.
  Hypothesis Hrec : forall e a b, R a b -> sim (rest a) (rest b) (rec e a) (rec e b).

  Lemma seq_sim : forall l acc a b s s', reach s (rest a) -> reach s' (rest b) -> R a b ->
    sim s s' (seq rec l acc a) (seq rec l acc b).
  Proof.
    induction l as [|x r IH]; intros acc a b s s' Ha Hb Hab; cbn [seq].
    - apply sim_intro; assumption.
    - pose proof (Hrec x a b Hab) as H. destruct (rec x a) as [| |ia a1]; destruct (rec x b) as [| |ib b1]; cbn [sim] in H; try contradiction; try exact I.
      destruct H as [E [R1 [Ra Rb]]]. subst ib. apply IH; try assumption; eapply reach_trans; eassumption.
  Qed.

  Lemma alt_longest_sim : forall l a b best best', R a b ->
    sim (rest a) (rest b) best best' ->
    sim (rest a) (rest b) (alt_longest rec a l best) (alt_longest rec b l best').
  Proof.
    induction l as [|x r IH]; intros a b best best' Hab Hbest; cbn [alt_longest]; [exact Hbest|].
    pose proof (Hrec x a b Hab) as H. destruct (rec x a) as [| |ia a1]; destruct (rec x b) as [| |ib b1]; cbn [sim] in H; try contradiction.
    - apply IH; assumption.
    - exact I.
    - destruct H as [E [R1 [Ra Rb]]]. subst ib.
      destruct best as [| |i0 a0]; destruct best' as [| |i0' b0]; cbn [sim] in Hbest; try contradiction.
      + apply IH; try assumption. apply sim_intro; assumption.
      + apply IH; try assumption. apply sim_intro; assumption.
      + destruct Hbest as [E0 [R0 [Ra0 Rb0]]]. subst i0'.
        destruct R1 as [P1 [k1 [K1a K1b]]]. destruct R0 as [P0 [k0 [K0a K0b]]].
        rewrite (reach_compare _ _ _ _ _ Ra Ra0 K1a K0a), (reach_compare _ _ _ _ _ Rb Rb0 K1b K0b).
        destruct (Nat.ltb (length k1) (length k0)).
        * apply IH; try assumption. apply sim_intro; try assumption. split; [assumption | exists k1; split; assumption].
        * apply IH; try assumption. apply sim_intro; try assumption. split; [assumption | exists k0; split; assumption].
  Qed.

  Lemma alt_first_sim : forall l a b, R a b ->
    sim (rest a) (rest b) (alt_first rec a l) (alt_first rec b l).
  Proof.
    induction l as [|x r IH]; intros a b Hab; cbn [alt_first]; [exact I|].
    pose proof (Hrec x a b Hab) as H. destruct (rec x a) as [| |ia a1]; destruct (rec x b) as [| |ib b1]; cbn [sim] in H; try contradiction.
    - apply IH; assumption.
    - exact I.
    - exact H.
  Qed.

  Lemma star_sim : forall k x acc a b s s', reach s (rest a) -> reach s' (rest b) -> R a b ->
    sim s s' (star rec k x acc a) (star rec k x acc b).
  Proof.
    induction k as [|k IH]; intros x acc a b s s' Ha Hb Hab; cbn [star]; [exact I|].
    pose proof (Hrec x a b Hab) as H. destruct (rec x a) as [| |ia a1]; destruct (rec x b) as [| |ib b1]; cbn [sim] in H; try contradiction.
    - apply sim_intro; assumption.
    - exact I.
    - destruct H as [E [R1 [Ra Rb]]]. subst ib. apply IH; try assumption; eapply reach_trans; eassumption.
  Qed.
End Sim.

(* every way of matching terminals that respects the relation yields an interpreter that respects it *)
Theorem interp_sim : forall rt g, (forall t a b, R a b -> sim (rest a) (rest b) (rt t a) (rt t b)) ->
  forall f e a b, R a b -> sim (rest a) (rest b) (interp_with rt g f e a) (interp_with rt g f e b).
Proof.
  intros rt g Hrt. induction f as [|f IH]; intros e a b Hab; cbn [interp_with]; [exact I|].
  destruct e as [t|l|l|l|x|x|x|n x|r].
  - apply Hrt; assumption.
  - apply (seq_sim (interp_with rt g f) IH); [apply reach_refl | apply reach_refl | exact Hab].
  - apply (alt_longest_sim (interp_with rt g f) IH); [exact Hab | exact I].
  - apply (alt_first_sim (interp_with rt g f) IH); exact Hab.
  - pose proof (IH x a b Hab) as H. destruct (interp_with rt g f x a) as [| |ia a1]; destruct (interp_with rt g f x b) as [| |ib b1]; cbn [sim] in H; try contradiction; try exact H.
    apply sim_intro; [assumption | apply reach_refl | apply reach_refl].
  - apply (star_sim (interp_with rt g f) IH); [apply reach_refl | apply reach_refl | exact Hab].
  - pose proof (IH x a b Hab) as H. destruct (interp_with rt g f x a) as [| |ia a1]; destruct (interp_with rt g f x b) as [| |ib b1]; cbn [sim] in H; try contradiction; try exact H.
    destruct H as [E [R1 [Ra Rb]]]. apply sim_intro; assumption.
  - pose proof (IH x a b Hab) as H. destruct (interp_with rt g f x a) as [| |ia a1]; destruct (interp_with rt g f x b) as [| |ib b1]; cbn [sim] in H; try contradiction; try exact H.
    destruct H as [E [R1 [Ra Rb]]]. subst ib. apply sim_intro; assumption.
  - destruct (lookup g r) as [body|] eqn:E; [|exact I].
    pose proof (IH body a b Hab) as H.
    destruct (interp_with rt g f body a) as [| |ia a1]; destruct (interp_with rt g f body b) as [| |ib b1]; cbn [sim] in H; try contradiction; try exact H.
    destruct H as [E2 [R1 [Ra Rb]]]. subst ib. apply sim_intro; assumption.
Qed.

(* ---------- refinement between interpreters: whatever is not NoFuel is kept ---------- *)
Section Refine.
  Variables rec rec' : gexpr -> pst -> outcome.
  Hypothesis Href : forall x st, rec x st <> NoFuel -> rec' x st = rec x st.

  Lemma seq_ref : forall l acc st, seq rec l acc st <> NoFuel -> seq rec' l acc st = seq rec l acc st.
  Proof.
    induction l as [|x r IH]; intros acc st H; cbn [seq] in *; [reflexivity|].
    destruct (rec x st) as [| |its st1] eqn:E.
    - rewrite (Href x st) by congruence. rewrite E. reflexivity.
    - contradiction.
    - rewrite (Href x st) by congruence. rewrite E. apply IH. exact H.
  Qed.

  Lemma alt_longest_ref : forall l st best, alt_longest rec st l best <> NoFuel ->
    alt_longest rec' st l best = alt_longest rec st l best.
  Proof.
    induction l as [|x r IH]; intros st best H; cbn [alt_longest] in *; [reflexivity|].
    destruct (rec x st) as [| |its st1] eqn:E.
    - rewrite (Href x st) by congruence. rewrite E. apply IH. exact H.
    - contradiction.
    - rewrite (Href x st) by congruence. rewrite E.
      destruct best as [| |i0 s0]; try (apply IH; exact H).
      destruct (Nat.ltb (length (rest st1)) (length (rest s0))); apply IH; exact H.
  Qed.

  Lemma alt_first_ref : forall l st, alt_first rec st l <> NoFuel -> alt_first rec' st l = alt_first rec st l.
  Proof.
    induction l as [|x r IH]; intros st H; cbn [alt_first] in *; [reflexivity|].
    destruct (rec x st) as [| |its st1] eqn:E.
    - rewrite (Href x st) by congruence. rewrite E. apply IH. exact H.
    - contradiction.
    - rewrite (Href x st) by congruence. rewrite E. reflexivity.
  Qed.

  Lemma star_ref : forall k k' x acc st, k <= k' -> star rec k x acc st <> NoFuel ->
    star rec' k' x acc st = star rec k x acc st.
  Proof.
    induction k as [|k IH]; intros k' x acc st Hk H; cbn [star] in H; [contradiction|].
    destruct k' as [|k']; [lia|]. cbn [star].
    destruct (rec x st) as [| |its st1] eqn:E.
    - rewrite (Href x st) by congruence. rewrite E. reflexivity.
    - contradiction.
    - rewrite (Href x st) by congruence. rewrite E. apply IH; [lia | exact H].
  Qed.
End Refine.

(* more fuel never changes an answer *)
Theorem fuel_mono : forall rt g f e st, interp_with rt g f e st <> NoFuel ->
  forall f', f <= f' -> interp_with rt g f' e st = interp_with rt g f e st.
Proof.
  intros rt g. induction f as [|f IH]; intros e st H f' Hf; [cbn in H; contradiction|].
  destruct f' as [|f']; [lia|]. assert (Hf' : f <= f') by lia.
  assert (Href : forall x s, interp_with rt g f x s <> NoFuel -> interp_with rt g f' x s = interp_with rt g f x s)
    by (intros x s Hx; apply IH; assumption).
  cbn [interp_with] in *. destruct e as [t|l|l|l|x|x|x|n x|r].
  - reflexivity.
  - apply seq_ref; assumption.
  - apply alt_longest_ref; assumption.
  - apply alt_first_ref; assumption.
  - destruct (interp_with rt g f x st) eqn:E; rewrite (Href x st) by congruence; rewrite E; reflexivity.
  - apply star_ref; assumption.
  - destruct (interp_with rt g f x st) eqn:E; rewrite (Href x st) by congruence; rewrite E; reflexivity.
  - destruct (interp_with rt g f x st) eqn:E; rewrite (Href x st) by congruence; rewrite E; reflexivity.
  - destruct (lookup g r) as [body|]; [|reflexivity].
    destruct (interp_with rt g f body st) eqn:E; rewrite (Href body st) by congruence; rewrite E; reflexivity.
Qed.

(* an interpreter whose terminals abort (NoFuel) where another's answer: the same answers wherever it does not abort *)
Theorem abort_refines : forall rt rt' g, (forall t st, rt t st <> NoFuel -> rt' t st = rt t st) ->
  forall f e st, interp_with rt g f e st <> NoFuel -> interp_with rt' g f e st = interp_with rt g f e st.
Proof.
  intros rt rt' g Ht. induction f as [|f IH]; intros e st H; [cbn in H; contradiction|].
  cbn [interp_with] in *. destruct e as [t|l|l|l|x|x|x|n x|r].
  - apply Ht. exact H.
  - apply seq_ref; assumption.
  - apply alt_longest_ref; assumption.
  - apply alt_first_ref; assumption.
  - destruct (interp_with rt g f x st) eqn:E; rewrite (IH x st) by congruence; rewrite E; reflexivity.
  - apply (star_ref _ _ IH); [lia | exact H].
  - destruct (interp_with rt g f x st) eqn:E; rewrite (IH x st) by congruence; rewrite E; reflexivity.
  - destruct (interp_with rt g f x st) eqn:E; rewrite (IH x st) by congruence; rewrite E; reflexivity.
  - destruct (lookup g r) as [body|]; [|reflexivity].
    destruct (interp_with rt g f body st) eqn:E; rewrite (IH body st) by congruence; rewrite E; reflexivity.
Qed.

(* ---------- the terminals of the real grammar ----------
   run_term_strict answers like run_term for layout-robust terminals.  A keyword made of two words and one blank
   (`unsigned char`, `enum class`, `enum struct`) fails wherever it fails under every layout, and aborts where the two
   words follow each other across filler (there the real keyword depends on the layout: recorded finding).
   DEFAULT_ARG and the #include path scanner always abort: what they capture is verbatim text. *)
Fixpoint split_blank (l : chars) : option (chars * chars) :=
  match l with
  | [] => None
  | c :: r => if Nat.eqb (code c) 32 then Some ([], r)
              else match split_blank r with Some (a, b) => Some (c :: a, b) | None => None end
  end.

Lemma split_blank_app : forall l a b, split_blank l = Some (a, b) -> l = a ++ " "%char :: b.
Proof.
  induction l as [|c r IH]; intros a b H; [discriminate|]. cbn [split_blank] in H.
  destruct (Nat.eqb (code c) 32) eqn:E.
  - inversion H; subst. cbn [app]. f_equal. apply Nat.eqb_eq in E.
    rewrite <- (ascii_nat_embedding c). unfold code in E. rewrite E. reflexivity.
  - destruct (split_blank r) as [[a' b']|]; [|discriminate]. inversion H; subst. cbn [app]. f_equal. apply IH. reflexivity.
Qed.

Definition two_word (k : chars) (st : pst) : outcome :=
  match split_blank k with
  | Some (w1, w2) =>
    if andb (robust_lit w1) (forallb solid w2) then
      let s := rest (pre st) in
      match prefix w1 s with
      | Some r => if filler_start r then match prefix w2 (skip_filler r) with Some _ => NoFuel | None => Fail end else Fail
      | None => Fail
      end
    else NoFuel
  | None => NoFuel
  end.

Definition run_term_strict (t : term) (st : pst) : outcome :=
  if robust_term t then run_term t st
  else match t with TKw k => two_word (chars_of k) st | _ => NoFuel end.

Lemma prefix_app : forall a b s, prefix (a ++ b) s = match prefix a s with Some r => prefix b r | None => None end.
Proof.
  induction a as [|x a IH]; intros b s; [reflexivity|]. destruct s as [|y s]; [reflexivity|].
  cbn [app prefix]. destruct (ceq x y); [apply IH | reflexivity].
Qed.

Lemma white_space : is_white " "%char = true. Proof. reflexivity. Qed.

Lemma skip_filler_one_blank : forall c r, is_white c = true -> filler_start r = false -> skip_filler (c :: r) = r.
Proof.
  intros c r W F. unfold skip_filler. cbn [length skip_ignorables skip_ws]. rewrite W.
  destruct r as [|d r'].
  - cbn. rewrite W. reflexivity.
  - apply filler_start_false in F. destruct F as [Wd Cd]. rewrite (skip_ws_id d r' Wd), Cd.
    cbn [skip_ws]. rewrite W, Wd. reflexivity.
Qed.

Lemma strict_exact_term : forall t st, run_term_strict t st <> NoFuel -> run_term t st = run_term_strict t st.
Proof.
  intros t st H. unfold run_term_strict in *. destruct (robust_term t); [reflexivity|].
  destruct t as [l|k|i b|cs| |]; try contradiction.
  unfold two_word in *. destruct (split_blank (chars_of k)) as [[w1 w2]|] eqn:E; [|contradiction].
  destruct (andb (robust_lit w1) (forallb solid w2)) eqn:Hr; [|contradiction].
  apply andb_true_iff in Hr. destruct Hr as [H1 H2].
  apply split_blank_app in E. unfold run_term. cbn [pre_term]. rewrite E, prefix_app.
  destruct (prefix w1 (rest (pre st))) as [r|] eqn:P1; [|reflexivity].
  destruct (filler_start r) eqn:F.
  - destruct (prefix w2 (skip_filler r)) eqn:P2; [contradiction|].
    destruct r as [|c r2]; [discriminate|]. cbn [prefix]. destruct (ceq " "%char c) eqn:Ec; [|reflexivity].
    apply ceq_eq in Ec. subst c.
    destruct (prefix w2 r2) as [r3|] eqn:P3; [|reflexivity]. exfalso.
    assert (F2 : filler_start r2 = false).
    { destruct w2 as [|x w2']; [cbn in P3; inversion P3; subst|].
      - (* empty second word: the blank is followed by anything *) cbn in P2. discriminate.
      - destruct r2 as [|y r2']; [discriminate|]. cbn [prefix] in P3. destruct (ceq x y) eqn:Ex; [|discriminate].
        apply ceq_eq in Ex. subst y. cbn [forallb] in H2. apply andb_true_iff in H2. apply solid_no_filler. tauto. }
    rewrite (skip_filler_one_blank _ _ white_space F2) in P2. congruence.
  - destruct r as [|c r2]; [reflexivity|]. cbn [prefix]. destruct (ceq " "%char c) eqn:Ec; [|reflexivity].
    apply ceq_eq in Ec. subst c. unfold filler_start in F. cbn in F. discriminate.
Qed.

Lemma skel_filler_same : forall ra rb k, Skel ra k -> Skel rb k -> filler_start ra = filler_start rb.
Proof.
  intros ra rb k Ha Hb. destruct k as [|[c|] k]; inversion Ha; inversion Hb; subst; try reflexivity; congruence.
Qed.

Lemma solid_robust_lit : forall c w, forallb solid (c :: w) = true -> robust_lit (c :: w) = true.
Proof.
  intros c w H. cbn [forallb] in H. apply andb_true_iff in H. destruct H as [H1 H2]. cbn [robust_lit].
  unfold solid in H1. apply andb_true_iff in H1. destruct H1 as [H1 _]. rewrite H1, H2. reflexivity.
Qed.

Lemma strict_sim : forall t a b, R a b -> sim (rest a) (rest b) (run_term_strict t a) (run_term_strict t b).
Proof.
  intros t a b Hab. unfold run_term_strict. destruct (robust_term t) eqn:Hr; [apply run_term_sim; assumption|].
  destruct t as [l|k|i bd|cs| |]; try exact I.
  unfold two_word. destruct (split_blank (chars_of k)) as [[w1 w2]|]; [|exact I].
  destruct (andb (robust_lit w1) (forallb solid w2)) eqn:H12; [|exact I].
  apply andb_true_iff in H12. destruct H12 as [H1 H2].
  destruct (pre_R a b Hab) as [[P [k0 [Ka Kb]]] [Fa [Fb [Ra Rb]]]].
  pose proof (lit_sim w1 _ _ k0 H1 Fa Fb Ka Kb) as L.
  destruct (prefix w1 (rest (pre a))) as [ra|]; destruct (prefix w1 (rest (pre b))) as [rb|]; try contradiction; [|exact I].
  destruct L as [[k' [K1 K2]] _]. rewrite (skel_filler_same ra rb k' K1 K2).
  destruct (filler_start rb) eqn:F; [|exact I].
  assert (Fa' : filler_start ra = true) by (rewrite (skel_filler_same ra rb k' K1 K2); exact F).
  destruct k' as [|[c0|] k''].
  - inversion K1; subst. discriminate Fa'.
  - inversion K1; subst; congruence.
  - inversion K1 as [| |? ? Fx Kx]; subst. inversion K2 as [| |? ? Fy Ky]; subst.
    destruct w2 as [|c w2]; [exact I|].
    pose proof (lit_sim (c :: w2) _ _ k'' (solid_robust_lit c w2 H2) (skip_filler_done ra) (skip_filler_done rb) Kx Ky) as L2.
    destruct (prefix (c :: w2) (skip_filler ra)); destruct (prefix (c :: w2) (skip_filler rb)); try contradiction; exact I.
Qed.

(* ---------- the layout theorem for any grammar over these terminals ---------- *)
Definition strict (g : grammar) := interp_with run_term_strict g.

Theorem strict_is_exact : forall g f e st, strict g f e st <> NoFuel -> interp g f e st = strict g f e st.
Proof.
  intros g f e st H. unfold interp, strict in *. apply (abort_refines run_term_strict run_term g); [|exact H].
  intros t s Ht. apply strict_exact_term. exact Ht.
Qed.

Definition same_answer (o o' : outcome) : Prop :=
  match o, o' with
  | Match i _, Match i' _ => i = i'
  | Fail, Fail => True
  | NoFuel, NoFuel => True
  | _, _ => False
  end.

Theorem layout_independent_strict : forall g f e s s' k, Skel s k -> Skel s' k ->
  same_answer (strict g f e {| pk := false; rest := s |}) (strict g f e {| pk := false; rest := s' |}).
Proof.
  intros g f e s s' k Hs Hs'.
  assert (Hab : R {| pk := false; rest := s |} {| pk := false; rest := s' |}) by (split; [reflexivity | exists k; split; assumption]).
  pose proof (interp_sim run_term_strict g strict_sim f e _ _ Hab) as H. unfold strict.
  destruct (interp_with run_term_strict g f e {| pk := false; rest := s |});
    destruct (interp_with run_term_strict g f e {| pk := false; rest := s' |}); cbn [sim same_answer] in *; try contradiction; try exact I.
  destruct H as [E _]. exact E.
Qed.

(* The real interpreter, two texts with one skeleton, each given its own fuel: whenever the strict run of the first
   text answers (no two-word keyword across filler, no default value, no #include reached), both real runs give the
   same verdict and the same match tree - unless the second runs out of its fuel. *)
Theorem layout_independent : forall g e s s' k f f', Skel s k -> Skel s' k ->
  strict g f e {| pk := false; rest := s |} <> NoFuel ->
  interp g f' e {| pk := false; rest := s' |} <> NoFuel ->
  same_answer (interp g f e {| pk := false; rest := s |}) (interp g f' e {| pk := false; rest := s' |}).
Proof.
  intros g e s s' k f f' Hs Hs' Hq Hf'.
  set (F := Nat.max f f').
  pose proof (layout_independent_strict g F e s s' k Hs Hs') as L.
  assert (E1 : strict g F e {| pk := false; rest := s |} = strict g f e {| pk := false; rest := s |})
    by (apply fuel_mono; [exact Hq | unfold F; lia]).
  rewrite E1 in L.
  rewrite (strict_is_exact g f e _ Hq).
  destruct (strict g f e {| pk := false; rest := s |}) as [| |i a] eqn:Ea; [| contradiction |].
  - (* Fail *)
    destruct (strict g F e {| pk := false; rest := s' |}) as [| |i' a'] eqn:Eb; cbn [same_answer] in L; try contradiction.
    assert (Hb : strict g F e {| pk := false; rest := s' |} <> NoFuel) by congruence.
    pose proof (strict_is_exact g F e _ Hb) as X. rewrite Eb in X.
    assert (Y : interp g F e {| pk := false; rest := s' |} = interp g f' e {| pk := false; rest := s' |})
      by (apply fuel_mono; [exact Hf' | unfold F; lia]).
    rewrite <- Y, X. exact I.
  - destruct (strict g F e {| pk := false; rest := s' |}) as [| |i' a'] eqn:Eb; cbn [same_answer] in L; try contradiction.
    assert (Hb : strict g F e {| pk := false; rest := s' |} <> NoFuel) by congruence.
    pose proof (strict_is_exact g F e _ Hb) as X. rewrite Eb in X.
    assert (Y : interp g F e {| pk := false; rest := s' |} = interp g f' e {| pk := false; rest := s' |})
      by (apply fuel_mono; [exact Hf' | unfold F; lia]).
    rewrite <- Y, X. exact L.
Qed.

(* ---------- computing skeletons ---------- *)
Fixpoint skel_f (n : nat) (s : chars) : option (list (option ascii)) :=
  match n with
  | O => None
  | S n' =>
    match s with
    | [] => Some []
    | c :: r => if filler_start s then option_map (cons None) (skel_f n' (skip_filler s))
                else option_map (cons (Some c)) (skel_f n' r)
    end
  end.
Lemma skel_f_sound : forall n s k, skel_f n s = Some k -> Skel s k.
Proof.
  induction n as [|n IH]; intros s k H; [discriminate|]. cbn [skel_f] in H. destruct s as [|c r].
  - inversion H. constructor.
  - destruct (filler_start (c :: r)) eqn:F.
    + destruct (skel_f n (skip_filler (c :: r))) as [k'|] eqn:E; [|discriminate]. inversion H; subst.
      apply Skel_fill; [exact F | apply IH; exact E].
    + destruct (skel_f n r) as [k'|] eqn:E; [|discriminate]. inversion H; subst.
      apply Skel_char; [exact F | apply IH; exact E].
Qed.
Definition skeleton (text : string) : option (list (option ascii)) :=
  let s := expandtabs (chars_of text) in skel_f (S (length s)) s.

(* C18: model of matlab.h's value conversions.  An mxArray is a class id, dimensions and one 64-bit
   pattern per element (8-byte cells of a UINT64 array, IEEE patterns of a double array), or bytes for
   a char array.  x86-64 little-endian layout is assumed (stated in the trusted base). *)
From Coq Require Import List Bool ZArith Lia.
Import ListNotations.
Open Scope Z_scope.

Inductive classid := CUint64 | CInt64 | CDouble | CChar | COther.
Record mx := { mx_class : classid; mx_m : nat; mx_n : nat;
               mx_cells : list Z;     (* numeric payload, one 64-bit pattern per element, 0 <= c < 2^64 *)
               mx_chars : list Z }.   (* char arrays: bytes *)
Inductive mres (A : Type) := MOk (a : A) | MErr (why : nat).
Arguments MOk {A} a.
Arguments MErr {A} why.

Definition two8 := 256.
Definition two32 := 4294967296.
Definition two64 := 18446744073709551616.

(* scalar(mxUINT32OR64_CLASS): a zeroed 1x1 UINT64 array; `*(T* )data = v` overwrites its low sizeof(T) bytes *)
Definition scalar_cell (v : Z) : mx :=
  {| mx_class := CUint64; mx_m := 1; mx_n := 1; mx_cells := [v]; mx_chars := [] |}.

Definition wrap_bool (b : bool) : mx := scalar_cell (if b then 1 else 0).
Definition wrap_char (c : Z) : mx := scalar_cell (c mod two8).           (* char: -128..127, stored as its byte *)
Definition wrap_uchar (c : Z) : mx := scalar_cell (c mod two8).
Definition wrap_int (i : Z) : mx := scalar_cell (i mod two32).           (* 4 bytes two's complement *)
Definition wrap_size_t (n : Z) : mx := scalar_cell (n mod two64).
Definition wrap_double (bits : Z) : mx :=
  {| mx_class := CDouble; mx_m := 1; mx_n := 1; mx_cells := [bits]; mx_chars := [] |}.

(* checkScalar *)
Definition is_scalar (a : mx) : bool := andb (Nat.eqb (mx_m a) 1) (Nat.eqb (mx_n a) 1).

(* two's complement readings *)
Definition signed (bits : Z) (x : Z) : Z := let m := x mod 2 ^ bits in if m <? 2 ^ (bits - 1) then m else m - 2 ^ bits.

(* myGetScalar<T>: the 64-bit integer read from an INT64 / UINT64 array; other classes go through
   mxGetScalar (a double) - only needed, and only modelled, for T = double on a double array *)
Definition get_int (a : mx) : mres Z :=
  match mx_class a, mx_cells a with
  | CUint64, c :: _ => MOk c
  | CInt64, c :: _ => MOk (signed 64 c)
  | _, _ => MErr 2      (* conversion of a floating value: not modelled *)
  end.

Definition unwrap_with {A} (cast : Z -> A) (a : mx) : mres A :=
  if is_scalar a then match get_int a with MOk v => MOk (cast v) | MErr e => MErr e end
  else MErr 1.          (* "wrap: not a scalar in ..." *)

Definition unwrap_bool : mx -> mres bool := unwrap_with (fun v => negb (v =? 0)).
Definition unwrap_char : mx -> mres Z := unwrap_with (signed 8).
Definition unwrap_uchar : mx -> mres Z := unwrap_with (fun v => v mod two8).
Definition unwrap_int : mx -> mres Z := unwrap_with (signed 32).
Definition unwrap_size_t : mx -> mres Z := unwrap_with (fun v => v mod two64).
Definition unwrap_double (a : mx) : mres Z :=
  if is_scalar a then
    match mx_class a, mx_cells a with
    | CDouble, c :: _ => MOk c
    | _, _ => MErr 2
    end
  else MErr 1.

(* strings: mxCreateString(value.c_str()) stops at the first NUL; mxArrayToString gives the bytes back *)
Fixpoint c_str (s : list Z) : list Z :=
  match s with [] => [] | c :: r => if c =? 0 then [] else c :: c_str r end.
Definition wrap_string (s : list Z) : mx :=
  {| mx_class := CChar; mx_m := (match c_str s with [] => 0 | _ => 1 end)%nat; mx_n := length (c_str s);
     mx_cells := []; mx_chars := c_str s |}.
Definition unwrap_string (a : mx) : mres (list Z) :=
  match mx_class a with CChar => MOk (mx_chars a) | _ => MErr 3 end.

(* vectors: m x 1 double arrays *)
Definition wrap_vector (v : list Z) : mx :=
  {| mx_class := CDouble; mx_m := length v; mx_n := 1; mx_cells := v; mx_chars := [] |}.
Definition unwrap_vector (a : mx) : mres (list Z) :=
  match mx_class a with
  | CDouble => if Nat.eqb (mx_n a) 1 then MOk (firstn (mx_m a) (mx_cells a)) else MErr 4
  | _ => MErr 4
  end.

(* matrices: A(i,j) for i<m, j<n; MATLAB storage is column-major: the two loops of wrap_Matrix / unwrap *)
Definition col (A : nat -> nat -> Z) (m j : nat) : list Z := map (fun i => A i j) (seq 0 m).
Definition wrap_matrix (m n : nat) (A : nat -> nat -> Z) : mx :=
  {| mx_class := CDouble; mx_m := m; mx_n := n; mx_cells := flat_map (col A m) (seq 0 n); mx_chars := [] |}.
(* unwrap reads data++ in the same loop order: element (i,j) is at position j*m + i *)
Definition unwrap_matrix (a : mx) : mres (nat * nat * (nat -> nat -> Z)) :=
  match mx_class a with
  | CDouble => MOk (mx_m a, mx_n a, fun i j => nth (j * mx_m a + i) (mx_cells a) 0)
  | _ => MErr 5
  end.

#!/bin/bash
# fourth round of seeded changes against their own property's quick check
cd "$(dirname "$0")/.."
for p in C01 C02 C03 C04 C05 C06 C07 C08 C09 C10 C11 C12 C13 C14 C15 C16 C17 C18 C19; do harness/matrix.sh "$p-m4" "$p"; done

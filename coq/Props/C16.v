(* C16 - multiple interface files and the command-line scripts compose consistently (pybind part;
   the MATLAB concatenation lemma lives with the parser model). *)
From Coq Require Import String Ascii List Bool Arith.
From Wrap Require Parse.Peg Parse.Build Parse.Spec.
From Wrap Require Import Base.Str Base.ListX Syntax.Ast Syntax.Print Inst.Model
     Pybind.Items Pybind.Gen Pybind.Render.
Import ListNotations.
Open Scope string_scope.
Open Scope list_scope.

(* the main file declares and invokes one initialiser per additional file, in order *)
Theorem C16_pybind_main : forall q c doc name subs content,
  lookup_field "submodules" (file_fields q c doc name (Some subs) content) = join nl (map sub_decl subs) /\
  lookup_field "submodules_init" (file_fields q c doc name (Some subs) content) = join nl (map sub_init subs) /\
  lookup_field "module_def" (file_fields q c doc name (Some subs) content)
  = ("PYBIND11_MODULE(" ++ name ++ ", m_)")%string.
Proof. intros. repeat split; reflexivity. Qed.
Print Assumptions C16_pybind_main.

(* wrapping an additional file defines precisely `void <stem>(py::module_ &m_)` ... *)
Theorem C16_pybind_sub_def : forall q c doc stem content,
  lookup_field "module_def" (file_fields q c doc stem None content) = ("void " ++ stem ++ "(py::module_ &m_)")%string /\
  lookup_field "submodules" (file_fields q c doc stem None content) = "" /\
  lookup_field "submodules_init" (file_fields q c doc stem None content) = "".
Proof. intros. repeat split; reflexivity. Qed.
Print Assumptions C16_pybind_sub_def.

(* ... containing exactly what wrapping its text alone yields: bindings, includes and serialization
   exports do not depend on the mode or on the module name *)
Theorem C16_pybind_sub_body : forall q c doc n1 n2 s1 s2 content f,
  In f ["wrapped_namespace"; "includes"; "boost_class_export"] ->
  lookup_field f (file_fields q c doc n1 s1 content) = lookup_field f (file_fields q c doc n2 s2 content).
Proof.
  intros q c doc n1 n2 s1 s2 content f H. cbn [In] in H.
  destruct H as [H|[H|[H|[]]]]; subst; reflexivity.
Qed.
Print Assumptions C16_pybind_sub_body.

(* option plumbing: a namespace string of any depth becomes the list the API expects *)
Theorem C16_script_top : forall comps,
  comps <> [] -> hd "" comps <> "" ->
  split_on "::" (join "::" comps) = comps ->
  top_of_arg (join "::" comps) = "" :: comps.
Proof.
  intros comps Hne Hhd Hs. unfold top_of_arg. rewrite Hs.
  destruct comps as [|a r]; [contradiction|]. cbn [hd] in Hhd.
  destruct (String.eqb a "") eqn:E; [apply String.eqb_eq in E; contradiction | reflexivity].
Qed.
Print Assumptions C16_script_top.

Example C16_script_top_examples :
  top_of_arg "" = [""] /\ top_of_arg "gtsam" = [""; "gtsam"] /\ top_of_arg "a::b::c" = [""; "a"; "b"; "c"]
  /\ top_of_arg "::gtsam" = [""; "gtsam"].
Proof. vm_compute. repeat split; reflexivity. Qed.

(* ---------------- MATLAB: a list of files ---------------- *)
(* MatlabWrapper.wrap parses the files' texts joined into one.  Joined without a separator (the code as found), a
   final // comment of one file takes the first line of the next with it; with a line break after every file (the
   repaired code) the declarations of both files are parsed, whatever the first file ends in. *)
Module M.
Import Parse.Peg Parse.Build Parse.Spec.
Definition file_a : string := "class A { A(); }; // end".
Definition file_b : string := "class B { B(); };".
Definition nl : string := String (Ascii.ascii_of_nat 10) EmptyString.
Theorem C16_matlab_raw_concatenation_refuted :
  exists ds, parse_module spec_grammar (file_a ++ file_b) = Ok ds /\ length ds = 1.
Proof. eexists. split; vm_compute; reflexivity. Qed.
Print Assumptions C16_matlab_raw_concatenation_refuted.
Theorem C16_matlab_joined_with_line_breaks :
  exists ds, parse_module spec_grammar (file_a ++ nl ++ file_b ++ nl) = Ok ds /\ length ds = 2.
Proof. eexists. split; vm_compute; reflexivity. Qed.
Print Assumptions C16_matlab_joined_with_line_breaks.
End M.

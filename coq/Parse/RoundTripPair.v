(* C01: functions returning `pair < T1 , T2 >`.  The ReturnType rule is an alternation: the pair form, or one type.  On the
   text of a pair BOTH alternatives match the same characters (`pair < A , B >` is also a templated type named pair); the
   alternation keeps the one listed first, the pair form, and the constructors build RPair. *)
From Coq Require Import String Ascii List Bool Arith Lia.
From Wrap Require Import Base.Str Base.ListX Syntax.Ast Syntax.Print Inst.Model Parse.Peg Parse.PegProofs Parse.Build Parse.Spec
     Parse.Layout Parse.RoundTrip.
Import ListNotations.
Open Scope list_scope.

Notation g := spec_grammar.

(* a type that the `Type` rule alone parses: no template arguments *)
Definition plain (t : ty) : Prop := match t with TPlain _ _ _ _ => True | _ => False end.

Lemma type_ref_ok : forall t, wf_ty t -> plain t -> forall f p r, follow r -> fuel_of t <= f ->
  exists p', interp g f (GRef "Type") {| pk := p; rest := render (ty_toks t) r |} = Match [([], ty_value t)] {| pk := p'; rest := r |}.
Proof.
  intros t Hw Hp f p r Hr Hf. destruct t as [[ns [nm|o] insts] c k basic | ]; cbn [plain wf_ty] in *; try contradiction.
  destruct Hw as [Hi Hb]. subst insts. destruct basic.
  - destruct Hb as [Hns Hin]. subst ns. cbn [ty_toks ty_value fuel_of names_of app map length] in *.
    assert (X : exists f', f = 12 + f') by (exists (f - 12); lia). destruct X as [f' Ef]. subst f.
    apply type_basic_ok; assumption.
  - destruct Hb as [Hpath Hres]. destruct (names_of_cons ns nm) as [h [l [E Hl]]]. cbn [ty_toks ty_value fuel_of] in *.
    rewrite E in *. cbn [hd] in Hres. inversion Hpath as [|? ? Hh Hrest]; subst.
    assert (X : exists f', f = 12 + f' /\ length l <= f') by (exists (f - 12); split; lia). destruct X as [f' [Ef Hlen]]. subst f.
    apply type_custom_ok; assumption.
Qed.

Definition pair_type (t1 t2 : ty) : ty := TTempl [] (NStr "pair") [t1; t2] false PNone.
Definition pair_toks (t1 t2 : ty) : list chars := ty_toks (pair_type t1 t2).
Definition pair_value (t1 t2 : ty) : value :=
  VNode "ReturnType" [(["type1"%string], ty_value t1); (["type2"%string], ty_value t2)].

Lemma pair_toks_eq : forall t1 t2, pair_toks t1 t2 = [kpair; lt_tok] ++ ty_toks t1 ++ [comma_tok] ++ ty_toks t2 ++ [gt_tok].
Proof.
  intros t1 t2. unfold pair_toks, pair_type. cbn [ty_toks names_of app map]. unfold tt_toks. cbn [const_toks path_toks app marker sep_toks].
  rewrite <- ?app_assoc. cbn [app]. reflexivity.
Qed.

Lemma wf_pair_type : forall t1 t2, wf_ty t1 -> wf_ty t2 -> wf_ty (pair_type t1 t2).
Proof.
  intros t1 t2 H1 H2. cbn [wf_ty pair_type]. split; [split; [repeat constructor | vm_compute; intuition discriminate]|].
  split; [discriminate|]. split; [exact H1 | split; [exact H2 | exact I]].
Qed.

Lemma no_blank_std' : ~ In " "%char (chars_of "std::"). Proof. exact no_blank_std. Qed.

Lemma pair_and_ok : forall t1 t2, wf_ty t1 -> wf_ty t2 -> plain t1 -> plain t2 ->
  forall f p r, follow r -> fuel_of t1 <= f -> fuel_of t2 <= f ->
  exists p', interp g (9 + f) PAIR_AND {| pk := p; rest := render (pair_toks t1 t2) r |}
             = Match [(["type1"%string], ty_value t1); (["type2"%string], ty_value t2)] {| pk := p'; rest := r |}.
Proof.
  intros t1 t2 W1 W2 P1 P2 f p r Hr F1 F2. cbn [Nat.add]. unfold PAIR_AND.
  rewrite i_and, seq_cons, i_and, seq_cons, i_and, seq_cons, i_and, seq_cons, i_and, seq_cons, i_and, seq_cons, i_sup, i_opt.
  rewrite pair_toks_eq, !render_app.
  change (render [kpair; lt_tok] ?x) with (sp kpair (sp lt_tok x)). change (render [comma_tok] ?x) with (sp comma_tok x).
  change (render [gt_tok] r) with (sp gt_tok r).
  set (T2 := render (ty_toks t2) (sp gt_tok r)). set (T1 := render (ty_toks t1) (sp comma_tok T2)).
  assert (Wp : word kpair) by (split; [discriminate | reflexivity]).
  assert (B1 : boundary (sp lt_tok T1)) by (right; eexists; reflexivity).
  rewrite (lit_fail_word f p "std::" kpair (sp lt_tok T1) Wp B1 no_blank_std std_has_colon). cbn [app].
  rewrite seq_cons, i_sup, i_term.
  destruct (kw_self p "p"%char (chars_of "air") (sp lt_tok T1) eq_refl B1) as [p1 E1].
  change (string_of ("p"%char :: chars_of "air")) with "pair"%string in E1.
  change (sp ("p"%char :: chars_of "air") (sp lt_tok T1)) with (sp kpair (sp lt_tok T1)) in E1. rewrite E1, seq_nil. cbn [app].
  rewrite seq_cons, i_sup.
  destruct (lit1_at (Sn 2 f) p1 "<"%char T1 eq_refl) as [p2 E2]. cbn [Sn] in E2. change (sp ["<"%char] T1) with (sp lt_tok T1) in E2.
  rewrite E2, seq_nil. cbn [app]. rewrite seq_cons, i_name. unfold T1.
  destruct (type_ref_ok t1 W1 P1 (Sn 4 f) p2 (sp comma_tok T2) (follow_comma T2) ltac:(cbn [Sn]; lia)) as [p3 E3]. cbn [Sn] in E3. rewrite E3.
  cbn [map add_name fst snd]. rewrite seq_nil. cbn [app]. rewrite seq_cons, i_sup.
  destruct (lit1_at (Sn 4 f) p3 ","%char T2 eq_refl) as [p4 E4]. cbn [Sn] in E4. change (sp [","%char] T2) with (sp comma_tok T2) in E4.
  rewrite E4, seq_nil. cbn [app]. rewrite seq_cons, i_name. unfold T2.
  destruct (type_ref_ok t2 W2 P2 (Sn 6 f) p4 (sp gt_tok r) (follow_gt r) ltac:(cbn [Sn]; lia)) as [p5 E5]. cbn [Sn] in E5. rewrite E5.
  cbn [map add_name fst snd]. rewrite seq_nil. cbn [app]. rewrite seq_cons, i_sup.
  destruct (lit1_at (Sn 6 f) p5 ">"%char r eq_refl) as [p6 E6]. cbn [Sn] in E6. change (sp [">"%char] r) with (sp gt_tok r) in E6.
  rewrite E6, seq_nil. cbn [app]. exists p6. reflexivity.
Qed.

Lemma or_tie : forall f a b st its st' its2 st2, interp g f a st = Match its st' -> interp g f b st = Match its2 st2 ->
  length (rest st2) = length (rest st') -> interp g (S f) (GOr [a; b]) st = Match its st'.
Proof. intros f a b st its st' its2 st2 Ha Hb Hl. rewrite i_or. cbn [alt_longest]. rewrite Ha, Hb, Hl, Nat.ltb_irrefl. reflexivity. Qed.

Lemma plain_depth : forall t, plain t -> depth t = 0.
Proof. intros [| ] H; [reflexivity | contradiction]. Qed.

Lemma rt_pair_ok : forall t1 t2, wf_ty t1 -> wf_ty t2 -> plain t1 -> plain t2 ->
  forall f p r, follow r -> fuel_of (pair_type t1 t2) <= f ->
  exists p', interp g (11 + f) (GRef "ReturnType") {| pk := p; rest := render (pair_toks t1 t2) r |}
             = Match [([], pair_value t1 t2)] {| pk := p'; rest := r |}.
Proof.
  intros t1 t2 W1 W2 P1 P2 f p r Hr Hf. cbn [Nat.add].
  rewrite (i_ref _ _ "ReturnType" RT_BODY lookup_ReturnType). unfold RT_BODY.
  assert (Hf12 : fuel_of t1 <= f /\ fuel_of t2 <= f) by (cbn [fuel_of pair_type fold_right length] in Hf; lia).
  destruct (pair_and_ok t1 t2 W1 W2 P1 P2 f p r Hr (proj1 Hf12) (proj2 Hf12)) as [pa EA]. cbn [Nat.add] in EA.
  assert (HP : parses (fuel_of (pair_type t1 t2)) (pair_toks t1 t2) (ty_value (pair_type t1 t2))).
  { apply (ty_parses 2 (pair_type t1 t2)); [|apply wf_pair_type; assumption].
    cbn [depth pair_type fold_right]. rewrite (plain_depth t1 P1), (plain_depth t2 P2). cbn. lia. }
  destruct (HP (S (S (S (S (S (S (S (S f)))))))) p r Hr ltac:(lia)) as [pb EB].
  rewrite (or_tie _ PAIR_AND (GName "type1" TY) _ _ _ (map (add_name "type1") [([], ty_value (pair_type t1 t2))]) {| pk := pb; rest := r |} EA).
  - exists pa. reflexivity.
  - rewrite i_name, EB. reflexivity.
  - reflexivity.
Qed.

Lemma b_ret_pair : forall t1 t2, wf_ty t1 -> wf_ty t2 -> plain t1 -> plain t2 -> b_ret (pair_value t1 t2) = Ok (RPair t1 t2).
Proof.
  intros t1 t2 W1 W2 P1 P2. unfold pair_value, b_ret.
  change (named "type1" [(["type1"%string], ty_value t1); (["type2"%string], ty_value t2)]) with [ty_value t1].
  change (named "type2" [(["type1"%string], ty_value t1); (["type2"%string], ty_value t2)]) with [ty_value t2].
  cbv iota. unfold b_type.
  rewrite (ty_rebuilt depth_fuel t1 ltac:(rewrite (plain_depth t1 P1); unfold depth_fuel; lia) W1). cbn [bind].
  rewrite (ty_rebuilt depth_fuel t2 ltac:(rewrite (plain_depth t2 P2); unfold depth_fuel; lia) W2). reflexivity.
Qed.

(* ---- the GlobalFunction rule for any return form that the ReturnType rule parses ---- *)
Definition head_plain (toks : list chars) : Prop := exists h rest', toks = h :: rest' /\ word h /\ h <> ktemplate.

Theorem function_rt : forall rtoks rv r F0 name args,
  (forall f p X, follow X -> F0 <= f ->
     exists p', interp g (11 + f) (GRef "ReturnType") {| pk := p; rest := render rtoks X |} = Match [([], rv)] {| pk := p'; rest := X |}) ->
  head_plain rtoks -> b_ret rv = Ok r -> is_ident (chars_of name) = true -> Forall wf_arg args ->
  forall p R f, 20 + F0 + args_fuel args <= f ->
  exists v p', interp g f (GRef "GlobalFunction")
                      {| pk := p; rest := render (rtoks ++ [chars_of name] ++ [lparen] ++ args_toks args ++ [rparen] ++ [semi]) R |}
               = Match [([], v)] {| pk := p'; rest := R |}
               /\ forall k, b_decl (S k) v = Ok (DFun {| f_tmpl := None; f_name := name; f_ret := r; f_args := map mk_arg args |}).
Proof.
  intros rtoks rv r F0 name args HRT [h [rest' [Eh [Hwh Hkt]]]] HB Hn Ha p R f Hf.
  assert (X : exists f', f = 20 + f' /\ F0 <= f' /\ args_fuel args <= f') by (exists (f - 20); lia).
  destruct X as [f' [E [Hft Hfa]]]. subst f. cbn [Nat.add].
  rewrite (i_ref _ _ "GlobalFunction" FN_BODY lookup_GlobalFunction). unfold FN_BODY.
  rewrite i_and, seq_cons, i_and, seq_cons, i_and, seq_cons, i_and, seq_cons, i_and, seq_cons, i_and, seq_cons.
  rewrite !render_app.
  change (render [chars_of name] ?x) with (sp (chars_of name) x). change (render [lparen] ?x) with (sp lparen x).
  change (render [rparen] ?x) with (sp rparen x). change (render [semi] ?x) with (sp semi x).
  set (AFTER := sp semi R). set (ARGS := render (args_toks args) (sp rparen AFTER)).
  set (NAME := sp (chars_of name) (sp lparen ARGS)).
  rewrite Eh. change (render (h :: rest') NAME) with (sp h (render rest' NAME)).
  assert (Fn : follow NAME) by (apply follow_ident; exact Hn).
  assert (B : boundary (render rest' NAME)) by (apply render_boundary, follow_boundary; exact Fn).
  rewrite (template_opt_none _ p h _ Hwh B Hkt). cbn [app]. rewrite seq_cons, i_name.
  change (sp h (render rest' NAME)) with (render (h :: rest') NAME). rewrite <- Eh.
  destruct (HRT (S f') p NAME Fn ltac:(lia)) as [p1 E1].
  cbn [Nat.add] in E1. rewrite E1. cbn [map add_name fst snd app]. rewrite seq_nil. cbn [app]. rewrite seq_cons, i_name.
  assert (Bl : boundary (sp lparen ARGS)) by (right; eexists; reflexivity).
  unfold NAME. destruct (IDENT_ok (Sn 11 f') p1 (chars_of name) (sp lparen ARGS) Hn Bl) as [p2 E2]. cbn [Sn] in E2. rewrite E2.
  cbn [map add_name fst snd]. rewrite seq_nil. cbn [app]. rewrite seq_cons, i_sup.
  destruct (lit1_at (Sn 13 f') p2 "("%char ARGS eq_refl) as [p3 E3]. cbn [Sn] in E3. change (sp ["("%char] ARGS) with (sp lparen ARGS) in E3. rewrite E3, seq_nil. cbn [app].
  rewrite seq_cons, i_name. unfold ARGS.
  destruct (arglist_roundtrip args Ha p3 AFTER (Sn 15 f') ltac:(cbn [Sn]; lia)) as [va [p4 [E4 B4]]].
  cbn [Sn] in E4. rewrite E4. cbn [map add_name fst snd]. rewrite seq_nil. cbn [app]. rewrite seq_cons, i_sup.
  destruct (lit1_at (Sn 15 f') p4 ")"%char AFTER eq_refl) as [p5 E5]. cbn [Sn] in E5. change (sp [")"%char] AFTER) with (sp rparen AFTER) in E5. rewrite E5, seq_nil. cbn [app].
  rewrite seq_cons, i_sup. unfold AFTER.
  destruct (lit1_at (Sn 16 f') p5 ";"%char R eq_refl) as [p6 E6]. cbn [Sn] in E6. change (sp [";"%char] R) with (sp semi R) in E6. rewrite E6, seq_nil. cbn [app].
  eexists. exists p6. split; [reflexivity|].
  intros k. rewrite string_chars. apply b_decl_function; [exact HB | exact B4].
Qed.

Definition pfn_toks (t1 t2 : ty) (name : string) (args : list (ty * string)) : list chars :=
  pair_toks t1 t2 ++ [chars_of name] ++ [lparen] ++ args_toks args ++ [rparen] ++ [semi].
Definition pfn_fuel (t1 t2 : ty) (args : list (ty * string)) : nat := 20 + fuel_of (pair_type t1 t2) + args_fuel args.

Theorem pair_function_roundtrip : forall t1 t2 name args, wf_ty t1 -> wf_ty t2 -> plain t1 -> plain t2 ->
  is_ident (chars_of name) = true -> Forall wf_arg args ->
  forall p R f, pfn_fuel t1 t2 args <= f ->
  exists v p', interp g f (GRef "GlobalFunction") {| pk := p; rest := render (pfn_toks t1 t2 name args) R |}
               = Match [([], v)] {| pk := p'; rest := R |}
               /\ forall k, b_decl (S k) v = Ok (DFun {| f_tmpl := None; f_name := name; f_ret := RPair t1 t2; f_args := map mk_arg args |}).
Proof.
  intros t1 t2 name args W1 W2 P1 P2 Hn Ha p R f Hf. unfold pfn_toks, pfn_fuel in *.
  apply (function_rt (pair_toks t1 t2) (pair_value t1 t2) (RPair t1 t2) (fuel_of (pair_type t1 t2))); try assumption.
  - intros f0 p0 X HX Hf0. apply rt_pair_ok; assumption.
  - rewrite pair_toks_eq. exists kpair. eexists. split; [reflexivity|]. split; [split; [discriminate | reflexivity] | discriminate].
  - apply b_ret_pair; assumption.
Qed.

(* List helpers: itertools.product order, option sequencing. Definitions only. *)
From Coq Require Import List.
Import ListNotations.

(* itertools.product over ls: first list varies slowest *)
Fixpoint cartesian {A} (ls : list (list A)) : list (list A) :=
  match ls with
  | [] => [[]]
  | l :: rest => flat_map (fun x => map (fun t => x :: t) (cartesian rest)) l
  end.

Fixpoint sequence {A} (l : list (option A)) : option (list A) :=
  match l with
  | [] => Some []
  | None :: _ => None
  | Some x :: r => match sequence r with Some r' => Some (x :: r') | None => None end
  end.

Fixpoint update_nth {A} (n : nat) (f : A -> A) (l : list A) : list A :=
  match l, n with
  | [], _ => []
  | x :: r, 0 => f x :: r
  | x :: r, S k => x :: update_nth k f r
  end.

Fixpoint mapi_aux {A B} (f : nat -> A -> B) (i : nat) (l : list A) : list B :=
  match l with [] => [] | x :: r => f i x :: mapi_aux f (S i) r end.
Definition mapi {A B} (f : nat -> A -> B) (l : list A) : list B := mapi_aux f 0 l.

"""subprocess driver for C14: wraps one interface file with both generators and prints digests.
usage: c14_driver.py <input.i> <outdir> <top> <boost:0|1> <ignore,comma>"""
import hashlib
import json
import os
import sys

REPO = os.environ.get('VERIF_REPO', '/repo')
sys.path.insert(0, REPO)


def main():
    if sys.argv[1] == '--sequence':
        # several runs in THIS process, one result line per run
        for i, r in enumerate(json.load(open(sys.argv[2]))):
            one(r['src'], r['outdir'], r['top'], r['boost'], r['ign'])
        return
    one(*sys.argv[1:6])


def one(src, outdir, top, boost, ign):
    text = open(src).read()
    top = top.split('::') if top else ['']
    if top[0]:
        top = [''] + top
    ign = [x for x in ign.split(',') if x]
    from gtwrap.pybind_wrapper import PybindWrapper
    from gtwrap.matlab_wrapper import MatlabWrapper
    tpl = open(REPO + '/templates/pybind_wrapper.tpl.example').read()
    res = {}
    try:
        w = PybindWrapper(module_name='mod', top_module_namespaces=top, use_boost_serialization=boost == '1',
                          ignore_classes=ign, module_template=tpl)
        res['pybind'] = hashlib.sha256(w.wrap_file(text, module_name='mod').encode()).hexdigest()
    except Exception as e:
        res['pybind'] = 'ERR:' + type(e).__name__
    try:
        # the file-writing entry points, into <outdir>/pyb (a directory that an earlier run may have written already)
        pdir = os.path.join(outdir, 'pyb')
        os.makedirs(pdir, exist_ok=True)
        w2 = PybindWrapper(module_name='mod', top_module_namespaces=top, use_boost_serialization=boost == '1',
                           ignore_classes=ign, module_template=tpl)
        w2.wrap([src], os.path.join(pdir, 'main.cpp'))
        res['pybind_file'] = hashlib.sha256(open(os.path.join(pdir, 'main.cpp'), 'rb').read()).hexdigest()
        cwd = os.getcwd()
        os.chdir(pdir)
        try:
            w2.wrap_submodule(src)
        finally:
            os.chdir(cwd)
        res['pybind_files'] = {f: hashlib.sha256(open(os.path.join(pdir, f), 'rb').read()).hexdigest() for f in sorted(os.listdir(pdir))}
    except Exception as e:
        res['pybind_file'] = 'ERR:' + type(e).__name__
    try:
        mdir = os.path.join(outdir, 'matlab')
        os.makedirs(mdir, exist_ok=True)
        MatlabWrapper(module_name='mod', top_module_namespace=top, ignore_classes=ign,
                      use_boost_serialization=boost == '1').wrap([src], path=mdir)
        dig = {}
        for dp, dn, fn in os.walk(mdir):
            for f in fn:
                p = os.path.join(dp, f)
                dig[os.path.relpath(p, mdir)] = hashlib.sha256(open(p, 'rb').read()).hexdigest()
        res['matlab'] = dig
    except Exception as e:
        res['matlab'] = 'ERR:' + type(e).__name__
    print(json.dumps(res, sort_keys=True))


if __name__ == '__main__':
    main()

"""C14 - generation is a pure, repeatable function of inputs and options."""
import hashlib
import json
import multiprocessing as mp
import os
import random
import shutil
import subprocess
import tempfile

import common
import gen_inputs as G
import sexp
from props import pybcommon as pc
from props import mlcommon as ml

TRUSTED = ['subprocess driver harness/c14_driver.py; the process environment (hash seed, locale, cwd, scheduling) is '
           'observed, not modelled']


def scratch():
    d = os.path.join(common.BUILD, 'tmp.%d' % os.getpid())
    os.makedirs(d, exist_ok=True)
    return tempfile.mkdtemp(dir=d)


def drive(src, outdir, top, boost, ign, hashseed, cwd, lc):
    env = dict(os.environ, PYTHONHASHSEED=str(hashseed), PYTHONPATH=common.REPO, VERIF_REPO=common.REPO)
    if lc:
        env['LC_ALL'] = lc
        env['LANG'] = lc
    p = subprocess.run(['/venv/bin/python', os.path.join(common.VERIF, 'harness', 'c14_driver.py'),
                        src, outdir, top, '1' if boost else '0', ','.join(ign)],
                       cwd=cwd, env=env, capture_output=True, text=True, timeout=300)
    lines = [l for l in p.stdout.split('\n') if l.startswith('{')]
    if not lines:
        return {'error': p.stderr[-300:]}
    return json.loads(lines[-1])


def _env_job(job):
    k, seed, tier = job
    r = random.Random('c14/%d/%d' % (seed, k))
    g = G.Gen(r, G.Profile(matlab_safe=True, max_decls=5))
    text = G.text(G.tokens(g.module()))
    # constructs whose handling involves name mangling / registries: serializable classes incl. one whose C++ name
    # contains a comma (typedef alias for BOOST_CLASS_EXPORT), virtual classes (RTTI registry), enums
    text += (' namespace c14 { template<T={double, c14::K}, U={int}> virtual class PairSer { PairSer(); void serialize() const; '
             'enum Mode { A, B }; }; class K { K(); void serializable() const; }; } ')
    d = scratch()
    try:
        src = os.path.join(d, 'in.i')
        with open(src, 'w') as f:
            f.write(text)
        boost = (k % 3 != 2)
        runs = []
        seeds = [0, 1, 2, 3, 12345, 'random'][: (4 if tier == 'quick' else 6)]
        cwds = [d, '/', os.path.join(d, 'sub')]
        os.makedirs(cwds[2], exist_ok=True)
        lcs = [None, 'C', 'C.UTF-8']
        for i, hs in enumerate(seeds):
            out = os.path.join(d, 'out%d' % i)
            os.makedirs(out)
            runs.append((hs, cwds[i % 3], lcs[i % 3], drive(src, out, '', boost, [], hs, cwds[i % 3], lcs[i % 3])))
        # files written anywhere but the requested output folders?
        stray = [x for x in os.listdir(d) if not (x == 'in.i' or x.startswith('out') or x == 'sub')]
        stray += os.listdir(cwds[2])
        return text, boost, runs, stray
    finally:
        shutil.rmtree(d, ignore_errors=True)


def history_experiment(rep, seed, n, q):
    """one PybindWrapper object, sequences of wrap_file calls incl. failing ones; every successful output
    must equal the fresh-wrapper output (and the model's)"""
    from gtwrap.pybind_wrapper import PybindWrapper
    model = common.Model()
    shown = 0
    bad_inputs = ['class A { A( ; };',                       # parse error
                  'class A { B(); };',                       # validation error (constructor name)
                  'class S { void serialize(); }; class K { __foo__(int a); };']   # generator crash after registration
    try:
        for k in range(n):
            r = random.Random('c14h/%d/%d' % (seed, k))
            texts = []
            for _ in range(r.randint(2, 4)):
                g = G.Gen(r, G.Profile(max_decls=4))
                t = G.text(G.tokens(g.module()))
                if r.random() < 0.5:
                    t += ' class Ser%d { void serialize() const; Ser%d(); }; ' % (len(texts), len(texts))
                texts.append(t)
            boost = r.random() < 0.7
            w = PybindWrapper(module_name='mod', top_module_namespaces=[''], use_boost_serialization=boost,
                              ignore_classes=[], module_template=pc.TPL)
            seq = []
            crashed_before = False
            for t in texts:
                if r.random() < 0.3:
                    b = r.choice(bad_inputs)
                    try:
                        w.wrap_file(b, module_name='mod')
                        seq.append(('bad-accepted', b))
                    except Exception as e:
                        kind = common.classify_exc(e)
                        seq.append((kind, b))
                        if kind.startswith('Crash') and boost:
                            crashed_before = True
                try:
                    out = w.wrap_file(t, module_name='mod')
                except Exception as e:
                    seq.append((common.classify_exc(e), t))
                    continue
                fresh = pc.impl_wrap(t, ([''], [], boost))
                rep.hit(common.sha(t + repr(seq)), True)
                seq.append(('ok', t))
                if fresh[0] == 'ok' and fresh[1] != out:
                    if crashed_before and 'BOOST_CLASS_EXPORT(S)' in out and 'BOOST_CLASS_EXPORT(S)' not in fresh[1]:
                        rep.bump('known:leak-after-failure')
                        rep.known('C14-leak-after-failure: _serializing_classes is reset only on the success path of '
                                  'wrap_file; after a generator crash the classes registered so far leak into the next '
                                  'file\'s BOOST_CLASS_EXPORT list [witness: wrap_file("class S { void serialize(); }; '
                                  'class K { __foo__(int a); };") then any other file, same wrapper, serialization on]')
                        crashed_before = False
                        continue
                    if shown < 3:
                        shown += 1
                        rep.violation({'kind': 'counterexample', 'what': 'output depends on earlier wrap_file calls of the same wrapper',
                                       'history': [(a, b[:400]) for a, b in seq], 'boost': boost,
                                       'reused': out[:3000], 'fresh': fresh[1][:3000]})
                else:
                    rep.bump('history_equal')
                    crashed_before = False
    finally:
        model.close()


def classes_of(m, path=()):
    out = []
    for d in m:
        if d[0] == 'class' and d[1] is None and path:
            out.append('::'.join(path + (d[3],)))
        elif d[0] == 'ns':
            out += classes_of(d[2], path + (d[1],))
    return out


def _seq_job(job):
    """several wrapper objects, one after the other IN ONE PROCESS, with different ignore lists / options; the result of
    the last run must equal the result of the same run in a process of its own"""
    k, seed = job
    r = random.Random('c14s/%d/%d' % (seed, k))
    g = G.Gen(r, G.Profile(matlab_safe=True, max_decls=6, p_template=0.15))
    m = g.module()
    # shares the package +c14 with other.i; Keeper takes arguments of a class that an EARLIER wrapper of the sequence ignores
    text = G.text(G.tokens(m)) + (' namespace c14 { class Mine { Mine(); }; class Secret { Secret(); }; class Keeper { '
                                  'Keeper(const c14::Secret& s); void take(const c14::Secret& s, int n) const; '
                                  'static double weigh(const c14::Secret& s); }; } ')
    names = classes_of(m)
    d = scratch()
    try:
        src = os.path.join(d, 'in.i')
        with open(src, 'w') as f:
            f.write(text)
        other = os.path.join(d, 'other.i')
        with open(other, 'w') as f:
            f.write('namespace c14 { class Seen { Seen(); void take(const c14::Seen& s, int n) const; }; }')
        ign = r.sample(names, min(len(names), r.randint(1, 2))) if names else ['c14::Seen']
        earlier = [{'src': r.choice([src, other]), 'top': r.choice(['', '']), 'boost': r.choice(['0', '1']),
                    'ign': ','.join(r.choice([ign, [], ['c14::Seen']]))} for _ in range(r.randint(1, 3))]
        earlier[0]['ign'] = ','.join(ign)
        earlier[0]['src'] = src
        if k % 2 == 0:
            # the shared-directory sequences always contain two different modules that contribute to one package (+c14),
            # wrapped one after the other without ignore lists
            earlier = [dict(earlier[0], ign=''), {'src': other, 'top': '', 'boost': earlier[0]['boost'], 'ign': ''}] + earlier[1:]
        last = {'src': src, 'top': '', 'boost': r.choice(['0', '1']), 'ign': ','.join(r.choice([[], [], ign[:1]]))}
        if k % 4 == 1:
            # an earlier wrapper ignores a class whose objects the last wrapper's classes take as arguments
            earlier[0]['ign'] = ','.join(ign + ['c14::Secret'])
            last['ign'] = ''
        runs = earlier + [last]
        shared = (k % 2 == 0)      # every second sequence writes all its runs into ONE output directory (stale files of
        for i, x in enumerate(runs):  # earlier runs, written under other options, are in the way)
            x['outdir'] = os.path.join(d, 'seq' if shared else 'seq%d' % i)
            os.makedirs(x['outdir'], exist_ok=True)
        spec = os.path.join(d, 'seq.json')
        json.dump(runs, open(spec, 'w'))
        env = dict(os.environ, PYTHONHASHSEED='0', PYTHONPATH=common.REPO, VERIF_REPO=common.REPO)
        p = subprocess.run(['/venv/bin/python', os.path.join(common.VERIF, 'harness', 'c14_driver.py'), '--sequence', spec],
                           cwd=d, env=env, capture_output=True, text=True, timeout=600)
        lines = [json.loads(l) for l in p.stdout.split('\n') if l.startswith('{')]
        alone_dir = os.path.join(d, 'alone')
        os.makedirs(alone_dir)
        alone = drive(src, alone_dir, last['top'], last['boost'] == '1', [x for x in last['ign'].split(',') if x], 0, d, None)
        removed = []
        if shared and len(lines) == len(runs):
            # files of the toolbox that one run wrote and a LATER run of the sequence made disappear
            for i in range(len(lines) - 1):
                a, b = lines[i].get('matlab'), lines[i + 1].get('matlab')
                if isinstance(a, dict) and isinstance(b, dict):
                    removed += ['run %d removed %s' % (i + 2, f) for f in sorted(a) if f not in b]
        return {'text': text, 'runs': [{a: b for a, b in x.items() if a != 'outdir'} for x in runs], 'removed': removed,
                'in_sequence': lines[-1] if len(lines) == len(runs) else {'error': p.stderr[-300:]}, 'alone': alone}
    finally:
        shutil.rmtree(d, ignore_errors=True)


def sequence_experiment(rep, seed, n):
    with mp.get_context('fork').Pool(12) as pool:
        results = pool.map(_seq_job, [(k, seed) for k in range(n)], chunksize=1)
    shown = 0
    for res in results:
        rep.hit(common.sha(res['text'] + repr(res['runs'])), True)
        a, b = res['in_sequence'], res['alone']
        if res.get('removed'):
            if shown < 3:
                shown += 1
                rep.violation({'kind': 'counterexample', 'what': 'a generator run deleted files of the output directory that it was not '
                               'asked to produce: %s' % res['removed'][:4], 'input': res['text'], 'runs_in_one_directory': res['runs']})
            continue
        if 'error' in a or 'error' in b:
            rep.violation({'kind': 'harness-error', 'what': 'sequence driver failed', 'detail': [a, b]}, no_input=True)
            continue
        if isinstance(a.get('matlab'), dict) and isinstance(b.get('matlab'), dict):
            # a shared output directory keeps the files of earlier runs (classes that a later ignore list drops): what THIS
            # run writes must be what it writes alone; files it does not write are not its output
            a = dict(a, matlab={f: h for f, h in a['matlab'].items() if f in b['matlab']})
        if isinstance(a.get('pybind_files'), dict) and isinstance(b.get('pybind_files'), dict):
            a = dict(a, pybind_files={f: h for f, h in a['pybind_files'].items() if f in b['pybind_files']})
        if a != b:
            diff = [f for f in set(a.get('matlab', {}) if isinstance(a.get('matlab'), dict) else []) |
                    set(b.get('matlab', {}) if isinstance(b.get('matlab'), dict) else [])
                    if not (isinstance(a.get('matlab'), dict) and isinstance(b.get('matlab'), dict)) or a['matlab'].get(f) != b['matlab'].get(f)]
            if shown < 3:
                shown += 1
                rep.violation({'kind': 'counterexample', 'what': 'the output of a wrapper depends on wrappers created earlier in the '
                               'same process (pybind equal: %s; MATLAB files that differ: %s)' % (a.get('pybind') == b.get('pybind'), sorted(diff)[:6]),
                               'input': res['text'], 'runs_in_one_process': res['runs']})
        else:
            rep.bump('sequence_equal')


def parallel_experiment(rep, seed, nproc):
    """nproc script processes at once, distinct outputs in one build directory"""
    r = random.Random('c14p/%d' % seed)
    d = scratch()
    try:
        tpl = os.path.join(d, 'tpl.example')
        with open(tpl, 'w') as f:
            f.write(pc.TPL)
        procs = []
        expect = {}
        for i in range(nproc):
            g = G.Gen(random.Random('c14p/%d/%d' % (seed, i)), G.Profile(max_decls=4))
            text = G.text(G.tokens(g.module()))
            src = os.path.join(d, 'in%d.i' % i)
            with open(src, 'w') as f:
                f.write(text)
            fresh = pc.impl_wrap(text, ([''], ['no::Such'], False), 'mod%d' % i, [])
            if fresh[0] != 'ok':
                continue
            expect['out%d.cpp' % i] = fresh[1]
            env = dict(os.environ, PYTHONPATH=common.REPO)
            procs.append(subprocess.Popen(['/venv/bin/python', common.REPO + '/scripts/pybind_wrap.py', '--src', src,
                                           '--module_name', 'mod%d' % i, '--out', os.path.join(d, 'out%d.cpp' % i),
                                           '--template', tpl, '--ignore', 'no::Such'],
                                          cwd=d, env=env, stdout=subprocess.DEVNULL, stderr=subprocess.DEVNULL))
        for p in procs:
            p.wait(timeout=300)
        got = {f: open(os.path.join(d, f)).read() for f in os.listdir(d) if f.startswith('out')}
        others = [f for f in os.listdir(d) if not (f.startswith('out') or f.startswith('in') or f == 'tpl.example')]
        rep.hit('parallel/%d' % seed, True, n=len(procs))
        if got != expect or others:
            rep.violation({'kind': 'counterexample', 'what': 'parallel script runs interfere or write unrequested files',
                           'unexpected_files': others, 'differing': [f for f in expect if got.get(f) != expect[f]]})
        else:
            rep.bump('parallel_ok', len(procs))
    finally:
        shutil.rmtree(d, ignore_errors=True)


def strace_experiment(rep, seed, n):
    """both scripts under strace: every file opened for writing, created, renamed or removed must lie in the requested
    output location (pybind: the --out file; MATLAB: the --out directory).  Python's own byte-code caches are switched
    off for the traced process (PYTHONDONTWRITEBYTECODE) - they are not the tool's doing."""
    import re
    if shutil.which('strace') is None:
        rep.bump('strace_unavailable')
        return
    d = scratch()
    try:
        tpl = os.path.join(d, 'tpl.example')
        with open(tpl, 'w') as f:
            f.write(pc.TPL)
        for i in range(n):
            g = G.Gen(random.Random('c14s/%d/%d' % (seed, i)), G.Profile(max_decls=4, matlab_safe=True))
            text = G.text(G.tokens(g.module()))
            src = os.path.join(d, 'in%d.i' % i)
            with open(src, 'w') as f:
                f.write(text)
            outdir = os.path.join(d, 'ml%d' % i)
            os.makedirs(outdir)
            runs = [('pybind', ['scripts/pybind_wrap.py', '--src', src, '--module_name', 'mod', '--out', os.path.join(d, 'py%d.cpp' % i),
                                '--template', tpl, '--ignore', 'no::Such'], [os.path.join(d, 'py%d.cpp' % i)]),
                    ('matlab', ['scripts/matlab_wrap.py', '--src', src, '--module_name', 'mod', '--out', outdir, '--ignore', 'no::Such'],
                     [outdir + os.sep])]
            for kind, args, allowed in runs:
                log = os.path.join(d, 'trace_%s_%d.txt' % (kind, i))
                env = dict(os.environ, PYTHONPATH=common.REPO, PYTHONDONTWRITEBYTECODE='1', PYTHONHASHSEED='0')
                p = subprocess.run(['strace', '-f', '-qq', '-e', 'trace=open,openat,creat,rename,renameat,renameat2,unlink,unlinkat,mkdir,mkdirat,rmdir,truncate,link,symlink',
                                    '-o', log, '/venv/bin/python', os.path.join(common.REPO, args[0])] + args[1:],
                                   cwd=d, env=env, capture_output=True, text=True, timeout=300)
                if not os.path.exists(log):
                    rep.bump('strace_failed')
                    continue
                bad = []
                for line in open(log, errors='replace'):
                    if '= -1 ' in line:
                        continue
                    m = re.search(r'(open|openat|creat)\((?:AT_FDCWD, )?"([^"]*)", ([A-Z_|]+)', line)
                    if m:
                        path, flags = m.group(2), m.group(3)
                        if not any(x in flags for x in ('O_WRONLY', 'O_RDWR', 'O_CREAT', 'O_TRUNC', 'O_APPEND')) and m.group(1) != 'creat':
                            continue
                    else:
                        m2 = re.search(r'(rename\w*|unlink\w*|mkdir\w*|rmdir|truncate|link|symlink)\((?:AT_FDCWD, )?"([^"]*)"', line)
                        if not m2:
                            continue
                        path = m2.group(2)
                    ap = os.path.normpath(os.path.join(d, path))
                    if path in ('/dev/null', '/dev/tty') or ap.startswith('/proc/') or ap.startswith('/dev/'):
                        continue
                    if any(ap == a.rstrip(os.sep) or ap.startswith(a) for a in allowed):
                        continue
                    bad.append(line.strip()[:200])
                rep.hit('strace/%s/%d/%d' % (kind, seed, i), True)
                if p.returncode == 0 and bad:
                    rep.violation({'kind': 'counterexample', 'what': '%s_wrap.py touches the file system outside its output: %s' % (kind, bad[:3]),
                                   'input': text})
                elif p.returncode == 0:
                    rep.bump('strace_clean_' + kind)
                else:
                    rep.bump('strace_run_failed_' + kind)
    finally:
        shutil.rmtree(d, ignore_errors=True)


def run(rep, tier, seed, replay=None, proof_ok=True):
    rep.coverage['rule'] = ('generated inputs run through both generators in fresh processes under 4-6 PYTHONHASHSEED '
                            'values (incl. random), 3 working directories, 3 locales: sha256 of the pybind text and of every '
                            'MATLAB file must coincide and nothing may be written outside the requested folder; histories of '
                            '2-4 wrap_file calls (with failing calls interleaved) on one PybindWrapper vs a fresh wrapper; '
                            '16 parallel script processes in one build directory; both scripts under strace: every path opened '
                            'for writing, created, renamed or removed lies inside the requested output')
    q = pc.detect_pquirks()
    ml.ensure_tpl()
    n = 10 if tier == 'quick' else 100
    with mp.get_context('fork').Pool(10) as pool:
        results = pool.map(_env_job, [(k, seed, tier) for k in range(n)], chunksize=1)
    shown = 0
    for text, boost, runs, stray in results:
        rep.hit(common.sha(text), True, n=len(runs))
        base = runs[0][3]
        if stray and shown < 3:
            shown += 1
            rep.violation({'kind': 'counterexample', 'what': 'files written outside the requested output', 'files': stray,
                           'input': text})
        for hs, cwd, lc, res in runs[1:]:
            if res != base:
                if shown < 3:
                    shown += 1
                    rep.violation({'kind': 'counterexample', 'what': 'output depends on the process environment',
                                   'input': text, 'boost': boost, 'run_a': {'hashseed': runs[0][0], 'digests': base},
                                   'run_b': {'hashseed': hs, 'cwd': cwd, 'locale': lc, 'digests': res}})
                break
        else:
            rep.bump('env_equal')
        rep.sample({'input': text[:200], 'runs': len(runs), 'pybind_sha': str(base.get('pybind'))[:16]}, cap=3)
    sequence_experiment(rep, seed, 24 if tier == 'quick' else 400)
    history_experiment(rep, seed, 25 if tier == 'quick' else 400, q)
    strace_experiment(rep, seed, 3 if tier == 'quick' else 25)
    parallel_experiment(rep, seed, 16)
    shutil.rmtree(os.path.join(common.BUILD, 'tmp.%d' % os.getpid()), ignore_errors=True)
    return 0

(* C15 - ignoring or removing a class affects that class only (pybind half; MATLAB half in C15m). *)
From Coq Require Import String Ascii List Bool Arith.
From Wrap Require Import Base.Str Base.ListX Syntax.Ast Syntax.Print Inst.Model Inst.Proj
     Pybind.Items Pybind.Gen Pybind.SpecProofs Pybind.IgnoreProofs.
Import ListNotations.
Open Scope string_scope.
Open Scope list_scope.

(* putting a class on the ignore list produces exactly the records (bindings, includes, serialization
   exports) of the input with every declaration of that C++ name deleted - at global scope and in
   namespaces alike, whatever else the input contains *)
Theorem C15_pybind_ignore_is_remove : forall q c doc x content,
  mem_str x (ignore c) = false -> forallb (dom_ignore q x) content = true ->
  wrap_module q (with_ignore x c) doc content = wrap_module q c doc (flat_map (remove_item x) content).
Proof. intros q c doc x content _. exact (ignore_is_remove q c doc x content). Qed.
Print Assumptions C15_pybind_ignore_is_remove.

(* every other entity's generated code is unchanged: the records of a scope are the concatenation of
   the records of its elements, each computed from that element alone *)
Theorem C15_pybind_compositional : forall q c doc ns inside l1 l2,
  wrap_list q doc c ns inside (l1 ++ l2)
  = out_app (wrap_list q doc c ns inside l1) (wrap_list q doc c ns inside l2).
Proof. intros. apply wrap_list_app. Qed.
Print Assumptions C15_pybind_compositional.

(* Full statement incl. nested enums of the ignored class: refuted while q_ignored_enums is on
   (see Props/C03.v, C03_refuted_ignored_enums): dom_ignore excludes exactly that class of inputs *)
Example C15_nonvacuous :
  forallb (dom_ignore impl_pquirks "gtsam::A")
          [INamespace "gtsam" [IClass {| ic_home := ["gtsam"]; ic_orig := "A"; ic_templated := false; ic_insts := [];
                                         ic_name := "A"; ic_virtual := false; ic_base := None; ic_ctors := [];
                                         ic_methods := []; ic_statics := []; ic_dunders := []; ic_props := [];
                                         ic_ops := []; ic_enums := [] |}]] = true.
Proof. reflexivity. Qed.

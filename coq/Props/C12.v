(* C12 - layout and comments never change the result. *)
From Coq Require Import String Ascii List Bool Arith.
From Wrap Require Import Base.Str Syntax.Ast Parse.Peg Parse.PegProofs Parse.Build Parse.Spec.
From Wrap Require gen.Grammar.
Import ListNotations.
Open Scope string_scope.

Theorem C12_grammar_is_spec : Grammar.grammar = spec_grammar.
Proof. vm_compute. reflexivity. Qed.
Print Assumptions C12_grammar_is_spec.

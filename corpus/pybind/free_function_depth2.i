// free functions two and three namespaces deep, next to a top-level namespace that repeats the inner name:
// the callee of each binding must be spelled with its full path (seeded change C04-m2)
namespace outer {
namespace inner {
int which();
double scale(double x, int times);
namespace deep {
int which();
}
}
}
namespace inner {
int which();
}
namespace deep {
int which();
}

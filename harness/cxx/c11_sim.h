// C11 driver core: a MATLAB-session simulator for a generated MEX gateway.
// Included by a generated main.cpp AFTER mex_impl.h, quarantine.h, the generated <module>_wrapper.cpp and the
// definitions   static const int NCLS;  static size_t coll_size(int);   (collector sizes by class index).
// The session table (ids taken from the generated .m files) is read from argv[1]; operations come on stdin, one
// per line; one observation line per operation goes to stdout.
//
// table lines:   class <idx> <matlab name> <parent idx|-1> <collector id> <upcast id|-1> <deconstructor id> <ptr property>
// operations:    new <m> <cls> <ctor id> <nargs> <ints...>
//                icall <m> <id> <nargs> <ints...>          method returning int
//                ucall <m> <id> <u64>                      method taking and returning size_t, argument passed as uint64
//                ocall <m2> <m> <id>                       method returning an object -> proxy m2
//                acall <m> <id> <m other>                  method taking an object, returning int
//                smake <m2> <id> <k>                       static method returning an object -> proxy m2
//                fcall <id> <nargs> <ints...>              static method / free function returning int
//                getp <m> <id>      setp <m> <id> <v>
//                del <m>            unload
// observation:   R=<int|-> | T=<trace;...> | C=<collector sizes> | L=<live objects per class> | D=<double frees> | E=<error>
#pragma once
#include <cstdio>
#include <iostream>
#include <fstream>
#include <sstream>

namespace vlib { std::vector<std::string> &trace(); long *live(); }

namespace sim {
struct ClassRow { std::string name; int parent, collector, upcast, decon; std::string prop; };
static std::vector<ClassRow> classes;
static std::map<int, mxArray *> proxies;       // MATLAB variables
static std::map<int, int> proxy_class;

static mxArray *num(double v) { return mxCreateDoubleScalar(v); }

// [out...] = <module>_wrapper(id, args...)
static std::vector<mxArray *> call(int id, std::vector<const mxArray *> args, int nargout) {
  std::vector<const mxArray *> in; in.push_back(num(id)); for (auto a : args) in.push_back(a);
  std::vector<mxArray *> out(nargout > 0 ? nargout : 1, nullptr);
  std::streambuf *saved = std::cout.rdbuf();
  try { mexFunction(nargout, out.data(), (int)in.size(), in.data()); }
  catch (...) { std::cout.rdbuf(saved); throw; }
  return out;
}

// the pointer-constructor branch of a generated classdef:  obj = Cls(uint64(key), ptr [, 'void'])
static void construct_from_ptr(int cls, mxArray *ptr, bool is_void, mxArray *obj) {
  const ClassRow &c = classes.at(cls);
  mxArray *my_ptr = ptr;
  if (is_void) {
    if (c.upcast < 0) throw MexError("void constructor of a class without upcastFromVoid");
    my_ptr = call(c.upcast, {ptr}, 1)[0];
  }
  if (c.parent >= 0) {
    mxArray *base_ptr = call(c.collector, {my_ptr}, 1)[0];
    construct_from_ptr(c.parent, base_ptr, false, obj);
  } else {
    call(c.collector, {my_ptr}, 0);
  }
  obj->props[c.prop] = my_ptr;
}

static mxArray *new_object(int cls) {
  mxArray *obj = mock::make(mxOBJECT_CLASS, 1, 1); obj->matlab_class = classes.at(cls).name; return obj; }

static int matlab_side(int nlhs, mxArray **plhs, int nrhs, mxArray **prhs, const char *name) {
  int cls = -1;
  for (size_t i = 0; i < classes.size(); i++) if (classes[i].name == name) cls = (int)i;
  // the generated RTTI registry spells a namespaced class without the dot (nsK1 for ns.K1); only reachable in the
  // forced-isVirtual variant, where the simulator resolves that spelling too
  if (cls < 0) for (size_t i = 0; i < classes.size(); i++) { std::string flat; for (char ch : classes[i].name) if (ch != '.') flat += ch;
    if (flat == name) cls = (int)i; }
  if (cls < 0) throw MexError(std::string("mexCallMATLAB: unknown class ") + name);
  if (nlhs != 1 || (nrhs != 2 && nrhs != 3)) throw MexError("mexCallMATLAB: unexpected arity");
  uint64_t key; memcpy(&key, prhs[0]->data.data(), 8);
  if (prhs[0]->cls != mxUINT64_CLASS || key != 5139824614673773682ULL) throw MexError("mexCallMATLAB: not the pointer-constructor key");
  mxArray *obj = new_object(cls);
  construct_from_ptr(cls, mxDuplicateArray(prhs[1]), nrhs == 3, obj);
  plhs[0] = obj;
  return 0;
}

static void destroy(int m) {
  // MATLAB runs the delete method of the most derived class first, then each superclass's
  mxArray *obj = proxies.at(m);
  for (int c = proxy_class.at(m); c >= 0; c = classes[c].parent)
    call(classes[c].decon, {obj->props.at(classes[c].prop)}, 0);
}

// a returned scalar as MATLAB would show it: integer classes exactly, doubles as integers
static std::string show(const mxArray *a) {
  if (a->cls == mxUINT64_CLASS) { uint64_t v; memcpy(&v, a->data.data(), 8); return std::to_string(v); }
  if (a->cls == mxINT64_CLASS) { int64_t v; memcpy(&v, a->data.data(), 8); return std::to_string(v); }
  return std::to_string((long long)mxGetScalar(a));
}

static std::vector<double> ints(std::istringstream &in) { int n; in >> n; std::vector<double> v(n); for (auto &x : v) in >> x; return v; }

static int run(int argc, char **argv) {
  if (argc < 2) { fprintf(stderr, "usage: driver <table>\n"); return 2; }
  { std::ifstream t(argv[1]); std::string w;
    while (t >> w) { if (w != "class") return 2; int idx; ClassRow r; t >> idx >> r.name >> r.parent >> r.collector >> r.upcast >> r.decon >> r.prop;
      if ((int)classes.size() != idx) return 2; classes.push_back(r); } }
  mock::call_matlab() = matlab_side;
  quarantine::on = true;
  std::string line;
  while (std::getline(std::cin, line)) {
    std::istringstream in(line); std::string op; in >> op;
    std::string result = "-", err;
    vlib::trace().clear();
    try {
      if (op == "new") {
        int m, cls, id; in >> m >> cls >> id; auto a = ints(in);
        std::vector<const mxArray *> args; for (double x : a) args.push_back(num(x));
        const ClassRow &c = classes.at(cls);
        mxArray *obj = new_object(cls);
        auto out = call(id, args, c.parent >= 0 ? 2 : 1);
        if (c.parent >= 0) construct_from_ptr(c.parent, out[1], false, obj);
        obj->props[c.prop] = out[0];
        proxies[m] = obj; proxy_class[m] = cls;
      } else if (op == "icall") {
        int m, id; in >> m >> id; auto a = ints(in);
        std::vector<const mxArray *> args; args.push_back(proxies.at(m)); for (double x : a) args.push_back(num(x));
        auto out = call(id, args, 1); result = show(out[0]);
      } else if (op == "ucall") {
        int m, id; uint64_t v; in >> m >> id >> v;
        mxArray *a = mxCreateNumericMatrix(1, 1, mxUINT64_CLASS, mxREAL); memcpy(a->data.data(), &v, 8);
        auto out = call(id, {proxies.at(m), a}, 1); result = show(out[0]);
      } else if (op == "ocall") {
        int m2, m, id; in >> m2 >> m >> id;
        auto out = call(id, {proxies.at(m)}, 1);
        int cls = -1; for (size_t i = 0; i < classes.size(); i++) if (classes[i].name == out[0]->matlab_class) cls = (int)i;
        proxies[m2] = out[0]; proxy_class[m2] = cls; result = out[0]->matlab_class;
      } else if (op == "acall") {
        int m, id, mo; in >> m >> id >> mo;
        auto out = call(id, {proxies.at(m), proxies.at(mo)}, 1); result = show(out[0]);
      } else if (op == "smake") {
        int m2, id; double k; in >> m2 >> id >> k;
        auto out = call(id, {num(k)}, 1);
        int cls = -1; for (size_t i = 0; i < classes.size(); i++) if (classes[i].name == out[0]->matlab_class) cls = (int)i;
        proxies[m2] = out[0]; proxy_class[m2] = cls; result = out[0]->matlab_class;
      } else if (op == "fcall") {
        int id; in >> id; auto a = ints(in);
        std::vector<const mxArray *> args; for (double x : a) args.push_back(num(x));
        auto out = call(id, args, 1); result = show(out[0]);
      } else if (op == "getp") {
        int m, id; in >> m >> id; auto out = call(id, {proxies.at(m)}, 1); result = show(out[0]);
      } else if (op == "setp") {
        int m, id; double v; in >> m >> id >> v; call(id, {proxies.at(m), num(v)}, 0);
      } else if (op == "del") {
        int m; in >> m; destroy(m); proxies.erase(m); proxy_class.erase(m);
      } else if (op == "unload") {
        auto fns = mock::at_exit(); mock::at_exit().clear();
        std::streambuf *saved = std::cout.rdbuf();
        for (auto f : fns) f();
        std::cout.rdbuf(saved);
      } else { err = "bad op"; }
    } catch (const MexError &e) { err = e.what(); }
      catch (const std::exception &e) { err = std::string("exception: ") + e.what(); }
    std::string tr; for (auto &t : vlib::trace()) { if (!tr.empty()) tr += ";"; tr += t; }
    for (auto &ch : err) if (ch == '\n' || ch == '|') ch = ' ';
    printf("R=%s | T=%s | C=", result.c_str(), tr.c_str());
    for (int i = 0; i < NCLS; i++) printf("%s%zu", i ? "," : "", coll_size(i));
    printf(" | L=");
    for (int i = 0; i < NCLS; i++) printf("%s%ld", i ? "," : "", vlib::live()[i]);
    printf(" | D=%ld | E=%s\n", quarantine::double_frees, err.c_str());
    fflush(stdout);
  }
  return 0;
}
}  // namespace sim

(* C10 - the MATLAB toolbox contains exactly the declared classes, functions, enums. *)
From Coq Require Import String Ascii List Bool Arith.
From Wrap Require Import Base.Str Base.ListX Syntax.Ast Syntax.Print Inst.Model Inst.Proj Matlab.Ids Matlab.Files Matlab.FilesProofs.
Import ListNotations.
Open Scope string_scope.
Open Scope list_scope.

(* the files written are exactly the expected ones, in every namespace at any depth: one classdef per
   non-ignored class instantiation, one enumeration classdef per enum (class-scoped enums below the
   class's package), one function file per free function name, each under the +package path of its
   namespace, and exactly one MEX source *)
Theorem C10_files : forall c q content, forallb (dom_files q []) content = true ->
  module_files q c content = expected_files c content.
Proof. exact module_files_expected. Qed.
Print Assumptions C10_files.

(* Full statement for class-scoped enums refuted while q_enum_path is on: a class enum of a class in
   namespace a::b is written to +ab/+C/E.m instead of +a/+b/+C/E.m *)
Theorem C10_refuted_enum_path : forall c q, q_enum_path q = true ->
  let k := {| ic_home := ["a"; "b"]; ic_orig := "C"; ic_templated := false; ic_insts := []; ic_name := "C";
              ic_virtual := false; ic_base := None; ic_ctors := []; ic_methods := []; ic_statics := []; ic_dunders := [];
              ic_props := []; ic_ops := []; ic_enums := [{| e_name := "E"; e_items := ["X"] |}] |} in
  ignored c k = false ->
  In ("+ab/+C/E.m", FEnum) (item_files q c ["a"; "b"] (IClass k)) /\
  In ("+a/+b/+C/E.m", FEnum) (expected_item c ["a"; "b"] (IClass k)).
Proof.
  intros c q Hq k Hi. cbn [item_files expected_item]. rewrite Hi. unfold class_enum_dir. rewrite Hq.
  split; right; left; reflexivity.
Qed.
Print Assumptions C10_refuted_enum_path.

Theorem C10_files_when_repaired : forall c q content, q_enum_path q = false ->
  module_files q c content = expected_files c content.
Proof.
  intros c q content Hq. apply module_files_expected.
  assert (H : forall i home, dom_files q home i = true).
  { induction i as [k|f|d|f|h|e|v|n l IH] using Wrap.Pybind.SpecProofs.item_ind'; intros home; cbn [dom_files]; try reflexivity.
    - rewrite Hq. reflexivity.
    - induction l as [|x r IHr]; [reflexivity|]. inversion IH; subst. cbn [forallb]. rewrite H1. apply IHr. assumption. }
  induction content as [|x r IHr]; [reflexivity|]. cbn [forallb]. rewrite H. exact IHr.
Qed.
Print Assumptions C10_files_when_repaired.

(* the MEX source declares one collector per class the preamble keeps, registers exactly the virtual
   ones for RTTI and frees exactly those collectors at unload: all three lists are projections of the
   same list of classes (the correspondence compares each with the generated preamble) *)
Theorem C10_preamble_kept : forall c content k,
  In k (preamble_classes c content) <->
  In k (flat_map walked_classes content) /\ mem_str (preamble_ignore_name k) (m_ignore c) = false.
Proof.
  intros c content k. unfold preamble_classes. rewrite filter_In. rewrite negb_true_iff. reflexivity.
Qed.
Print Assumptions C10_preamble_kept.

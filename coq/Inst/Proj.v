(* Projection of an instantiated tree to what C02/C08/C13 talk about: names, order, C++ spellings.
   The same projection is computed on the implementation's objects by harness/proj_impl.py through
   the implementation's own to_cpp() methods. *)
From Coq Require Import String Ascii List Bool Arith.
From Wrap Require Import Base.Str Base.ListX Syntax.Ast Syntax.Sexp Syntax.Codec Syntax.Print Inst.Model.
Import ListNotations.
Open Scope string_scope.
Open Scope list_scope.

Definition tmpl_call (templated : bool) (orig : string) (insts : list string) : string :=
  if templated then (orig ++ "<" ++ join "," insts ++ ">")%string else orig.

Definition imethod_cpp (m : imethod) := tmpl_call (im_templated m) (im_orig m) (map tn_cpp (im_insts m)).
Definition ismethod_cpp (m : ismethod) := tmpl_call (is_templated m) (is_orig m) (map tn_cpp (is_insts m)).
Definition ictor_cpp (k : ictor) := tmpl_call (ik_templated k) (ik_orig k) (map tn_cpp (ik_insts k)).
(* function.py:54: "::".join(inst.namespaces + [inst.instantiated_name()]) *)
Definition ifunc_cpp (f : ifunc) :=
  tmpl_call (if_templated f) (if_orig f)
            (map (fun i => join "::" (tn_ns i ++ [tn_iname i])) (if_insts f)).
(* declaration.py:31 *)
Definition idecl_cpp (d : idecl) : string :=
  (ns_prefix (id_home d) ++ id_orig d ++ "<" ++ join "," (map tn_qual (id_insts d)) ++ ">")%string.

Definition p_args (l : list arg) : sexp :=
  SList (map (fun a => SList [Atom (ty_cpp (a_ty a)); Atom (a_name a); e_opt e_str (a_default a)]) l).

Definition p_iclass (c : iclass) : sexp :=
  tag "class" [Atom (ic_name c); Atom (iclass_cpp c); e_list e_str (ic_home c);
               e_opt (fun t => Atom (tn_cpp t)) (ic_base c);
               SList (map (fun k => SList [Atom (ik_name k); Atom (ictor_cpp k); p_args (ik_args k)]) (ic_ctors c));
               SList (map (fun m => SList [Atom (im_name m); Atom (imethod_cpp m); Atom (ret_cpp (im_ret m));
                                           p_args (im_args m); e_bool (im_const m)]) (ic_methods c));
               SList (map (fun m => SList [Atom (is_name m); Atom (ismethod_cpp m); Atom (ret_cpp (is_ret m));
                                           p_args (is_args m)]) (ic_statics c));
               SList (map (fun v => SList [Atom (ty_cpp (v_ty v)); Atom (v_name v)]) (ic_props c));
               SList (map (fun o => SList [Atom (o_sym o); Atom (ret_cpp (o_ret o)); p_args (o_args o)]) (ic_ops c))].

Fixpoint p_item (i : item) : sexp :=
  match i with
  | IClass c => p_iclass c
  | IFun f => tag "fun" [Atom (if_name f); Atom (ifunc_cpp f); e_list e_str (if_home f);
                         Atom (ret_cpp (if_ret f)); p_args (if_args f)]
  | IDecl d => tag "decl" [Atom (id_name d); Atom (idecl_cpp d)]
  | IFwd f => tag "fwd" [Atom (fwd_name f)]
  | IInclude h => tag "include" [Atom h]
  | IEnum e => tag "enum" [Atom (e_name e)]
  | IVar v => tag "var" [Atom (v_name v)]
  | INamespace n c => tag "ns" [Atom n; SList (map p_item c)]
  end.
Definition p_items (l : list item) : sexp := SList (map p_item l).

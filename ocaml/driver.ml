(* reads one command per line, prints the model's one-line answer *)
let () =
  try
    while true do
      let line = input_line stdin in
      print_string (Model.run line);
      print_newline ()
    done
  with End_of_file -> ()

(* C04 - every Python binding forwards to the declared C++ entity, faithfully. *)
From Coq Require Import String Ascii List Bool Arith.
From Wrap Require Import Base.Str Base.ListX Syntax.Ast Syntax.Print Inst.Model Inst.Proj
     Pybind.Items Pybind.Gen Pybind.Sem.
From Wrap Require gen.Tables.
Import ListNotations.
Open Scope string_scope.
Open Scope list_scope.

(* A method / static method binding, called from Python with any mix of positional and keyword
   arguments, invokes `self->m<explicit args>` resp. `Class::m<...>` with the declared parameters
   in declared order, each receiving the positional value, else the keyword value of its own name,
   else its own declared default; instance call for methods, class-level call for statics; the
   result is returned iff the declared return type is not void.  Hypothesis forced by the proof:
   parameter names are pairwise distinct (C++ requires it). *)
Theorem C04_method_forward : forall q c doc is_method name cpp_method r args cpp pos kw,
  special_name cpp_method = false -> NoDup (arg_names args) ->
  match fst (wrap_method_gen q c doc is_method name cpp_method r args cpp "") with
  | b :: _ =>
    sem_member b pos kw
    = option_map (fun vs => {| ev_entity := ((if is_method then "self->" else cpp ++ "::") ++ cpp_method)%string;
                               ev_instance := is_method; ev_args := vs;
                               ev_returned := negb (ret_is_void r) |})
                 (declared_call args pos kw)
  | [] => False
  end.
Proof. exact method_forwards. Qed.
Print Assumptions C04_method_forward.

(* free functions: namespace-qualified callee with explicit template arguments *)
Theorem C04_function_forward : forall q namespaces mv f pos kw,
  NoDup (arg_names (if_args f)) ->
  sem_fun (wrap_function q namespaces mv f) pos kw
  = option_map (fun vs => {| ev_entity := (drop_last2 (add_namespaces "" namespaces) ++ "::" ++ ifunc_cpp f)%string;
                             ev_instance := false; ev_args := vs;
                             ev_returned := negb (ret_is_void (if_ret f)) |})
               (declared_call (if_args f) pos kw).
Proof. exact function_forwards. Qed.
Print Assumptions C04_function_forward.

(* the lambda layer is transparent exactly when names are distinct: with a repeated name the second
   parameter's value is lost (why the hypothesis is needed) *)
Example C04_nodup_needed :
  let args := [{| a_ty := TPlain (Typename [] (NStr "int") []) false PNone true; a_name := "x"; a_default := None |};
               {| a_ty := TPlain (Typename [] (NStr "int") []) false PNone true; a_name := "x"; a_default := None |}] in
  eval_call (lparams_of args) (arg_names args) [VAct 0; VAct 1] = Some [VAct 0; VAct 0].
Proof. reflexivity. Qed.

(* properties are writable unless declared const; enumerators map to the C++ enumerator of the same
   name under the enum's own C++ name; a derived class is registered with its declared base *)
Theorem C04_property_const : forall q c doc k v,
  mem_str (iclass_cpp k) (ignore c) = false -> In v (ic_props k) ->
  exists mv py parent inst members rest,
    fst (wrap_class q c doc k) = BClass mv (iclass_cpp k) py parent inst members :: rest /\
    In (MProp (ty_const (v_ty v)) (v_name v) (iclass_cpp k)) members /\
    parent = option_map tn_cpp (ic_base k).
Proof.
  intros q c doc k v Hi Hv. unfold wrap_class, ignored. rewrite Hi. cbn [fst].
  do 6 eexists. split; [reflexivity|]. split; [|reflexivity].
  apply in_or_app. right. apply in_or_app. right. apply in_or_app. right. apply in_or_app. right.
  apply in_or_app. left. apply in_map_iff. exists v. split; [reflexivity | exact Hv].
Qed.
Print Assumptions C04_property_const.

Example C04_nonvacuous :
  let args := [{| a_ty := TPlain (Typename [] (NStr "double") []) false PNone true; a_name := "x"; a_default := None |};
               {| a_ty := TPlain (Typename [] (NStr "int") []) false PNone true; a_name := "n"; a_default := Some "3" |}] in
  declared_call args [VAct 0] [] = Some [VAct 0; VDefault "3"] /\
  declared_call args [] [("n", VAct 1); ("x", VAct 0)] = Some [VAct 0; VAct 1] /\
  declared_call args [] [("n", VAct 1)] = None.
Proof. vm_compute. repeat split; reflexivity. Qed.

(* C17: decode (literal s) = utf8 s on plain texts. *)
From Coq Require Import List Bool NArith Lia.
From Wrap Require Import Xml.Escape.
Import ListNotations.
Open Scope N_scope.

Definition enc (q : cp) (c : cp) : list cp := escape_dq (repr_char q c).

Lemma escape_dq_app : forall a b, escape_dq (a ++ b) = escape_dq a ++ escape_dq b.
Proof. intros. unfold escape_dq. apply flat_map_app. Qed.

Lemma literal_enc : forall q s, escape_dq (flat_map (repr_char q) s) = flat_map (enc q) s.
Proof.
  intros q s. induction s as [|c r IH]; [reflexivity|].
  cbn [flat_map]. rewrite escape_dq_app, IH. reflexivity.
Qed.

Lemma utf8_ascii : forall c, c <? 128 = true -> utf8 c = [c].
Proof. intros c H. unfold utf8. rewrite H. reflexivity. Qed.

(* one plain character: its encoding is one code point or a two-character escape, and the decoder
   turns it back into the character's UTF-8 bytes, whatever follows *)
Lemma decode_enc : forall q c rest f,
  plain c = true -> (q = sq \/ (q = dq /\ c <> dq)) ->
  (length (enc q c) = 1%nat /\ decode (S f) (enc q c ++ rest) = option_map (app (utf8 c)) (decode f rest)) \/
  (length (enc q c) = 2%nat /\ decode (S f) (enc q c ++ rest) = option_map (app (utf8 c)) (decode f rest)).
Proof.
  intros q c rest f Hp Hq. unfold enc, repr_char.
  destruct (N.eqb_spec c bs) as [E|Nbs].
  { subst c. right. cbn. split; [reflexivity|]. destruct (decode f rest); reflexivity. }
  destruct (N.eqb_spec c q) as [E|Nq].
  { subst c. destruct Hq as [Hq|[Hq Hne]]; [|contradiction]. subst q. right. cbn. split; [reflexivity|].
    destruct (decode f rest); reflexivity. }
  destruct (N.eqb_spec c 9) as [E|N9].
  { subst c. right. cbn. split; [reflexivity|]. destruct (decode f rest); reflexivity. }
  destruct (N.eqb_spec c 10) as [E|N10].
  { subst c. right. cbn. split; [reflexivity|]. destruct (decode f rest); reflexivity. }
  destruct (N.eqb_spec c 13) as [E|N13].
  { subst c. right. cbn. split; [reflexivity|]. destruct (decode f rest); reflexivity. }
  unfold plain in Hp.
  assert (E9 : (c =? 9) = false) by (apply N.eqb_neq; exact N9).
  assert (E10 : (c =? 10) = false) by (apply N.eqb_neq; exact N10).
  assert (E13 : (c =? 13) = false) by (apply N.eqb_neq; exact N13).
  rewrite E9, E10, E13 in Hp. cbn [orb] in Hp.
  apply andb_true_iff in Hp. destruct Hp as [Hctl Hpr]. apply negb_true_iff in Hctl. rewrite Hctl.
  assert (Hshown : (if c <? 127 then [c] else if printable c then [c]
                    else if c <? 256 then bs :: 120 :: hex_digits 2 c
                    else if c <? 65536 then bs :: 117 :: hex_digits 4 c else bs :: 85 :: hex_digits 8 c) = [c]).
  { destruct (c <? 127) eqn:L; [reflexivity|]. cbn [orb] in Hpr. rewrite Hpr. reflexivity. }
  rewrite Hshown. unfold escape_dq. cbn [flat_map app].
  destruct (N.eqb_spec c dq) as [E|Ndq].
  - (* a double quote inside single-quote repr: escaped afterwards *)
    subst c. right. cbn. split; [reflexivity|]. destruct (decode f rest); reflexivity.
  - left. split; [reflexivity|]. cbn [app decode].
    assert (Ebs : (c =? bs) = false) by (apply N.eqb_neq; exact Nbs).
    assert (Edq : (c =? dq) = false) by (apply N.eqb_neq; exact Ndq).
    rewrite Ebs, Edq, E10. reflexivity.
Qed.

Lemma decode_plain_list : forall q s,
  forallb plain s = true -> (q = sq \/ (q = dq /\ forallb (fun c => negb (c =? dq)) s = true)) ->
  forall f, (length (flat_map (enc q) s) < f)%nat -> decode f (flat_map (enc q) s) = Some (utf8s s).
Proof.
  intros q s. induction s as [|c r IH]; intros Hp Hq f Hf.
  - destruct f; [cbn in Hf; lia | reflexivity].
  - cbn [forallb] in Hp. apply andb_true_iff in Hp. destruct Hp as [Hc Hr].
    assert (Hq' : q = sq \/ (q = dq /\ c <> dq)).
    { destruct Hq as [Hq|[Hq Hn]]; [left; exact Hq | right; split; [exact Hq|]].
      cbn [forallb] in Hn. apply andb_true_iff in Hn. destruct Hn as [Hn _].
      apply negb_true_iff in Hn. apply N.eqb_neq in Hn. exact Hn. }
    assert (Hqr : q = sq \/ (q = dq /\ forallb (fun c => negb (c =? dq)) r = true)).
    { destruct Hq as [Hq|[Hq Hn]]; [left; exact Hq | right; split; [exact Hq|]].
      cbn [forallb] in Hn. apply andb_true_iff in Hn. tauto. }
    cbn [flat_map utf8s] in *. rewrite app_length in Hf.
    destruct f as [|f]; [lia|].
    destruct (decode_enc q c (flat_map (enc q) r) f Hc Hq') as [[Hl Hd]|[Hl Hd]]; rewrite Hd;
      rewrite (IH Hr Hqr f) by lia; reflexivity.
Qed.

Lemma mem_cp_false_forallb : forall c s, mem_cp c s = false -> forallb (fun x => negb (x =? c)) s = true.
Proof.
  intros c s. unfold mem_cp. induction s as [|x r IH]; intros H; [reflexivity|].
  cbn [existsb] in H. apply orb_false_iff in H. destruct H as [Hx Hr].
  cbn [forallb]. rewrite N.eqb_sym, Hx. cbn. apply IH. exact Hr.
Qed.

Theorem escape_roundtrip : forall s, forallb plain s = true -> cpp_decode (literal s) = Some (utf8s s).
Proof.
  intros s Hp. unfold cpp_decode, literal, repr_body. rewrite literal_enc.
  apply decode_plain_list; [exact Hp | | lia].
  unfold repr_quote. destruct (mem_cp sq s); cbn [andb]; [|left; reflexivity].
  destruct (mem_cp dq s) eqn:E; cbn [negb]; [left; reflexivity|].
  right. split; [reflexivity | apply mem_cp_false_forallb; exact E].
Qed.

(* C01: printing a type and parsing it back.  Types of any nesting depth, with const, the pointer / reference
   markers and namespace paths, rendered one blank before every token, are parsed by the grammar of
   gtwrap.interface_parser (Parse/Spec.v) into a match tree from which Parse/Build.v rebuilds the very same type. *)
From Coq Require Import String Ascii List Bool Arith Lia.
From Wrap Require Import Base.Str Base.ListX Syntax.Ast Syntax.Print Inst.Model Parse.Peg Parse.PegProofs Parse.Build Parse.Spec Parse.Layout.
Import ListNotations.
Open Scope list_scope.

(* one blank, then the token *)
Definition sp (t r : chars) : chars := " "%char :: t ++ r.
(* what may follow a token: the end, or the blank before the next one *)
Definition boundary (r : chars) : Prop := r = [] \/ exists r', r = " "%char :: r'.

Definition MatchTo (o : outcome) (its : list item) (r : chars) : Prop :=
  exists p, o = Match its {| pk := p; rest := r |}.

Lemma pre_sp : forall p c t r, solid c = true ->
  pre {| pk := p; rest := sp (c :: t) r |} = {| pk := false; rest := (c :: t) ++ r |}.
Proof.
  intros p c t r H. unfold pre, moved, sp. cbn [rest].
  rewrite (skip_filler_one_blank " "%char ((c :: t) ++ r) white_space (solid_no_filler c (t ++ r) H)).
  cbn [length app]. rewrite (proj2 (Nat.ltb_lt _ _)) by lia. reflexivity.
Qed.

(* ---- identifiers ---- *)
Definition in_str (s : string) (c : ascii) : bool := cmem c (chars_of s).
Definition is_ident (n : chars) : bool :=
  match n with c :: r => andb (in_str alpha_ c) (forallb (in_str alnum_) r) | [] => false end.

Lemma alnum_solid : forall c, in_str alnum_ c = true -> solid c = true.
Proof.
  intros c H. unfold in_str, cmem in H. apply existsb_exists in H. destruct H as [x [Hx E]].
  apply ceq_eq in E. subst x.
  assert (A : forallb solid (chars_of alnum_) = true) by (vm_compute; reflexivity).
  rewrite forallb_forall in A. apply A. exact Hx.
Qed.
Lemma alpha_alnum : forall c, in_str alpha_ c = true -> in_str alnum_ c = true.
Proof.
  intros c H. unfold in_str, cmem in *. apply existsb_exists in H. destruct H as [x [Hx E]].
  apply existsb_exists. exists x. split; [|exact E].
  assert (A : forallb (fun c => if in_dec ascii_dec c (chars_of alnum_) then true else false) (chars_of alpha_) = true) by (vm_compute; reflexivity).
  rewrite forallb_forall in A. specialize (A x Hx). destruct (in_dec ascii_dec x (chars_of alnum_)) as [i|]; [exact i | discriminate].
Qed.
Lemma blank_not_alnum : in_str alnum_ " "%char = false.
Proof. reflexivity. Qed.

Lemma span_word : forall (f : ascii -> bool) w r, forallb f w = true ->
  (r = [] \/ exists c r', r = c :: r' /\ f c = false) -> span f (w ++ r) = r.
Proof.
  intros f w r H Hr. induction w as [|c w IH]; cbn [app].
  - destruct Hr as [E|[c [r' [E F]]]]; subst; [reflexivity|]. cbn [span]. rewrite F. reflexivity.
  - cbn [forallb] in H. apply andb_true_iff in H. destruct H as [H1 H2]. cbn [span]. rewrite H1. apply IH. exact H2.
Qed.

Lemma firstn_exact : forall (A : Type) (u v : list A), firstn (length (u ++ v) - length v) (u ++ v) = u.
Proof. intros. apply firstn_cut. Qed.

Lemma string_chars : forall s, string_of (chars_of s) = s.
Proof. induction s as [|c s IH]; [reflexivity|]. cbn. rewrite IH. reflexivity. Qed.

Lemma word_ident : forall p n r, is_ident n = true -> boundary r ->
  MatchTo (run_term (TWord alpha_ alnum_) {| pk := p; rest := sp n r |}) [([], VStr (string_of n))] r.
Proof.
  intros p n r Hn Hr. destruct n as [|c w]; [discriminate|]. cbn [is_ident] in Hn. apply andb_true_iff in Hn. destruct Hn as [Hc Hw].
  unfold run_term. cbn [pre_term]. rewrite (pre_sp p c w r (alnum_solid c (alpha_alnum c Hc))). cbn [rest app].
  fold (in_str alpha_ c). rewrite Hc.
  assert (S : span (fun x => cmem x (chars_of alnum_)) (w ++ r) = r).
  { apply span_word; [exact Hw|]. destruct Hr as [E|[r' E]]; [left; exact E | right; exists " "%char, r'; split; [exact E | reflexivity]]. }
  rewrite S. unfold after. cbn [rest pk].
  change (c :: w ++ r) with ((c :: w) ++ r). rewrite firstn_exact. eexists. reflexivity.
Qed.

(* ---- literals and keywords ---- *)
Lemma prefix_self : forall l r, prefix l (l ++ r) = Some r.
Proof. induction l as [|c l IH]; intros r; [reflexivity|]. cbn [app prefix]. unfold ceq. rewrite Ascii.eqb_refl. apply IH. Qed.

Lemma lit_ok : forall p c l r, solid c = true ->
  MatchTo (run_term (TLit (string_of (c :: l))) {| pk := p; rest := sp (c :: l) r |}) [([], VStr (string_of (c :: l)))] r.
Proof.
  intros p c l r H. unfold run_term. cbn [pre_term]. rewrite chars_string, (pre_sp p c l r H). cbn [rest].
  rewrite prefix_self. eexists. reflexivity.
Qed.

Lemma lit_fail : forall p l c t r, solid c = true -> match l with d :: _ => ceq d c = false | [] => False end ->
  run_term (TLit (string_of l)) {| pk := p; rest := sp (c :: t) r |} = Fail.
Proof.
  intros p l c t r H Hd. unfold run_term. cbn [pre_term]. rewrite chars_string, (pre_sp p c t r H). cbn [rest app].
  destruct l as [|d l]; [contradiction|]. cbn [prefix]. rewrite Hd. reflexivity.
Qed.
(* a literal tried at the end of the text, or where the next token starts with another character *)
Lemma lit_fail_end : forall p l, l <> [] -> run_term (TLit (string_of l)) {| pk := p; rest := [] |} = Fail.
Proof. intros p l H. unfold run_term. cbn [pre_term]. rewrite chars_string. cbn. destruct l; [contradiction | reflexivity]. Qed.

Definition word (n : chars) : Prop := n <> [] /\ forallb (in_str alnum_) n = true.
Lemma ident_word : forall n, is_ident n = true -> word n.
Proof.
  intros [|c r] H; [discriminate|]. cbn [is_ident] in H. apply andb_true_iff in H. destruct H as [H1 H2].
  split; [discriminate|]. cbn [forallb]. rewrite (alpha_alnum c H1), H2. reflexivity.
Qed.

Lemma alnum_kw : forall c, in_str alnum_ c = true -> is_kwchar c = true /\ c <> " "%char.
Proof.
  intros c H. unfold in_str, cmem in H. apply existsb_exists in H. destruct H as [x [Hx E]].
  apply ceq_eq in E. subst x.
  assert (A : forallb (fun c => is_kwchar c && negb (ceq c " "%char)) (chars_of alnum_) = true) by (vm_compute; reflexivity).
  rewrite forallb_forall in A. specialize (A c Hx). apply andb_true_iff in A. destruct A as [A1 A2]. split; [exact A1|].
  intros X. subst c. discriminate.
Qed.

(* k does not continue past the word and its blank *)
Definition safe (k n : chars) : Prop := forall k', k <> n ++ " "%char :: k'.

Lemma prefix_word : forall k n r x, boundary r -> forallb (in_str alnum_) n = true -> safe k n ->
  prefix k (n ++ r) = Some x -> exists n2, n = k ++ n2 /\ x = n2 ++ r.
Proof.
  induction k as [|c k IH]; intros n r x Hr Hn Hs H.
  - cbn in H. inversion H; subst. exists n. split; reflexivity.
  - destruct n as [|d n].
    + cbn [app] in H. destruct Hr as [E|[r' E]]; subst r; [discriminate|]. cbn [prefix] in H.
      destruct (ceq c " "%char) eqn:E; [|discriminate]. apply ceq_eq in E. subst c. exfalso. apply (Hs k). reflexivity.
    + cbn [app prefix] in H. destruct (ceq c d) eqn:E; [|discriminate]. apply ceq_eq in E. subst d.
      cbn [forallb] in Hn. apply andb_true_iff in Hn. destruct Hn as [_ Hn].
      assert (Hs' : safe k n) by (intros k' E; apply (Hs k'); cbn [app]; rewrite E; reflexivity).
      destruct (IH n r x Hr Hn Hs' H) as [n2 [E1 E2]]. exists n2. split; [cbn [app]; rewrite E1; reflexivity | exact E2].
Qed.

Lemma kw_on_word : forall p k n r, word n -> boundary r -> safe k n ->
  (k = n -> MatchTo (run_term (TKw (string_of k)) {| pk := p; rest := sp n r |}) [([], VStr (string_of k))] r) /\
  (k <> n -> run_term (TKw (string_of k)) {| pk := p; rest := sp n r |} = Fail).
Proof.
  intros p k n r [Hne Hn] Hr Hs. destruct n as [|c w]; [contradiction|].
  assert (Hc : solid c = true).
  { cbn [forallb] in Hn. apply andb_true_iff in Hn. apply alnum_solid. tauto. }
  unfold run_term. cbn [pre_term]. rewrite chars_string, (pre_sp p c w r Hc). cbn [rest pk].
  split.
  - intros E. subst k. rewrite prefix_self. cbn [negb andb].
    destruct Hr as [E|[r' E]]; subst r; cbn; eexists; reflexivity.
  - intros Hd. destruct (prefix k ((c :: w) ++ r)) as [x|] eqn:P; [|reflexivity].
    destruct (prefix_word k (c :: w) r x Hr Hn Hs P) as [n2 [E1 E2]]. subst x.
    destruct n2 as [|d n2]; [exfalso; apply Hd; rewrite E1, app_nil_r; reflexivity|].
    cbn [app negb andb].
    assert (Hd2 : is_kwchar d = true).
    { rewrite forallb_forall in Hn. apply alnum_kw. apply Hn. rewrite E1. apply in_or_app. right. left. reflexivity. }
    rewrite Hd2. reflexivity.
Qed.

Lemma safe_nospace : forall k n, ~ In " "%char k -> safe k n.
Proof. intros k n H k' E. apply H. rewrite E. apply in_or_app. right. left. reflexivity. Qed.

(* ---- the grammar ---- *)
Notation g := spec_grammar.
Section Equations.
  Variable f : nat.
  Variable st : pst.
  Lemma i_term : forall t, interp g (S f) (GTerm t) st = run_term t st. Proof. reflexivity. Qed.
  Lemma i_and : forall l, interp g (S f) (GAnd l) st = seq (interp g f) l [] st. Proof. reflexivity. Qed.
  Lemma i_or : forall l, interp g (S f) (GOr l) st = alt_longest (interp g f) st l Fail. Proof. reflexivity. Qed.
  Lemma i_first : forall l, interp g (S f) (GFirst l) st = alt_first (interp g f) st l. Proof. reflexivity. Qed.
  Lemma i_opt : forall x, interp g (S f) (GOpt x) st = match interp g f x st with Fail => Match [] st | o => o end. Proof. reflexivity. Qed.
  Lemma i_star : forall x, interp g (S f) (GStar x) st = star (interp g f) f x [] st. Proof. reflexivity. Qed.
  Lemma i_sup : forall x, interp g (S f) (GSup x) st = match interp g f x st with Match _ st' => Match [] st' | o => o end. Proof. reflexivity. Qed.
  Lemma i_name : forall n x, interp g (S f) (GName n x) st
                             = match interp g f x st with Match its st' => Match (map (add_name n) its) st' | o => o end.
  Proof. reflexivity. Qed.
  Lemma i_ref : forall r body, lookup g r = Some body ->
    interp g (S f) (GRef r) st = match interp g f body st with Match its st' => Match [([], VNode r its)] st' | o => o end.
  Proof. intros r body H. unfold interp. cbn [interp_with]. rewrite H. reflexivity. Qed.
End Equations.
Arguments interp_with : simpl never.
Arguments interp : simpl never.
Definition W1 : term := TWord alpha_ alnum_.
Definition W2 : term := TWord digits digits.

Lemma alpha_not_digit : forall c, in_str alpha_ c = true -> cmem c (chars_of digits) = false.
Proof.
  intros c H. unfold in_str, cmem in H. apply existsb_exists in H. destruct H as [x [Hx E]].
  apply ceq_eq in E. subst x. revert Hx. vm_compute. intuition (subst; reflexivity).
Qed.

Lemma W2_fails_on_ident : forall p n r, is_ident n = true -> run_term W2 {| pk := p; rest := sp n r |} = Fail.
Proof.
  intros p n r H. destruct n as [|c w]; [discriminate|]. cbn [is_ident] in H. apply andb_true_iff in H. destruct H as [Hc _].
  unfold run_term, W2. cbn [pre_term]. rewrite (pre_sp p c w r (alnum_solid c (alpha_alnum c Hc))). cbn [rest app].
  rewrite (alpha_not_digit c Hc). reflexivity.
Qed.

(* IDENT = Word(alphas_, alphanums_) ^ Word(nums) *)
Lemma IDENT_ok : forall f p n r, is_ident n = true -> boundary r ->
  MatchTo (interp g (S (S f)) IDENT {| pk := p; rest := sp n r |}) [([], VStr (string_of n))] r.
Proof.
  intros f p n r Hn Hr. unfold IDENT. rewrite i_or. cbn [alt_longest]. rewrite !i_term.
  destruct (word_ident p n r Hn Hr) as [p' E]. rewrite E.
  pose proof (W2_fails_on_ident p n r Hn) as E2. unfold W2 in E2. rewrite E2.
  eexists. reflexivity.
Qed.

(* IDENT where the next token is not an identifier: both words fail *)
Lemma IDENT_fail : forall f p c t r, solid c = true -> in_str alpha_ c = false -> cmem c (chars_of digits) = false ->
  interp g (S (S f)) IDENT {| pk := p; rest := sp (c :: t) r |} = Fail.
Proof.
  intros f p c t r Hs Ha Hd. unfold IDENT. rewrite i_or. cbn [alt_longest]. rewrite !i_term.
  unfold run_term. cbn [pre_term]. rewrite (pre_sp p c t r Hs). cbn [rest app].
  unfold in_str in Ha. rewrite Ha, Hd. reflexivity.
Qed.

(* namespaces_and_name: IDENT ("::" IDENT)* *)
Definition colons : chars := chars_of "::".
Fixpoint path_toks (l : list chars) : list chars :=
  match l with [] => [] | [n] => [n] | n :: r => n :: colons :: path_toks r end.
Definition render (toks : list chars) (r : chars) : chars := fold_right sp r toks.
Definition strs_items (l : list chars) : list item := map (fun n => ([], VStr (string_of n))) l.

(* what follows a path: not "::" *)
Definition no_colons (r : chars) : Prop :=
  r = [] \/ exists c r', r = " "%char :: c :: r' /\ solid c = true /\ ceq ":"%char c = false.

Definition PATH_TAIL : gexpr := GStar (GAnd [GSup (GTerm (TLit "::")); IDENT]).

Lemma no_colons_boundary : forall r, no_colons r -> boundary r.
Proof. intros r [E|[c [r' [E _]]]]; [left; exact E | right; eexists; exact E]. Qed.

Lemma render_boundary : forall toks r, boundary r -> boundary (render toks r).
Proof. intros [|t toks] r H; [exact H | right; eexists; reflexivity]. Qed.

Lemma colons_fail : forall f p r, no_colons r ->
  interp g (S f) (GTerm (TLit "::")) {| pk := p; rest := r |} = Fail.
Proof.
  intros f p r [E|[c [r' [E [Hs Hc]]]]]; subst r; rewrite i_term.
  - apply (lit_fail_end p colons). discriminate.
  - apply (lit_fail p colons c [] r' Hs). exact Hc.
Qed.

Lemma star_S : forall rec k x acc st, star rec (S k) x acc st =
  match rec x st with Match its st' => star rec k x (acc ++ its) st' | Fail => Match acc st | NoFuel => NoFuel end.
Proof. reflexivity. Qed.
Lemma seq_cons : forall rec x l acc st, seq rec (x :: l) acc st =
  match rec x st with Match its st' => seq rec l (acc ++ its) st' | Fail => Fail | NoFuel => NoFuel end.
Proof. reflexivity. Qed.
Lemma seq_nil : forall rec acc st, seq rec [] acc st = Match acc st. Proof. reflexivity. Qed.

Definition SEG : gexpr := GAnd [GSup (GTerm (TLit "::")); IDENT].
Definition tail_toks (names : list chars) : list chars := flat_map (fun n => [colons; n]) names.

Lemma colon_solid : solid ":"%char = true. Proof. reflexivity. Qed.

Lemma path_tail_ok : forall names f k acc p r, no_colons r -> Forall (fun n => is_ident n = true) names ->
  length names <= k ->
  MatchTo (star (interp g (S (S (S (S f))))) (S k) SEG acc {| pk := p; rest := render (tail_toks names) r |})
          (acc ++ strs_items names) r.
Proof.
  induction names as [|n names IH]; intros f k acc p r Hr Hn Hk.
  - cbn [tail_toks flat_map render fold_right]. rewrite star_S. unfold SEG. rewrite i_and, seq_cons, i_sup.
    rewrite (colons_fail (S f) p r Hr).
    unfold strs_items. cbn [map]. rewrite app_nil_r. eexists. reflexivity.
  - inversion Hn as [|? ? Hn1 Hn2]; subst. cbn [length] in Hk. destruct k as [|k]; [lia|].
    cbn [tail_toks flat_map app render fold_right]. fold (tail_toks names). fold (render (tail_toks names) r).
    rewrite star_S. unfold SEG at 1. rewrite i_and, seq_cons, i_sup, i_term.
    destruct (lit_ok p ":"%char [":"%char] (sp n (render (tail_toks names) r)) colon_solid) as [p1 E1].
    change (string_of [":"%char; ":"%char]) with "::"%string in E1. change colons with [":"%char; ":"%char].
    rewrite E1. cbn [app]. rewrite seq_cons.
    assert (B : boundary (render (tail_toks names) r)) by (apply render_boundary, no_colons_boundary; exact Hr).
    destruct (IDENT_ok (S f) p1 n _ Hn1 B) as [p2 E2]. rewrite E2, seq_nil. cbn [app].
    destruct (IH f k (acc ++ [([], VStr (string_of n))]) p2 r Hr Hn2 ltac:(lia)) as [p3 E3].
    fold SEG. rewrite E3. unfold strs_items. cbn [map]. rewrite <- app_assoc. eexists. reflexivity.
Qed.

(* ---- Typename / CustomType: IDENT ("::" IDENT)* ---- *)
Definition TN_BODY : gexpr := GAnd [IDENT; GStar SEG].
Lemma lookup_Typename : lookup g "Typename" = Some TN_BODY. Proof. reflexivity. Qed.
Lemma lookup_CustomType : lookup g "CustomType" = Some TN_BODY. Proof. reflexivity. Qed.

Lemma path_toks_cons : forall n l, path_toks (n :: l) = n :: tail_toks l.
Proof.
  intros n l. revert n. induction l as [|m l IH]; intros n; [reflexivity|].
  change (path_toks (n :: m :: l)) with (n :: colons :: path_toks (m :: l)). rewrite IH. reflexivity.
Qed.

Lemma tn_body_ok : forall f p n l r, no_colons r -> is_ident n = true -> Forall (fun x => is_ident x = true) l ->
  length l <= f ->
  MatchTo (interp g (S (S (S (S (S (S f)))))) TN_BODY {| pk := p; rest := render (path_toks (n :: l)) r |})
          (strs_items (n :: l)) r.
Proof.
  intros f p n l r Hr Hn Hl Hlen. rewrite path_toks_cons. cbn [render fold_right]. fold (render (tail_toks l) r).
  unfold TN_BODY. rewrite i_and, seq_cons.
  assert (B : boundary (render (tail_toks l) r)) by (apply render_boundary, no_colons_boundary; exact Hr).
  destruct (IDENT_ok (S (S (S f))) p n _ Hn B) as [p1 E1]. rewrite E1. cbn [app]. rewrite seq_cons, i_star.
  destruct (path_tail_ok l f (S (S (S f))) [] p1 r Hr Hl ltac:(lia)) as [p2 E2].
  rewrite E2, seq_nil. cbn [app strs_items map]. eexists. reflexivity.
Qed.

(* ---- Optional(CONST) ---- *)
Definition CONST_OPT : gexpr := GOpt (GName "is_const" (GTerm (TKw "const"))).
Definition kconst : chars := chars_of "const".

Lemma kw_self : forall p c k r, solid c = true -> boundary r ->
  MatchTo (run_term (TKw (string_of (c :: k))) {| pk := p; rest := sp (c :: k) r |}) [([], VStr (string_of (c :: k)))] r.
Proof.
  intros p c k r Hc Hr. unfold run_term. cbn [pre_term]. rewrite chars_string, (pre_sp p c k r Hc). cbn [rest pk].
  rewrite prefix_self. cbn [negb andb]. destruct Hr as [E|[r' E]]; subst r; cbn; eexists; reflexivity.
Qed.

Lemma const_present : forall f p r, boundary r ->
  MatchTo (interp g (S (S (S f))) CONST_OPT {| pk := p; rest := sp kconst r |}) [(["is_const"%string], VStr "const")] r.
Proof.
  intros f p r Hr. unfold CONST_OPT. rewrite i_opt, i_name, i_term.
  destruct (kw_self p "c"%char (chars_of "onst") r eq_refl Hr) as [p1 E].
  change (string_of ("c"%char :: chars_of "onst")) with "const"%string in E.
  change (sp ("c"%char :: chars_of "onst") r) with (sp kconst r) in E. rewrite E. eexists. reflexivity.
Qed.

Lemma const_absent : forall f p n r, word n -> boundary r -> n <> kconst ->
  interp g (S (S (S f))) CONST_OPT {| pk := p; rest := sp n r |} = Match [] {| pk := p; rest := sp n r |}.
Proof.
  intros f p n r Hw Hr Hd. unfold CONST_OPT. rewrite i_opt, i_name, i_term.
  destruct (kw_on_word p kconst n r Hw Hr) as [_ Hf].
  { apply safe_nospace. vm_compute. intuition discriminate. }
  change (string_of kconst) with "const"%string in Hf. rewrite Hf; [reflexivity|]. intros E. apply Hd. symmetry. exact E.
Qed.

(* ---- pointer / reference marker ---- *)
Definition marker (p : ptrk) : list chars :=
  match p with PNone => [] | PShared => [["*"%char]] | PRaw => [["@"%char]] | PRef => [["&"%char]] end.
Definition marker_items (p : ptrk) : list item :=
  match p with
  | PNone => []
  | PShared => [(["is_shared_ptr"%string], VStr "*")]
  | PRaw => [(["is_ptr"%string], VStr "@")]
  | PRef => [(["is_ref"%string], VStr "&")]
  end.
(* what follows a whole type: not a marker, not "::", not "<" *)
Definition follow (r : chars) : Prop :=
  r = [] \/ exists c r', r = " "%char :: c :: r' /\ solid c = true /\
                          cmem c (chars_of "*@&:<") = false.

Lemma follow_boundary : forall r, follow r -> boundary r.
Proof. intros r [E|[c [r' [E _]]]]; [left; exact E | right; eexists; exact E]. Qed.
Lemma follow_no_colons : forall r, follow r -> no_colons r.
Proof.
  intros r [E|[c [r' [E [Hs Hc]]]]]; [left; exact E|]. right. exists c, r'. repeat split; try assumption.
  unfold cmem in Hc. cbn [chars_of existsb] in Hc. unfold ceq in *. repeat (apply orb_false_iff in Hc; destruct Hc as [? Hc]).
  rewrite Ascii.eqb_sym. assumption.
Qed.

Lemma lit1_at : forall f p (m : ascii) r, solid m = true ->
  MatchTo (interp g (S f) (GTerm (TLit (String m EmptyString))) {| pk := p; rest := sp [m] r |}) [([], VStr (String m EmptyString))] r.
Proof. intros f p m r H. rewrite i_term. apply (lit_ok p m [] r H). Qed.

Lemma lit1_not : forall f p (m : ascii) r, follow r -> cmem m (chars_of "*@&:<") = true ->
  interp g (S f) (GTerm (TLit (String m EmptyString))) {| pk := p; rest := r |} = Fail.
Proof.
  intros f p m r [E|[c [r' [E [Hs Hc]]]]] Hm; subst r; rewrite i_term.
  - apply (lit_fail_end p [m]). discriminate.
  - apply (lit_fail p [m] c [] r' Hs). cbn. destruct (ceq m c) eqn:E; [|reflexivity].
    apply ceq_eq in E. subst c. congruence.
Qed.

Lemma lit1_other : forall f p (m c : ascii) t r, solid c = true -> ceq m c = false ->
  interp g (S f) (GTerm (TLit (String m EmptyString))) {| pk := p; rest := sp (c :: t) r |} = Fail.
Proof. intros f p m c t r Hs Hd. rewrite i_term. apply (lit_fail p [m] c t r Hs). exact Hd. Qed.

Lemma ptr_ok : forall f p k r, follow r ->
  exists p', interp g (S (S (S (S (S f))))) PTR {| pk := p; rest := render (marker k) r |}
             = Match (marker_items k) {| pk := p'; rest := r |}.
Proof.
  intros f p k r Hr. unfold PTR. rewrite i_opt, i_first. cbn [alt_first]. rewrite i_first. cbn [alt_first]. rewrite !i_name.
  destruct k; cbn [marker render fold_right marker_items].
  - rewrite !(lit1_not _ p _ r Hr) by reflexivity. eexists. reflexivity.
  - destruct (lit1_at f p "*"%char r eq_refl) as [p1 E]. rewrite E. eexists. reflexivity.
  - rewrite (lit1_other f p "*"%char "@"%char [] r eq_refl eq_refl).
    destruct (lit1_at f p "@"%char r eq_refl) as [p1 E]. rewrite E. eexists. reflexivity.
  - rewrite (lit1_other f p "*"%char "&"%char [] r eq_refl eq_refl).
    rewrite (lit1_other f p "@"%char "&"%char [] r eq_refl eq_refl).
    destruct (lit1_at (S f) p "&"%char r eq_refl) as [p1 E]. rewrite E. eexists. reflexivity.
Qed.

(* ---- BasicType | CustomType ---- *)
Definition BASIC_BODY : gexpr :=
  GOr [GTerm (TKw "void"); GTerm (TKw "bool"); GTerm (TKw "unsigned char"); GTerm (TKw "char"); GTerm (TKw "int");
       GTerm (TKw "size_t"); GTerm (TKw "double"); GTerm (TKw "float")].
Lemma lookup_BasicType : lookup g "BasicType" = Some BASIC_BODY. Proof. reflexivity. Qed.

Definition reserved : list chars :=
  map chars_of ["const"; "void"; "bool"; "unsigned"; "char"; "int"; "size_t"; "double"; "float"]%string.

Lemma kw_word_fail : forall f p (k : string) h r, word h -> boundary r -> safe (chars_of k) h -> chars_of k <> h ->
  interp g (S f) (GTerm (TKw k)) {| pk := p; rest := sp h r |} = Fail.
Proof.
  intros f p k h r Hw Hr Hs Hd. rewrite i_term. destruct (kw_on_word p (chars_of k) h r Hw Hr Hs) as [_ Hf].
  rewrite string_chars in Hf. apply Hf. exact Hd.
Qed.

Lemma first_blank : forall (a a' b b' : chars), ~ In " "%char a -> ~ In " "%char a' ->
  a ++ " "%char :: b = a' ++ " "%char :: b' -> a = a'.
Proof.
  induction a as [|x a IH]; intros a' b b' Ha Ha' E.
  - destruct a' as [|y a']; [reflexivity|]. cbn in E. inversion E; subst. exfalso. apply Ha'. left. reflexivity.
  - destruct a' as [|y a']; cbn in E; inversion E; subst.
    + exfalso. apply Ha. left. reflexivity.
    + f_equal. apply (IH a' b b'); [intros X; apply Ha; right; exact X | intros X; apply Ha'; right; exact X | assumption].
Qed.
Lemma word_no_blank : forall h, forallb (in_str alnum_) h = true -> ~ In " "%char h.
Proof.
  intros h H Hin. rewrite forallb_forall in H. specialize (H _ Hin). rewrite blank_not_alnum in H. discriminate.
Qed.
Lemma safe_unsigned_char : forall h, word h -> h <> chars_of "unsigned" -> safe (chars_of "unsigned char") h.
Proof.
  intros h [_ Hw] Hd k' E. apply Hd. symmetry.
  apply (first_blank (chars_of "unsigned") h (chars_of "char") k').
  - vm_compute. intuition discriminate.
  - apply word_no_blank. exact Hw.
  - exact E.
Qed.

Lemma basic_fails : forall f p h r, word h -> boundary r -> ~ In h reserved ->
  interp g (S (S f)) BASIC_BODY {| pk := p; rest := sp h r |} = Fail.
Proof.
  intros f p h r Hw Hr Hres. unfold BASIC_BODY. rewrite i_or. cbn [alt_longest].
  assert (D : forall k : string, In (chars_of k) reserved -> chars_of k <> h).
  { intros k Hk E. apply Hres. rewrite <- E. exact Hk. }
  assert (N : forall k : string, ~ In " "%char (chars_of k) -> safe (chars_of k) h) by (intros; apply safe_nospace; assumption).
  rewrite (kw_word_fail f p "void" h r Hw Hr) by (try (apply N; vm_compute; intuition discriminate); apply D; vm_compute; tauto).
  rewrite (kw_word_fail f p "bool" h r Hw Hr) by (try (apply N; vm_compute; intuition discriminate); apply D; vm_compute; tauto).
  rewrite (kw_word_fail f p "unsigned char" h r Hw Hr).
  2:{ apply safe_unsigned_char; [exact Hw|]. intros E. apply Hres. rewrite E. vm_compute. tauto. }
  2:{ intros E. destruct Hw as [_ Hw]. apply (word_no_blank h Hw). rewrite <- E. vm_compute. tauto. }
  rewrite (kw_word_fail f p "char" h r Hw Hr) by (try (apply N; vm_compute; intuition discriminate); apply D; vm_compute; tauto).
  rewrite (kw_word_fail f p "int" h r Hw Hr) by (try (apply N; vm_compute; intuition discriminate); apply D; vm_compute; tauto).
  rewrite (kw_word_fail f p "size_t" h r Hw Hr) by (try (apply N; vm_compute; intuition discriminate); apply D; vm_compute; tauto).
  rewrite (kw_word_fail f p "double" h r Hw Hr) by (try (apply N; vm_compute; intuition discriminate); apply D; vm_compute; tauto).
  rewrite (kw_word_fail f p "float" h r Hw Hr) by (try (apply N; vm_compute; intuition discriminate); apply D; vm_compute; tauto).
  reflexivity.
Qed.

(* ---- the Type rule on a custom (non-basic) type ---- *)
Definition CHOICE : gexpr := GFirst [GName "basic" (GRef "BasicType"); GName "qualified" (GRef "CustomType")].
Definition TYPE_BODY : gexpr := GAnd [GAnd [CONST_OPT; CHOICE]; PTR].
Lemma lookup_Type : lookup g "Type" = Some TYPE_BODY. Proof. reflexivity. Qed.

Lemma render_app : forall a b r, render (a ++ b) r = render a (render b r).
Proof. intros a b r. unfold render. apply fold_right_app. Qed.

Definition const_toks (c : bool) : list chars := if c then [kconst] else [].
Definition const_items (c : bool) : list item := if c then [(["is_const"%string], VStr "const")] else [].

Lemma marker_no_colons : forall k r, follow r -> no_colons (render (marker k) r).
Proof.
  intros k r Hr. destruct k; cbn [marker render fold_right]; [apply follow_no_colons; exact Hr | | |];
    right; eexists; eexists; (split; [reflexivity | split; reflexivity]).
Qed.

Lemma const_opt_ok : forall f p c h r, word h -> boundary r -> h <> kconst ->
  exists p', interp g (S (S (S f))) CONST_OPT {| pk := p; rest := render (const_toks c) (sp h r) |}
             = Match (const_items c) {| pk := p'; rest := sp h r |}.
Proof.
  intros f p c h r Hw Hr Hd. destruct c; cbn [const_toks const_items render fold_right].
  - destruct (const_present f p (sp h r)) as [p1 E]; [right; eexists; reflexivity|]. rewrite E. eexists. reflexivity.
  - rewrite (const_absent f p h r Hw Hr Hd). eexists. reflexivity.
Qed.

Definition custom_items (c : bool) (names : list chars) (k : ptrk) : list item :=
  const_items c ++ [(["qualified"%string], VNode "CustomType" (strs_items names))] ++ marker_items k.

Lemma type_custom_ok : forall f p c h l k r,
  is_ident h = true -> Forall (fun x => is_ident x = true) l -> ~ In h reserved -> follow r -> length l <= f ->
  exists p', interp g (12 + f) (GRef "Type")
               {| pk := p; rest := render (const_toks c ++ path_toks (h :: l) ++ marker k) r |}
             = Match [([], VNode "Type" (custom_items c (h :: l) k))] {| pk := p'; rest := r |}.
Proof.
  intros f p c h l k r Hh Hl Hres Hr Hlen. cbn [Nat.add].
  rewrite (i_ref _ _ "Type" TYPE_BODY lookup_Type). unfold TYPE_BODY. rewrite i_and, seq_cons, i_and, seq_cons.
  rewrite !render_app. rewrite path_toks_cons. cbn [render fold_right]. fold (render (tail_toks l) (render (marker k) r)).
  assert (Hw : word h) by (apply ident_word; exact Hh).
  assert (B : boundary (render (tail_toks l) (render (marker k) r))).
  { apply render_boundary, render_boundary, follow_boundary. exact Hr. }
  assert (Hk : h <> kconst) by (intros E; apply Hres; rewrite E; vm_compute; tauto).
  destruct (const_opt_ok (S (S (S (S (S (S f)))))) p c h _ Hw B Hk) as [p1 E1]. rewrite E1. cbn [app]. rewrite seq_cons.
  (* BasicType fails, CustomType takes the path *)
  unfold CHOICE. rewrite i_first. cbn [alt_first]. rewrite i_name, (i_ref _ _ "BasicType" BASIC_BODY lookup_BasicType).
  rewrite (basic_fails _ p1 h _ Hw B Hres).
  rewrite i_name, (i_ref _ _ "CustomType" TN_BODY lookup_CustomType).
  pose proof (tn_body_ok f p1 h l (render (marker k) r) (marker_no_colons k r Hr) Hh Hl Hlen) as [p2 E2].
  rewrite path_toks_cons in E2. cbn [render fold_right] in E2. fold (render (tail_toks l) (render (marker k) r)) in E2.
  rewrite E2. cbn [map add_name fst snd]. rewrite seq_nil. cbn [app]. rewrite seq_cons.
  destruct (ptr_ok (S (S (S (S (S f))))) p2 k r Hr) as [p3 E3]. rewrite E3, seq_nil.
  unfold custom_items. rewrite <- !app_assoc. cbn [app]. eexists. reflexivity.
Qed.

(* ---- TemplatedType ---- *)
Definition TY : gexpr := GOr [GRef "Type"; GRef "TemplatedType"].
Definition COMMA_TY : gexpr := GAnd [GSup (GTerm (TLit ",")); TY].
Definition PARAMS : gexpr := GName "template_params" (GAnd [TY; GStar COMMA_TY]).
Definition TT_BODY : gexpr :=
  GAnd [GAnd [GAnd [CONST_OPT; GName "typename" (GRef "Typename")];
              GAnd [GAnd [GSup (GTerm (TLit "<")); PARAMS]; GSup (GTerm (TLit ">"))]];
        PTR].
Lemma lookup_TemplatedType : lookup g "TemplatedType" = Some TT_BODY. Proof. reflexivity. Qed.

Definition lt_tok : chars := ["<"%char].
Definition gt_tok : chars := [">"%char].
Definition comma_tok : chars := [","%char].

(* the rule fails on a type that is not followed by "<" *)
Lemma lit1_fail_follow : forall f p (m : ascii) k r, follow r -> cmem m (chars_of "*@&:<") = true ->
  (forall x, marker k = [[x]] -> ceq m x = false) ->
  interp g (S f) (GTerm (TLit (String m EmptyString))) {| pk := p; rest := render (marker k) r |} = Fail.
Proof.
  intros f p m k r Hr Hm Hk. destruct k; cbn [marker render fold_right].
  - apply lit1_not; assumption.
  - apply (lit1_other f p m "*"%char [] r eq_refl). apply Hk. reflexivity.
  - apply (lit1_other f p m "@"%char [] r eq_refl). apply Hk. reflexivity.
  - apply (lit1_other f p m "&"%char [] r eq_refl). apply Hk. reflexivity.
Qed.

Lemma tt_fails_on_plain : forall f p c h l k r,
  is_ident h = true -> Forall (fun x => is_ident x = true) l -> h <> kconst -> follow r -> length l <= f ->
  interp g (12 + f) (GRef "TemplatedType")
         {| pk := p; rest := render (const_toks c ++ path_toks (h :: l) ++ marker k) r |} = Fail.
Proof.
  intros f p c h l k r Hh Hl Hk Hr Hlen. cbn [Nat.add].
  rewrite (i_ref _ _ "TemplatedType" TT_BODY lookup_TemplatedType). unfold TT_BODY.
  rewrite i_and, seq_cons, i_and, seq_cons, i_and, seq_cons.
  rewrite !render_app. rewrite path_toks_cons. cbn [render fold_right]. fold (render (tail_toks l) (render (marker k) r)).
  assert (Hw : word h) by (apply ident_word; exact Hh).
  assert (B : boundary (render (tail_toks l) (render (marker k) r))).
  { apply render_boundary, render_boundary, follow_boundary. exact Hr. }
  destruct (const_opt_ok (S (S (S (S (S f))))) p c h _ Hw B Hk) as [p1 E1]. rewrite E1. cbn [app]. rewrite seq_cons.
  rewrite i_name, (i_ref _ _ "Typename" TN_BODY lookup_Typename).
  pose proof (tn_body_ok f p1 h l (render (marker k) r) (marker_no_colons k r Hr) Hh Hl Hlen) as [p2 E2].
  rewrite path_toks_cons in E2. cbn [render fold_right] in E2. fold (render (tail_toks l) (render (marker k) r)) in E2.
  rewrite E2. rewrite seq_nil. cbn [app]. rewrite seq_cons, i_and, seq_cons, i_and, seq_cons, i_sup.
  rewrite (lit1_fail_follow _ p2 "<"%char k r Hr eq_refl).
  - reflexivity.
  - intros x Hx. destruct k; cbn in Hx; inversion Hx; reflexivity.
Qed.

(* the Type rule on the head of a templated type: it stops before "<" *)
Lemma ptr_none_before_lt : forall f p X,
  interp g (S (S (S (S (S f))))) PTR {| pk := p; rest := sp lt_tok X |} = Match [] {| pk := p; rest := sp lt_tok X |}.
Proof.
  intros f p X. unfold PTR. rewrite i_opt, i_first. cbn [alt_first]. rewrite i_first. cbn [alt_first]. rewrite !i_name.
  unfold lt_tok.
  rewrite (lit1_other f p "*"%char "<"%char [] X eq_refl eq_refl).
  rewrite (lit1_other f p "@"%char "<"%char [] X eq_refl eq_refl).
  rewrite (lit1_other (S f) p "&"%char "<"%char [] X eq_refl eq_refl). reflexivity.
Qed.

Lemma lt_no_colons : forall X, no_colons (sp lt_tok X).
Proof. intros X. right. eexists. eexists. split; [reflexivity | split; reflexivity]. Qed.

Lemma type_on_templated : forall f p c h l X,
  is_ident h = true -> Forall (fun x => is_ident x = true) l -> ~ In h reserved -> length l <= f ->
  exists p', interp g (12 + f) (GRef "Type")
               {| pk := p; rest := render (const_toks c ++ path_toks (h :: l)) (sp lt_tok X) |}
             = Match [([], VNode "Type" (custom_items c (h :: l) PNone))] {| pk := p'; rest := sp lt_tok X |}.
Proof.
  intros f p c h l X Hh Hl Hres Hlen. cbn [Nat.add].
  rewrite (i_ref _ _ "Type" TYPE_BODY lookup_Type). unfold TYPE_BODY. rewrite i_and, seq_cons, i_and, seq_cons.
  rewrite !render_app. rewrite path_toks_cons. cbn [render fold_right]. fold (render (tail_toks l) (sp lt_tok X)).
  assert (Hw : word h) by (apply ident_word; exact Hh).
  assert (B : boundary (render (tail_toks l) (sp lt_tok X))).
  { apply render_boundary. right. eexists. reflexivity. }
  assert (Hk : h <> kconst) by (intros E; apply Hres; rewrite E; vm_compute; tauto).
  destruct (const_opt_ok (S (S (S (S (S (S f)))))) p c h _ Hw B Hk) as [p1 E1]. rewrite E1. cbn [app]. rewrite seq_cons.
  unfold CHOICE. rewrite i_first. cbn [alt_first]. rewrite i_name, (i_ref _ _ "BasicType" BASIC_BODY lookup_BasicType).
  rewrite (basic_fails _ p1 h _ Hw B Hres).
  rewrite i_name, (i_ref _ _ "CustomType" TN_BODY lookup_CustomType).
  pose proof (tn_body_ok f p1 h l (sp lt_tok X) (lt_no_colons X) Hh Hl Hlen) as [p2 E2].
  rewrite path_toks_cons in E2. cbn [render fold_right] in E2. fold (render (tail_toks l) (sp lt_tok X)) in E2.
  rewrite E2. cbn [map add_name fst snd]. rewrite seq_nil. cbn [app]. rewrite seq_cons.
  rewrite (ptr_none_before_lt (S (S (S (S (S f))))) p2 X), seq_nil.
  unfold custom_items. cbn [marker_items]. rewrite <- !app_assoc. cbn [app]. eexists. reflexivity.
Qed.

(* Type ^ TemplatedType on a plain custom type *)
Lemma ty_custom_ok : forall f p c h l k r,
  is_ident h = true -> Forall (fun x => is_ident x = true) l -> ~ In h reserved -> follow r -> length l <= f ->
  exists p', interp g (13 + f) TY
               {| pk := p; rest := render (const_toks c ++ path_toks (h :: l) ++ marker k) r |}
             = Match [([], VNode "Type" (custom_items c (h :: l) k))] {| pk := p'; rest := r |}.
Proof.
  intros f p c h l k r Hh Hl Hres Hr Hlen. cbn [Nat.add]. unfold TY. rewrite i_or. cbn [alt_longest].
  destruct (type_custom_ok f p c h l k r Hh Hl Hres Hr Hlen) as [p1 E1]. cbn [Nat.add] in E1. rewrite E1.
  assert (Hk : h <> kconst) by (intros E; apply Hres; rewrite E; vm_compute; tauto).
  pose proof (tt_fails_on_plain f p c h l k r Hh Hl Hk Hr Hlen) as E2. cbn [Nat.add] in E2. rewrite E2.
  eexists. reflexivity.
Qed.

(* ---- parameter lists: TY ("," TY)* ---- *)
(* a parameter that parses: whatever fuel >= F0, whatever follows *)
Definition parses (F0 : nat) (toks : list chars) (v : value) : Prop :=
  forall f p r, follow r -> F0 <= f ->
    exists p', interp g f TY {| pk := p; rest := render toks r |} = Match [([], v)] {| pk := p'; rest := r |}.

Fixpoint sep_toks (ps : list (list chars)) : list chars :=
  match ps with [] => [] | [t] => t | t :: r => t ++ comma_tok :: sep_toks r end.
Definition more_toks (ps : list (list chars)) : list chars := flat_map (fun t => comma_tok :: t) ps.
Lemma sep_toks_cons : forall t ps, sep_toks (t :: ps) = t ++ more_toks ps.
Proof.
  intros t ps. revert t. induction ps as [|u ps IH]; intros t; [cbn; rewrite app_nil_r; reflexivity|].
  change (sep_toks (t :: u :: ps)) with (t ++ comma_tok :: sep_toks (u :: ps)). rewrite IH. reflexivity.
Qed.

Lemma follow_comma : forall X, follow (sp comma_tok X).
Proof. intros X. right. eexists. eexists. split; [reflexivity | split; reflexivity]. Qed.
Lemma follow_gt : forall X, follow (sp gt_tok X).
Proof. intros X. right. eexists. eexists. split; [reflexivity | split; reflexivity]. Qed.

Definition param_items (vs : list value) : list item := map (fun v => ([], v)) vs.

Lemma params_tail_ok : forall ps vs F0, Forall2 (parses F0) ps vs ->
  forall f k acc p Y, F0 <= f -> length ps <= k ->
  exists p', star (interp g (S (S (S f)))) (S k) COMMA_TY acc {| pk := p; rest := render (more_toks ps) (sp gt_tok Y) |}
             = Match (acc ++ param_items vs) {| pk := p'; rest := sp gt_tok Y |}.
Proof.
  intros ps vs F0 H. induction H as [|t v ps vs Ht Hps IH]; intros f k acc p Y Hf Hk.
  - cbn [more_toks flat_map render fold_right]. rewrite star_S. unfold COMMA_TY. rewrite i_and, seq_cons, i_sup.
    unfold gt_tok. rewrite (lit1_other _ p ","%char ">"%char [] Y eq_refl eq_refl).
    cbn [param_items map]. rewrite app_nil_r. eexists. reflexivity.
  - cbn [length] in Hk. destruct k as [|k]; [lia|].
    change (more_toks (t :: ps)) with ((comma_tok :: t) ++ more_toks ps). rewrite render_app.
    change (render (comma_tok :: t) ?x) with (sp comma_tok (render t x)).
    rewrite star_S. unfold COMMA_TY at 1. rewrite i_and, seq_cons, i_sup.
    destruct (lit1_at f p ","%char (render t (render (more_toks ps) (sp gt_tok Y))) eq_refl) as [p1 E1].
    change (sp [","%char] ?x) with (sp comma_tok x) in E1. rewrite E1. cbn [app]. rewrite seq_cons.
    assert (Fw : follow (render (more_toks ps) (sp gt_tok Y))) by (destruct ps; [apply follow_gt | apply follow_comma]).
    destruct (Ht (S (S f)) p1 _ Fw ltac:(lia)) as [p2 E2]. rewrite E2, seq_nil. cbn [app].
    destruct (IH f k (acc ++ [([], v)]) p2 Y Hf ltac:(lia)) as [p3 E3]. fold COMMA_TY. rewrite E3.
    cbn [param_items map]. rewrite <- app_assoc. eexists. reflexivity.
Qed.

Definition tt_items (c : bool) (names : list chars) (vs : list value) (k : ptrk) : list item :=
  const_items c ++ [(["typename"%string], VNode "Typename" (strs_items names))]
  ++ map (add_name "template_params") (param_items vs) ++ marker_items k.

Definition tt_toks (c : bool) (names : list chars) (ps : list (list chars)) (k : ptrk) : list chars :=
  const_toks c ++ path_toks names ++ [lt_tok] ++ sep_toks ps ++ [gt_tok] ++ marker k.

Lemma tt_ok : forall f p c h l t1 ps v1 vs k r F0,
  is_ident h = true -> Forall (fun x => is_ident x = true) l -> h <> kconst -> follow r ->
  parses F0 t1 v1 -> Forall2 (parses F0) ps vs ->
  length l <= f -> F0 <= f -> length ps <= f ->
  exists p', interp g (12 + f) (GRef "TemplatedType") {| pk := p; rest := render (tt_toks c (h :: l) (t1 :: ps) k) r |}
             = Match [([], VNode "TemplatedType" (tt_items c (h :: l) (v1 :: vs) k))] {| pk := p'; rest := r |}.
Proof.
  intros f p c h l t1 ps v1 vs k r F0 Hh Hl Hk Hr Ht1 Hps Hlen HF Hn. cbn [Nat.add].
  rewrite (i_ref _ _ "TemplatedType" TT_BODY lookup_TemplatedType). unfold TT_BODY.
  rewrite i_and, seq_cons, i_and, seq_cons, i_and, seq_cons.
  unfold tt_toks. rewrite !render_app. rewrite path_toks_cons.
  change (render (h :: tail_toks l) ?x) with (sp h (render (tail_toks l) x)).
  change (render [lt_tok] ?x) with (sp lt_tok x). change (render [gt_tok] ?x) with (sp gt_tok x).
  set (Y := render (marker k) r). set (PS := render (sep_toks (t1 :: ps)) (sp gt_tok Y)).
  assert (Hw : word h) by (apply ident_word; exact Hh).
  assert (B : boundary (render (tail_toks l) (sp lt_tok PS))) by (apply render_boundary; right; eexists; reflexivity).
  destruct (const_opt_ok (S (S (S (S (S f))))) p c h _ Hw B Hk) as [p1 E1]. rewrite E1. cbn [app]. rewrite seq_cons.
  rewrite i_name, (i_ref _ _ "Typename" TN_BODY lookup_Typename).
  pose proof (tn_body_ok f p1 h l (sp lt_tok PS) (lt_no_colons PS) Hh Hl Hlen) as [p2 E2].
  rewrite path_toks_cons in E2. change (render (h :: tail_toks l) ?x) with (sp h (render (tail_toks l) x)) in E2.
  rewrite E2, seq_nil. cbn [app map add_name fst snd]. rewrite seq_cons.
  (* "<" params ">" *)
  rewrite i_and, seq_cons, i_and, seq_cons, i_sup.
  destruct (lit1_at (S (S (S (S (S f))))) p2 "<"%char PS eq_refl) as [p3 E3].
  change (sp ["<"%char] PS) with (sp lt_tok PS) in E3. rewrite E3. cbn [app]. rewrite seq_cons.
  unfold PARAMS. rewrite i_name, i_and, seq_cons.
  unfold PS. rewrite sep_toks_cons, render_app.
  assert (Fw : follow (render (more_toks ps) (sp gt_tok Y))) by (destruct ps; [apply follow_gt | apply follow_comma]).
  destruct (Ht1 (S (S (S (S (S f))))) p3 _ Fw ltac:(lia)) as [p4 E4]. rewrite E4. cbn [app]. rewrite seq_cons, i_star.
  destruct (params_tail_ok ps vs F0 Hps (S f) (S (S (S f))) [] p4 Y ltac:(lia) ltac:(lia)) as [p5 E5].
  rewrite E5, seq_nil. cbn [app]. rewrite seq_nil. cbn [app]. rewrite seq_cons, i_sup.
  destruct (lit1_at (S (S (S (S (S (S f)))))) p5 ">"%char Y eq_refl) as [p6 E6].
  change (sp [">"%char] Y) with (sp gt_tok Y) in E6. rewrite E6, seq_nil. cbn [app]. rewrite seq_nil. cbn [app]. rewrite seq_cons.
  destruct (ptr_ok (S (S (S (S (S f))))) p6 k r Hr) as [p7 E7]. fold Y in E7. rewrite E7, seq_nil.
  unfold tt_items, param_items, add_name. cbn [map fst snd app]. rewrite ?app_nil_r, <- ?app_assoc. cbn [app].
  eexists. reflexivity.
Qed.

Lemma render_len : forall toks r, length r <= length (render toks r).
Proof.
  induction toks as [|t toks IH]; intros r; [apply le_n|]. cbn [render fold_right]. fold (render toks r).
  unfold sp. cbn [length]. rewrite app_length. specialize (IH r). lia.
Qed.

(* Type ^ TemplatedType on a templated type: both match, the templated one is longer *)
Lemma ty_templated_ok : forall f p c h l t1 ps v1 vs k r F0,
  is_ident h = true -> Forall (fun x => is_ident x = true) l -> ~ In h reserved -> follow r ->
  parses F0 t1 v1 -> Forall2 (parses F0) ps vs ->
  length l <= f -> F0 <= f -> length ps <= f ->
  exists p', interp g (13 + f) TY {| pk := p; rest := render (tt_toks c (h :: l) (t1 :: ps) k) r |}
             = Match [([], VNode "TemplatedType" (tt_items c (h :: l) (v1 :: vs) k))] {| pk := p'; rest := r |}.
Proof.
  intros f p c h l t1 ps v1 vs k r F0 Hh Hl Hres Hr Ht1 Hps Hlen HF Hn. cbn [Nat.add]. unfold TY. rewrite i_or. cbn [alt_longest].
  assert (Hk : h <> kconst) by (intros E; apply Hres; rewrite E; vm_compute; tauto).
  (* the Type alternative *)
  assert (T : render (tt_toks c (h :: l) (t1 :: ps) k) r
              = render (const_toks c ++ path_toks (h :: l)) (sp lt_tok (render (sep_toks (t1 :: ps) ++ [gt_tok] ++ marker k) r))).
  { unfold tt_toks. rewrite !render_app. reflexivity. }
  destruct (type_on_templated f p c h l (render (sep_toks (t1 :: ps) ++ [gt_tok] ++ marker k) r) Hh Hl Hres Hlen) as [p1 E1].
  cbn [Nat.add] in E1. rewrite T, E1. rewrite <- T.
  destruct (tt_ok f p c h l t1 ps v1 vs k r F0 Hh Hl Hk Hr Ht1 Hps Hlen HF Hn) as [p2 E2]. cbn [Nat.add] in E2. rewrite E2.
  cbn [rest].
  assert (L : Nat.ltb (length r) (length (sp lt_tok (render (sep_toks (t1 :: ps) ++ [gt_tok] ++ marker k) r))) = true).
  { apply Nat.ltb_lt. unfold sp. cbn [length]. rewrite app_length. pose proof (render_len (sep_toks (t1 :: ps) ++ [gt_tok] ++ marker k) r). cbn [length]. lia. }
  rewrite L. eexists. reflexivity.
Qed.

(* ---------- basic types ---------- *)
Definition basics1 : list string := ["void"; "bool"; "char"; "int"; "size_t"; "double"; "float"]%string.

Ltac kw_step p r Hw Hr k :=
  match goal with
  | |- context [run_term (TKw k) {| pk := p; rest := sp (chars_of ?b) r |}] =>
    let Hm := fresh "Hm" in let Hf := fresh "Hf" in
    destruct (kw_on_word p (chars_of k) (chars_of b) r Hw Hr) as [Hm Hf];
    [ first [ apply safe_nospace; vm_compute; intuition discriminate
            | apply safe_unsigned_char; [exact Hw | vm_compute; discriminate] ]
    | rewrite (string_chars k) in Hm, Hf;
      first [ rewrite (Hf ltac:(vm_compute; discriminate))
            | let p' := fresh "p" in let E := fresh "E" in destruct (Hm eq_refl) as [p' E]; rewrite E ];
      clear Hm Hf ]
  end.

Lemma basic_one_word : forall f p (b : string) r, In b basics1 -> boundary r ->
  MatchTo (interp g (S (S f)) BASIC_BODY {| pk := p; rest := sp (chars_of b) r |}) [([], VStr b)] r.
Proof.
  intros f p b r Hb Hr. unfold BASIC_BODY. rewrite i_or. cbn [alt_longest]. rewrite !i_term.
  assert (Hw : word (chars_of b)).
  { cbn in Hb. repeat (destruct Hb as [E|Hb]; [subst b; split; [discriminate | reflexivity]|]). destruct Hb. }
  cbn in Hb.
  repeat (destruct Hb as [E|Hb];
          [ subst b;
            kw_step p r Hw Hr "void"%string; kw_step p r Hw Hr "bool"%string; kw_step p r Hw Hr "unsigned char"%string;
            kw_step p r Hw Hr "char"%string; kw_step p r Hw Hr "int"%string; kw_step p r Hw Hr "size_t"%string;
            kw_step p r Hw Hr "double"%string; kw_step p r Hw Hr "float"%string;
            eexists; reflexivity | ]).
  destruct Hb.
Qed.

Definition basic_items (c : bool) (b : string) (k : ptrk) : list item :=
  const_items c ++ [(["basic"%string], VNode "BasicType" [([], VStr b)])] ++ marker_items k.

Lemma basic_ident : forall b, In b basics1 -> is_ident (chars_of b) = true /\ chars_of b <> kconst.
Proof. intros b Hb. cbn in Hb. repeat (destruct Hb as [E|Hb]; [subst b; split; [reflexivity | discriminate]|]). destruct Hb. Qed.

Lemma type_basic_ok : forall f p c (b : string) k r, In b basics1 -> follow r ->
  exists p', interp g (12 + f) (GRef "Type") {| pk := p; rest := render (const_toks c ++ path_toks [chars_of b] ++ marker k) r |}
             = Match [([], VNode "Type" (basic_items c b k))] {| pk := p'; rest := r |}.
Proof.
  intros f p c b k r Hb Hr. cbn [Nat.add]. destruct (basic_ident b Hb) as [Hi Hk].
  rewrite (i_ref _ _ "Type" TYPE_BODY lookup_Type). unfold TYPE_BODY. rewrite i_and, seq_cons, i_and, seq_cons.
  rewrite !render_app. cbn [path_toks]. change (render [chars_of b] ?x) with (sp (chars_of b) x).
  assert (Hw : word (chars_of b)) by (apply ident_word; exact Hi).
  assert (B : boundary (render (marker k) r)) by (apply render_boundary, follow_boundary; exact Hr).
  destruct (const_opt_ok (S (S (S (S (S (S f)))))) p c _ _ Hw B Hk) as [p1 E1]. rewrite E1. cbn [app]. rewrite seq_cons.
  unfold CHOICE. rewrite i_first. cbn [alt_first]. rewrite i_name, (i_ref _ _ "BasicType" BASIC_BODY lookup_BasicType).
  destruct (basic_one_word (S (S (S (S f)))) p1 b _ Hb B) as [p2 E2]. rewrite E2. cbn [map add_name fst snd].
  rewrite seq_nil. cbn [app]. rewrite seq_cons.
  destruct (ptr_ok (S (S (S (S (S f))))) p2 k r Hr) as [p3 E3]. rewrite E3, seq_nil.
  unfold basic_items. rewrite <- !app_assoc. cbn [app]. eexists. reflexivity.
Qed.

Lemma ty_basic_ok : forall f p c (b : string) k r, In b basics1 -> follow r ->
  exists p', interp g (13 + f) TY {| pk := p; rest := render (const_toks c ++ path_toks [chars_of b] ++ marker k) r |}
             = Match [([], VNode "Type" (basic_items c b k))] {| pk := p'; rest := r |}.
Proof.
  intros f p c b k r Hb Hr. cbn [Nat.add]. unfold TY. rewrite i_or. cbn [alt_longest].
  destruct (type_basic_ok f p c b k r Hb Hr) as [p1 E1]. cbn [Nat.add] in E1. rewrite E1.
  destruct (basic_ident b Hb) as [Hi Hk].
  pose proof (tt_fails_on_plain f p c (chars_of b) [] k r Hi (Forall_nil _) Hk Hr (Nat.le_0_l _)) as E2. cbn [Nat.add] in E2.
  rewrite E2. eexists. reflexivity.
Qed.

(* ---------- types of the parse tree ---------- *)
Definition names_of (ns : list string) (n : string) : list chars := map chars_of (ns ++ [n]).

Fixpoint ty_toks (t : ty) : list chars :=
  match t with
  | TPlain (Typename ns (NStr n) _) c k _ => const_toks c ++ path_toks (names_of ns n) ++ marker k
  | TTempl ns (NStr n) ps c k => tt_toks c (names_of ns n) (map ty_toks ps) k
  | _ => []
  end.

Fixpoint ty_value (t : ty) : value :=
  match t with
  | TPlain (Typename ns (NStr n) _) c k basic =>
    VNode "Type" (if basic then basic_items c n k else custom_items c (names_of ns n) k)
  | TTempl ns (NStr n) ps c k => VNode "TemplatedType" (tt_items c (names_of ns n) (map ty_value ps) k)
  | _ => VStr ""
  end.

Definition path_ok (ns : list string) (n : string) : Prop :=
  Forall (fun x => is_ident x = true) (names_of ns n) /\ ~ In (hd [] (names_of ns n)) reserved.

(* types of any depth: a one-word basic type, or identifiers on the path with the first of them no keyword of the
   dialect; at least one template argument *)
Fixpoint wf_ty (t : ty) : Prop :=
  match t with
  | TPlain (Typename ns (NStr n) insts) _ _ basic =>
    insts = [] /\ (if basic then ns = [] /\ In n basics1 else path_ok ns n)
  | TTempl ns (NStr n) ps _ _ =>
    path_ok ns n /\ ps <> [] /\ (fix all (l : list ty) : Prop := match l with [] => True | x :: r => wf_ty x /\ all r end) ps
  | _ => False
  end.

Fixpoint depth (t : ty) : nat :=
  match t with
  | TTempl _ _ ps _ _ => S (fold_right (fun x acc => Nat.max (depth x) acc) 0 ps)
  | _ => 0
  end.
Fixpoint fuel_of (t : ty) : nat :=
  match t with
  | TPlain (Typename ns _ _) _ _ _ => 13 + length ns
  | TTempl ns _ ps _ _ => 13 + length ns + length ps + fold_right (fun x acc => fuel_of x + acc) 0 ps
  end.

Lemma names_of_cons : forall ns n, exists h l, names_of ns n = h :: l /\ length l = length ns.
Proof.
  intros ns n. unfold names_of. destruct ns as [|a ns]; cbn [app map].
  - exists (chars_of n), []. split; reflexivity.
  - exists (chars_of a), (map chars_of (ns ++ [n])). split; [reflexivity|]. rewrite map_length, app_length. cbn. lia.
Qed.

Lemma parses_mono : forall F1 F2 toks v, parses F1 toks v -> F1 <= F2 -> parses F2 toks v.
Proof. intros F1 F2 toks v H HF f p r Hr Hf. apply H; [exact Hr | lia]. Qed.

Lemma wf_all : forall ps, (fix all (l : list ty) : Prop := match l with [] => True | x :: r => wf_ty x /\ all r end) ps ->
  Forall wf_ty ps.
Proof. induction ps as [|x r IH]; intros H; [constructor|]. destruct H as [H1 H2]. constructor; [exact H1 | apply IH; exact H2]. Qed.

Lemma sum_ge : forall (ps : list ty) x, In x ps -> fuel_of x <= fold_right (fun y acc => fuel_of y + acc) 0 ps.
Proof. induction ps as [|y r IH]; intros x H; [destruct H|]. cbn [fold_right]. destruct H as [E|H]; [subst; lia | specialize (IH x H); lia]. Qed.
Lemma max_ge : forall (ps : list ty) x, In x ps -> depth x <= fold_right (fun y acc => Nat.max (depth y) acc) 0 ps.
Proof. induction ps as [|y r IH]; intros x H; [destruct H|]. cbn [fold_right]. destruct H as [E|H]; [subst; lia | specialize (IH x H); lia]. Qed.

(* every well-formed type parses back to its match tree, with fuel_of t or more fuel *)
Theorem ty_parses : forall n t, depth t < n -> wf_ty t -> parses (fuel_of t) (ty_toks t) (ty_value t).
Proof.
  induction n as [|n IH]; intros t Hd Hw; [lia|].
  destruct t as [[ns [nm|o] insts] c k basic | ns [nm|o] ps c k]; cbn [wf_ty] in Hw; try contradiction.
  - (* plain *)
    destruct Hw as [Hi Hb]. subst insts. destruct basic.
    + destruct Hb as [Hns Hin]. subst ns. cbn [ty_toks ty_value fuel_of names_of app map].
      intros f p r Hr Hf. assert (X : exists f', f = 13 + f') by (exists (f - 13); cbn [length] in Hf; lia).
      destruct X as [f' Ef]. subst f. apply ty_basic_ok; assumption.
    + destruct Hb as [Hp Hres].
      destruct (names_of_cons ns nm) as [h [l [E Hl]]]. cbn [ty_toks ty_value fuel_of]. rewrite E in *. cbn [hd] in Hres.
      inversion Hp as [|? ? Hh Hrest]; subst.
      intros f p r Hr Hf. assert (X : exists f', f = 13 + f' /\ length l <= f') by (exists (f - 13); split; lia).
      destruct X as [f' [Ef Hlen]]. subst f. apply ty_custom_ok; assumption.
  - (* templated *)
    destruct Hw as [[Hp Hres] [Hne Hall]]. apply wf_all in Hall.
    destruct (names_of_cons ns nm) as [h [l [E Hl]]]. cbn [ty_toks ty_value fuel_of]. rewrite E in *. cbn [hd] in Hres.
    inversion Hp as [|? ? Hh Hrest]; subst.
    destruct ps as [|t1 ps]; [contradiction|]. cbn [map].
    set (F0 := fold_right (fun x acc => fuel_of x + acc) 0 (t1 :: ps)).
    assert (Hsub : forall x, In x (t1 :: ps) -> parses F0 (ty_toks x) (ty_value x)).
    { intros x Hx. apply (parses_mono (fuel_of x)); [|apply sum_ge; exact Hx].
      apply IH; [|rewrite Forall_forall in Hall; apply Hall; exact Hx].
      cbn [depth] in Hd. pose proof (max_ge (t1 :: ps) x Hx). lia. }
    assert (H1 : parses F0 (ty_toks t1) (ty_value t1)) by (apply Hsub; left; reflexivity).
    assert (H2 : Forall2 (parses F0) (map ty_toks ps) (map ty_value ps)).
    { assert (Hs2 : forall x, In x ps -> parses F0 (ty_toks x) (ty_value x)) by (intros x Hx; apply Hsub; right; exact Hx).
      clearbody F0. clear - Hs2. induction ps as [|x r IHr]; [constructor|]. cbn [map]. constructor; [apply Hs2; left; reflexivity|].
      apply IHr. intros y Hy. apply Hs2. right. exact Hy. }
    intros f p r Hr Hf.
    assert (X : exists f', f = 13 + f' /\ length l <= f' /\ F0 <= f' /\ length (map ty_toks ps) <= f').
    { exists (f - 13). rewrite map_length. cbn [length] in Hf. fold F0 in Hf. repeat split; lia. }
    destruct X as [f' [Ef [Hlen [HF Hn]]]]. subst f. apply (ty_templated_ok f' p c h l _ _ _ _ k r F0); assumption.
Qed.

(* ---------- the node constructors rebuild the type ---------- *)
Lemma strs_strs_items : forall l, strs (strs_items l) = map string_of l.
Proof. induction l as [|x r IH]; [reflexivity|]. unfold strs, strs_items in *. cbn [map flat_map snd app]. rewrite IH. reflexivity. Qed.
Lemma map_string_chars : forall l, map string_of (map chars_of l) = l.
Proof. induction l as [|x r IH]; [reflexivity|]. cbn [map]. rewrite string_chars, IH. reflexivity. Qed.
Lemma typename_of_path : forall ns n, typename_of_strs (ns ++ [n]) = Ok (Typename ns (NStr n) []).
Proof. intros ns n. unfold typename_of_strs. rewrite rev_app_distr. cbn [rev app]. rewrite rev_involutive. reflexivity. Qed.

Lemma named_app : forall n a b, named n (a ++ b) = named n a ++ named n b.
Proof. intros n a b. unfold named. rewrite filter_app, map_app. reflexivity. Qed.
Lemma named_params : forall vs, named "template_params" (map (add_name "template_params") (param_items vs)) = vs.
Proof. induction vs as [|v r IH]; [reflexivity|]. unfold named, param_items in *. cbn [map filter has_name add_name fst snd existsb String.eqb Ascii.eqb Bool.eqb orb]. cbn. f_equal. exact IH. Qed.

Lemma custom_items_flags : forall c names k,
  first_named "basic" (custom_items c names k) = None /\
  first_named "qualified" (custom_items c names k) = Some (VNode "CustomType" (strs_items names)) /\
  flag "is_const" (custom_items c names k) = c /\ b_ptr (custom_items c names k) = k.
Proof. intros c names k. destruct c, k; repeat split; reflexivity. Qed.

Lemma tt_items_flags : forall c names vs k,
  first_named "typename" (tt_items c names vs k) = Some (VNode "Typename" (strs_items names)) /\
  named "template_params" (tt_items c names vs k) = vs /\
  flag "is_const" (tt_items c names vs k) = c /\ b_ptr (tt_items c names vs k) = k.
Proof.
  intros c names vs k. unfold tt_items. repeat split.
  - destruct c; reflexivity.
  - rewrite !named_app, named_params. destruct c, k; cbn; rewrite ?app_nil_r; reflexivity.
  - unfold flag. rewrite !named_app. destruct c; cbn [const_items named filter map has_name existsb fst snd app].
    + reflexivity.
    + cbn. assert (N : named "is_const" (map (add_name "template_params") (param_items vs)) = []).
      { clear. induction vs as [|v r IH]; [reflexivity|]. unfold named, param_items in *. cbn. exact IH. }
      rewrite N. destruct k; reflexivity.
  - unfold b_ptr, flag. rewrite !named_app.
    assert (N : forall n, n <> "template_params"%string -> named n (map (add_name "template_params") (param_items vs)) = []).
    { intros n Hn. clear - Hn. induction vs as [|v r IH]; [reflexivity|]. unfold named, param_items in *.
      cbn [map filter has_name add_name fst snd existsb]. destruct (String.eqb_spec n "template_params"); [contradiction|].
      cbn [orb]. exact IH. }
    rewrite !N by discriminate. destruct c, k; reflexivity.
Qed.

Lemma mapM_ok : forall (A B : Type) (f : A -> res B) (l : list A) (l' : list B),
  Forall2 (fun x y => f x = Ok y) l l' -> mapM f l = Ok l'.
Proof. intros A B f l l' H. induction H as [|x y l l' Hx Hl IH]; [reflexivity|]. cbn [mapM]. rewrite Hx. cbn [bind]. rewrite IH. reflexivity. Qed.

Theorem ty_rebuilt : forall n t, depth t < n -> wf_ty t -> b_ty n (ty_value t) = Ok t.
Proof.
  induction n as [|n IH]; intros t Hd Hw; [lia|].
  destruct t as [[ns [nm|o] insts] c k basic | ns [nm|o] ps c k]; cbn [wf_ty] in Hw; try contradiction.
  - destruct Hw as [Hi Hb]. subst insts. cbn [ty_value b_ty]. destruct basic.
    + destruct Hb as [Hns _]. subst ns.
      change (String.eqb "Type" "Type") with true. cbn iota.
      assert (B : first_named "basic" (basic_items c nm k) = Some (VNode "BasicType" [([], VStr nm)]) /\
                  flag "is_const" (basic_items c nm k) = c /\ b_ptr (basic_items c nm k) = k)
        by (destruct c, k; repeat split; reflexivity).
      destruct B as [E1 [E3 E4]]. rewrite E1, E3, E4. reflexivity.
    + destruct (custom_items_flags c (names_of ns nm) k) as [E1 [E2 [E3 E4]]].
      change (String.eqb "Type" "Type") with true. cbn iota. rewrite E1, E2, E3, E4.
      unfold b_typename. rewrite strs_strs_items. unfold names_of. rewrite map_string_chars, typename_of_path. reflexivity.
  - destruct Hw as [_ [_ Hall]]. apply wf_all in Hall. cbn [ty_value b_ty].
    destruct (tt_items_flags c (names_of ns nm) (map ty_value ps) k) as [E1 [E2 [E3 E4]]].
    change (String.eqb "TemplatedType" "Type") with false. change (String.eqb "TemplatedType" "TemplatedType") with true. cbn iota.
    rewrite E1, E2, E3, E4. unfold b_typename. rewrite strs_strs_items. unfold names_of. rewrite map_string_chars, typename_of_path.
    cbn [bind].
    assert (M : mapM (b_ty n) (map ty_value ps) = Ok ps).
    { apply mapM_ok. cbn [depth] in Hd. clear - IH Hd Hall.
      induction ps as [|x r IHr]; [constructor|]. cbn [map]. inversion Hall; subst. constructor.
      - apply IH; [cbn [fold_right] in Hd; lia | assumption].
      - apply IHr; [cbn [fold_right] in Hd; lia | assumption]. }
    rewrite M. reflexivity.
Qed.

(* ---------- C01, for types ---------- *)
Theorem type_roundtrip : forall t, wf_ty t -> depth t < depth_fuel -> forall p r f, follow r -> fuel_of t <= f ->
  exists v p', interp g f TY {| pk := p; rest := render (ty_toks t) r |} = Match [([], v)] {| pk := p'; rest := r |}
               /\ b_type v = Ok t.
Proof.
  intros t Hw Hd p r f Hr Hf. destruct (ty_parses (S (depth t)) t (Nat.lt_succ_diag_r _) Hw f p r Hr Hf) as [p' E].
  exists (ty_value t), p'. split; [exact E|]. unfold b_type. apply ty_rebuilt; assumption.
Qed.


(* ====================== arguments and argument lists (without default values) ====================== *)
Definition ARG_BODY : gexpr :=
  GAnd [GAnd [GName "ctype" TY; GName "name" IDENT]; GName "default" (GOpt (GAnd [GSup (GTerm (TLit "=")); GTerm TDefault]))].
Lemma lookup_Argument : lookup g "Argument" = Some ARG_BODY. Proof. reflexivity. Qed.

Definition rparen : chars := [")"%char].
(* what follows an argument: "," or ")" *)
Definition after_arg (r : chars) : Prop := exists X, r = sp comma_tok X \/ r = sp rparen X.

Lemma ident_first_alpha : forall n, is_ident n = true -> exists c w, n = c :: w /\ in_str alpha_ c = true.
Proof. intros [|c w] H; [discriminate|]. cbn [is_ident] in H. apply andb_true_iff in H. exists c, w. tauto. Qed.

Lemma alpha_not_special : forall c, in_str alpha_ c = true -> cmem c (chars_of "*@&:<") = false.
Proof.
  intros c H. unfold in_str, cmem in H. apply existsb_exists in H. destruct H as [z [Hz E]].
  apply ceq_eq in E. subst z. revert Hz. vm_compute. intuition (subst; reflexivity).
Qed.

Lemma follow_ident : forall n r, is_ident n = true -> follow (sp n r).
Proof.
  intros n r H. destruct (ident_first_alpha n H) as [c [w [E Hc]]]. subst n. right. exists c, (w ++ r).
  split; [reflexivity|]. split; [apply alnum_solid, alpha_alnum; exact Hc | apply alpha_not_special; exact Hc].
Qed.

Lemma after_arg_boundary : forall r, after_arg r -> boundary r.
Proof. intros r [X [E|E]]; subst; right; eexists; reflexivity. Qed.

Lemma eq_fails_after_arg : forall f p r, after_arg r ->
  interp g (S f) (GTerm (TLit "=")) {| pk := p; rest := r |} = Fail.
Proof. intros f p r [X [E|E]]; subst r; [apply (lit1_other f p "="%char ","%char [] X) | apply (lit1_other f p "="%char ")"%char [] X)]; reflexivity. Qed.

Definition arg_value (v : value) (n : chars) : value :=
  VNode "Argument" [(["ctype"%string], v); (["name"%string], VStr (string_of n))].

Lemma arg_ok : forall F0 toks v n, parses F0 toks v -> is_ident n = true ->
  forall f p r, after_arg r -> F0 <= f ->
  exists p', interp g (5 + f) (GRef "Argument") {| pk := p; rest := render (toks ++ [n]) r |}
             = Match [([], arg_value v n)] {| pk := p'; rest := r |}.
Proof.
  intros F0 toks v n Hp Hn f p r Hr Hf. cbn [Nat.add].
  rewrite (i_ref _ _ "Argument" ARG_BODY lookup_Argument). unfold ARG_BODY. rewrite i_and, seq_cons, i_and, seq_cons, i_name.
  rewrite render_app. change (render [n] r) with (sp n r).
  destruct (Hp (S f) p (sp n r) (follow_ident n r Hn) ltac:(lia)) as [p1 E1]. rewrite E1. cbn [map add_name fst snd app].
  rewrite seq_cons, i_name.
  destruct f as [|f]; [| ].
  { (* F0 = 0 cannot parse: at fuel 0 the interpreter has no answer *)
    destruct (Hp 0 p (sp n r) (follow_ident n r Hn) (Nat.le_trans _ _ _ Hf (Nat.le_refl 0))) as [p0 E0]. discriminate. }
  destruct (IDENT_ok f p1 n r Hn (after_arg_boundary r Hr)) as [p2 E2]. rewrite E2. cbn [map add_name fst snd]. rewrite seq_nil. cbn [app].
  rewrite seq_cons, i_name, i_opt, i_and, seq_cons, i_sup.
  destruct f as [|f].
  { destruct (Hp 1 p (sp n r) (follow_ident n r Hn) ltac:(lia)) as [p0 E0]. unfold TY in E0. rewrite i_or in E0. cbn [alt_longest] in E0.
    discriminate. }
  rewrite (eq_fails_after_arg f p2 r Hr), seq_nil. unfold arg_value. eexists. reflexivity.
Qed.

(* ---- argument lists ---- *)
Definition arg_parses (F0 : nat) (atoks : list chars) (av : value) : Prop :=
  forall f p r, after_arg r -> F0 <= f ->
    exists p', interp g f (GRef "Argument") {| pk := p; rest := render atoks r |} = Match [([], av)] {| pk := p'; rest := r |}.

Lemma arg_parses_of : forall F0 toks v n, parses F0 toks v -> is_ident n = true -> arg_parses (5 + F0) (toks ++ [n]) (arg_value v n).
Proof.
  intros F0 toks v n Hp Hn f p r Hr Hf. assert (X : exists f', f = 5 + f' /\ F0 <= f') by (exists (f - 5); lia).
  destruct X as [f' [E Hf']]. subst f. apply (arg_ok F0 toks v n Hp Hn f' p r Hr Hf').
Qed.

Definition COMMA_ARG : gexpr := GAnd [GSup (GTerm (TLit ",")); GRef "Argument"].
Definition ARGS_BODY : gexpr := GOpt (GName "args_list" (GAnd [GRef "Argument"; GStar COMMA_ARG])).
Lemma lookup_ArgumentList : lookup g "ArgumentList" = Some ARGS_BODY. Proof. reflexivity. Qed.

Definition more_args (l : list (list chars)) : list chars := flat_map (fun t => comma_tok :: t) l.
Lemma after_arg_more : forall l X, after_arg (render (more_args l) (sp rparen X)).
Proof. intros [|t l] X; [exists X; right; reflexivity | eexists; left; reflexivity]. Qed.

Lemma args_tail_ok : forall l vs F0, Forall2 (arg_parses F0) l vs ->
  forall f k acc p X, F0 <= f -> length l <= k ->
  exists p', star (interp g (S (S (S f)))) (S k) COMMA_ARG acc {| pk := p; rest := render (more_args l) (sp rparen X) |}
             = Match (acc ++ param_items vs) {| pk := p'; rest := sp rparen X |}.
Proof.
  intros l vs F0 H. induction H as [|t v l vs Ht Hl IH]; intros f k acc p X Hf Hk.
  - cbn [more_args flat_map render fold_right]. rewrite star_S. unfold COMMA_ARG. rewrite i_and, seq_cons, i_sup.
    unfold rparen. rewrite (lit1_other _ p ","%char ")"%char [] X eq_refl eq_refl).
    cbn [param_items map]. rewrite app_nil_r. eexists. reflexivity.
  - cbn [length] in Hk. destruct k as [|k]; [lia|].
    change (more_args (t :: l)) with ((comma_tok :: t) ++ more_args l). rewrite render_app.
    change (render (comma_tok :: t) ?x) with (sp comma_tok (render t x)).
    rewrite star_S. unfold COMMA_ARG at 1. rewrite i_and, seq_cons, i_sup.
    destruct (lit1_at f p ","%char (render t (render (more_args l) (sp rparen X))) eq_refl) as [p1 E1].
    change (sp [","%char] ?x) with (sp comma_tok x) in E1. rewrite E1. cbn [app]. rewrite seq_cons.
    destruct (Ht (S (S f)) p1 _ (after_arg_more l X) ltac:(lia)) as [p2 E2]. rewrite E2, seq_nil. cbn [app].
    destruct (IH f k (acc ++ [([], v)]) p2 X Hf ltac:(lia)) as [p3 E3]. fold COMMA_ARG. rewrite E3.
    cbn [param_items map]. rewrite <- app_assoc. eexists. reflexivity.
Qed.

Definition sep_args (l : list (list chars)) : list chars :=
  match l with [] => [] | t :: r => t ++ more_args r end.
Definition args_value (vs : list value) : value :=
  VNode "ArgumentList" (map (add_name "args_list") (param_items vs)).

Lemma args_nonempty_ok : forall t l v vs F0, arg_parses F0 t v -> Forall2 (arg_parses F0) l vs ->
  forall f p X, F0 <= f -> length l <= f ->
  exists p', interp g (8 + f) (GRef "ArgumentList") {| pk := p; rest := render (sep_args (t :: l)) (sp rparen X) |}
             = Match [([], args_value (v :: vs))] {| pk := p'; rest := sp rparen X |}.
Proof.
  intros t l v vs F0 Ht Hl f p X Hf Hn. cbn [Nat.add].
  rewrite (i_ref _ _ "ArgumentList" ARGS_BODY lookup_ArgumentList). unfold ARGS_BODY. rewrite i_opt, i_name, i_and, seq_cons.
  cbn [sep_args]. rewrite render_app.
  destruct (Ht (S (S (S (S f)))) p _ (after_arg_more l X) ltac:(lia)) as [p1 E1]. rewrite E1. cbn [app]. rewrite seq_cons, i_star.
  destruct (args_tail_ok l vs F0 Hl f (S (S f)) [] p1 X Hf ltac:(lia)) as [p2 E2]. rewrite E2, seq_nil. cbn [app].
  unfold args_value. cbn [param_items map]. eexists. reflexivity.
Qed.

(* ---- the empty list: Type ^ TemplatedType does not start at ")" ---- *)
Lemma kw_fail_first : forall f p (k : string) c t r, solid c = true ->
  match chars_of k with d :: _ => ceq d c = false | [] => False end ->
  interp g (S f) (GTerm (TKw k)) {| pk := p; rest := sp (c :: t) r |} = Fail.
Proof.
  intros f p k c t r Hs Hd. rewrite i_term. unfold run_term. cbn [pre_term]. rewrite (pre_sp p c t r Hs). cbn [rest app].
  destruct (chars_of k) as [|d k']; [contradiction|]. cbn [prefix]. rewrite Hd. reflexivity.
Qed.

Lemma ident_fails_at_rparen : forall f p X, interp g (S (S f)) IDENT {| pk := p; rest := sp rparen X |} = Fail.
Proof. intros f p X. apply (IDENT_fail f p ")"%char [] X); reflexivity. Qed.

Lemma ty_fails_at_rparen : forall f p X, interp g (12 + f) TY {| pk := p; rest := sp rparen X |} = Fail.
Proof.
  intros f p X. cbn [Nat.add]. unfold TY. rewrite i_or. cbn [alt_longest].
  (* Type *)
  rewrite (i_ref _ _ "Type" TYPE_BODY lookup_Type). unfold TYPE_BODY. rewrite i_and, seq_cons, i_and, seq_cons.
  unfold CONST_OPT. rewrite i_opt, i_name. unfold rparen.
  rewrite (kw_fail_first _ p "const" ")"%char [] X eq_refl eq_refl). rewrite seq_cons.
  unfold CHOICE. rewrite i_first. cbn [alt_first]. rewrite i_name, (i_ref _ _ "BasicType" BASIC_BODY lookup_BasicType).
  unfold BASIC_BODY. rewrite i_or. cbn [alt_longest].
  rewrite !(kw_fail_first _ p _ ")"%char [] X eq_refl) by reflexivity.
  rewrite i_name, (i_ref _ _ "CustomType" TN_BODY lookup_CustomType). unfold TN_BODY. rewrite i_and, seq_cons.
  rewrite (ident_fails_at_rparen _ p X).
  (* TemplatedType *)
  rewrite (i_ref _ _ "TemplatedType" TT_BODY lookup_TemplatedType). unfold TT_BODY.
  rewrite i_and, seq_cons, i_and, seq_cons, i_and, seq_cons. unfold CONST_OPT. rewrite i_opt, i_name.
  rewrite (kw_fail_first _ p "const" ")"%char [] X eq_refl eq_refl). rewrite seq_cons.
  rewrite i_name, (i_ref _ _ "Typename" TN_BODY lookup_Typename). unfold TN_BODY. rewrite i_and, seq_cons.
  rewrite (ident_fails_at_rparen _ p X). reflexivity.
Qed.

Lemma args_empty_ok : forall f p X,
  interp g (20 + f) (GRef "ArgumentList") {| pk := p; rest := sp rparen X |}
  = Match [([], args_value [])] {| pk := p; rest := sp rparen X |}.
Proof.
  intros f p X. cbn [Nat.add].
  rewrite (i_ref _ _ "ArgumentList" ARGS_BODY lookup_ArgumentList). unfold ARGS_BODY. rewrite i_opt, i_name, i_and, seq_cons.
  rewrite (i_ref _ _ "Argument" ARG_BODY lookup_Argument). unfold ARG_BODY. rewrite i_and, seq_cons, i_and, seq_cons, i_name.
  pose proof (ty_fails_at_rparen f p X) as E. cbn [Nat.add] in E. rewrite E. reflexivity.
Qed.

(* ---- C01 for argument lists ---- *)
Definition wf_arg (a : ty * string) : Prop := wf_ty (fst a) /\ depth (fst a) < depth_fuel /\ is_ident (chars_of (snd a)) = true.
Definition one_arg_toks (a : ty * string) : list chars := ty_toks (fst a) ++ [chars_of (snd a)].
Definition one_arg_value (a : ty * string) : value := arg_value (ty_value (fst a)) (chars_of (snd a)).
Definition args_toks (args : list (ty * string)) : list chars := sep_args (map one_arg_toks args).
Definition mk_arg (a : ty * string) : arg := {| a_ty := fst a; a_name := snd a; a_default := None |}.
Definition args_fuel (args : list (ty * string)) : nat :=
  20 + length args + fold_right (fun a acc => 5 + fuel_of (fst a) + acc) 0 args.

Lemma arg_parses_mono : forall F1 F2 t v, arg_parses F1 t v -> F1 <= F2 -> arg_parses F2 t v.
Proof. intros F1 F2 t v H HF f p r Hr Hf. apply H; [exact Hr | lia]. Qed.

Lemma named_args : forall vs, named "args_list" (map (add_name "args_list") (param_items vs)) = vs.
Proof. induction vs as [|v r IH]; [reflexivity|]. unfold named, param_items in *. cbn. f_equal. exact IH. Qed.

Lemma b_arg_ok : forall a, wf_arg a -> b_arg (one_arg_value a) = Ok (mk_arg a).
Proof.
  intros [t n] [Hw [Hd Hn]]. cbn [fst snd] in *. unfold one_arg_value, arg_value, b_arg. cbn [fst snd].
  change (first_named "ctype" [(["ctype"%string], ty_value t); (["name"%string], VStr (string_of (chars_of n)))]) with (Some (ty_value t)).
  change (first_named "name" [(["ctype"%string], ty_value t); (["name"%string], VStr (string_of (chars_of n)))]) with (Some (VStr (string_of (chars_of n)))).
  cbn iota. unfold b_type. rewrite (ty_rebuilt depth_fuel t Hd Hw). cbn [bind]. rewrite string_chars. reflexivity.
Qed.

Theorem arglist_roundtrip : forall args, Forall wf_arg args -> forall p X f, args_fuel args <= f ->
  exists v p', interp g f (GRef "ArgumentList") {| pk := p; rest := render (args_toks args) (sp rparen X) |}
               = Match [([], v)] {| pk := p'; rest := sp rparen X |}
               /\ b_args v = Ok (map mk_arg args).
Proof.
  intros args Hw p X f Hf.
  set (F0 := fold_right (fun a acc => 5 + fuel_of (fst a) + acc) 0 args).
  assert (HP : Forall2 (arg_parses F0) (map one_arg_toks args) (map one_arg_value args)).
  { assert (G : forall a, In a args -> arg_parses F0 (one_arg_toks a) (one_arg_value a)).
    { intros [t n] Hin. rewrite Forall_forall in Hw. destruct (Hw _ Hin) as [Hwt [Hd Hn]]. cbn [fst snd] in *.
      apply (arg_parses_mono (5 + fuel_of t)).
      - apply arg_parses_of; [apply (ty_parses (S (depth t))); [apply Nat.lt_succ_diag_r | exact Hwt] | exact Hn].
      - unfold F0. clear - Hin. induction args as [|b r IH]; [destruct Hin|]. cbn [fold_right]. destruct Hin as [E|Hin]; [subst b; cbn [fst]; lia | specialize (IH Hin); lia]. }
    clearbody F0. clear - G. induction args as [|a r IH]; [constructor|]. cbn [map]. constructor; [apply G; left; reflexivity|].
    apply IH. intros b Hb. apply G. right. exact Hb. }
  assert (B : b_args (args_value (map one_arg_value args)) = Ok (map mk_arg args)).
  { unfold b_args, args_value. rewrite named_args. apply mapM_ok. clear - Hw. induction Hw as [|a r Ha Hr IH]; [constructor|].
    cbn [map]. constructor; [apply b_arg_ok; exact Ha | exact IH]. }
  unfold args_fuel in Hf. fold F0 in Hf.
  destruct args as [|a args].
  - exists (args_value []), p. split; [|exact B]. cbn [args_toks map sep_args render fold_right].
    assert (E : exists f', f = 20 + f') by (exists (f - 20); cbn [length] in Hf; lia). destruct E as [f' E]. subst f. apply args_empty_ok.
  - cbn [map] in HP. inversion HP as [|? ? ? ? H1 H2]; subst.
    assert (E : exists f', f = 8 + f' /\ F0 <= f' /\ length (map one_arg_toks args) <= f').
    { exists (f - 8). rewrite map_length. cbn [length] in Hf. repeat split; lia. }
    destruct E as [f' [E [HF Hn]]]. subst f.
    destruct (args_nonempty_ok _ _ _ _ F0 H1 H2 f' p X HF Hn) as [p' E']. unfold args_toks. cbn [map].
    eexists. exists p'. split; [exact E' | exact B].
Qed.

(* ====================== return types and function declarations ====================== *)
Definition PAIR_AND : gexpr :=
  GAnd [GAnd [GAnd [GAnd [GAnd [GAnd [GSup (GOpt (GTerm (TLit "std::"))); GSup (GTerm (TKw "pair"))]; GSup (GTerm (TLit "<"))];
                          GName "type1" (GRef "Type")]; GSup (GTerm (TLit ","))]; GName "type2" (GRef "Type")]; GSup (GTerm (TLit ">"))].
Definition RT_BODY : gexpr := GOr [PAIR_AND; GName "type1" TY].
Lemma lookup_ReturnType : lookup g "ReturnType" = Some RT_BODY. Proof. reflexivity. Qed.

(* a literal that is not made of identifier characters does not start a word *)
Lemma lit_fail_word : forall f p (l : string) h r, word h -> boundary r ->
  ~ In " "%char (chars_of l) -> (exists c, In c (chars_of l) /\ in_str alnum_ c = false) ->
  interp g (S f) (GTerm (TLit l)) {| pk := p; rest := sp h r |} = Fail.
Proof.
  intros f p l h r [Hne Hw] Hr Hnb [c [Hc Hna]]. rewrite i_term. unfold run_term. cbn [pre_term].
  destruct h as [|h0 h']; [contradiction|].
  assert (Hs : solid h0 = true) by (cbn [forallb] in Hw; apply andb_true_iff in Hw; apply alnum_solid; tauto).
  rewrite (pre_sp p h0 h' r Hs). cbn [rest].
  destruct (prefix (chars_of l) ((h0 :: h') ++ r)) as [x|] eqn:P; [|reflexivity]. exfalso.
  destruct (prefix_word (chars_of l) (h0 :: h') r x Hr Hw (safe_nospace _ _ Hnb) P) as [n2 [E _]].
  rewrite forallb_forall in Hw. assert (Hin : In c (h0 :: h')) by (rewrite E; apply in_or_app; left; exact Hc).
  rewrite (Hw c Hin) in Hna. discriminate.
Qed.

Definition kpair : chars := chars_of "pair".
Definition rt_value (t : ty) : value := VNode "ReturnType" [(["type1"%string], ty_value t)].

(* the head of a type: its first token, an identifier or one of the basic keywords *)
Definition head_word (toks : list chars) : Prop := exists h rest, toks = h :: rest /\ word h /\ h <> kpair.

Lemma no_blank_std : ~ In " "%char (chars_of "std::"). Proof. vm_compute. intuition discriminate. Qed.
Lemma no_blank_pair : ~ In " "%char (chars_of "pair"). Proof. vm_compute. intuition discriminate. Qed.
Lemma std_has_colon : exists c, In c (chars_of "std::") /\ in_str alnum_ c = false.
Proof. exists ":"%char. split; [vm_compute; tauto | reflexivity]. Qed.

Lemma pair_alt_fails : forall f p h r, word h -> boundary r -> h <> kpair ->
  interp g (S (S (S (S (S (S (S (S (S f))))))))) PAIR_AND {| pk := p; rest := sp h r |} = Fail.
Proof.
  intros f p h r Hw B Hk. unfold PAIR_AND.
  rewrite i_and, seq_cons, i_and, seq_cons, i_and, seq_cons, i_and, seq_cons, i_and, seq_cons, i_and, seq_cons, i_sup, i_opt.
  rewrite (lit_fail_word f p "std::" h r Hw B no_blank_std std_has_colon).
  rewrite seq_cons, i_sup.
  rewrite (kw_word_fail (S f) p "pair" h r Hw B (safe_nospace _ _ no_blank_pair)); [reflexivity|].
  intros X. apply Hk. symmetry. exact X.
Qed.

Lemma rt_single_ok : forall F0 toks v, parses F0 toks v -> head_word toks ->
  forall f p r, follow r -> F0 <= f ->
  exists p', interp g (11 + f) (GRef "ReturnType") {| pk := p; rest := render toks r |}
             = Match [([], VNode "ReturnType" [(["type1"%string], v)])] {| pk := p'; rest := r |}.
Proof.
  intros F0 toks v Hp [h [rest' [E [Hw Hk]]]] f p r Hr Hf. cbn [Nat.add].
  rewrite (i_ref _ _ "ReturnType" RT_BODY lookup_ReturnType). unfold RT_BODY. rewrite i_or. cbn [alt_longest].
  assert (B : boundary (render rest' r)) by (apply render_boundary, follow_boundary; exact Hr).
  pose proof (pair_alt_fails f p h (render rest' r) Hw B Hk) as PF.
  subst toks. change (render (h :: rest') r) with (sp h (render rest' r)). rewrite PF. rewrite i_name.
  change (sp h (render rest' r)) with (render (h :: rest') r).
  destruct (Hp (S (S (S (S (S (S (S (S f)))))))) p r Hr ltac:(lia)) as [p1 E1]. rewrite E1. cbn [map add_name fst snd]. eexists. reflexivity.
Qed.

(* ---- GlobalFunction ---- *)
Definition TEMPLATE_BODY : gexpr :=
  GAnd [GAnd [GAnd [GTerm (TKw "template"); GSup (GTerm (TLit "<"))];
              GName "typename_and_instantiations_list"
                    (GAnd [GRef "Template.TypenameAndInstantiations"; GStar (GAnd [GSup (GTerm (TLit ",")); GRef "Template.TypenameAndInstantiations"])])];
        GSup (GTerm (TLit ">"))].
Lemma lookup_Template : lookup g "Template" = Some TEMPLATE_BODY. Proof. reflexivity. Qed.
Definition TEMPLATE_OPT : gexpr := GOpt (GName "template" (GRef "Template")).
Definition FN_BODY : gexpr :=
  GAnd [GAnd [GAnd [GAnd [GAnd [GAnd [TEMPLATE_OPT; GName "return_type" (GRef "ReturnType")]; GName "name" IDENT];
                          GSup (GTerm (TLit "("))]; GName "args_list" (GRef "ArgumentList")]; GSup (GTerm (TLit ")"))];
        GSup (GTerm (TLit ";"))].
Lemma lookup_GlobalFunction : lookup g "GlobalFunction" = Some FN_BODY. Proof. reflexivity. Qed.

Definition ktemplate : chars := chars_of "template".
Lemma no_blank_template : ~ In " "%char (chars_of "template"). Proof. vm_compute. intuition discriminate. Qed.

Lemma template_opt_none : forall f p h r, word h -> boundary r -> h <> ktemplate ->
  interp g (S (S (S (S (S (S (S f))))))) TEMPLATE_OPT {| pk := p; rest := sp h r |} = Match [] {| pk := p; rest := sp h r |}.
Proof.
  intros f p h r Hw B Hk. unfold TEMPLATE_OPT. rewrite i_opt, i_name, (i_ref _ _ "Template" TEMPLATE_BODY lookup_Template).
  unfold TEMPLATE_BODY. rewrite i_and, seq_cons, i_and, seq_cons, i_and, seq_cons.
  rewrite (kw_word_fail f p "template" h r Hw B (safe_nospace _ _ no_blank_template)); [reflexivity|].
  intros X. apply Hk. symmetry. exact X.
Qed.

Definition lparen : chars := ["("%char].
Definition semi : chars := [";"%char].
Definition fn_toks (t : ty) (name : string) (args : list (ty * string)) : list chars :=
  ty_toks t ++ [chars_of name] ++ [lparen] ++ args_toks args ++ [rparen] ++ [semi].
Definition fn_fuel (t : ty) (args : list (ty * string)) : nat := 30 + fuel_of t + args_fuel args.

Definition wf_head (t : ty) : Prop := exists h rest, ty_toks t = h :: rest /\ word h /\ h <> kpair /\ h <> ktemplate.

Lemma fn_items_lookup : forall rv n va,
  let its := [(["return_type"%string], rv); (["name"%string], VStr n); (["args_list"%string], va)] in
  first_named "template" its = None /\ first_named "name" its = Some (VStr n) /\
  first_named "return_type" its = Some rv /\ first_named "args_list" its = Some va.
Proof. intros. repeat split; reflexivity. Qed.

Lemma b_ret_single : forall tv t, b_type tv = Ok t -> b_ret (VNode "ReturnType" [(["type1"%string], tv)]) = Ok (RSingle t).
Proof.
  intros tv t H. unfold b_ret.
  change (named "type1" [(["type1"%string], tv)]) with [tv]. change (named "type2" [(["type1"%string], tv)]) with (@nil value).
  cbn iota. rewrite H. reflexivity.
Qed.

Lemma b_decl_function : forall k rv n va r a, b_ret rv = Ok r -> b_args va = Ok a ->
  b_decl (S k) (VNode "GlobalFunction" [(["return_type"%string], rv); (["name"%string], VStr n); (["args_list"%string], va)])
  = Ok (DFun {| f_tmpl := None; f_name := n; f_ret := r; f_args := a |}).
Proof.
  intros k rv n va r a Hr Ha. cbn [b_decl].
  change (String.eqb "GlobalFunction" "Class") with false. change (String.eqb "GlobalFunction" "GlobalFunction") with true. cbn iota.
  destruct (fn_items_lookup rv n va) as [E1 [E2 [E3 E4]]]. unfold b_tmpl, name_of, ret_of, args_of. rewrite E1, E2, E3, E4.
  cbn [bind]. rewrite Hr. cbn [bind]. rewrite Ha. reflexivity.
Qed.

Fixpoint Sn (n f : nat) : nat := match n with O => f | S k => S (Sn k f) end.

Theorem function_roundtrip : forall t name args, wf_ty t -> depth t < depth_fuel -> wf_head t ->
  is_ident (chars_of name) = true -> Forall wf_arg args ->
  forall p R f, fn_fuel t args <= f ->
  exists v p', interp g f (GRef "GlobalFunction") {| pk := p; rest := render (fn_toks t name args) R |}
               = Match [([], v)] {| pk := p'; rest := R |}
               /\ forall k, b_decl (S k) v = Ok (DFun {| f_tmpl := None; f_name := name; f_ret := RSingle t; f_args := map mk_arg args |}).
Proof.
  intros t name args Hw Hd [h [rest' [Eh [Hwh [Hkp Hkt]]]]] Hn Ha p R f Hf. unfold fn_fuel in Hf.
  assert (X : exists f', f = 20 + f' /\ fuel_of t <= f' /\ args_fuel args <= f') by (exists (f - 20); lia).
  destruct X as [f' [E [Hft Hfa]]]. subst f. cbn [Nat.add].
  rewrite (i_ref _ _ "GlobalFunction" FN_BODY lookup_GlobalFunction). unfold FN_BODY.
  rewrite i_and, seq_cons, i_and, seq_cons, i_and, seq_cons, i_and, seq_cons, i_and, seq_cons, i_and, seq_cons.
  unfold fn_toks. rewrite !render_app.
  change (render [chars_of name] ?x) with (sp (chars_of name) x). change (render [lparen] ?x) with (sp lparen x).
  change (render [rparen] ?x) with (sp rparen x). change (render [semi] ?x) with (sp semi x).
  set (AFTER := sp semi R). set (ARGS := render (args_toks args) (sp rparen AFTER)).
  set (NAME := sp (chars_of name) (sp lparen ARGS)).
  (* optional template: absent *)
  rewrite Eh. change (render (h :: rest') NAME) with (sp h (render rest' NAME)).
  assert (Fn : follow NAME) by (apply follow_ident; exact Hn).
  assert (B : boundary (render rest' NAME)) by (apply render_boundary, follow_boundary; exact Fn).
  rewrite (template_opt_none _ p h _ Hwh B Hkt). cbn [app]. rewrite seq_cons, i_name.
  change (sp h (render rest' NAME)) with (render (h :: rest') NAME). rewrite <- Eh.
  (* return type *)
  assert (HP : parses (fuel_of t) (ty_toks t) (ty_value t)) by (apply (ty_parses (S (depth t))); [apply Nat.lt_succ_diag_r | exact Hw]).
  assert (HH : head_word (ty_toks t)) by (exists h, rest'; split; [exact Eh | split; [exact Hwh | exact Hkp]]).
  destruct (rt_single_ok (fuel_of t) (ty_toks t) (ty_value t) HP HH (S f') p NAME Fn ltac:(lia)) as [p1 E1].
  cbn [Nat.add] in E1. rewrite E1. cbn [map add_name fst snd app]. rewrite seq_nil. cbn [app]. rewrite seq_cons, i_name.
  (* name *)
  assert (Bl : boundary (sp lparen ARGS)) by (right; eexists; reflexivity).
  unfold NAME. destruct (IDENT_ok (Sn 11 f') p1 (chars_of name) (sp lparen ARGS) Hn Bl) as [p2 E2]. cbn [Sn] in E2. rewrite E2.
  cbn [map add_name fst snd]. rewrite seq_nil. cbn [app]. rewrite seq_cons, i_sup.
  (* ( args ) ; *)
  destruct (lit1_at (Sn 13 f') p2 "("%char ARGS eq_refl) as [p3 E3]. cbn [Sn] in E3. change (sp ["("%char] ARGS) with (sp lparen ARGS) in E3. rewrite E3, seq_nil. cbn [app].
  rewrite seq_cons, i_name. unfold ARGS.
  destruct (arglist_roundtrip args Ha p3 AFTER (Sn 15 f') ltac:(cbn [Sn]; lia)) as [va [p4 [E4 B4]]].
  cbn [Sn] in E4. rewrite E4. cbn [map add_name fst snd]. rewrite seq_nil. cbn [app]. rewrite seq_cons, i_sup.
  destruct (lit1_at (Sn 15 f') p4 ")"%char AFTER eq_refl) as [p5 E5]. cbn [Sn] in E5. change (sp [")"%char] AFTER) with (sp rparen AFTER) in E5. rewrite E5, seq_nil. cbn [app].
  rewrite seq_cons, i_sup. unfold AFTER.
  destruct (lit1_at (Sn 16 f') p5 ";"%char R eq_refl) as [p6 E6]. cbn [Sn] in E6. change (sp [";"%char] R) with (sp semi R) in E6. rewrite E6, seq_nil. cbn [app].
  eexists. exists p6. split; [reflexivity|].
  (* the node constructors *)
  intros k. rewrite string_chars. apply b_decl_function; [|exact B4].
  apply b_ret_single. unfold b_type. apply (ty_rebuilt depth_fuel t Hd Hw).
Qed.

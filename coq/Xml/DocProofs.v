(* C17: selection by overload memory. *)
From Coq Require Import String Ascii List Bool Arith Lia.
From Wrap Require Import Base.Str Base.ListX Xml.Doc.
Import ListNotations.
Open Scope string_scope.
Open Scope list_scope.

Lemma mem_get_set_same : forall k v m, mem_get k (mem_set k v m) = Some v.
Proof.
  intros k v m. induction m as [|[a w] r IH]; cbn [mem_set mem_get].
  - rewrite String.eqb_refl. reflexivity.
  - destruct (String.eqb a k) eqn:E; cbn [mem_get]; rewrite E; [reflexivity | exact IH].
Qed.

Lemma mem_get_set_other : forall k k' v m, String.eqb k' k = false -> mem_get k (mem_set k' v m) = mem_get k m.
Proof.
  intros k k' v m H. induction m as [|[a w] r IH]; cbn [mem_set mem_get].
  - rewrite H. reflexivity.
  - destruct (String.eqb a k') eqn:E; cbn [mem_get].
    + apply String.eqb_eq in E. subst a. rewrite H. reflexivity.
    + destruct (String.eqb a k); [reflexivity | exact IH].
Qed.

Section Select.
  Variable index_root : option xml.
  Variable class_file : string -> option xml.
  Variable cls method : string.
  Variable args : list string.

  Notation call := (extract index_root class_file cls method args).
  Notation key := (function_key cls method args).

  (* the same query asked n times in a row, starting from memory m *)
  Fixpoint repeat_calls (n : nat) (m : memory) : list outcome * memory :=
    match n with
    | O => ([], m)
    | S k => let '(o, m1) := call m in
             let '(os, m2) := repeat_calls k m1 in (o :: os, m2)
    end.

  Variable idx : xml.
  Variable refid : string.
  Variable root : xml.
  Variable ks : list xml.
  Variable ign : list string.
  Hypothesis Hidx : index_root = Some idx.
  Hypothesis Hrefid : class_refid idx cls = Some (Some refid).
  Hypothesis Hfile : class_file refid = Some root.
  Hypothesis Hks : filter_members args (member_candidates root method) = Some (ks, ign).
  Hypothesis Hmany : 2 <= length ks.

  Lemma call_fresh : forall m, mem_get key m = None ->
    call m = (match nth_error ks 0 with Some x => format_doc x ign | None => Crash "IndexError" end, mem_set key 0 m).
  Proof.
    intros m Hm. unfold extract. rewrite Hidx, Hrefid, Hfile, Hks.
    destruct ks as [|a [|b r]]; [cbn in Hmany; lia | cbn in Hmany; lia |].
    rewrite Hm. destruct (nth_error (a :: b :: r) 0); reflexivity.
  Qed.

  Lemma call_again : forall m v, mem_get key m = Some v ->
    call m = (match nth_error ks (S v) with Some x => format_doc x ign | None => Crash "IndexError" end,
              mem_set key (S v) m).
  Proof.
    intros m v Hm. unfold extract. rewrite Hidx, Hrefid, Hfile, Hks.
    destruct ks as [|a [|b r]]; [cbn in Hmany; lia | cbn in Hmany; lia |].
    rewrite Hm. destruct (nth_error (a :: b :: r) (S v)); reflexivity.
  Qed.

  (* the k-th call with the same key returns the k-th matching member definition *)
  Theorem kth_call_kth_member : forall n m v, mem_get key m = Some v ->
    fst (repeat_calls n m)
    = map (fun j => match nth_error ks j with Some x => format_doc x ign | None => Crash "IndexError" end)
          (seq (S v) n).
  Proof.
    induction n as [|n IH]; intros m v Hm; [reflexivity|].
    cbn [repeat_calls]. rewrite (call_again m v Hm).
    destruct (repeat_calls n (mem_set key (S v) m)) as [os m2] eqn:E.
    cbn [fst seq map]. f_equal.
    specialize (IH (mem_set key (S v) m) (S v) (mem_get_set_same _ _ _)). rewrite E in IH. exact IH.
  Qed.

  Theorem calls_from_fresh : forall n m, mem_get key m = None ->
    fst (repeat_calls n m)
    = map (fun j => match nth_error ks j with Some x => format_doc x ign | None => Crash "IndexError" end) (seq 0 n).
  Proof.
    intros [|n] m Hm; [reflexivity|].
    cbn [repeat_calls]. rewrite (call_fresh m Hm).
    destruct (repeat_calls n (mem_set key 0 m)) as [os m2] eqn:E.
    cbn [fst seq map]. f_equal.
    pose proof (kth_call_kth_member n (mem_set key 0 m) 0 (mem_get_set_same _ _ _)) as H. rewrite E in H. exact H.
  Qed.
End Select.

(* members kept by the filter are candidates, in document order *)
Lemma filter_members_sub : forall args ms ks ign,
  filter_members args ms = Some (ks, ign) -> forall x, In x ks -> In x ms /\ exists i, match_member args x = Some (Some i).
Proof.
  intros args ms. induction ms as [|m r IH]; intros ks ign H x Hx.
  - inversion H; subst. destruct Hx.
  - cbn [filter_members] in H.
    destruct (match_member args m) as [[i|]|] eqn:Em; [| |discriminate].
    + destruct (filter_members args r) as [[ks' igs]|] eqn:Er; [|discriminate].
      inversion H; subst. destruct Hx as [Hx|Hx].
      * subst. split; [left; reflexivity | exists i; exact Em].
      * destruct (IH _ _ eq_refl x Hx) as [Hin Hm]. split; [right; exact Hin | exact Hm].
    + destruct (filter_members args r) as [[ks' igs]|] eqn:Er; [|discriminate].
      inversion H; subst. destruct (IH _ _ eq_refl x Hx) as [Hin Hm]. split; [right; exact Hin | exact Hm].
Qed.

(* C19 - parsing cost stays polynomial in nesting depth and file size.
   What is a theorem: the bound of a memoising (packrat) evaluator over the key space of a parse.  What is NOT: CPU
   time, and the effect of pyparsing's bounded FIFO table (128 entries), which lets a key be computed again after it
   was evicted - the check measures the evaluation counts of the implementation on scaled input families. *)
From Coq Require Import List Arith Lia Bool.
From Wrap Require Import Cost.Memo.
From Wrap Require gen.Tables gen.Grammar.
Import ListNotations.

(* tie: memoisation is switched on when gtwrap.interface_parser is imported *)
Theorem C19_packrat_enabled : Tables.packrat_enabled = true.
Proof. reflexivity. Qed.
Print Assumptions C19_packrat_enabled.

(* for every request sequence over a text of length n and a grammar of `nodes` expression objects - whatever the
   nesting depth of namespaces and template arguments - at most 4 * nodes * (n + 1) evaluations are not table hits *)
Theorem C19_idealised_packrat_bound : forall nodes n (reqs : list pkey),
  (forall e p a c, In (e, p, a, c) reqs -> e < nodes /\ p <= n) ->
  length (misses pkey pkey_dec [] reqs) <= 4 * nodes * (n + 1).
Proof. exact packrat_bound. Qed.
Print Assumptions C19_idealised_packrat_bound.

(* the keys computed are pairwise distinct: nothing is parsed twice at one position while it stays in the table *)
Theorem C19_no_recomputation : forall (reqs : list pkey), NoDup (misses pkey pkey_dec [] reqs).
Proof. intros. apply misses_nodup. Qed.
Print Assumptions C19_no_recomputation.

Example C19_nonvacuous :
  misses pkey pkey_dec [] [(0, 0, true, true); (1, 0, true, true); (0, 0, true, true); (1, 3, false, true); (1, 0, true, true)]
  = [(0, 0, true, true); (1, 0, true, true); (1, 3, false, true)].
Proof. vm_compute. reflexivity. Qed.

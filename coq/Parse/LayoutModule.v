(* The layout theorem at the level of Module.parseString (Parse/Build.v: parse_module). *)
From Coq Require Import String Ascii List Bool Arith Lia.
From Wrap Require Import Base.Str Syntax.Ast Inst.Model Parse.Peg Parse.Build Parse.Layout.
Import ListNotations.
Open Scope string_scope.

Definition text_state (text : string) : pst := {| pk := false; rest := expandtabs (chars_of text) |}.
(* the parse in which two-word keywords across filler, DEFAULT_ARG and the #include path abort *)
Definition strict_parse (g : grammar) (text : string) : outcome := strict g (text_fuel text) (GRef "Module") (text_state text).

Theorem parse_module_layout : forall g text text' k,
  skeleton text = Some k -> skeleton text' = Some k ->
  strict_parse g text <> NoFuel ->
  parse_module g text' <> Unsupported "fuel" ->
  parse_module g text = parse_module g text'.
Proof.
  intros g text text' k Hk Hk' Hq Hf.
  unfold skeleton in *. apply skel_f_sound in Hk. apply skel_f_sound in Hk'.
  unfold parse_module, parse_text in *. fold (text_state text) in *. fold (text_state text') in *.
  fold (text_fuel text) in *. fold (text_fuel text') in *.
  assert (Hf' : interp g (text_fuel text') (GRef "Module") (text_state text') <> NoFuel).
  { intros E. rewrite E in Hf. apply Hf. reflexivity. }
  pose proof (layout_independent g (GRef "Module") _ _ k (text_fuel text) (text_fuel text') Hk Hk' Hq Hf') as L.
  unfold text_state in *.
  destruct (interp g (text_fuel text) (GRef "Module") {| pk := false; rest := expandtabs (chars_of text) |}) as [| |i a];
    destruct (interp g (text_fuel text') (GRef "Module") {| pk := false; rest := expandtabs (chars_of text') |}) as [| |i' a'];
    cbn [same_answer] in L; try contradiction; try reflexivity.
  subst i'. reflexivity.
Qed.

(* ---------- the second step: one blank inserted ---------- *)
From Wrap Require Import Parse.Insert.

Definition strict_ins (x y : ascii) (g : grammar) (text : string) : outcome :=
  interp_with (rt2 x y) g (text_fuel text) (GRef "Module") (text_state text).

Theorem parse_module_insert : forall g text text' U x y V,
  solid x = true -> solid y = true ->
  expandtabs (chars_of text) = U ++ x :: y :: V ->
  expandtabs (chars_of text') = U ++ x :: " "%char :: y :: V ->
  no_slash (U ++ x :: y :: V) = true ->
  strict_ins x y g text <> NoFuel ->
  parse_module g text' <> Unsupported "fuel" ->
  parse_module g text = parse_module g text'.
Proof.
  intros g text text' U x y V Hx Hy E E' Hn Hq Hf.
  rewrite no_slash_app in Hn. apply andb_true_iff in Hn. destruct Hn as [HU HV].
  unfold strict_ins, text_state in Hq. rewrite E in Hq.
  unfold parse_module, parse_text in *. fold (text_fuel text) in *. fold (text_fuel text') in *. rewrite E, E' in *.
  assert (Hf' : interp g (text_fuel text') (GRef "Module") {| pk := false; rest := U ++ x :: " "%char :: y :: V |} <> NoFuel).
  { intros X. rewrite X in Hf. apply Hf. reflexivity. }
  pose proof (insert_blank x y V Hx Hy HV g (GRef "Module") U (text_fuel text) (text_fuel text') HU Hq Hf') as L.
  destruct (interp g (text_fuel text) (GRef "Module") {| pk := false; rest := U ++ x :: y :: V |}) as [| |i a];
    destruct (interp g (text_fuel text') (GRef "Module") {| pk := false; rest := U ++ x :: " "%char :: y :: V |}) as [| |i' a'];
    cbn [same_answer] in L; try contradiction; try reflexivity.
  subst i'. reflexivity.
Qed.

(* ---------- re-layouts: finite compositions of the two steps, in either direction ---------- *)
Inductive relayout (g : grammar) : string -> string -> Prop :=
| rl_refl : forall t, relayout g t t
| rl_fill : forall t t' k, skeleton t = Some k -> skeleton t' = Some k ->
            strict_parse g t <> NoFuel -> parse_module g t' <> Unsupported "fuel" -> relayout g t t'
| rl_blank : forall t t' U x y V, solid x = true -> solid y = true ->
             expandtabs (chars_of t) = U ++ x :: y :: V -> expandtabs (chars_of t') = U ++ x :: " "%char :: y :: V ->
             no_slash (U ++ x :: y :: V) = true -> strict_ins x y g t <> NoFuel ->
             parse_module g t' <> Unsupported "fuel" -> relayout g t t'
| rl_sym : forall t t', relayout g t t' -> relayout g t' t
| rl_trans : forall t1 t2 t3, relayout g t1 t2 -> relayout g t2 t3 -> relayout g t1 t3.

Theorem relayout_same_parse : forall g t t', relayout g t t' -> parse_module g t = parse_module g t'.
Proof.
  intros g t t' H. induction H.
  - reflexivity.
  - eapply parse_module_layout; eassumption.
  - apply (parse_module_insert g t t' U x y V); assumption.
  - symmetry. assumption.
  - congruence.
Qed.

(* C12 - layout and comments never change the result. *)
From Coq Require Import String Ascii List Bool Arith.
From Wrap Require Import Base.Str Syntax.Ast Inst.Model Parse.Peg Parse.Build Parse.Spec Parse.Layout Parse.LayoutModule.
From Wrap Require gen.Grammar.
Import ListNotations.
Open Scope string_scope.

(* tie: the grammar regenerated from the live pyparsing objects is the one below; its two hand-modelled scanners
   (DEFAULT_ARG, the comment expression) are unchanged *)
Theorem C12_grammar_is_spec : Grammar.grammar = spec_grammar.
Proof. vm_compute. reflexivity. Qed.
Print Assumptions C12_grammar_is_spec.
Theorem C12_comment_is_modelled : Grammar.comment_fingerprint = comment_expected.
Proof. reflexivity. Qed.
Print Assumptions C12_comment_is_modelled.

(* Two texts have the same skeleton when they consist of the same characters outside white space and comments, in
   the same order, with filler runs - of any length >= 1 and any content: blanks, tabs, line breaks, CR LF, /* */ and
   // comments holding braces, quotes, semicolons, keywords - at the same places.
   For EVERY grammar over pyparsing's terminals, and so for the one of gtwrap.interface_parser: if the parse of the
   first text never reaches a default value, an #include path or a two-word keyword whose words are separated by
   filler (strict_parse answers), then Module.parseString gives the same result for both texts. *)
Theorem C12_layout_independent : forall text text' k,
  skeleton text = Some k -> skeleton text' = Some k ->
  strict_parse spec_grammar text <> NoFuel ->
  parse_module spec_grammar text' <> Unsupported "fuel" ->
  parse_module spec_grammar text = parse_module spec_grammar text'.
Proof. exact (parse_module_layout spec_grammar). Qed.
Print Assumptions C12_layout_independent.

(* the same for any grammar and any start expression, at the level of match trees *)
Theorem C12_layout_independent_generic : forall g e s s' k f f', Skel s k -> Skel s' k ->
  strict g f e {| pk := false; rest := s |} <> NoFuel ->
  interp g f' e {| pk := false; rest := s' |} <> NoFuel ->
  same_answer (interp g f e {| pk := false; rest := s |}) (interp g f' e {| pk := false; rest := s' |}).
Proof. exact layout_independent. Qed.
Print Assumptions C12_layout_independent_generic.

(* Full statement (every pair of texts with one skeleton) refuted, three ways; each is a recorded finding. *)
Definition C12_full : Prop := forall text text' k,
  skeleton text = Some k -> skeleton text' = Some k -> parse_module spec_grammar text = parse_module spec_grammar text'.

Theorem C12_refuted_two_word_keyword : ~ C12_full.
Proof.
  intros H. specialize (H "void f(unsigned char x);" "void f(unsigned  char x);").
  vm_compute in H. specialize (H _ eq_refl eq_refl). discriminate H.
Qed.
Print Assumptions C12_refuted_two_word_keyword.

Theorem C12_refuted_comment_glued_to_default : ~ C12_full.
Proof.
  intros H. specialize (H "void f(int x = 3 /* c */);" "void f(int x = 3/* c */);").
  vm_compute in H. specialize (H _ eq_refl eq_refl). discriminate H.
Qed.
Print Assumptions C12_refuted_comment_glued_to_default.

Theorem C12_refuted_include_blanks : ~ C12_full.
Proof.
  intros H. specialize (H "#include <a.h /**/>" "#include <a.h  >").
  vm_compute in H. specialize (H _ eq_refl eq_refl). discriminate H.
Qed.
Print Assumptions C12_refuted_include_blanks.

(* non-vacuity (gaps of layout_a refilled with line breaks, tabs and comments holding braces, quotes, semicolons and
   comment openers): templates with instantiation lists, nested template arguments, namespaces, classes with every kind of
   member; comments holding braces, quotes and a comment opener *)
Definition layout_a : string :=
  "namespace ns { template<T = {A, ns::B<C>}> virtual class K : Base<T> { K(const T& x, std::vector<ns::B<T*>> v); static T* make(int n); void f() const; pair<T, int> g(K@ k); }; typedef ns::B<A> BA; }".
Definition layout_b : string :=
  "namespace
  ns // class X {};
   {/* // */template<T
=// it's a {
{A, // class X {};
   ns::B<C>}>	virtual // class X {};
   class  K // class X {};
   : Base<T>	{/* } */K(const/* // */T&
  x,
  std::vector<ns::B<T*>>	v);/* // */static/* // */T*	make(int /* ""; */ n);
void
  f()
const;/* // */pair<T, /* ""; */ int> g(K@  k);
}; // class X {};
   typedef ns::B<A>/* } */BA; }".
Example C12_nonvacuous :
  skeleton layout_a <> None /\ skeleton layout_a = skeleton layout_b /\ layout_a <> layout_b /\
  strict_parse spec_grammar layout_a <> NoFuel /\
  (exists ds, parse_module spec_grammar layout_b = Ok ds /\ length ds = 1).
Proof.
  vm_compute. repeat split; try discriminate. eexists. split; reflexivity.
Qed.

"""C04 - every Python binding forwards to the declared C++ entity, faithfully."""
from props import pybcommon as pc

TRUSTED = ['harness/extract_pybind.py (slow path only)',
           'Pybind/Sem.v: the formalisation of pybind11 argument loading and lambda evaluation']


def view(recs):
    """per binding: lambda parameters, body (callee, argument order, return), py::arg names/defaults,
    def vs def_static, property kind and target, enumerator target, class parents"""
    out = []
    for r in recs:
        k = r[0]
        if k in ('def', 'def_static'):
            out.append((k, r[1], r[2], tuple(r[3]), r[4], tuple(r[5])))
        elif k == 'fun':
            out.append((k, r[1], r[2], tuple(r[3]), r[4], tuple(r[5])))
        elif k == 'init':
            out.append((k, r[1], tuple(r[2]), tuple(r[3])))
        elif k == 'prop':
            out.append((k, r[1], r[2], r[3], r[4]))
        elif k == 'value':
            out.append((k, r[1], r[2], r[3]))
        elif k == 'class':
            out.append((k, r[2], tuple(r[4])))
        elif k in ('op', 'ref'):
            out.append(tuple(r))
    return sorted(out, key=repr)


def run(rep, tier, seed, replay=None, proof_ok=True):
    rep.coverage['rule'] = ('as C03; view = per binding (lambda parameters with types, body incl. callee spelling and '
                            'argument order and return, py::arg names and defaults, static/instance, property '
                            'kind/target, enumerator target, base classes)')
    q = pc.detect_pquirks()
    rep.coverage['quirks_detected'] = dict(zip(pc.PQUIRKS, q))
    pc.pyb_known(rep, q, 'C04')
    dis = pc.correspond(rep, tier, seed + 1, q, view, 120, 3000, e2e=True)
    pc.report(rep, dis, 'pybind wrap_file vs Pybind/Gen.v+Render.v on the C04 view (binding bodies)')
    return 0

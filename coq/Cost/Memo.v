(* C19: the idealised packrat bound.  A memoising evaluator computes a key (sub-expression, position, flags) only when
   its table does not hold it and stores it afterwards; whatever sequence of keys is requested, the keys computed are
   pairwise distinct and belong to the key space, so their number is at most its size:
   (number of expression nodes) x (text length + 1) x (flag combinations). *)
From Coq Require Import List Arith Lia.
Import ListNotations.

Section Memo.
  Variable key : Type.
  Hypothesis key_dec : forall a b : key, {a = b} + {a <> b}.

  (* the keys computed (cache misses), given the table so far and the requests in order *)
  Fixpoint misses (table : list key) (requests : list key) : list key :=
    match requests with
    | [] => []
    | k :: r => if in_dec key_dec k table then misses table r else k :: misses (k :: table) r
    end.

  Lemma misses_fresh : forall reqs table k, In k (misses table reqs) -> ~ In k table /\ In k reqs.
  Proof.
    induction reqs as [|q r IH]; intros table k H; cbn [misses] in H; [destruct H|].
    destruct (in_dec key_dec q table) as [Hin|Hn].
    - destruct (IH table k H) as [A B]. split; [exact A | right; exact B].
    - destruct H as [E|H].
      + subst. split; [exact Hn | left; reflexivity].
      + destruct (IH (q :: table) k H) as [A B]. split; [intros X; apply A; right; exact X | right; exact B].
  Qed.

  Lemma misses_nodup : forall reqs table, NoDup (misses table reqs).
  Proof.
    induction reqs as [|q r IH]; intros table; cbn [misses]; [constructor|].
    destruct (in_dec key_dec q table); [apply IH|]. constructor; [|apply IH].
    intros H. apply misses_fresh in H. destruct H as [A _]. apply A. left. reflexivity.
  Qed.

  Theorem misses_bound : forall space reqs, incl reqs space -> length (misses [] reqs) <= length space.
  Proof.
    intros space reqs H. apply NoDup_incl_length; [apply misses_nodup|].
    intros k Hk. apply misses_fresh in Hk. apply H. tauto.
  Qed.
End Memo.

(* the key space of a parse: node index x position x doActions x callPreParse *)
Definition pkey := (nat * nat * bool * bool)%type.
Lemma pkey_dec : forall a b : pkey, {a = b} + {a <> b}.
Proof. repeat decide equality. Defined.
Definition key_space (nodes n : nat) : list pkey :=
  list_prod (list_prod (list_prod (seq 0 nodes) (seq 0 (S n))) [true; false]) [true; false].
Lemma key_space_size : forall nodes n, length (key_space nodes n) = 4 * nodes * (n + 1).
Proof. intros. unfold key_space, pkey. repeat rewrite prod_length. repeat rewrite seq_length. cbn [length]. lia. Qed.
Lemma key_space_in : forall nodes n e p a c, e < nodes -> p <= n -> In (e, p, a, c) (key_space nodes n).
Proof.
  intros. unfold key_space. repeat (apply in_prod); try (apply in_seq; lia); destruct a, c; cbn; tauto.
Qed.

Theorem packrat_bound : forall nodes n (reqs : list pkey),
  (forall e p a c, In (e, p, a, c) reqs -> e < nodes /\ p <= n) ->
  length (misses pkey pkey_dec [] reqs) <= 4 * nodes * (n + 1).
Proof.
  intros nodes n reqs H. rewrite <- key_space_size. apply misses_bound.
  intros [[[e p] a] c] Hin. destruct (H e p a c Hin). apply key_space_in; assumption.
Qed.

"""C15 - ignoring or removing a class affects that class only.

Metamorphic experiments on the implementation: for a class X of a generated module, wrapping with X on
the ignore list must give byte-for-byte what wrapping the module without X's declaration gives (pybind:
whole file; MATLAB: the same files with the same bytes - both runs number the remaining entities consecutively, so
consistent renumbering means identical ids).  The model (Props/C15.v) says which inputs are excluded by a recorded quirk."""
import copy
import multiprocessing as mp
import random

import common
import gen_inputs as G
import sexp
from props import pybcommon as pc
from props import mlcommon as ml

TRUSTED = ['CST surgery of harness/props/c15.py (class removal)']


def class_sites(m, path=()):
    """[(index path, class cst)] for every class whose removal leaves the module meaningful"""
    out = []
    for i, d in enumerate(m):
        if d[0] == 'class':
            out.append((path + (i, ), d))
        elif d[0] == 'ns':
            out += class_sites(d[2], path + (i, ))
    return out


def referenced(m, name):
    """is the class name the target of a typedef anywhere?"""
    for d in m:
        if d[0] == 'typedef' and d[1][2] == name:
            return True
        if d[0] == 'ns' and referenced(d[2], name):
            return True
    return False


def remove_at(m, path):
    m2 = copy.deepcopy(m)
    ds = m2
    for i in path[:-1]:
        ds = ds[i][2]
    del ds[path[-1]]
    return m2


def home_of_path(m, path):
    names = []
    ds = m
    for i in path[:-1]:
        names.append(ds[i][1])
        ds = ds[i][2]
    return names


def cpp_names_of(items, home, orig):
    out = []
    for cpp, h, o in pc_named(items):
        if h == home and o == orig:
            out.append(cpp)
    return out


def pc_named(items, acc=None):
    out = []

    def tn(t):
        ns, name, insts = t[1], t[2], t[3]
        nm = name if isinstance(name, str) else tn(name[1])
        s = nm + ('<' + ', '.join(tn(i) for i in insts) + '>' if insts else '')
        return ('::'.join(ns) + '::' if ns else '') + s

    def walk(its):
        for it in its:
            if it[0] == 'ns':
                walk(it[2])
            elif it[0] == 'iclass':
                home, orig, templ, insts = it[1], it[2], it[3], it[4]
                name = orig + ('<' + ', '.join(tn(i) for i in insts) + '>' if templ in ('T', True) else '')
                out.append((('::'.join(home) + '::' if home else '') + name, list(home), orig))
    walk(items)
    return out


def _job(job):
    k, seed = job
    r = random.Random('c15/%d/%d' % (seed, k))
    g = G.Gen(r, G.Profile(max_decls=7))
    m = g.module()
    typedef_site = None
    if k % 5 == 4:
        # two templates with one unqualified name in two namespaces, each instantiated by a typedef of its own namespace:
        # ignoring / deleting the first typedef'd class must leave the second one alone
        dbl = ('ty', ('tn', [], 'double', []), False, '', True)
        tv = ('ty', ('tn', [], 'T', []), False, '', False)
        void = ('ty', ('tn', [], 'void', []), False, '', True)

        def boxns(nsname, alias, second):
            meth = ('method', None, 'put', ('r1', void), (('arg', tv, 't', None), ), False) if second else \
                ('method', None, 'get', ('r1', tv), (), True)
            return ('ns', nsname, [('class', ('tmpl', ['T'], [[]]), False, 'BoxQ', None, [('ctor', None, 'BoxQ', ()), meth]),
                                   ('typedef', ('tt', [nsname], 'BoxQ', [dbl], False, ''), alias)])
        m = list(m) + [boxns('nsqa', 'BoxQA', False), boxns('nsqb', 'BoxQB', True)]
        typedef_site = ((len(m) - 2, 1), 'nsqa', 'BoxQA')
    sites = [(p, d) for p, d in class_sites(m) if not referenced(m, d[3])]
    if not sites and not typedef_site:
        return None
    text = G.text(G.tokens(m))
    it = pc.impl_items(text)
    if it[0] != 'ok':
        return ('skip', it[0])
    if typedef_site:
        path, nsname, alias = typedef_site
        cls = ('class', None, False, alias, None, [])
        text_removed = G.text(G.tokens(remove_at(m, path)))
        home = [nsname]
        names = ['%s::BoxQ<double>' % nsname]
    else:
        path, cls = r.choice(sites)
        text_removed = G.text(G.tokens(remove_at(m, path)))
        home = home_of_path(m, path)
        names = cpp_names_of(it[1], home, cls[3])
    # another class with the same C++ name elsewhere in the module would also be ignored: skip
    allnames = [c for c, h, o in pc_named(it[1])]
    if any(allnames.count(n) > 1 for n in names) and not typedef_site:
        return ('skip', 'duplicate-name')        # (the crafted module has no such duplicate unless a typedef resolves wrongly)
    has_enums = any(x[0] == 'enum' for x in cls[5])
    boost = r.random() < 0.5
    tops = [['']] + ([[''] + home[:1]] if home else [])
    top = r.choice(tops)
    a = pc.impl_wrap(text, (top, names, boost))
    b = pc.impl_wrap(text_removed, (top, [], boost))
    itr = pc.impl_items(text_removed)
    return ('ok', text, text_removed, names, has_enums, (top, boost), a, b, it[1], itr[1] if itr[0] == 'ok' else None)


def ml_names_of(items, home, orig):
    """the names MatlabWrapper compares with its ignore list: namespace path and INSTANTIATED class name"""
    out = []

    def walk(its):
        for it in its:
            if it[0] == 'ns':
                walk(it[2])
            elif it[0] == 'iclass' and list(it[1]) == list(home) and it[2] == orig:
                out.append('::'.join(list(it[1]) + [it[5]]))
    walk(items)
    return out


def _ml_job(job):
    k, seed = job
    r = random.Random('c15m/%d/%d' % (seed, k))
    g = G.Gen(r, G.Profile(max_decls=6, matlab_safe=True))
    m = g.module()
    if k % 3 != 0:
        m = [('ns', r.choice(['outer', 'gtsam', 'n1']), m)]       # everything namespaced
    forced = None
    if k % 4 == 2:
        # a class that merely shares its NAME with an enum nested in an unrelated sibling class: removing or ignoring that
        # sibling must not change how the name is understood elsewhere
        nm = r.choice(['Kind', 'Mode', 'Color'])
        kt = ('ty', ('tn', ['sib'], nm, []), True, '&', False)
        kv = ('ty', ('tn', ['sib'], nm, []), False, '', False)
        void = ('ty', ('tn', [], 'void', []), False, '', True)
        sib = ('ns', 'sib', [
            ('class', None, False, 'ShapeX', None, [('ctor', None, 'ShapeX', ()), ('enum', 'enum', nm, ['A', 'B'])]),
            ('class', None, False, nm, None, [('ctor', None, nm, ())]),
            ('class', None, False, 'BoxX', None, [('ctor', None, 'BoxX', (('arg', kt, 'k', None), )),
                                                 ('method', None, 'kind', ('r1', kv), (), True),
                                                 ('method', None, 'setKind', ('r1', void), (('arg', kt, 'k', None), ), False)])])
        m = list(m) + [sib]
        forced = 'ShapeX'
    sites = [(p, d) for p, d in class_sites(m) if not referenced(m, d[3]) and len(p) > 1]     # namespaced classes
    if forced:
        sites = [(p, d) for p, d in sites if d[3] == forced] or sites
    if not sites:
        return None
    path, cls = r.choice(sites)
    text = G.text(G.tokens(m))
    text_removed = G.text(G.tokens(remove_at(m, path)))
    it = pc.impl_items(text)
    if it[0] != 'ok':
        return ('skip', it[0])
    home = home_of_path(m, path)
    names = ml_names_of(it[1], home, cls[3])
    every = []

    def walk(its):
        for x in its:
            if x[0] == 'ns':
                walk(x[2])
            elif x[0] == 'iclass':
                every.append('::'.join(list(x[1]) + [x[5]]))
    walk(it[1])
    if not names or any(every.count(n) > 1 for n in names):
        return ('skip', 'duplicate-or-no-name')
    boost = r.random() < 0.3
    a = ml.impl_matlab([text], module_name='mod', ignore=names, boost=boost)
    b = ml.impl_matlab([text_removed], module_name='mod', ignore=[], boost=boost)
    return ('ok', text, text_removed, names, a, b)


def matlab_half(rep, tier, seed):
    n = 120 if tier == 'quick' else 2500
    ml.ensure_tpl()
    with mp.get_context('fork').Pool(14) as pool:
        results = pool.map(_ml_job, [(k, seed) for k in range(n)], chunksize=2)
    shown = 0
    for res in results:
        if res is None:
            rep.bump('ml_no_namespaced_class')
            continue
        if res[0] == 'skip':
            rep.bump('ml_skip_' + res[1])
            continue
        _, text, text_removed, names, a, b = res
        rep.hit('ml/' + common.sha(text + repr(names)), a[0] == 'ok' and b[0] == 'ok')
        if a[0] != b[0]:
            if shown < 3:
                shown += 1
                rep.violation({'kind': 'counterexample', 'what': 'MATLAB: ignore and remove differ in outcome (%s vs %s)' % (a[0], b[0]),
                               'input': text, 'ignored': names, 'removed_input': text_removed, 'ignore_run': str(a[1])[:400],
                               'remove_run': str(b[1])[:400]})
            continue
        if a[0] != 'ok':
            rep.bump('ml_both_' + a[0])
            continue
        if a[1] == b[1]:
            rep.bump('ml_equal')
            continue
        diff = sorted(f for f in set(a[1]) | set(b[1]) if a[1].get(f) != b[1].get(f))
        if shown < 3:
            shown += 1
            f0 = diff[0]
            rep.violation({'kind': 'counterexample', 'what': 'MATLAB: ignoring a class is not deleting it (files that differ: %s)' % diff[:6],
                           'input': text, 'ignored': names, 'removed_input': text_removed, 'file': f0,
                           'with_ignore': (a[1].get(f0) or '<absent>')[:3000], 'with_removal': (b[1].get(f0) or '<absent>')[:3000]})
    # recorded defect: no spelling ignores a class at global scope
    w = 'class A { A(); }; class B { B(); };'
    plain = ml.impl_matlab(['class B { B(); };'], module_name='mod')
    s1 = ml.impl_matlab([w], module_name='mod', ignore=['A'])
    s2 = ml.impl_matlab([w], module_name='mod', ignore=['::A'])
    if plain[0] == 'ok' and not (s1[0] == 'ok' and s1[1] == plain[1]) and not (s2[0] == 'ok' and s2[1] == plain[1]):
        rep.known('C15-matlab-global-ignore: no spelling ignores a class at global scope in the MATLAB generator: the class walk '
                  'compares "::A" and the preamble compares "A"; "A" keeps the classdef and routines but drops the collector they use, '
                  '"::A" raises TypeError [witness: class A { A(); }; class B { B(); }; with ignore A or ::A]')


def run(rep, tier, seed, replay=None, proof_ok=True):
    rep.coverage['rule'] = ('generated modules; one class X per module (global or nested, templated or not, not a '
                            'typedef target): wrap(input, ignore=[all C++ names of X]) vs wrap(input without X), both '
                            'through the implementation, random top namespace / serialization; non-trivial = X '
                            'exists and both runs succeed; the model classifies inputs excluded by a recorded quirk')
    q = pc.detect_pquirks()
    rep.coverage['quirks_detected'] = dict(zip(pc.PQUIRKS, q))
    pc.pyb_known(rep, q, 'C15')
    n = 150 if tier == 'quick' else 4000
    with mp.get_context('fork').Pool(14) as pool:
        results = pool.map(_job, [(k, seed) for k in range(n)], chunksize=2)
    model = common.Model()
    shown = 0
    try:
        for res in results:
            if res is None:
                rep.bump('no_class')
                continue
            if res[0] == 'skip':
                rep.bump('skip_' + res[1])
                continue
            _, text, text_removed, names, has_enums, (top, boost), a, b, items, items_removed = res
            rep.hit(common.sha(text + repr(names)), a[0] == 'ok' and b[0] == 'ok')
            if a[0] != b[0]:
                rep.bump('status_differs')
                if shown < 3:
                    shown += 1
                    rep.violation({'kind': 'counterexample', 'what': 'ignore and remove differ in outcome',
                                   'input': text, 'ignored': names, 'removed_input': text_removed,
                                   'ignore_run': a[:1] + (str(a[1])[:500], ), 'remove_run': b[:1] + (str(b[1])[:500], )})
                continue
            if a[0] != 'ok':
                rep.bump('both_' + a[0])
                continue
            if a[1] == b[1]:
                rep.bump('equal')
                rep.sample({'ignored': names, 'input': text[:300]}, cap=3)
                continue
            # differ: is it the recorded quirk (the ignored class has enums)?
            if has_enums and q[0] == '1' and items_removed is not None:
                # the recorded quirk applies; it must be the ONLY difference: the quirk-faithful model explains
                # both runs, and with the quirk switched off the model's two outputs coincide
                ma = model.ask('pybind', [q, [top, names, boost], pc.TPL, 'mod', [], items])
                mb = model.ask('pybind', [q, [top, [], boost], pc.TPL, 'mod', [], items_removed])
                q0 = '0' + q[1:]
                sa = model.ask('pybind', [q0, [top, names, boost], pc.TPL, 'mod', [], items])
                sb = model.ask('pybind', [q0, [top, [], boost], pc.TPL, 'mod', [], items_removed])
                if ma == 'ok ' + sexp.dumps(a[1]) and mb == 'ok ' + sexp.dumps(b[1]) and sa == sb:
                    rep.bump('known:ignored-class-enums')
                    continue
            # does the model say the same (then the model is wrong or another recorded deviation applies)?
            rep.bump('differs')
            if shown < 3:
                shown += 1
                rep.violation({'kind': 'counterexample', 'what': 'ignoring a class is not deleting it',
                               'input': text, 'ignored': names, 'removed_input': text_removed, 'cfg': [top, boost],
                               'with_ignore': a[1][:3000], 'with_removal': b[1][:3000]})
    finally:
        model.close()
    matlab_half(rep, tier, seed)
    return 0

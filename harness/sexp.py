"""S-expression wire format shared with coq/Syntax/Sexp.v (atoms always quoted)."""


def esc(s: str) -> str:
    return s.replace('\\', '\\\\').replace('"', '\\"').replace('\n', '\\n')


def dumps(x) -> str:
    if isinstance(x, str):
        return '"' + esc(x) + '"'
    if isinstance(x, bool):
        return '"T"' if x else '"F"'
    if isinstance(x, int):
        return '"%d"' % x
    if isinstance(x, (list, tuple)):
        return '(' + ' '.join(dumps(y) for y in x) + ')'
    raise TypeError('cannot encode %r' % (x, ))


def loads(s: str):
    pos = 0
    n = len(s)
    stack = [[]]
    while pos < n:
        c = s[pos]
        if c in ' \t\r\n':
            pos += 1
        elif c == '(':
            stack.append([])
            pos += 1
        elif c == ')':
            top = stack.pop()
            stack[-1].append(top)
            pos += 1
        elif c == '"':
            pos += 1
            out = []
            while s[pos] != '"':
                if s[pos] == '\\':
                    pos += 1
                    out.append('\n' if s[pos] == 'n' else s[pos])
                else:
                    out.append(s[pos])
                pos += 1
            pos += 1
            stack[-1].append(''.join(out))
        else:
            st = pos
            while pos < n and s[pos] not in ' \t\r\n()"':
                pos += 1
            stack[-1].append(s[st:pos])
    assert len(stack) == 1 and len(stack[0]) == 1, 'unbalanced'
    return stack[0][0]

"""seedtable.py <matrix log>... : fold the lines `<seed> <check> exit <rc> <kind> <tail>` of one or more matrix runs
(harness/matrix.sh) into seeded/<seed>/meta.json (checks_run_with_change_applied, detected_by) and print the
markdown table of DESIGN.md section 0.6."""
import glob
import json
import os
import re
import sys

V = os.path.dirname(os.path.dirname(os.path.abspath(__file__)))
LINE = re.compile(r'^(C\d\d-m\d) (C\d\d) exit (\d+) ?(\S*) ?(\S*)')


def main():
    runs = {}
    for path in sys.argv[1:]:
        how = 'run on a snapshot of /repo by harness/ownmatrix*.sh via `vp run --with-repo` (log %s)' % os.path.basename(os.path.dirname(path))
        if path.endswith('local_retests.log'):
            how = 'applied to /repo by hand after a check was corrected (seeded/local_retests.log)'
        for l in open(path, errors='replace'):
            m = LINE.match(l.strip())
            if m:
                seed, chk, rc, kind, tail = m.groups()
                runs.setdefault(seed, {})[chk] = {'check': chk, 'exit': int(rc), 'first_replay': kind, 'note': tail, 'how': how}
    rows = []
    for d in sorted(glob.glob(os.path.join(V, 'seeded', '*', 'meta.json'))):
        seed = os.path.basename(os.path.dirname(d))
        meta = json.load(open(d))
        if seed in runs:
            old = {c['check']: c for c in meta.get('checks_run_with_change_applied', []) if isinstance(c, dict) and 'check' in c}
            old.update(runs[seed])
            meta['checks_run_with_change_applied'] = [old[k] for k in sorted(old)]
            meta['detected_by'] = sorted(k for k, c in old.items() if c['exit'] == 1)
            meta.setdefault('how_applied', 'git -C /repo apply seeded/%s/patch.diff ; ./check <id> --tier quick ; git -C /repo checkout -- .' % seed)
            meta.setdefault('confirmed_in_scratch_worktree', {'how': 'harness/seedtool.py verify (git worktree under /tmp, removed afterwards)',
                                                              'tests_with_change': '94 passed', 'demo_with_change': 'FAIL', 'demo_on_head': 'PASS'})
            json.dump(meta, open(d, 'w'), indent=1)
        det = ', '.join(meta.get('detected_by', [])) or 'none'
        missed = [c['check'] for c in meta.get('checks_run_with_change_applied', []) if isinstance(c, dict) and c.get('exit') == 0]
        rows.append('| %s | %s | %s%s |' % (seed, meta['summary'][:95].replace('|', '/').replace('\n', ' '), det,
                                           (' (exit 0: %s)' % ', '.join(missed)) if missed else ''))
    print('| seed | what it changes | quick checks that report it (exit 1) |')
    print('|---|---|---|')
    print('\n'.join(rows))


if __name__ == '__main__':
    main()

"""C13 - instantiations are independent of each other and of parameter spelling.

Metamorphic experiments on the implementation (subset, permutation, repetition on fresh parses,
alpha-renaming), each judged against the model: the per-instantiation blocks must be equal, or
differ exactly as M(q) predicts for a recorded quirk."""
import copy
import json
import random

import common
import dump
import gen_inputs as G
import proj_impl
import sexp
from props import instcommon as ic
from props.c08 import report_known, decide

TRUSTED = ['harness/proj_impl.py (calls the implementation\'s own to_cpp())',
           'CST transformations of harness/props/c13.py (subset / permute / rename)']

FRESH = ['ZZ9', 'al', 'Qx', 'e', 'PARAM', 'yy', 'Va', 'i']


def blocks(p, prefix=()):
    """name -> projection block, for classes and functions at any depth"""
    out = {}
    for it in p:
        if it[0] == 'class':
            out[prefix + ('class', it[2])] = it
        elif it[0] == 'fun':
            out.setdefault(prefix + ('fun', it[1], it[2]), it)
        elif it[0] == 'ns':
            out.update(blocks(it[2], prefix + (it[1], )))
    return out


def block_match(b0, b1, mode):
    """b1 (variant) against b0 (base): class headers equal; member instantiations of the variant are
    present, identical, in the base (subset) / the same multiset (perm)"""
    if b0 is None:
        return False
    if b0[0] != 'class':
        return b0 == b1
    if b0[:5] != b1[:5] or b0[8:] != b1[8:]:
        return False
    for i in (5, 6, 7):
        l0 = [sexp.dumps(x) for x in b0[i]]
        l1 = [sexp.dumps(x) for x in b1[i]]
        if mode == 'perm':
            if sorted(l0) != sorted(l1):
                return False
        else:
            for x in l1:
                if x not in l0:
                    return False
    return True


def impl_proj(text):
    r = ic.run_impl(text)
    if r[0] != 'ok':
        return r[0], None, r[1]
    return 'ok', r[3], r[1]


# ---- CST transformations ----
def map_templates(m, f):
    """apply f to every template of every class / function / member (returns a new CST)"""
    def member(x):
        k = x[0]
        if k in ('ctor', 'method', 'static'):
            return (k, f(x[1], x)) + tuple(x[2:])
        return x

    def decl(d):
        k = d[0]
        if k == 'class':
            return ('class', f(d[1], d), d[2], d[3], d[4], [member(x) for x in d[5]])
        if k == 'fun':
            return ('fun', f(d[1], d)) + tuple(d[2:])
        if k == 'ns':
            return ('ns', d[1], [decl(x) for x in d[2]])
        return d
    return [decl(d) for d in m]


def subset(m, r):
    def f(t, owner):
        if t is None:
            return None
        return ('tmpl', t[1], [[r.choice(l)] if l else [] for l in t[2]])
    return map_templates(m, f)


def permute(m, r):
    def f(t, owner):
        if t is None:
            return None
        ls = []
        for l in t[2]:
            l = list(l)
            r.shuffle(l)
            ls.append(l)
        return ('tmpl', t[1], ls)
    return map_templates(m, f)


def rename_ty(t, old, new):
    if t[0] == 'ty':
        tn = t[1]
        ns, name = list(tn[1]), tn[2]
        if ns and ns[0] == old:
            ns[0] = new
        elif not ns and name == old:
            name = new
        return ('ty', ('tn', ns, name, tn[3]), t[2], t[3], t[4])
    ns, name = list(t[1]), t[2]
    if ns and ns[0] == old:
        ns[0] = new
    return ('tt', ns, name, [rename_ty(p, old, new) for p in t[3]], t[4], t[5])


def rename_ret(rt, old, new):
    if rt[0] == 'r1':
        return ('r1', rename_ty(rt[1], old, new))
    return ('r2', rt[1], rename_ty(rt[2], old, new), rename_ty(rt[3], old, new))


def rename_args(l, old, new):
    return [('arg', rename_ty(a[1], old, new), a[2], a[3]) for a in l]


def rename_tmpl(t, old, new):
    return ('tmpl', [new if n == old else n for n in t[1]], t[2])


def rename_member(x, old, new):
    k = x[0]
    if k == 'ctor':
        return ('ctor', x[1], x[2], rename_args(x[3], old, new))
    if k == 'method':
        return ('method', x[1], x[2], rename_ret(x[3], old, new), rename_args(x[4], old, new), x[5])
    if k == 'static':
        return ('static', x[1], x[2], rename_ret(x[3], old, new), rename_args(x[4], old, new))
    if k == 'var':
        return ('var', rename_ty(x[1], old, new), x[2], x[3])
    if k == 'op':
        return ('op', x[1], rename_ret(x[2], old, new), rename_args(x[3], old, new), x[4])
    if k == 'dunder':
        return ('dunder', x[1], rename_args(x[2], old, new))
    return x


def mentions(cst, word):
    return ("'%s'" % word) in repr(cst)


def alpha(m, r):
    """rename one class-level parameter of one templated class (or function) to an unused identifier"""
    cands = []

    def walk(ds, path):
        for i, d in enumerate(ds):
            if d[0] in ('class', 'fun') and d[1] is not None:
                cands.append(path + (i, ))
            if d[0] == 'ns':
                walk(d[2], path + (i, ))
    walk(m, ())
    if not cands:
        return None
    path = r.choice(cands)
    m2 = copy.deepcopy(m)
    ds = m2
    for i in path[:-1]:
        ds = ds[i][2]
    d = ds[path[-1]]
    old = r.choice(d[1][1])
    new = None
    # adversarial fresh names: prefixes / fragments of the identifiers the declaration mentions
    import re as _re
    words = sorted(set(_re.findall(r"'([A-Za-z_][A-Za-z0-9_]*)'", repr(d))))
    frags = []
    for w in words:
        frags += [w[:1], w[:2], w[:3], w[1:3], w[-2:]]
    frags = [f for f in frags if _re.fullmatch(r'[A-Za-z_][A-Za-z0-9_]*', f or '') and f not in G.KEYWORDS]
    pool = r.sample(FRESH, len(FRESH))
    if frags and r.random() < 0.7:
        pool = r.sample(frags, min(len(frags), 8)) + pool
    for c in pool:
        if not mentions(d, c):
            new = c
            break
    if new is None:
        return None
    if d[0] == 'class':
        base = d[4]
        if base is not None and base[0] == 'bt':
            base = ('bt', rename_ty(base[1], old, new))
        members = []
        for x in d[5]:
            # a member-level parameter of the same spelling shadows nothing in this dialect; skip such inputs
            if x[0] in ('ctor', 'method', 'static') and x[1] is not None and old in x[1][1]:
                return None
            members.append(rename_member(x, old, new))
        ds[path[-1]] = ('class', rename_tmpl(d[1], old, new), d[2], d[3], base, members)
    else:
        ds[path[-1]] = ('fun', rename_tmpl(d[1], old, new), d[2], rename_ret(d[3], old, new),
                        rename_args(d[4], old, new))
    return m2, old, new


def run(rep, tier, seed, replay=None, proof_ok=True):
    rep.coverage['rule'] = ('generated templated modules; per module four experiments on fresh parses: subset of '
                            'every instantiation list, permutation, repetition, alpha-renaming of one parameter; '
                            'compared per instantiation block (implementation to_cpp() projection); non-trivial = '
                            'module with at least one template instantiated at least twice')
    q = ic.detect_quirks()
    rep.coverage['quirks_detected'] = dict(zip(ic.QUIRK_BITS, q))
    report_known(rep, q, 'C13')
    n = 120 if tier == 'quick' else 2500
    model = common.Model()
    shown = 0
    import multiprocessing as mp

    jobs = []
    for k in range(n):
        r = random.Random('c13/%d/%d' % (seed, k))
        prof = G.Profile(p_template=0.8, max_tvalues=4, p_scoped=0.2 if k % 4 == 0 else 0.02, same_name_values=(k % 2 == 0))
        g = G.Gen(r, prof)
        m = g.module()
        variants = {'base': m, 'subset': subset(m, r), 'perm': permute(m, r)}
        al = alpha(m, r)
        if al:
            variants['alpha'] = al[0]
        jobs.append((k, {name: G.text(G.tokens(v)) for name, v in variants.items()}))
    flat = [(k, name, t) for k, vs in jobs for name, t in vs.items()]
    flat.append((-1, 'repeat', None))
    with mp.get_context('fork').Pool(14) as pool:
        results = pool.map(_worker, [(name, t) for _, name, t in flat[:-1]], chunksize=4)
    by = {}
    for (k, name, t), res in zip(flat[:-1], results):
        by.setdefault(k, {})[name] = (t, res)
    try:
        for k, vs in sorted(by.items()):
            t0, (st0, p0, d0, again) = vs['base']
            if st0.startswith('tree-invariant:'):
                # the worker processes parse many texts, some of them more than once: a parse whose tree no longer has the
                # shape every first parse has (parent links, node classes) depends on what the process did before
                if shown < 3:
                    shown += 1
                    rep.violation({'kind': 'counterexample', 'what': 'a parse in a process that has parsed other (or the same) text before '
                                   'yields a malformed tree: ' + st0, 'input': t0})
                continue
            if st0 != 'ok':
                rep.bump('base_' + st0)
                continue
            b0 = blocks(p0)
            multi = sexp.dumps(p0).count('"class"') + sexp.dumps(p0).count('"fun"') >= 2
            rep.hit(common.sha(t0), multi, n=len(vs))
            # repetition on a fresh parse in the same process
            if again != sexp.dumps(p0):
                shown += 1
                rep.violation({'kind': 'counterexample', 'what': 'second instantiation of a fresh parse differs',
                               'input': t0})
            for name in ('subset', 'perm', 'alpha'):
                if name not in vs:
                    continue
                t1, (st1, p1, d1, _) = vs[name]
                if st1 != 'ok':
                    rep.bump('%s_%s' % (name, st1))
                    # the variant fails where the base succeeds: explained only if the model fails too
                    m1 = model.ask('inst', [q, d1]) if d1 is not None else 'parse'
                    if d1 is not None and (m1.startswith('ok') and not any(mk in m1 for mk in ic.MARKERS)):
                        if shown < 3:
                            shown += 1
                            rep.violation({'kind': 'counterexample', 'what': 'variant (%s) fails: %s' % (name, st1),
                                           'input': t0, 'variant': t1})
                    continue
                b1 = blocks(p1)
                if name == 'alpha':
                    same = sexp.dumps(p0) == sexp.dumps(p1)
                else:
                    same = all(block_match(b0.get(key), blk, name) for key, blk in b1.items()) and \
                        (name != 'perm' or set(b0) == set(b1))
                rep.bump(name + ('_same' if same else '_differs'))
                if same:
                    continue
                # model-only classification of the input pair (independent of impl/model agreement):
                # is the renaming valid in the specification, and does a recorded quirk alone already
                # produce a difference on this pair (then the experiment is masked by the known finding)?
                explained = None
                if name == 'alpha':
                    s0 = model.ask('instproj', [ic.SPEC, d0])
                    s1 = model.ask('instproj', [ic.SPEC, d1])
                    m0 = model.ask('instproj', [q, d0])
                    m1 = model.ask('instproj', [q, d1])
                    if s0 != s1:
                        rep.bump('alpha_experiment_invalid')
                        continue
                    if m0 != m1 and m0.startswith('ok ') and m1.startswith('ok '):
                        # block-wise: a block is masked only if the recorded quirk itself changes it
                        mb0 = blocks(sexp.loads(m0[3:]))
                        mb1 = blocks(sexp.loads(m1[3:]))
                        c0 = blocks(sexp.loads(sexp.dumps(p0)))
                        c1 = blocks(sexp.loads(sexp.dumps(p1)))
                        bad = [key for key in c0 if c0.get(key) != c1.get(key) and mb0.get(key) == mb1.get(key)]
                        if not bad:
                            rep.bump('alpha_masked_by_known_quirk')
                            continue
                        rep.bump('alpha_unmasked_block_differs')
                    elif m0 != m1:
                        rep.bump('alpha_masked_by_known_quirk')
                        continue
                if shown < 3:
                    shown += 1
                    rep.violation({'kind': 'counterexample', 'what': 'instantiation depends on %s' % name,
                                   'input': t0, 'variant': t1,
                                   'base_blocks': sexp.dumps(p0)[:2500], 'variant_blocks': sexp.dumps(p1)[:2500],
                                   'model_explains': explained})
            rep.sample({'input': t0[:300], 'variants': sorted(vs)}, cap=3)
    finally:
        model.close()
    return 0


def _worker(job):
    name, text = job
    try:
        st, p, d = impl_proj(text)
    except Exception as e:
        return 'tree-invariant:%s: %s' % (type(e).__name__, str(e)[:200]), None, None, None
    again = None
    if name == 'base' and st == 'ok':
        try:
            st2, p2, _ = impl_proj(text)
            again = sexp.dumps(p2) if st2 == 'ok' else st2
        except Exception as e:
            # the FIRST parse of this text went through the fail-closed dump; a second parse of the same text that no
            # longer does (shared nodes, stale parent links) is the repetition experiment failing, with this text as input
            again = 'second parse of the same text: %s: %s' % (type(e).__name__, str(e)[:200])
    return st, p, d, again

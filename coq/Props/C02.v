(* C02 - template instantiation is exact, capture-free substitution. *)
From Coq Require Import String Ascii List Bool Arith.
From Wrap Require Import Base.Str Base.ListX Syntax.Ast Syntax.Print Inst.Model Inst.Subst Inst.SubstProofs Inst.ClassProofs.
Import ListNotations.
Open Scope string_scope.
Open Scope list_scope.

Definition this_ok (cpp icls : option typename) (this_cpp : string) : Prop :=
  tn_cpp (match icls with
          | Some x => x
          | None => match cpp with Some x => x | None => Typename [] (NStr "") [] end
          end) = this_cpp.

(* Full statement: for every parser-shaped type, every parameter list and every occurrence depth *)
Definition C02_full (q : quirks) : Prop :=
  forall tnames insts cpp icls this_cpp t,
    length tnames = length insts -> this_ok cpp icls this_cpp -> parsed_ty t = true ->
    ty_cpp (inst_type q tnames insts cpp icls t) = subst_cpp tnames insts this_cpp t.

Definition tA := Typename [] (NStr "A") [].
Definition plain (ns : list string) (n : string) := TPlain (Typename ns (NStr n) []) false PNone false.
Definition vec (t : ty) := TTempl ["std"] (NStr "vector") [t] false PNone.

(* std::vector<std::vector<T>> keeps its T: only the first template-argument level is rewritten *)
Theorem C02_refuted_depth : forall q, q_first_level_only q = true -> ~ C02_full q.
Proof.
  intros q Hq H. revert Hq.
  specialize (H ["T"] [tA] (Some (Typename [] (NStr "C<A>") [])) None "C<A>" (vec (vec (plain [] "T")))
                eq_refl eq_refl eq_refl).
  destruct q as [qa qb qc qd]. cbn. intros Hq. subst qd. vm_compute in H. discriminate H.
Qed.
Print Assumptions C02_refuted_depth.

(* T::Type with T = A becomes A::Aype: the scoped rewrite is a substring replacement *)
Theorem C02_refuted_substring : forall q, q_scoped_substring q = true -> q_first_level_only q = true ->
  ty_cpp (inst_type q ["T"] [tA] None None (plain ["T"] "Type")) = "A::Aype" /\
  subst_cpp ["T"] [tA] "" (plain ["T"] "Type") = "A::Type".
Proof. intros [qa qb qc qd] Hq Hd. cbn in Hq, Hd. subst qb qd. vm_compute. split; reflexivity. Qed.
Print Assumptions C02_refuted_substring.

(* vector<This> is not rewritten *)
Theorem C02_refuted_this_arg : forall q, q_first_level_only q = true ->
  ty_cpp (inst_type q [] [] (Some (Typename [] (NStr "C") [])) None (vec (plain [] "This"))) = "std::vector<This>" /\
  subst_cpp [] [] "C" (vec (plain [] "This")) = "std::vector<C>".
Proof. intros [qa qb qc qd] Hd. cbn in Hd. subst qd. vm_compute. split; reflexivity. Qed.
Print Assumptions C02_refuted_this_arg.

(* Partial statement, for every quirk setting: on dom_ty (parameters as whole names at the top or at
   the first template-argument level, everything else free of parameters, and the computed guards
   of Subst.v on the printed spelling) instantiation IS substitution *)
Theorem C02_partial : forall q tnames insts cpp icls this_cpp,
  length tnames = length insts -> this_ok cpp icls this_cpp ->
  forall t, dom_q q tnames insts t = true ->
  ty_cpp (inst_type q tnames insts cpp icls t) = subst_cpp tnames insts this_cpp t.
Proof. exact inst_type_refines_q. Qed.

(* the structural-substitution member of the model family (quirk q_first_level_only off) satisfies
   the FULL statement: this is what a repaired implementation is tied to *)
Theorem C02_full_when_repaired : forall q, q_first_level_only q = false -> C02_full q.
Proof.
  intros q Hq tnames insts cpp icls this_cpp t Hlen Hthis Hp.
  apply (inst_type_refines_q q tnames insts cpp icls this_cpp Hlen Hthis t).
  unfold dom_q. rewrite Hq. exact Hp.
Qed.
Print Assumptions C02_full_when_repaired.
Print Assumptions C02_partial.

Example C02_partial_nonvacuous :
  dom_ty ["T"; "U"] [tA; Typename ["gtsam"] (NStr "Pose3") []]
         (TTempl ["std"] (NStr "map") [TPlain (Typename [] (NStr "T") []) true PRef false;
                                       vec (plain ["gtsam"] "Key");
                                       TPlain (Typename [] (NStr "U") []) false PShared false] true PRef) = true
  /\ dom_ty ["T"] [tA] (TPlain (Typename [] (NStr "T") []) true PRef false) = true
  /\ dom_ty ["T"] [tA] (plain [] "This") = true
  /\ dom_ty ["T"] [tA] (plain ["gtsam"] "Tensor") = true.
Proof. vm_compute. repeat split; reflexivity. Qed.

(* signatures: argument types, in order; names and default texts untouched, count unchanged *)
Theorem C02_args : forall q tnames insts cpp this_cpp,
  length tnames = length insts -> this_ok cpp None this_cpp ->
  forall l, dom_args q tnames insts l = true ->
  map (fun a => ty_cpp (a_ty a)) (inst_args q tnames insts cpp l)
  = map (fun a => subst_cpp tnames insts this_cpp (a_ty a)) l.
Proof. exact inst_args_refines. Qed.
Print Assumptions C02_args.

Theorem C02_return : forall q tnames insts cpp this_cpp,
  length tnames = length insts ->
  forall icls r, this_ok cpp icls this_cpp -> dom_ret_q q tnames insts r = true ->
  ret_cpp (inst_ret q tnames insts cpp icls r) = subst_ret_cpp tnames insts this_cpp r.
Proof. exact inst_ret_refines. Qed.
Print Assumptions C02_return.

(* unconditional: qualifiers, argument names and default texts are never touched *)
Theorem C02_untouched_quals : forall q tnames insts cpp icls t,
  ty_const (inst_type q tnames insts cpp icls t) = ty_const t /\
  ty_ptr (inst_type q tnames insts cpp icls t) = ty_ptr t.
Proof. exact inst_type_quals_q. Qed.
Print Assumptions C02_untouched_quals.

Theorem C02_untouched_names : forall q tnames insts cpp l,
  map a_name (inst_args q tnames insts cpp l) = map a_name l.
Proof. exact inst_args_names. Qed.
Print Assumptions C02_untouched_names.

Theorem C02_untouched_defaults : forall q tnames insts cpp l,
  map a_default (inst_args q tnames insts cpp l) = map a_default l.
Proof. exact inst_args_defaults. Qed.
Print Assumptions C02_untouched_defaults.

(* a type that mentions no parameter is returned as it is *)
Theorem C02_non_parameter_types : forall tnames insts this_cpp t,
  free_of tnames t = true -> subst_cpp tnames insts this_cpp t = ty_cpp t.
Proof.
  exact (fun tn i tc => free_of_subst tn i None (Some (Typename [] (NStr tc) [])) tc eq_refl).
Qed.
Print Assumptions C02_non_parameter_types.

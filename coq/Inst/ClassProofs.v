(* Lifting of the type-level refinement to signatures and instantiated classes (C02, C13). *)
From Coq Require Import String Ascii List Bool Arith Lia.
From Wrap Require Import Base.Str Base.StrLemmas Base.ListX Syntax.Ast Syntax.Print Inst.Model Inst.Subst Inst.SubstProofs.
Import ListNotations.
Open Scope string_scope.
Open Scope list_scope.

Section Sig.
  Variable q : quirks.
  Variable tnames : list string.
  Variable insts : list typename.
  Variable cpp : option typename.
  Variable this_cpp : string.
  Hypothesis Hlen : length tnames = length insts.
  Hypothesis Hcpp : tn_cpp (match cpp with Some x => x | None => Typename [] (NStr "") [] end) = this_cpp.

  Definition dom_args (l : list arg) : bool := forallb (fun a => dom_q q tnames insts (a_ty a)) l.
  Definition dom_ret_q (r : ret) : bool :=
    match r with RSingle t => dom_q q tnames insts t | RPair a b => andb (dom_q q tnames insts a) (dom_q q tnames insts b) end.

  Lemma inst_args_refines : forall l, dom_args l = true ->
    map (fun a => ty_cpp (a_ty a)) (inst_args q tnames insts cpp l)
    = map (fun a => subst_cpp tnames insts this_cpp (a_ty a)) l.
  Proof.
    induction l as [|a l IH]; intros H; [reflexivity|].
    cbn [dom_args forallb] in H. apply andb_true_iff in H. destruct H as [Ha Hl].
    cbn [inst_args map inst_arg a_ty].
    rewrite (inst_type_refines_q q tnames insts cpp None this_cpp Hlen Hcpp _ Ha).
    f_equal. apply IH. exact Hl.
  Qed.

  Lemma inst_args_names : forall l, map a_name (inst_args q tnames insts cpp l) = map a_name l.
  Proof. induction l as [|a l IH]; [reflexivity|]. cbn [inst_args map inst_arg a_name]. f_equal. exact IH. Qed.

  Lemma inst_args_defaults : forall l, map a_default (inst_args q tnames insts cpp l) = map a_default l.
  Proof. induction l as [|a l IH]; [reflexivity|]. cbn [inst_args map inst_arg a_default]. f_equal. exact IH. Qed.

  Lemma inst_args_length : forall l, length (inst_args q tnames insts cpp l) = length l.
  Proof. intros l. unfold inst_args. apply map_length. Qed.

  Lemma inst_ret_refines : forall icls r,
    tn_cpp (match icls with Some x => x | None => match cpp with Some x => x | None => Typename [] (NStr "") [] end end) = this_cpp ->
    dom_ret_q r = true ->
    ret_cpp (inst_ret q tnames insts cpp icls r) = subst_ret_cpp tnames insts this_cpp r.
  Proof.
    intros icls r Hi H. destruct r as [t|a b]; cbn [dom_ret_q] in H; cbn [inst_ret ret_cpp subst_ret_cpp].
    - apply (inst_type_refines_q q tnames insts cpp icls this_cpp Hlen Hi _ H).
    - apply andb_true_iff in H. destruct H as [Ha Hb].
      rewrite (inst_type_refines_q q tnames insts cpp icls this_cpp Hlen Hi _ Ha).
      rewrite (inst_type_refines_q q tnames insts cpp icls this_cpp Hlen Hi _ Hb).
      reflexivity.
  Qed.
End Sig.

(* the instantiated class reads the template's parameter names but never its instantiation lists:
   the result for one instantiation is independent of which others are requested (C13) *)
Definition set_lists (t : option template) (ls : list (list typename)) : option template :=
  match t with Some x => Some {| t_names := t_names x; t_insts := ls |} | None => None end.
Definition class_with_lists (c : class) (ls : list (list typename)) : class :=
  {| c_tmpl := set_lists (c_tmpl c) ls; c_virtual := c_virtual c; c_name := c_name c; c_base := c_base c;
     c_ctors := c_ctors c; c_methods := c_methods c; c_statics := c_statics c; c_dunders := c_dunders c;
     c_props := c_props c; c_ops := c_ops c; c_enums := c_enums c |}.

Lemma tmpl_names_set_lists : forall t ls, tmpl_names (set_lists t ls) = tmpl_names t.
Proof. intros [t|] ls; reflexivity. Qed.
Lemma has_tmpl_set_lists : forall t ls, has_tmpl (set_lists t ls) = has_tmpl t.
Proof. intros [t|] ls; reflexivity. Qed.

Lemma inst_class_lists_irrelevant : forall q home c ls ci nn,
  inst_class q home (class_with_lists c ls) ci nn = inst_class q home c ci nn.
Proof.
  intros q home c ls ci nn. unfold inst_class.
  unfold inst_ctor, inst_method, inst_smethod, inst_oper, inst_prop, inst_base, cls_tnames, cls_cpp,
    cls_this, cls_cpp_name, cls_name.
  cbn [class_with_lists c_tmpl c_name c_virtual c_base c_ctors c_methods c_statics c_dunders c_props c_ops c_enums].
  rewrite !tmpl_names_set_lists, !has_tmpl_set_lists. reflexivity.
Qed.

Definition func_with_lists (f : func) (ls : list (list typename)) : func :=
  {| f_tmpl := set_lists (f_tmpl f) ls; f_name := f_name f; f_ret := f_ret f; f_args := f_args f |}.

Lemma inst_func_lists_irrelevant : forall q home f ls fi nn,
  inst_func q home (func_with_lists f ls) fi nn = inst_func q home f fi nn.
Proof.
  intros q home f ls fi nn. unfold inst_func, func_with_lists. cbn [f_tmpl f_name f_ret f_args].
  destruct (f_tmpl f) as [t|]; reflexivity.
Qed.

(* the items a templated class contributes are a function of the requested tuples, one by one *)
Lemma class_items_pointwise : forall q home c ls,
  map (fun ci => IClass (inst_class q home (class_with_lists c ls) ci "")) (cartesian ls)
  = map (fun ci => IClass (inst_class q home c ci "")) (cartesian ls).
Proof.
  intros. apply map_ext. intros ci. rewrite inst_class_lists_irrelevant. reflexivity.
Qed.

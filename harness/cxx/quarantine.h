// Replacement global operator new/delete that never reuses memory while `on`: every address handed to
// operator delete is remembered, and a second delete of the same address is counted instead of executed.
// Because nothing is returned to the allocator, an address identifies one allocation for the whole run, so the
// count is exact (no ABA), and a double `delete` of a shared_ptr cell only touches still-intact memory.
#pragma once
#include <cstdlib>
#include <cstdint>
#include <new>

namespace quarantine {
static bool on = false;
static long double_frees = 0;
static const size_t SLOTS = 1u << 22;
static void *table[SLOTS];
static bool seen_or_add(void *p) {
  size_t h = ((uintptr_t)p >> 4) * 11400714819323198485ull >> 42;   // 22 bits
  for (size_t i = 0; i < SLOTS; i++) {
    size_t k = (h + i) & (SLOTS - 1);
    if (table[k] == p) return true;
    if (table[k] == nullptr) { table[k] = p; return false; }
  }
  abort();
}
}  // namespace quarantine

void *operator new(size_t n) { void *p = malloc(n ? n : 1); if (!p) throw std::bad_alloc(); return p; }
void *operator new[](size_t n) { return operator new(n); }
void operator delete(void *p) noexcept {
  if (!p) return;
  if (!quarantine::on) { free(p); return; }
  if (quarantine::seen_or_add(p)) quarantine::double_frees++;
}
void operator delete[](void *p) noexcept { operator delete(p); }
void operator delete(void *p, size_t) noexcept { operator delete(p); }
void operator delete[](void *p, size_t) noexcept { operator delete(p); }

(* C18 - the MATLAB runtime header converts values without loss (value part; handles: see C11's gateway model). *)
From Coq Require Import List Bool ZArith.
From Wrap Require Import Runtime.Mx Runtime.MxProofs Runtime.Gateway Runtime.GatewayProofs.
Import ListNotations.
Open Scope Z_scope.

Theorem C18_bool : forall b, unwrap_bool (wrap_bool b) = MOk b.
Proof. exact rt_bool. Qed.
Print Assumptions C18_bool.
Theorem C18_char : forall c, -128 <= c <= 127 -> unwrap_char (wrap_char c) = MOk c.
Proof. exact rt_char. Qed.
Print Assumptions C18_char.
Theorem C18_uchar : forall c, 0 <= c <= 255 -> unwrap_uchar (wrap_uchar c) = MOk c.
Proof. exact rt_uchar. Qed.
Print Assumptions C18_uchar.
(* including INT_MIN and every negative value: the 4 bytes written are read back through a 64-bit cell *)
Theorem C18_int : forall i, -2147483648 <= i <= 2147483647 -> unwrap_int (wrap_int i) = MOk i.
Proof. exact rt_int. Qed.
Print Assumptions C18_int.
(* the full 64-bit range, bit for bit *)
Theorem C18_size_t : forall n, 0 <= n < two64 -> unwrap_size_t (wrap_size_t n) = MOk n.
Proof. exact rt_size_t. Qed.
Print Assumptions C18_size_t.
(* every bit pattern, NaN payloads included: conversions only copy *)
Theorem C18_double : forall bits, unwrap_double (wrap_double bits) = MOk bits.
Proof. exact rt_double. Qed.
Print Assumptions C18_double.

(* strings: full statement (all strings) refuted - a string with an embedded NUL is cut there *)
Definition C18_string_full : Prop := forall s, unwrap_string (wrap_string s) = MOk s.
Theorem C18_refuted_string_nul : ~ C18_string_full.
Proof. intros H. specialize (H [97; 0; 98]). discriminate H. Qed.
Print Assumptions C18_refuted_string_nul.
Theorem C18_string_partial : forall s, forallb (fun c => negb (c =? 0)) s = true -> unwrap_string (wrap_string s) = MOk s.
Proof. exact rt_string. Qed.
Print Assumptions C18_string_partial.

Theorem C18_vector : forall v, unwrap_vector (wrap_vector v) = MOk v.
Proof. exact rt_vector. Qed.
Print Assumptions C18_vector.

(* matrices of every shape, empty ones included, keep shape and element positions *)
Theorem C18_matrix : forall m n A,
  match unwrap_matrix (wrap_matrix m n A) with
  | MOk (m', n', B) => m' = m /\ n' = n /\ forall i j, (i < m)%nat -> (j < n)%nat -> B i j = A i j
  | MErr _ => False
  end.
Proof. exact rt_matrix. Qed.
Print Assumptions C18_matrix.

(* a non-scalar where a scalar is required, a non-double or non-column array where a vector is required,
   a non-double array where a matrix is required: an error, not a value *)
Theorem C18_err_scalar : forall A (cast : Z -> A) a, is_scalar a = false -> unwrap_with cast a = MErr 1.
Proof. exact err_not_scalar. Qed.
Print Assumptions C18_err_scalar.
Theorem C18_err_vector : forall a, (mx_class a <> CDouble \/ mx_n a <> 1%nat) -> unwrap_vector a = MErr 4.
Proof. exact err_vector. Qed.
Print Assumptions C18_err_vector.
Theorem C18_err_matrix : forall a, mx_class a <> CDouble -> unwrap_matrix a = MErr 5.
Proof. exact err_matrix. Qed.
Print Assumptions C18_err_matrix.

(* handles: a proxy received for a C++ object designates that object at every inheritance level ... *)
Theorem C18_handle_same_object : forall classes h m cls o v, protocol classes ginit (h ++ [Receive m cls o v]) = true ->
  exists l, In (m, l) (g_mobjs (run classes (h ++ [Receive m cls o v]))) /\ l <> [] /\
    forall a, In a l -> exists c, In c (g_cells (run classes (h ++ [Receive m cls o v]))) /\ c_addr c = a /\ c_obj c = o.
Proof. exact receive_same_object. Qed.
Print Assumptions C18_handle_same_object.
(* ... and the object is alive exactly as long as some proxy holds a cell for it *)
Theorem C18_alive_iff_handle : forall classes h o, protocol classes ginit h = true ->
  (alive (run classes h) o = true <-> held (run classes h) o).
Proof. exact alive_iff_held. Qed.
Print Assumptions C18_alive_iff_handle.
